package main

// G5: forward must-lockset per function. Locks are identified by the name of
// the mutex field (path from the receiver), states none < R < W.

import (
	"strings"

	"golang.org/x/tools/go/ssa"
)

type lockState int

const (
	lockNone lockState = iota
	lockR
	lockW
)

func (s lockState) String() string {
	switch s {
	case lockR:
		return "read lock"
	case lockW:
		return "write lock"
	}
	return "no lock"
}

type lockset struct {
	f     *ssa.Function
	in    map[*ssa.BasicBlock]map[string]lockState
	entry map[string]lockState
	keys  map[string]bool
}

// mutexOp decodes a call on a mutex: returns the lock key and the operation
// ("Lock","RLock","Unlock","RUnlock","TryLock","TryRLock").
func mutexOp(cc *ssa.CallCommon) (key, op string, ok bool) {
	if cc.IsInvoke() {
		return "", "", false
	}
	n := calleeFull(cc)
	var m string
	for _, pre := range []string{"(*sync.RWMutex).", "(*sync.Mutex).", "(*github.com/sasha-s/go-deadlock.RWMutex).", "(*github.com/sasha-s/go-deadlock.Mutex)."} {
		if strings.HasPrefix(n, pre) {
			m = strings.TrimPrefix(n, pre)
		}
	}
	if m == "" || len(cc.Args) == 0 {
		return "", "", false
	}
	return lockKey(cc.Args[0]), m, true
}

// lockKey names the mutex by its field path, e.g. "mu" or "AbstractX.mu".
func lockKey(v ssa.Value) string {
	var parts []string
	for {
		switch x := v.(type) {
		case *ssa.FieldAddr:
			st := structOf(x.X.Type())
			if st != nil {
				parts = append([]string{st.Field(x.Field).Name()}, parts...)
			}
			v = x.X
			continue
		case *ssa.UnOp:
			v = x.X
			continue
		case *ssa.Global:
			parts = append([]string{x.Name()}, parts...)
		}
		break
	}
	if len(parts) == 0 {
		return "?"
	}
	return strings.Join(parts, ".")
}

func computeLockset(f *ssa.Function) *lockset {
	return computeLocksetFrom(f, nil)
}

func computeLocksetFrom(f *ssa.Function, entry map[string]lockState) *lockset {
	ls := &lockset{f: f, in: map[*ssa.BasicBlock]map[string]lockState{}, entry: entry, keys: map[string]bool{}}
	for k := range entry {
		ls.keys[k] = true
	}
	allInstrs(f, func(in ssa.Instruction) {
		if cc := callCommon(in); cc != nil {
			if k, _, ok := mutexOp(cc); ok {
				ls.keys[k] = true
			}
		}
	})
	if len(f.Blocks) == 0 {
		return ls
	}
	// optimistic initialisation: W everywhere except entry, then iterate down
	for _, b := range f.Blocks {
		m := map[string]lockState{}
		for k := range ls.keys {
			m[k] = lockW
		}
		ls.in[b] = m
	}
	e := map[string]lockState{}
	for k := range ls.keys {
		e[k] = entry[k]
	}
	ls.in[f.Blocks[0]] = e
	changed := true
	for changed {
		changed = false
		for _, b := range f.Blocks {
			out := ls.transfer(b, len(b.Instrs))
			for _, s := range b.Succs {
				if s == f.Blocks[0] {
					continue
				}
				for k, v := range out {
					if v < ls.in[s][k] {
						ls.in[s][k] = v
						changed = true
					}
				}
			}
		}
		// blocks with no predecessors other than entry (e.g. recover block) hold nothing
		for _, b := range f.Blocks[1:] {
			if len(b.Preds) == 0 {
				for k := range ls.keys {
					if ls.in[b][k] != lockNone {
						ls.in[b][k] = lockNone
						changed = true
					}
				}
			}
		}
	}
	return ls
}

// transfer returns the state after executing instructions [0,upto) of b.
func (ls *lockset) transfer(b *ssa.BasicBlock, upto int) map[string]lockState {
	cur := map[string]lockState{}
	for k, v := range ls.in[b] {
		cur[k] = v
	}
	for i := 0; i < upto && i < len(b.Instrs); i++ {
		call, ok := b.Instrs[i].(*ssa.Call)
		if !ok {
			continue
		}
		k, op, ok := mutexOp(&call.Call)
		if !ok {
			continue
		}
		switch op {
		case "Lock":
			cur[k] = lockW
		case "RLock":
			cur[k] = lockR
		case "Unlock", "RUnlock":
			cur[k] = lockNone
		}
	}
	return cur
}

// at returns the state of lock `key` just before instruction in executes.
func (ls *lockset) at(in ssa.Instruction, key string) lockState {
	b := in.Block()
	st := ls.transfer(b, instrIndex(in))
	if v, ok := st[key]; ok {
		return v
	}
	// try suffix match (embedded paths)
	for k, v := range st {
		if strings.HasSuffix(k, "."+key) || strings.HasSuffix(key, "."+k) {
			return v
		}
	}
	return lockNone
}

// anyHeld returns the strongest state among all locks at in, with its key.
func (ls *lockset) anyHeld(in ssa.Instruction) (string, lockState) {
	st := ls.transfer(in.Block(), instrIndex(in))
	bestK, best := "", lockNone
	for k, v := range st {
		if v > best {
			bestK, best = k, v
		}
	}
	return bestK, best
}
