package main

import (
	"go/token"
	"go/types"
	"sort"
	"strconv"
	"strings"

	"golang.org/x/tools/go/ssa"
)

func init() {
	register(&propCheck{
		id:              "C09",
		level:           "other",
		explanation:     "Static decision of the cancellation discipline, which is entirely shape. Scope X: the exported functions and methods of packages filesystem (except the lock file) and safeio that take a context and return an error. A gate on a context is parallelisation.DetermineContextError(c) / c.Err() whose failing side is an error exit, a call handing c to a function that is itself gate-first with its error leading to an error exit (or being returned), or a transfer whose stream operand is one of the contextual wrappers. (A1) entry: in every member of X no path from the entry reaches a mutating backend effect or a non-error return without passing a gate (argument-validation exits returning a fresh error are accepted); (A2) loops: in every function of these packages that carries a context, every cyclic path through a backend access passes a gate, loop combinators (Parallelise, walk callbacks) putting the obligation on the function passed; (A3) recursion: every call-graph cycle through context-carrying functions that touches the backend contains a gate-first function; (A4) in safeio, raw io.Reader/io.Writer parameters of context-accepting functions are used only through the contextual wrappers (or handed to functions checked the same way); (A5) ReadFileContent refuses with 'too large' before reading when limits apply and Stat succeeded, and bounds the read by the same maximum; (A6) no context.Background()/TODO() is created inside a context-carrying function outside deferred clean-up. Decided on SSA with a package effect summary and a gate-first fixpoint; nothing is executed. Not decided: exactness of prefixes (io.CopyN / io.LimitReader semantics, arbitrary reader/writer behaviour), error kinds of third-party readers, the number 'small' itself (it is the accesses of one loop-free iteration prefix).",
		run:             runC09,
		thoroughConfigs: []string{"darwin/amd64", "windows/amd64"},
		assumptions: []string{
			"contextio.NewReader/NewWriter test the context before every Read/Write (library contract)",
			"io.CopyN / io.LimitReader deliver exact prefixes",
		},
	})
}

type c09State struct {
	c         *Ctx
	eff       *effects
	gateFirst map[*ssa.Function]bool
	fns       []*ssa.Function // context-carrying functions of filesystem + safeio (outer)
	all       []*ssa.Function // incl. literals
}

func ctxParamOf(f *ssa.Function) *ssa.Parameter {
	for _, p := range f.Params {
		if p.Type().String() == "context.Context" {
			return p
		}
	}
	return nil
}

// ctxDerived: v derives from a context parameter / captured context of f.
func ctxDerived(v ssa.Value) bool {
	for _, l := range sources(v, deriveOpts{through: func(n string) bool { return strings.HasPrefix(n, "context.With") }}) {
		r := resolveValue(l)
		if p, ok := r.(*ssa.Parameter); ok && p.Type().String() == "context.Context" {
			return true
		}
	}
	return false
}

func (s *c09State) calleeOf(in ssa.Instruction) *ssa.Function {
	cc := callCommon(in)
	if cc == nil {
		return nil
	}
	if g := staticCallee(cc); g != nil {
		return g
	}
	if g := s.eff.calleeOf(in); g != nil {
		return g
	}
	if cc.IsInvoke() && cc.Method.Pkg() != nil && strings.HasPrefix(cc.Method.Pkg().Path(), modPath) {
		// interface of this module with a single implementation
		var impl []*ssa.Function
		for _, g := range s.c.implementations(cc.Method) {
			if g.Pkg != nil && !strings.Contains(g.Pkg.Pkg.Path(), "/mocks") {
				impl = append(impl, g)
			}
		}
		if len(impl) == 1 {
			return impl[0]
		}
	}
	return nil
}

// isGate: instruction is a gate on a context derived from the function's own.
func (s *c09State) isGate(in ssa.Instruction) bool {
	cl, ok := in.(*ssa.Call)
	if !ok {
		return false
	}
	n := calleeFull(&cl.Call)
	switch {
	case n == modPath+"/parallelisation.DetermineContextError":
		return ctxDerived(cl.Call.Args[0]) && s.resultHeeded(cl)
	case cl.Call.IsInvoke() && cl.Call.Method.Name() == "Err" && cl.Call.Value.Type().String() == "context.Context":
		return ctxDerived(cl.Call.Value) && s.resultHeeded(cl)
	}
	// transfer through a contextual wrapper
	if n == "io.Copy" || n == "io.CopyN" || n == "io.WriteString" || n == "io.ReadAll" || (cl.Call.IsInvoke() && cl.Call.Method.Name() == "ReadFrom") {
		for _, a := range append([]ssa.Value{cl.Call.Value}, cl.Call.Args...) {
			if a != nil && isContextualWrapper(a) {
				return true
			}
		}
	}
	// call handing a gate-first function literal to a function that returns what the literal returns
	if s.callbackGate(cl) {
		return true
	}
	// call handing the context to a gate-first function
	g := s.calleeOf(in)
	if g == nil || !s.gateFirst[g] {
		return false
	}
	passes := false
	for _, a := range cl.Call.Args {
		if a.Type().String() == "context.Context" && ctxDerived(a) {
			passes = true
		}
	}
	if !passes {
		return false
	}
	return s.resultHeeded(cl)
}

// callbackGate: cl passes, as argument i, a function literal that captures the
// context and consults it before returning successfully, to a module function
// every successful return of which yields the result of calling parameter i.
func (s *c09State) callbackGate(cl *ssa.Call, strict ...bool) bool {
	g := staticCallee(&cl.Call)
	if g == nil || !inModule(g) || g.Blocks == nil {
		return false
	}
	for i, a := range cl.Call.Args {
		mc, ok := stripConv(a).(*ssa.MakeClosure)
		if !ok {
			continue
		}
		lit := mc.Fn.(*ssa.Function)
		capturesCtx := false
		for _, b := range mc.Bindings {
			if ctxDerived(b) || strings.Contains(b.Type().String(), "context.Context") {
				capturesCtx = true
			}
		}
		if !capturesCtx {
			continue
		}
		if bad, _ := s.entryViolation(lit); bad != nil {
			continue
		}
		// in g: every non-error return derives from a call of parameter i
		okAll, n := true, 0
		allInstrs(g, func(in ssa.Instruction) {
			r, isRet := in.(*ssa.Return)
			if !isRet || len(r.Results) == 0 || isErrorExit(g, r) {
				return
			}
			n++
			found := false
			for _, l := range sources(r.Results[len(r.Results)-1], deriveOpts{}) {
				var c2 *ssa.Call
				switch x := l.(type) {
				case *ssa.Call:
					c2 = x
				case *ssa.Extract:
					c2, _ = x.Tuple.(*ssa.Call)
				}
				if c2 != nil && !c2.Call.IsInvoke() && i < len(g.Params) && resolveValue(c2.Call.Value) == ssa.Value(g.Params[i]) {
					found = true
				}
			}
			if !found {
				okAll = false
			}
		})
		if okAll && n > 0 && len(strict) > 0 && strict[0] {
			// for the kind reported with a done context: g makes no return of its own — an error it decides itself — before it
			// has called the literal (which consults the context first)
			pi := i
			callsParam := func(in ssa.Instruction) bool {
				c2, ok := in.(*ssa.Call)
				return ok && !c2.Call.IsInvoke() && pi < len(g.Params) && resolveValue(c2.Call.Value) == ssa.Value(g.Params[pi])
			}
			if pathPruned(g, nil, callsParam, func(in ssa.Instruction) bool { _, isRet := in.(*ssa.Return); return isRet }, nil) != nil {
				okAll = false
			}
		}
		if okAll && n > 0 && s.resultHeeded(cl) {
			return true
		}
	}
	return false
}

// isGateStrict is isGate for the rule about the *kind* reported (A12): a callee that is handed a gate-first literal counts
// only if it cannot fail by itself before it calls the literal.
func (s *c09State) isGateStrict(in ssa.Instruction) bool {
	cl, ok := in.(*ssa.Call)
	if !ok {
		return false
	}
	if s.callbackGate(cl) && !s.callbackGate(cl, true) {
		return false
	}
	return s.isGate(in)
}

func isContextualWrapper(v ssa.Value) bool {
	for _, l := range sources(v, deriveOpts{}) {
		if cl, ok := l.(*ssa.Call); ok {
			n := calleeFull(&cl.Call)
			if strings.HasSuffix(n, "safeio.NewContextualReader") || strings.HasSuffix(n, "safeio.ContextualWriter") || strings.HasSuffix(n, "safeio.NewContextualReaderFrom") ||
				strings.HasSuffix(n, "contextio.NewReader") || strings.HasSuffix(n, "contextio.NewWriter") {
				return true
			}
		}
	}
	return false
}

// resultHeeded: the error result of the gate is tested with its non-nil side
// leading to error exits only (no mutation on the way), or is returned.
func (s *c09State) resultHeeded(cl *ssa.Call) bool {
	errs := errResultsOf(cl)
	if len(errs) == 0 {
		return false
	}
	f := cl.Parent()
	e := errs[0]
	// returned directly (tail position)?
	for _, b := range f.Blocks {
		if b == f.Recover {
			continue
		}
		if r, ok := b.Instrs[len(b.Instrs)-1].(*ssa.Return); ok && len(r.Results) > 0 {
			last := r.Results[len(r.Results)-1]
			if isErrorType(last.Type()) {
				for _, l := range sources(last, deriveOpts{through: func(n string) bool {
					return strings.HasSuffix(n, "ConvertFileSystemError") || strings.HasSuffix(n, "ConvertIOError") || strings.HasSuffix(n, "ConvertContextError") || strings.HasSuffix(n, "convertZipError")
				}}) {
					if l == e && dominates(cl, r) {
						return true
					}
				}
			}
		}
		ifi, ok := b.Instrs[len(b.Instrs)-1].(*ssa.If)
		if !ok {
			continue
		}
		x, nilSucc, ok := nilTest(ifi)
		if !ok || !(sameValue(x, e) || derivesOnly(x, e)) {
			continue
		}
		// the non-nil side: every path reaches a return without a mutating effect
		bad := false
		seen := map[*ssa.BasicBlock]bool{}
		var walk func(bb *ssa.BasicBlock)
		walk = func(bb *ssa.BasicBlock) {
			if seen[bb] || bad {
				return
			}
			seen[bb] = true
			for _, in := range bb.Instrs {
				if s.eff.isMutatingInstr(in) {
					bad = true
					return
				}
			}
			if _, isRet := bb.Instrs[len(bb.Instrs)-1].(*ssa.Return); isRet {
				return
			}
			for _, sc := range bb.Succs {
				walk(sc)
			}
		}
		walk(b.Succs[1-nilSucc])
		if !bad {
			return true
		}
	}
	return false
}

// derivesOnly: x is computed from e alone through error converters.
func derivesOnly(x, e ssa.Value) bool {
	ls := sources(x, deriveOpts{through: func(n string) bool {
		return strings.Contains(n, "Convert") || strings.Contains(n, "convert")
	}})
	return len(ls) == 1 && ls[0] == e
}

func runC09(c *Ctx) {
	c.statSizeNeverMeansEmpty()
	c.rule("A1", "entry gate: no mutating effect and no non-error return before the context has been consulted", 45)
	c.rule("A2", "loops: every cyclic path through a backend access passes a gate; function literals handed to loop combinators are gate-first", 8)
	c.rule("A3", "recursion: every call-graph cycle that touches the backend contains a gate-first function", 4)
	c.rule("A4", "safeio: raw stream parameters are used only through the contextual wrappers", 5)
	c.rule("A5", "ReadFileContent: 'too large' refusal precedes the read when limits apply and Stat succeeded; the read is bounded by the same maximum", 1)
	c.rule("A7", "after a context-carrying step has failed, no further mutating effect happens unless the failure was first found not to be a cancellation/timeout, or the context is consulted again", 1)
	c.rule("A8", "a copy of n bytes: the count n reaches io.CopyN (which reports a short source as EOF), or the number of bytes transferred is compared with n before success is reported", 1)
	c.rule("A11", "ReadFileContent: the 'too large' refusal is also decided on what was actually read (the size Stat() reports cannot always be trusted)", 1)
	c.rule("A14", "a return reached only on the failing side of a test of a callee's error (the context gate in particular) does not report success", 100)
	c.rule("A13", "ReadAtMost: the requested maximum becomes the capacity reserved upfront only where it was found to be at most a constant bound", 1)
	c.rule("A12", "entry gate, kinds: no error other than that of a closed resource is returned before the context has been consulted", 45)
	c.rule("A9", "a bounded read: the raw source is read only through io.LimitReader(src, max), except on the side of the branch where max is negative (no bound requested)", 1)
	c.rule("A10", "in the context-carrying functions of package filesystem no byte is moved by a direct Read/Write on a handle or by a bare io.Copy/io.ReadAll: transfers go through the safeio helpers or a contextual wrapper", 3)
	c.rule("A6", "no context.Background()/TODO() inside a context-carrying function outside deferred clean-up", 60)

	s := &c09State{c: c, eff: c.computeEffects(), gateFirst: map[*ssa.Function]bool{}}
	for _, rel := range []string{fsPkgRel, "safeio", "hashing"} {
		for _, f := range c.srcFuncs(rel) {
			s.all = append(s.all, f)
			if f.Parent() == nil && ctxParamOf(f) != nil {
				s.fns = append(s.fns, f)
			}
		}
	}
	// effect summary only knows package filesystem; safeio transfers are backend-free
	// gate-first fixpoint: optimistic start, iterate down
	for _, f := range s.fns {
		s.gateFirst[f] = true
	}
	for changed := true; changed; {
		changed = false
		for _, f := range s.fns {
			if !s.gateFirst[f] {
				continue
			}
			if bad, _ := s.entryViolation(f); bad != nil {
				s.gateFirst[f] = false
				changed = true
			}
		}
	}

	// ---- A1 -----------------------------------------------------------------
	nX := 0
	for _, f := range s.fns {
		if f.Object() == nil || !f.Object().Exported() || !(inPkg(fsPkgRel)(f) || inPkg("safeio")(f)) {
			continue
		}
		res := f.Signature.Results()
		if res.Len() == 0 || !isErrorType(res.At(res.Len()-1).Type()) {
			continue
		}
		if strings.HasSuffix(c.Fset.Position(f.Pos()).Filename, "lockfile.go") {
			continue
		}
		nX++
		c.FuncsSeen[fname(f)] = true
		key := fname(f)
		if bad, what := s.entryViolation(f); bad != nil {
			c.violate("A1", key, c.ipos(bad), what+" can be reached from the entry of "+f.Name()+" before its context has been consulted: with a context that is already done the call still changes something, or reports success")
		} else {
			c.ok("A1", key, c.pos(f.Pos()), "context consulted before any mutating effect or successful return")
		}
	}
	c.Extra["scope_X"] = nX

	// ---- A14 ----------------------------------------------------------------
	// "…fails with the 'cancelled' or 'timeout' kind": where a function found the error of a context gate (or of any callee)
	// non-nil, the return it then takes carries an error — a failing side that returns the function's own, still nil,
	// error variable (`err` for `subErr`) stops the work and reports success.
	for _, f := range s.fns {
		if !(inPkg(fsPkgRel)(f) || inPkg("safeio")(f)) || strings.HasSuffix(c.Fset.Position(f.Pos()).Filename, "lockfile.go") {
			continue
		}
		c.errDropRule("A14", f)
	}
	// A17: the same functions never assign an error to a variable that nothing reads (a shadow, a value overwritten by the
	// next step): that is how a 'cancelled' met by one step turns into the success of the following one
	c.rule("A17", "in the context-carrying functions of filesystem and safeio an error assigned to a variable is read before the variable is overwritten or goes out of scope", 100)
	for _, f := range s.all {
		if !(inPkg(fsPkgRel)(f) || inPkg("safeio")(f)) || strings.HasSuffix(c.Fset.Position(f.Pos()).Filename, "lockfile.go") {
			continue
		}
		c.errOverwrittenRule("A17", f)
	}

	// ---- A15 / A16 ----------------------------------------------------------
	s.contextErrorsTravel()

	// ---- A18 ----------------------------------------------------------------
	s.contextKindsTogether()

	// ---- A20 ----------------------------------------------------------------
	c.rule("A20", "a copy of n bytes transfers at most n for every n, negative ones included: safeio.CopyNWithContext copies through io.CopyN with the count given on every path", 1)
	c.copyNBounded("A20")
	c.c09DeferredCleanupKeepsTheError()
	c.c09ContextualAdaptersConvert()
	c.c09NoDetourAroundTheContext()
	// A23: "end-of-stream conditions being reported as the 'EOF' kind" — also when the reader wrapped them
	c.rule("A23", "no converter of the module compares an error with a sentinel by identity: an end-of-stream that reaches ConvertIOError wrapped is still reported as the 'EOF' kind (the obligation C11/D16)", 5)
	c.c11ConvertersWrapTheKind("A23", "")

	// ---- A19 ----------------------------------------------------------------
	c.rule("A19", "the kind of the end of a context is read from ctx.Err(), never from context.Cause, anywhere in the module", 0)
	{
		var rels []string
		for _, sp := range c.SSAPkgs {
			if strings.HasPrefix(sp.Pkg.Path(), modPath) && !strings.Contains(sp.Pkg.Path(), "/mocks") {
				rels = append(rels, shortPkg(sp.Pkg.Path()))
			}
		}
		sort.Strings(rels)
		c.noContextCause("A19", rels)
	}

	// ---- A12 ----------------------------------------------------------------
	// "fails with the 'cancelled' or 'timeout' kind when its context is already done at the call": no other failure is
	// reported before the context has been consulted (a closed resource excepted: nothing at all is served then).
	for _, f := range s.fns {
		if f.Object() == nil || !f.Object().Exported() || !(inPkg(fsPkgRel)(f) || inPkg("safeio")(f)) {
			continue
		}
		res := f.Signature.Results()
		if res.Len() == 0 || !isErrorType(res.At(res.Len()-1).Type()) {
			continue
		}
		if strings.HasSuffix(c.Fset.Position(f.Pos()).Filename, "lockfile.go") {
			continue
		}
		isClosedCheck := func(v ssa.Value) bool {
			for _, l := range sources(v, deriveOpts{}) {
				if cl, ok := l.(*ssa.Call); ok && strings.HasSuffix(calleeFull(&cl.Call), "checkWhetherUnderlyingResourceIsClosed") {
					return true
				}
			}
			return false
		}
		target := func(in ssa.Instruction) bool {
			r, ok := in.(*ssa.Return)
			if !ok || len(r.Results) == 0 || !isErrorExit(f, r) {
				return false
			}
			// the error of the closed-resource check
			if isClosedCheck(r.Results[len(r.Results)-1]) {
				only := true
				for _, l := range sources(r.Results[len(r.Results)-1], deriveOpts{}) {
					if cl, ok := l.(*ssa.Call); !ok || !strings.HasSuffix(calleeFull(&cl.Call), "checkWhetherUnderlyingResourceIsClosed") {
						if !isNilConst(l) {
							only = false
						}
					}
				}
				if only {
					return false
				}
			}
			return true
		}
		// a helper that is handed a literal which consults the context, but can fail by itself before it calls the literal
		// (it looks at the path first): the context-taking function consults its context itself before that call
		allInstrs(f, func(in ssa.Instruction) {
			cl, ok := in.(*ssa.Call)
			if !ok || !s.callbackGate(cl) || s.callbackGate(cl, true) {
				return
			}
			direct := false
			allInstrs(f, func(j ssa.Instruction) {
				g, ok := j.(*ssa.Call)
				if !ok || g == cl {
					return
				}
				n := calleeFull(&g.Call)
				isDirect := n == modPath+"/parallelisation.DetermineContextError" || (g.Call.IsInvoke() && g.Call.Method.Name() == "Err" && g.Call.Value.Type().String() == "context.Context")
				if isDirect && s.isGate(g) && dominates(g, cl) {
					direct = true
				}
			})
			c.check(direct, "A12", fname(f)+"/kind-when-done:before-"+staticCallee(&cl.Call).Name(), c.ipos(cl), "the context is consulted before the helper that may fail by itself is called",
				staticCallee(&cl.Call).Name()+" is handed a function that consults the context, but it can fail by itself before it calls it (it examines the path first): with a context that is already done "+f.Name()+" answers with that failure ('invalid: not a file', 'not found') instead of 'cancelled' / 'timeout', after backend operations have been made")
		})
		key := fname(f) + "/kind-when-done"
		if bad := pathPruned(f, nil, s.isGateStrict, target, nil); bad != nil {
			c.violate("A12", key, c.ipos(bad), "this error return can be reached from the entry of "+f.Name()+" before its context has been consulted: with a context that is already done the call fails with another kind than 'cancelled' / 'timeout'")
		} else {
			c.ok("A12", key, c.pos(f.Pos()), "no failure other than a closed resource is reported before the context has been consulted")
		}
	}

	s.afterFailure()
	s.loops()
	s.recursion()
	s.streams()
	s.sizeRefusal()
	s.freshContexts()
	s.exactN()
	s.boundedRead()
	s.boundedReservation()
	s.rawTransfers()
}

// entryViolation: first mutating effect or non-error return reachable from the
// entry of f without passing a gate.
func (s *c09State) entryViolation(f *ssa.Function) (ssa.Instruction, string) {
	what := ""
	target := func(in ssa.Instruction) bool {
		if s.eff.isMutatingInstr(in) && !s.isGate(in) {
			what = "the mutating call " + short(calleeNameOf(in))
			return true
		}
		if r, ok := in.(*ssa.Return); ok {
			if len(r.Results) == 0 {
				return false
			}
			if !isErrorType(r.Results[len(r.Results)-1].Type()) {
				return false
			}
			if isErrorExit(f, r) {
				return false
			}
			what = "a successful return"
			return true
		}
		return false
	}
	bad := pathPruned(f, nil, s.isGate, target, nil)
	return bad, what
}

func calleeNameOf(in ssa.Instruction) string {
	if cc := callCommon(in); cc != nil {
		if n := calleeFull(cc); n != "" {
			return n
		}
	}
	return in.String()
}

// ---- A2 ---------------------------------------------------------------------

func (s *c09State) loops() {
	c := s.c
	for _, f := range s.all {
		outer := outermost(f)
		if ctxParamOf(outer) == nil || !inPkg(fsPkgRel)(f) {
			continue
		}
		// natural loops of f
		for _, h := range f.Blocks {
			body := map[*ssa.BasicBlock]bool{}
			var stack []*ssa.BasicBlock
			for _, p := range h.Preds {
				if h.Dominates(p) {
					if !body[p] {
						body[p] = true
						stack = append(stack, p)
					}
				}
			}
			if len(stack) == 0 {
				continue
			}
			body[h] = true
			for len(stack) > 0 {
				x := stack[len(stack)-1]
				stack = stack[:len(stack)-1]
				if x == h {
					continue
				}
				for _, q := range x.Preds {
					if !body[q] {
						body[q] = true
						stack = append(stack, q)
					}
				}
			}
			// accesses in the body
			var accesses []ssa.Instruction
			gatedOnly := 0
			for b := range body {
				for _, in := range b.Instrs {
					if s.eff.isAccessInstr(in) {
						if s.isGate(in) {
							gatedOnly++
						} else {
							accesses = append(accesses, in)
						}
					}
				}
			}
			if len(accesses) == 0 {
				if gatedOnly > 0 {
					c.ok("A2", fname(outer)+"/loop", c.ipos(h.Instrs[0]), "the only backend accesses of the loop are calls of gate-first functions")
				}
				continue
			}
			sort.Slice(accesses, func(i, j int) bool { return accesses[i].Pos() < accesses[j].Pos() })
			key := fname(outer) + "/loop"
			var bad ssa.Instruction
			for _, a := range accesses {
				// a cycle from a back to a inside the loop without a gate
				esc := pathPruned(f, a, s.isGate, func(in ssa.Instruction) bool { return in == a }, func(b *ssa.BasicBlock, k int) bool {
					return !body[b.Succs[k]]
				})
				if esc != nil {
					bad = a
					break
				}
			}
			if bad != nil {
				c.violate("A2", key, c.ipos(bad), "this backend access ("+short(calleeNameOf(bad))+") lies on a cycle of the loop at "+c.ipos(h.Instrs[0])+" that never consults the context: after cancellation the loop keeps going for as many entries as remain")
			} else {
				c.ok("A2", key, c.ipos(h.Instrs[0]), "every way round the loop passes a gate")
			}
		}
		// loop combinators: Parallelise(list, literal, …)
		allInstrs(f, func(in ssa.Instruction) {
			cl, ok := in.(*ssa.Call)
			if !ok || !strings.HasSuffix(calleeFull(&cl.Call), "parallelisation.Parallelise") {
				return
			}
			mc, ok := stripConv(cl.Call.Args[1]).(*ssa.MakeClosure)
			key := fname(outer) + "/parallelise"
			if !ok {
				c.undecided("A2", key, c.ipos(cl), "the function handed to Parallelise cannot be resolved")
				return
			}
			lit := mc.Fn.(*ssa.Function)
			bad, what := s.entryViolationLit(lit)
			c.check(bad == nil, "A2", key, c.ipos(cl), "the function run per element consults the context before touching the backend",
				what+" in the function run per element happens without consulting the context")
		})
	}
}

func (s *c09State) entryViolationLit(lit *ssa.Function) (ssa.Instruction, string) {
	what := ""
	bad := pathPruned(lit, nil, s.isGate, func(in ssa.Instruction) bool {
		if s.eff.isAccessInstr(in) && !s.isGate(in) {
			what = "the backend access " + short(calleeNameOf(in))
			return true
		}
		return false
	}, nil)
	return bad, what
}

// ---- A3 ---------------------------------------------------------------------

func (s *c09State) recursion() {
	c := s.c
	// graph over context-carrying outer functions of package filesystem
	idx := map[*ssa.Function]int{}
	var nodes []*ssa.Function
	for _, f := range s.fns {
		if inPkg(fsPkgRel)(f) {
			idx[f] = len(nodes)
			nodes = append(nodes, f)
		}
	}
	succ := make([][]int, len(nodes))
	for i, f := range nodes {
		seen := map[int]bool{}
		withAnon(f, func(h *ssa.Function) {
			allInstrs(h, func(in ssa.Instruction) {
				if g := s.calleeOf(in); g != nil {
					if g != f && outermost(g) == f {
						return // a literal of f itself
					}
					if j, ok := idx[outermost(g)]; ok && !seen[j] {
						seen[j] = true
						succ[i] = append(succ[i], j)
					}
				}
			})
		})
	}
	// Tarjan SCC
	index, low := make([]int, len(nodes)), make([]int, len(nodes))
	on := make([]bool, len(nodes))
	for i := range index {
		index[i] = -1
	}
	var st []int
	n := 0
	var sccs [][]int
	var strong func(v int)
	strong = func(v int) {
		index[v], low[v] = n, n
		n++
		st = append(st, v)
		on[v] = true
		for _, w := range succ[v] {
			if index[w] < 0 {
				strong(w)
				if low[w] < low[v] {
					low[v] = low[w]
				}
			} else if on[w] && index[w] < low[v] {
				low[v] = index[w]
			}
		}
		if low[v] == index[v] {
			var comp []int
			for {
				w := st[len(st)-1]
				st = st[:len(st)-1]
				on[w] = false
				comp = append(comp, w)
				if w == v {
					break
				}
			}
			sccs = append(sccs, comp)
		}
	}
	for v := range nodes {
		if index[v] < 0 {
			strong(v)
		}
	}
	for _, comp := range sccs {
		self := len(comp) == 1 && func() bool {
			for _, w := range succ[comp[0]] {
				if w == comp[0] {
					return true
				}
			}
			return false
		}()
		if len(comp) < 2 && !self {
			continue
		}
		touches := false
		var names []string
		for _, v := range comp {
			if s.eff.accesses[nodes[v]] {
				touches = true
			}
			names = append(names, nodes[v].Name())
		}
		if !touches {
			continue
		}
		sort.Strings(names)
		// remove gate-first members; the rest must be acyclic
		in := map[int]bool{}
		for _, v := range comp {
			if !s.gateFirst[nodes[v]] {
				in[v] = true
			}
		}
		cyc := ""
		color := map[int]int{}
		var dfs func(v int) bool
		dfs = func(v int) bool {
			color[v] = 1
			for _, w := range succ[v] {
				if !in[w] {
					continue
				}
				if color[w] == 1 {
					cyc = nodes[v].Name() + " → " + nodes[w].Name()
					return true
				}
				if color[w] == 0 && dfs(w) {
					return true
				}
			}
			color[v] = 2
			return false
		}
		for v := range in {
			if color[v] == 0 && dfs(v) {
				break
			}
		}
		key := "cycle:" + strings.Join(names, "+")
		c.check(cyc == "", "A3", key, c.pos(nodes[comp[0]].Pos()), "every cycle passes a gate-first function", "the recursion "+cyc+" can go round without any of its functions consulting the context before touching the backend")
	}
}

// ---- A4 ---------------------------------------------------------------------

func (s *c09State) streams() {
	c := s.c
	isStream := func(t types.Type) bool {
		n := t.String()
		return n == "io.Reader" || n == "io.Writer" || n == "io.ReaderFrom" || n == "io.ReadCloser" || n == "io.WriteCloser"
	}
	okCallee := func(n string) bool {
		return strings.HasSuffix(n, "safeio.NewContextualReader") || strings.HasSuffix(n, "safeio.ContextualWriter") || strings.HasSuffix(n, "safeio.NewContextualReaderFrom") ||
			strings.HasSuffix(n, "contextio.NewReader") || strings.HasSuffix(n, "contextio.NewWriter") || n == "io.LimitReader"
	}
	for _, f := range c.srcFuncs("safeio") {
		if f.Parent() != nil || ctxParamOf(f) == nil {
			continue
		}
		for _, p := range f.Params {
			if !isStream(p.Type()) {
				continue
			}
			c.FuncsSeen[fname(f)] = true
			key := fname(f) + "/" + p.Name()
			bad := ""
			var check func(v ssa.Value, depth int)
			check = func(v ssa.Value, depth int) {
				if depth > 6 || v.Referrers() == nil {
					return
				}
				for _, r := range *v.Referrers() {
					switch x := r.(type) {
					case *ssa.Call:
						n := calleeFull(&x.Call)
						if x.Call.IsInvoke() && x.Call.Value == v {
							bad = c.ipos(x) + ": direct " + x.Call.Method.Name() + "() on the raw stream"
							continue
						}
						if okCallee(n) {
							if n == "io.LimitReader" {
								check(x, depth+1)
							}
							continue
						}
						// handed to another context-accepting safeio function together with a context
						if g := staticCallee(&x.Call); g != nil && inPkg("safeio")(g) && ctxParamOf(g) != nil {
							continue
						}
						bad = c.ipos(x) + ": raw stream handed to " + short(n)
					case *ssa.Phi, *ssa.ChangeInterface, *ssa.MakeInterface, *ssa.ChangeType:
						check(x.(ssa.Value), depth+1)
					case *ssa.Store:
						if a, ok := x.Addr.(*ssa.Alloc); ok {
							for _, rr := range *a.Referrers() {
								if ld, ok := rr.(*ssa.UnOp); ok && ld.Op == token.MUL {
									check(ld, depth+1)
								}
							}
						}
					case *ssa.BinOp, *ssa.If, *ssa.DebugRef:
					case *ssa.MakeClosure:
						// captured by a literal: the literal's uses
						if g, ok := x.Fn.(*ssa.Function); ok {
							for i, b := range x.Bindings {
								if b == v && i < len(g.FreeVars) {
									check(g.FreeVars[i], depth+1)
								}
							}
						}
					default:
						bad = c.ipos(r) + ": " + r.String()
					}
				}
			}
			check(p, 0)
			c.check(bad == "", "A4", key, c.pos(f.Pos()), "used only through the contextual wrappers", "the raw stream parameter escapes the contextual wrappers ("+bad+"): reads/writes on it are not stopped by the context")
		}
	}
}

// ---- A5 ---------------------------------------------------------------------

func (s *c09State) sizeRefusal() {
	c := s.c
	f := c.fn(fsPkgRel, "(*VFS).ReadFileContent")
	if f == nil {
		return
	}
	c.FuncsSeen[fname(f)] = true
	var read *ssa.Call
	allInstrs(f, func(in ssa.Instruction) {
		if cl, ok := in.(*ssa.Call); ok && strings.HasSuffix(calleeFull(&cl.Call), "safeio.ReadAtMost") {
			read = cl
		}
	})
	key := fname(f) + "/refusal"
	if read == nil {
		c.violate("A5", key, c.pos(f.Pos()), "ReadFileContent no longer reads through safeio.ReadAtMost: the read is not bounded")
		return
	}
	// comparison size > max where max derives from GetMaxFileSize()
	isMax := func(v ssa.Value) bool {
		for _, l := range sources(v, deriveOpts{}) {
			if isLimitsGetter(l, "GetMaxFileSize") {
				return true
			}
		}
		return false
	}
	var cmp, post *ssa.If
	exceeded, postExceeded := 0, 0
	postAgainstBound := ""
	isStatSize := func(v ssa.Value) bool {
		for _, l := range sources(v, deriveOpts{}) {
			if cl, ok := l.(*ssa.Call); ok && cl.Call.IsInvoke() && cl.Call.Method.Name() == "Size" {
				return true
			}
		}
		return false
	}
	isReadLen := func(v ssa.Value) bool {
		for _, l := range sources(v, deriveOpts{through: func(n string) bool { return n == "builtin.len" }}) {
			if ex, ok := l.(*ssa.Extract); ok && read != nil && ex.Tuple == ssa.Value(read) && ex.Index == 0 {
				return true
			}
		}
		return false
	}
	for _, b := range f.Blocks {
		ifi, ok := b.Instrs[len(b.Instrs)-1].(*ssa.If)
		if !ok {
			continue
		}
		v, ts := boolTest(ifi)
		bo, ok := v.(*ssa.BinOp)
		if !ok {
			continue
		}
		var other ssa.Value
		if (bo.Op == token.GTR || bo.Op == token.GEQ) && isMax(bo.Y) {
			other = bo.X
		}
		if (bo.Op == token.LSS || bo.Op == token.LEQ) && isMax(bo.X) {
			other = bo.Y
		}
		if other == nil {
			continue
		}
		switch {
		case isStatSize(other):
			cmp, exceeded = ifi, ts
		case isReadLen(other):
			// the length read is compared with the maximum itself — not with the (larger) bound the read was given, which
			// the length can never exceed
			limit := bo.Y
			if other == bo.Y {
				limit = bo.X
			}
			if !c09ThroughArithmetic(limit) {
				post, postExceeded = ifi, ts
			} else {
				postAgainstBound = c.ipos(ifi)
			}
		}
	}
	if cmp == nil {
		c.violate("A5", key, c.ipos(read), "no comparison of the file size with limits.GetMaxFileSize() precedes the read: a file larger than the limit is read (up to the limit) instead of being refused")
		return
	}
	// pruned graph: limits apply, Stat succeeded
	statOK := func(v ssa.Value) bool {
		b, ok := v.(*ssa.BinOp)
		if !ok || b.Op != token.EQL || !(isNilConst(b.X) || isNilConst(b.Y)) {
			return false
		}
		return true
	}
	prune := func(b *ssa.BasicBlock, k int) bool {
		ifi, ok := b.Instrs[len(b.Instrs)-1].(*ssa.If)
		if !ok {
			return false
		}
		v, ts := boolTest(ifi)
		if isLimitsGetter(v, "Apply") {
			return k != ts
		}
		if statOK(v) {
			// `err == nil` after Stat
			bo := v.(*ssa.BinOp)
			x := bo.X
			if isNilConst(x) {
				x = bo.Y
			}
			for _, l := range sources(x, deriveOpts{}) {
				if ex, ok := l.(*ssa.Extract); ok {
					if cl, ok := ex.Tuple.(*ssa.Call); ok && cl.Call.IsInvoke() && cl.Call.Method.Name() == "Stat" {
						return k != ts
					}
				}
			}
		}
		return false
	}
	esc := pathPruned(f, nil, func(in ssa.Instruction) bool { return in == ssa.Instruction(cmp) }, func(in ssa.Instruction) bool { return in == ssa.Instruction(read) }, prune)
	good := esc == nil
	why := "with limits applied and Stat successful the read can be reached without the size comparison"
	if good {
		if ok, w := c.errorKindOnEdge(f, cmp.Block().Succs[exceeded], "ErrTooLarge"); !ok {
			good, why = false, w
		}
	}
	if good && !isMax(read.Call.Args[2]) {
		good, why = false, "the bound handed to ReadAtMost is not limits.GetMaxFileSize()"
	}
	c.check(good, "A5", key, c.ipos(read), "size compared with GetMaxFileSize() ('too large') before a read bounded by the same value", why)
	// A11: Stat() does not know the size of everything (pseudo files, devices, files being appended to): whether the source
	// was bigger than allowed is also decided on what was actually read — the read asks for more than the maximum (a bound
	// computed from it, not the maximum itself) and a content longer than the maximum is refused.
	key11 := fname(f) + "/refusal-on-what-was-read"
	good11, why11 := true, ""
	switch {
	case post == nil && postAgainstBound != "":
		good11, why11 = false, "the length of what was read is compared ("+postAgainstBound+") with the bound the read was given (the maximum plus something), which it can never exceed — not with the maximum: the refusal on what was read is dead code, and a file whose size Stat() under-reports yields its first bytes and a nil error"
	case post == nil:
		good11, why11 = false, "the length of what was read is never compared with limits.GetMaxFileSize(): when Stat() under-reports the size (/proc files, devices, a file being appended to) a source bigger than the limit yields its first bytes and a nil error instead of 'too large'"
	case resolveValue(read.Call.Args[2]) == resolveValue(maxValueOf(f, isMax)):
		good11, why11 = false, "the read is bounded by the maximum itself: a source of exactly the maximum size and a bigger one read the same, so the comparison after the read can never refuse"
	default:
		if ok, w := c.errorKindOnEdge(f, post.Block().Succs[postExceeded], "ErrTooLarge"); !ok {
			good11, why11 = false, w
		}
	}
	c.check(good11, "A11", key11, c.ipos(read), "a content longer than GetMaxFileSize() is refused ('too large') after a read that asks for more than the maximum", why11)
}

// maxValueOf: the value holding limits.GetMaxFileSize() as merged with the "no limit" default (the phi or the call).
func maxValueOf(f *ssa.Function, isMax func(ssa.Value) bool) ssa.Value {
	var out ssa.Value
	allInstrs(f, func(in ssa.Instruction) {
		if ph, ok := in.(*ssa.Phi); ok && isMax(ph) && out == nil {
			out = ph
		}
	})
	return out
}

// ---- A6 ---------------------------------------------------------------------

func (s *c09State) freshContexts() {
	c := s.c
	for _, f := range s.fns {
		if strings.HasSuffix(c.Fset.Position(f.Pos()).Filename, "lockfile.go") || !(inPkg(fsPkgRel)(f) || inPkg("safeio")(f)) {
			continue
		}
		bad := ""
		withAnon(f, func(h *ssa.Function) {
			// deferred clean-up literals are allowed to use a fresh context
			deferred := false
			if h.Parent() != nil {
				allInstrs(h.Parent(), func(in ssa.Instruction) {
					if d, ok := in.(*ssa.Defer); ok && staticCallee(&d.Call) == h {
						deferred = true
					}
				})
			}
			if deferred {
				return
			}
			allInstrs(h, func(in ssa.Instruction) {
				if cl, ok := in.(*ssa.Call); ok {
					n := calleeFull(&cl.Call)
					if n == "context.Background" || n == "context.TODO" {
						bad = c.ipos(cl)
					}
				}
			})
		})
		c.check(bad == "", "A6", fname(f), c.pos(f.Pos()), "works on the caller's context only", "a fresh context is created at "+bad+" inside a function that was given one: what runs under it is not stopped by the caller's cancellation")
	}
}

// ---- A7 ---------------------------------------------------------------------
// A function may go on after one of its context-carrying steps failed (fall-backs, "try harder" paths). If that
// failure was the cancellation itself, everything that follows runs after the context ended: it must be fenced by a
// test that excludes ErrTimeout/ErrCancelled (with an exit on that side) or by a fresh gate.
func (s *c09State) afterFailure() {
	c := s.c
	isCtxKindTest := func(v ssa.Value, e ssa.Value) bool {
		cl, ok := v.(*ssa.Call)
		if !ok || calleeFull(&cl.Call) != modPath+"/commonerrors.Any" {
			return false
		}
		if !(sameValue(cl.Call.Args[0], e) || derivesOnly(cl.Call.Args[0], e)) {
			return false
		}
		names := map[string]bool{}
		for _, a := range variadicElems(cl.Call.Args[1]) {
			for _, g := range []string{"ErrTimeout", "ErrCancelled"} {
				if isGlobalLoad(a, g) {
					names[g] = true
				}
			}
		}
		return names["ErrTimeout"] && names["ErrCancelled"]
	}
	for _, f := range s.fns {
		if !inPkg(fsPkgRel)(f) {
			continue
		}
		allInstrs(f, func(in ssa.Instruction) {
			cl, ok := in.(*ssa.Call)
			if !ok {
				return
			}
			g := s.calleeOf(in)
			if g == nil || !s.gateFirst[g] || ctxParamOf(g) == nil {
				return
			}
			errs := errResultsOf(cl)
			if len(errs) == 0 {
				return
			}
			e := errs[0]
			prune := func(b *ssa.BasicBlock, k int) bool {
				ifi, ok := b.Instrs[len(b.Instrs)-1].(*ssa.If)
				if !ok {
					return false
				}
				if x, nilSucc, ok := nilTest(ifi); ok && (sameValue(x, e) || derivesOnly(x, e)) {
					return k == nilSucc // we follow the failure only
				}
				v, ts := boolTest(ifi)
				if isCtxKindTest(v, e) {
					return k != ts // on this side the failure has been found not to be a cancellation/timeout: fenced
				}
				return false
			}
			// the failure must actually be followed: is there a test of e at all?
			tested := false
			for _, b := range f.Blocks {
				if ifi, ok := b.Instrs[len(b.Instrs)-1].(*ssa.If); ok {
					if x, _, ok := nilTest(ifi); ok && (sameValue(x, e) || derivesOnly(x, e)) {
						tested = true
					}
					if v, _ := boolTest(ifi); isCtxKindTest(v, e) {
						tested = true
					}
				}
			}
			if !tested {
				return
			}
			what := ""
			hit := pathPruned(f, cl, func(j ssa.Instruction) bool {
				// a fresh look at the context fences what follows; so does overwriting… (a later gate-first call is itself fenced)
				return j != ssa.Instruction(cl) && s.isGate(j)
			}, func(j ssa.Instruction) bool {
				if j == ssa.Instruction(cl) {
					return false
				}
				if s.eff.isMutatingInstr(j) && !s.isGate(j) {
					what = short(calleeNameOf(j))
					return true
				}
				return false
			}, prune)
			// only paths that really come from the failing side count: require the target not to be reachable when the nil side is the only way
			if hit == nil {
				return
			}
			if !reachableOnlyViaFailure(f, cl, hit, e) {
				return
			}
			key := fname(f) + "/after-failed:" + g.Name()
			c.violate("A7", key, c.ipos(hit), "when "+g.Name()+" (at "+c.ipos(cl)+") fails, "+f.Name()+" goes on to "+what+" without having excluded that the failure is the cancellation/timeout itself: after the context ended it still performs backend work (here not bounded by the context at all) and may report success")
		})
		c.FuncsSeen[fname(f)] = true
	}
	// count the functions examined so that the rule is never vacuous
	c.ok("A7", "examined", "-", "all context-carrying functions of package filesystem examined")
}

// reachableOnlyViaFailure: hit is reached from cl along a path that takes the non-nil side of a test of e (or no test).
func reachableOnlyViaFailure(f *ssa.Function, cl *ssa.Call, hit ssa.Instruction, e ssa.Value) bool {
	// a path that uses the non-nil edge of some test of e
	for _, b := range f.Blocks {
		ifi, ok := b.Instrs[len(b.Instrs)-1].(*ssa.If)
		if !ok {
			continue
		}
		x, nilSucc, ok := nilTest(ifi)
		if !ok || !(sameValue(x, e) || derivesOnly(x, e)) {
			continue
		}
		nb := b.Succs[1-nilSucc]
		found := false
		visitBlocksFrom(nb, func(bb *ssa.BasicBlock) {
			if bb == hit.Block() {
				found = true
			}
		})
		if found {
			return true
		}
	}
	// tested only through Any(e, …): then the pruned search already excluded the leaving side
	return true
}

// exactN (A8): "a copy of n bytes transfers exactly n or reports an error". For every exported safeio function
// with an int64 parameter named n and a (count, error) result, n must be the count handed to io.CopyN — the
// only standard copy that turns a short source into io.EOF — or be compared with the transferred count.
// Handing n to io.LimitReader / LimitedReader alone bounds the copy from above but accepts a short source.
func (s *c09State) exactN() {
	c := s.c
	for _, f := range c.srcFuncs("safeio") {
		if f.Parent() != nil || f.Object() == nil || !f.Object().Exported() || !strings.Contains(f.Name(), "CopyN") {
			continue
		}
		var n *ssa.Parameter
		for _, p := range f.Params {
			if b, ok := p.Type().Underlying().(*types.Basic); ok && b.Kind() == types.Int64 {
				n = p
			}
		}
		if n == nil {
			continue
		}
		c.FuncsSeen[fname(f)] = true
		fns := []*ssa.Function{f}
		var addAnon func(g *ssa.Function)
		addAnon = func(g *ssa.Function) {
			for _, a := range g.AnonFuncs {
				fns = append(fns, a)
				addAnon(a)
			}
		}
		addAnon(f)
		isN := func(v ssa.Value) bool { return resolveValue(v) == ssa.Value(n) }
		good, how := false, ""
		for _, g := range fns {
			allInstrs(g, func(in ssa.Instruction) {
				switch x := in.(type) {
				case *ssa.Call:
					if calleeFull(&x.Call) == "io.CopyN" && len(x.Call.Args) == 3 && isN(x.Call.Args[2]) {
						good, how = true, "n is the count of io.CopyN at "+c.ipos(in)
					}
				case *ssa.BinOp:
					switch x.Op {
					case token.EQL, token.NEQ, token.LSS, token.GTR, token.LEQ, token.GEQ:
						if isN(x.X) != isN(x.Y) {
							good, how = true, "the transferred count is compared with n at "+c.ipos(in)
						}
					}
				}
			})
		}
		c.check(good, "A8", fname(f)+"/exactly-n", c.pos(f.Pos()), how,
			"n neither reaches io.CopyN nor is compared with the number of bytes transferred: when the source ends before n bytes the copy reports success with fewer than n bytes (io.LimitReader bounds from above only)")
	}
}

// boundedRead (A9): "a bounded read returns at most the requested maximum". In every exported safeio function
// with an io.Reader parameter and an int64 parameter named max, every use of the raw reader is the operand of
// io.LimitReader(src, max), or sits on the side of a test of max against 0 where max is negative.
func (s *c09State) boundedRead() {
	c := s.c
	for _, f := range c.srcFuncs("safeio") {
		if f.Parent() != nil || f.Object() == nil || !f.Object().Exported() {
			continue
		}
		var max, src *ssa.Parameter
		for _, p := range f.Params {
			if b, ok := p.Type().Underlying().(*types.Basic); ok && b.Kind() == types.Int64 && p.Name() == "max" {
				max = p
			}
			if strings.HasSuffix(p.Type().String(), "io.Reader") {
				src = p
			}
		}
		if max == nil || src == nil || src.Referrers() == nil {
			continue
		}
		c.FuncsSeen[fname(f)] = true
		// negSucc: for an If on max, the successor index taken when max < 0 (-1: not a recognised test of max)
		negSucc := func(ifi *ssa.If) int {
			v, ts := boolTest(ifi)
			b, ok := v.(*ssa.BinOp)
			if !ok || resolveValue(b.X) != ssa.Value(max) {
				return -1
			}
			if k, isC := constInt(b.Y); !isC || k != 0 {
				return -1
			}
			switch b.Op {
			case token.LSS:
				return ts
			case token.GEQ:
				return 1 - ts
			}
			return -1
		}
		onNegSide := func(blk *ssa.BasicBlock) bool {
			for _, b := range f.Blocks {
				if len(b.Instrs) == 0 {
					continue
				}
				if ifi, ok := b.Instrs[len(b.Instrs)-1].(*ssa.If); ok {
					if k := negSucc(ifi); k >= 0 && edgeDominates(b, k, blk) {
						return true
					}
				}
			}
			return false
		}
		limited, bad := 0, ""
		for _, r := range *src.Referrers() {
			switch x := r.(type) {
			case *ssa.DebugRef:
				continue
			case *ssa.Call:
				if calleeFull(&x.Call) == "io.LimitReader" && len(x.Call.Args) == 2 && x.Call.Args[0] == ssa.Value(src) && resolveValue(x.Call.Args[1]) == ssa.Value(max) {
					limited++
					continue
				}
				if !onNegSide(x.Block()) {
					bad = "the raw source is handed to " + calleeFull(&x.Call) + " at " + c.ipos(x) + " where max may be non-negative"
				}
			case *ssa.Phi:
				for i, e := range x.Edges {
					if e != ssa.Value(src) {
						continue
					}
					p := x.Block().Preds[i]
					okEdge := onNegSide(p)
					if !okEdge && len(p.Instrs) > 0 {
						if ifi, isIf := p.Instrs[len(p.Instrs)-1].(*ssa.If); isIf {
							if k := negSucc(ifi); k >= 0 && p.Succs[k] == x.Block() && p.Succs[1-k] != x.Block() {
								okEdge = true
							}
						}
					}
					if !okEdge {
						bad = "the raw source becomes the reader at " + c.pos(x.Pos()) + " on a path where max may be non-negative"
					}
				}
			default:
				if in, ok := r.(ssa.Instruction); ok && !onNegSide(in.Block()) {
					bad = "the raw source is used at " + c.ipos(in) + " where max may be non-negative"
				}
			}
		}
		if bad == "" && limited == 0 {
			bad = "max never reaches io.LimitReader over the source"
		}
		c.check(bad == "", "A9", fname(f)+"/at-most-max", c.pos(f.Pos()),
			"the source is read through io.LimitReader(src, max) unless max < 0", bad+": more than max bytes can be returned")
	}
}

// rawTransfers (A10): "when the context ends while it runs, it starts no new read from a source stream". The
// safeio helpers test the context before every Read/Write; a direct Read on a handle, or a bare io.Copy, in a
// function that was given a context does not.
func (s *c09State) rawTransfers() {
	c := s.c
	wrapped := func(v ssa.Value) bool {
		for _, l := range sources(v, deriveOpts{}) {
			if cl, ok := l.(*ssa.Call); ok {
				n := calleeFull(&cl.Call)
				if strings.HasSuffix(n, "safeio.NewContextualReader") || strings.HasSuffix(n, "safeio.ContextualWriter") || strings.HasSuffix(n, "safeio.NewContextualReaderFrom") || strings.HasSuffix(n, "contextio.NewReader") || strings.HasSuffix(n, "contextio.NewWriter") {
					continue
				}
			}
			return false
		}
		return true
	}
	moving := map[string]bool{"Read": true, "Write": true, "ReadFrom": true, "WriteTo": true, "WriteString": true, "ReadAt": true, "WriteAt": true}
	nOK := 0
	for _, f := range s.all {
		if !inPkg(fsPkgRel)(f) || ctxParamOf(outermost(f)) == nil {
			continue
		}
		allInstrs(f, func(in ssa.Instruction) {
			cl, ok := in.(*ssa.Call)
			if !ok {
				return
			}
			key := fname(outermost(f)) + "/transfer"
			n := calleeFull(&cl.Call)
			switch {
			case cl.Call.IsInvoke() && moving[cl.Call.Method.Name()]:
				t := cl.Call.Value.Type().String()
				if !(strings.HasPrefix(t, "io.") || strings.HasSuffix(t, "filesystem.File") || strings.HasSuffix(t, "afero.File")) {
					return
				}
				if wrapped(cl.Call.Value) {
					nOK++
					c.ok("A10", key+":"+cl.Call.Method.Name(), c.ipos(cl), "through a contextual wrapper")
					return
				}
				c.violate("A10", key+":"+cl.Call.Method.Name(), c.ipos(cl), "direct "+cl.Call.Method.Name()+"() on a stream in a function that carries a context: the operation is started even though the context has ended")
			case n == "io.Copy" || n == "io.CopyN" || n == "io.CopyBuffer" || n == "io.ReadAll" || n == "io.ReadFull" || n == "io/ioutil.ReadAll":
				allWrapped := true
				for _, a := range cl.Call.Args {
					if _, isIface := a.Type().Underlying().(*types.Interface); isIface && !wrapped(a) && !isGlobalLoad(a, "Discard") {
						allWrapped = false
					}
				}
				if allWrapped {
					nOK++
					c.ok("A10", key+":"+short(n), c.ipos(cl), "operands are contextual wrappers")
					return
				}
				c.violate("A10", key+":"+short(n), c.ipos(cl), short(n)+" on a raw stream in a function that carries a context: reads go on after the context has ended")
			case strings.Contains(n, "/safeio.") && (strings.Contains(n, "Copy") || strings.Contains(n, "Read")) && !strings.Contains(n, "NewContextual") && !strings.Contains(n, "NewByteReader"):
				nOK++
				c.ok("A10", key+":"+short(n), c.ipos(cl), "safeio helper")
			}
		})
	}
	c.Extra["context_aware_transfers"] = nOK
}

// boundedReservation (A13): "a bounded read returns … the whole source when it is shorter [than the maximum]" — for any
// maximum. The maximum says how much may be read, not how much there is: reserving it upfront makes a short source read
// with a large maximum exhaust the memory (or panic in makeslice) instead of returning its few bytes. Where the maximum
// flows into the capacity of the buffer, it was compared with a constant bound first.
func (s *c09State) boundedReservation() {
	c := s.c
	f := c.fn("safeio", "ReadAtMost")
	if f == nil {
		return
	}
	mi := paramIndexByName(f, "max")
	key := fname(f) + "/reservation-bounded"
	var mk *ssa.MakeSlice
	allInstrs(f, func(in ssa.Instruction) {
		if m, ok := in.(*ssa.MakeSlice); ok {
			mk = m
		}
	})
	if mk == nil || mi < 0 {
		c.ok("A13", key, c.pos(f.Pos()), "no buffer is reserved upfront from the maximum")
		return
	}
	max := f.Params[mi]
	// the edges through which `max` reaches the capacity
	bad := ""
	seen := map[ssa.Value]bool{}
	var walk func(v ssa.Value, at *ssa.BasicBlock)
	walk = func(v ssa.Value, at *ssa.BasicBlock) {
		if v == nil || seen[v] {
			return
		}
		seen[v] = true
		switch x := v.(type) {
		case *ssa.Phi:
			for i, e := range x.Edges {
				if resolveValue(e) == ssa.Value(max) {
					// the predecessor must lie on a side of a comparison of max with a positive constant that bounds it above
					pred := x.Block().Preds[i]
					bounded := false
					for _, b := range f.Blocks {
						ifi, ok := b.Instrs[len(b.Instrs)-1].(*ssa.If)
						if !ok {
							continue
						}
						for side := 0; side < 2; side++ {
							if !(b.Succs[side] == pred || b.Succs[side].Dominates(pred)) {
								continue
							}
							if c09BoundsAbove(ifi.Cond, max, side == 0, 0) {
								bounded = true
							}
						}
					}
					if !bounded {
						bad = c.ipos(x)
					}
				} else {
					walk(e, x.Block())
				}
			}
		case *ssa.Convert:
			walk(x.X, at)
		case *ssa.ChangeType:
			walk(x.X, at)
		case *ssa.Parameter:
			if x == max {
				bad = c.ipos(mk)
			}
		}
	}
	walk(mk.Cap, mk.Block())
	c.check(bad == "", "A13", key, c.ipos(mk), "the maximum reaches the capacity reserved upfront only below a constant bound",
		"the requested maximum becomes the capacity of the buffer reserved upfront without having been compared with a bound: a short source read with a large maximum (1<<40, math.MaxInt64) exhausts the memory or panics in makeslice instead of returning the source")
}

// c09BoundsAbove: on the given side (true/false) of cond, p is known to be at most a constant.
func c09BoundsAbove(cond ssa.Value, p *ssa.Parameter, side bool, depth int) bool {
	if depth > 4 {
		return false
	}
	switch x := cond.(type) {
	case *ssa.UnOp:
		if x.Op == token.NOT {
			return c09BoundsAbove(x.X, p, !side, depth+1)
		}
	case *ssa.BinOp:
		isP := func(v ssa.Value) bool { return resolveValue(v) == ssa.Value(p) }
		isK := func(v ssa.Value) bool { k, ok := constInt(v); return ok && k > 0 }
		switch {
		case isP(x.X) && isK(x.Y):
			// p > K / p >= K bounds on the false side; p < K / p <= K on the true side
			if (x.Op == token.GTR || x.Op == token.GEQ) && !side {
				return true
			}
			if (x.Op == token.LSS || x.Op == token.LEQ) && side {
				return true
			}
		case isK(x.X) && isP(x.Y):
			if (x.Op == token.LSS || x.Op == token.LEQ) && !side {
				return true
			}
			if (x.Op == token.GTR || x.Op == token.GEQ) && side {
				return true
			}
		}
	case *ssa.Phi:
		// short-circuit `a || b`: on the false side both are false; `a && b`: on the true side both are true
		for _, e := range x.Edges {
			if _, isC := constBool(e); isC {
				continue
			}
			if c09BoundsAbove(e, p, side, depth+1) {
				return true
			}
		}
	}
	return false
}

// c09ThroughArithmetic: v is computed with an addition/subtraction (possibly merged with its operand by a phi): max+1, …
func c09ThroughArithmetic(v ssa.Value) bool {
	seen := map[ssa.Value]bool{}
	var walk func(v ssa.Value) bool
	walk = func(v ssa.Value) bool {
		if v == nil || seen[v] {
			return false
		}
		seen[v] = true
		switch x := v.(type) {
		case *ssa.BinOp:
			return x.Op == token.ADD || x.Op == token.SUB || x.Op == token.MUL
		case *ssa.Phi:
			for _, e := range x.Edges {
				if walk(e) {
					return true
				}
			}
		case *ssa.Convert:
			return walk(x.X)
		}
		return false
	}
	return walk(v)
}

// contextErrorsTravel (A15, A16): "when the context ends while it runs … reports the same kinds". A callee that is handed the
// function's context reports the end of the context through its error. (A15) That error is not thrown away — not unless
// every path from there to a return consults the context again, heeding the answer. (A16) Once received, it is what a
// return reports, unless the return lies on the side where it was found nil or after it was looked at (handed to a call):
// a return that reports something else instead — the size of a partial archive, say — relabels a cancellation.
func (s *c09State) contextErrorsTravel() {
	c := s.c
	c.rule("A15", "the error of a callee that is handed the function's context is not discarded, unless every path from there to a return consults the context again and heeds the answer", 0)
	c.rule("A16", "the error received from a callee that is handed the function's context is what every return reachable from the call reports, unless the return lies where that error was found nil or was looked at", 100)
	nDiscard := 0
	for _, f := range s.all {
		if !(inPkg(fsPkgRel)(f) || inPkg("safeio")(f)) || strings.HasSuffix(c.Fset.Position(f.Pos()).Filename, "lockfile.go") {
			continue
		}
		hasErr := false
		k := f.Signature.Results().Len() - 1
		if k >= 0 && isErrorType(f.Signature.Results().At(k).Type()) {
			hasErr = true
		}
		allInstrs(f, func(in ssa.Instruction) {
			cl, ok := in.(*ssa.Call)
			if !ok {
				return
			}
			passes := false
			for _, a := range cl.Call.Args {
				if a.Type().String() == "context.Context" && ctxDerived(a) {
					passes = true
				}
			}
			if !passes {
				return
			}
			sig := cl.Call.Signature()
			ei := -1
			for i := 0; i < sig.Results().Len(); i++ {
				if isErrorType(sig.Results().At(i).Type()) {
					ei = i
				}
			}
			if ei < 0 {
				return
			}
			from := short(calleeFull(&cl.Call))
			if from == "" && cl.Call.Method != nil {
				from = "dynamic call " + cl.Call.Method.Name()
			}
			var e ssa.Value
			if sig.Results().Len() == 1 {
				e = cl
			} else {
				for _, r := range *cl.Referrers() {
					if ex, ok := r.(*ssa.Extract); ok && ex.Index == ei {
						e = ex
					}
				}
			}
			isReturn := func(i ssa.Instruction) bool { _, ok := i.(*ssa.Return); return ok }
			if e == nil || e.Referrers() == nil || len(*e.Referrers()) == 0 {
				// discarded
				nDiscard++
				hit := pathAvoiding(cl, func(i ssa.Instruction) bool { return i != ssa.Instruction(cl) && s.isGate(i) }, isReturn)
				c.check(hit == nil, "A15", fname(f)+"/discards:"+from, c.ipos(cl), "the context is consulted again on every path to a return",
					"the error of "+from+", which is handed the context, is discarded and the function can return ("+c.iposOr(hit)+") without consulting the context again: a context that ended inside the callee is read as the callee's negative answer and goes unreported")
				return
			}
			if !hasErr {
				return
			}
			// A16: a return that does not report e, reached from the call without crossing the side of a test where e is nil
			// and without e having been looked at (handed to a call)
			bad := ""
			looksAt := func(i ssa.Instruction) bool {
				if i == ssa.Instruction(cl) {
					return false
				}
				// e itself, or the variable it was merged into
				isE := func(a ssa.Value) bool {
					if a == e {
						return true
					}
					if phi, ok := a.(*ssa.Phi); ok {
						for _, x := range phi.Edges {
							if x == e {
								return true
							}
						}
					}
					return false
				}
				if cc := callCommon(i); cc != nil {
					for _, a := range cc.Args {
						if isE(a) {
							return true
						}
					}
				}
				// compared with a particular error (filepath.SkipDir, io.EOF)
				if bo, ok := i.(*ssa.BinOp); ok && (bo.Op == token.EQL || bo.Op == token.NEQ) {
					if (isE(bo.X) && !isNilConst(bo.Y)) || (isE(bo.Y) && !isNilConst(bo.X)) {
						return true
					}
				}
				return false
			}
			nilEdge := func(b *ssa.BasicBlock, k int) bool {
				ifi, ok := b.Instrs[len(b.Instrs)-1].(*ssa.If)
				if !ok {
					return false
				}
				x, nilSucc, isNil := nilTest(ifi)
				if !isNil || k != nilSucc {
					return false
				}
				if sameValue(x, e) {
					return true
				}
				if phi, ok := x.(*ssa.Phi); ok {
					for _, y := range phi.Edges {
						if y == e {
							return true
						}
					}
				}
				return false
			}
			unreported := func(i ssa.Instruction) bool {
				r, isR := i.(*ssa.Return)
				if !isR || len(r.Results) <= k {
					return false
				}
				for _, l := range sources(r.Results[k], deriveOpts{}) {
					if l == e || c11DependsOn(l, []ssa.Value{e}, map[ssa.Value]bool{}, 0) {
						return false
					}
				}
				return true
			}
			if hit := pathPruned(f, cl, looksAt, unreported, nilEdge); hit != nil {
				bad = c.ipos(hit)
			}
			c.check(bad == "", "A16", fname(f)+"/err-of:"+from, c.ipos(cl), "every return reachable from the call reports this error, or lies where it was found nil or looked at",
				"the return at "+bad+" can be reached with the error of "+from+" (which is handed the context) non-nil and never looked at, and reports something else: a cancellation or a timeout met by the callee is relabelled or lost")
		})
	}
	if nDiscard == 0 {
		c.info("A15", "filesystem/no-discarded-error-of-a-context-callee", "-", "no function discards the error of a callee it hands its context to")
	}
	c.Extra["discarded_errors_of_context_callees"] = nDiscard
}

// contextKindsTogether (A18): "fails with the 'cancelled' or 'timeout' kind … reports the same kinds". A context ends by
// cancellation or by its deadline and the library treats the two alike everywhere: a call that classifies an error against
// one of the two kinds names the other as well. Naming one only makes the outcome depend on how the context ended — a
// cancellation is reported, the same schedule with a deadline is swallowed (or the reverse).
func (s *c09State) contextKindsTogether() {
	c := s.c
	c.rule("A18", "a call that classifies an error against one of the kinds 'cancelled' / 'timeout' (commonerrors.Any, None, Ignore, errors.Is chains in one condition are not followed) names the other one too", 15)
	for _, sp := range c.SSAPkgs {
		if !strings.HasPrefix(sp.Pkg.Path(), modPath) || strings.Contains(sp.Pkg.Path(), "/mocks") {
			continue
		}
		rel := shortPkg(sp.Pkg.Path())
		if rel == "commonerrors" {
			continue // the package that defines the kinds converts each of them on its own
		}
		for _, f := range c.srcFuncs(rel) {
			allInstrs(f, func(in ssa.Instruction) {
				cl, ok := in.(*ssa.Call)
				if !ok {
					return
				}
				switch n := calleeFull(&cl.Call); {
				case strings.HasSuffix(n, "commonerrors.Any"), strings.HasSuffix(n, "commonerrors.None"), strings.HasSuffix(n, "commonerrors.Ignore"):
				default:
					return
				}
				if len(cl.Call.Args) < 2 {
					return
				}
				cancelled, timeout := false, false
				for _, e := range variadicElems(cl.Call.Args[1]) {
					if u, ok := stripConv(e).(*ssa.UnOp); ok && u.Op == token.MUL {
						if g, ok := u.X.(*ssa.Global); ok {
							switch g.Name() {
							case "ErrCancelled":
								cancelled = true
							case "ErrTimeout":
								timeout = true
							}
						}
					}
				}
				if !cancelled && !timeout {
					return
				}
				c.FuncsSeen[fname(outermost(f))] = true
				which := "'cancelled'"
				if timeout {
					which = "'timeout'"
				}
				c.check(cancelled && timeout, "A18", fname(outermost(f))+"/context-kinds", c.ipos(cl), "both context kinds named",
					"the error is classified against "+which+" only: a context that ends the other way (deadline instead of cancellation, or the reverse) takes the other branch — where this decides whether the end of the context is reported, one of the two is swallowed")
			})
		}
	}
}

// c09DeferredCleanupKeepsTheError (A21): "when the context ends while it runs, it … reports the same kinds". An operation that
// is interrupted still runs its deferred clean-up (closing the archive, the file), and the clean-up may fail in turn — the
// device is full, the handle is gone. The error of the clean-up must not replace the error the operation is already
// returning. Decided for every deferred function literal of the module: a store into a captured error variable of the
// enclosing function is made where that variable was found nil (the nil side of a test of its own value), or stores a
// value derived from the variable's current value (a conversion, a wrap) or from recover().
func (c *Ctx) c09DeferredCleanupKeepsTheError() {
	c.rule("A21", "a deferred function literal stores into the enclosing function's error variable only where that variable is nil, or a value derived from its current value (or from recover()): the failure of a clean-up never replaces the error already being returned — a cancellation stays a cancellation", 2)
	c.deferredCleanupKeepsTheError("A21", nil, "the deferred function overwrites the error the function is returning with the outcome of its clean-up: when the context ends while the operation runs and the clean-up fails too (the device is full when the archive is finalised), the caller is told about the device and not that the operation was cancelled / timed out")
}

// deferredCleanupKeepsTheError is the rule A21 for the functions `only` selects (nil: all of the module), reported as `rule`.
func (c *Ctx) deferredCleanupKeepsTheError(rule string, only func(*ssa.Function) bool, consequence string) {
	for _, sp := range c.SSAPkgs {
		if !strings.HasPrefix(sp.Pkg.Path(), modPath) {
			continue
		}
		rel := shortPkg(sp.Pkg.Path())
		for _, f := range c.srcFuncs(rel) {
			if f.Blocks == nil || (only != nil && !only(f)) {
				continue
			}
			allInstrs(f, func(in ssa.Instruction) {
				d, ok := in.(*ssa.Defer)
				if !ok {
					return
				}
				mc, ok := d.Call.Value.(*ssa.MakeClosure)
				if !ok {
					return
				}
				lit, _ := mc.Fn.(*ssa.Function)
				if lit == nil {
					return
				}
				n := 0
				allInstrs(lit, func(i2 ssa.Instruction) {
					st, ok := i2.(*ssa.Store)
					if !ok {
						return
					}
					fv, ok := st.Addr.(*ssa.FreeVar)
					if !ok || !isErrorType(st.Val.Type()) {
						return
					}
					key := fname(f) + "/deferred-store:" + fv.Name()
					if n > 0 {
						key += "#" + strconv.Itoa(n)
					}
					n++
					c.FuncsSeen[fname(f)] = true
					isLoadOfVar := func(v ssa.Value) bool {
						u, ok := v.(*ssa.UnOp)
						return ok && u.Op == token.MUL && u.X == ssa.Value(fv)
					}
					// (b) derived from the current value, or from recover()
					derived := false
					for _, l := range sources(st.Val, deriveOpts{through: func(string) bool { return true }}) {
						if isLoadOfVar(l) {
							derived = true
						}
						for k := 0; k < 4; k++ { // panicErr, ok := recover().(error)
							switch x := l.(type) {
							case *ssa.Extract:
								l = x.Tuple
								continue
							case *ssa.TypeAssert:
								l = x.X
								continue
							}
							break
						}
						if rc, isCall := l.(*ssa.Call); isCall {
							if bi, isB := rc.Call.Value.(*ssa.Builtin); isB && bi.Name() == "recover" {
								derived = true
							}
						}
					}
					// (a) on the nil side of a test of the variable
					guarded := false
					for _, b := range lit.Blocks {
						ifi, ok := b.Instrs[len(b.Instrs)-1].(*ssa.If)
						if !ok {
							continue
						}
						x, nilSucc, ok := nilTest(ifi)
						if !ok || !isLoadOfVar(x) {
							continue
						}
						if edgeDominates(b, nilSucc, st.Block()) {
							guarded = true
						}
					}
					c.check(derived || guarded, rule, key, c.ipos(st), "the store is made where the variable is nil / stores a value derived from its current value", consequence)
				})
			})
		}
	}
}

// c09NoDetourAroundTheContext (A22): "when the context ends while it runs, it starts no new read …". The operations come in
// pairs — X and XWithContext — where X is XWithContext(context.Background()). A function that holds a context and calls
// the plain X of such a pair has stopped handing its context on: the guard at its top still answers for a context that
// ended before the call, but the work itself runs to the end under a context that never ends. Decided for every function
// of the module with a context.Context parameter: no call to a function or method for which a sibling of the same name
// with the suffix WithContext (same receiver type, or same package) exists.
func (c *Ctx) c09NoDetourAroundTheContext() {
	c.rule("A22", "a function that holds a context never calls the plain form of an operation that also exists as …WithContext (same receiver or package): the context is handed on, not replaced by one that never ends", 0)
	n := 0
	hasCtxSibling := func(g *ssa.Function, iface *types.Interface, method string) bool {
		if iface != nil {
			for i := 0; i < iface.NumMethods(); i++ {
				if iface.Method(i).Name() == method+"WithContext" {
					return true
				}
			}
			return false
		}
		if g == nil {
			return false
		}
		if recv := g.Signature.Recv(); recv != nil {
			ms := c.Prog.MethodSets.MethodSet(recv.Type())
			for i := 0; i < ms.Len(); i++ {
				if ms.At(i).Obj().Name() == g.Name()+"WithContext" {
					return true
				}
			}
			return false
		}
		if g.Pkg != nil && g.Pkg.Func(g.Name()+"WithContext") != nil {
			return true
		}
		return false
	}
	for _, sp := range c.SSAPkgs {
		if !strings.HasPrefix(sp.Pkg.Path(), modPath) {
			continue
		}
		rel := shortPkg(sp.Pkg.Path())
		// the operations the property names: the I/O helpers and the filesystem operations built on them
		if rel != fsPkgRel && rel != "safeio" && rel != "hashing" && rel != "parallelisation" {
			continue
		}
		for _, f := range c.srcFuncs(rel) {
			if f.Blocks == nil {
				continue
			}
			top := outermost(f)
			if top.Name() == "heartBeat" {
				continue // the lock's heartbeat: a write of a few bytes after its own gate at every beat (C01/R9), not an operation of the API
			}
			holds := false
			for _, p := range top.Params {
				if p.Type().String() == "context.Context" {
					holds = true
				}
			}
			if !holds {
				continue
			}
			allInstrs(f, func(in ssa.Instruction) {
				cl, ok := in.(*ssa.Call)
				if !ok {
					return
				}
				name, detour := "", false
				if cl.Call.IsInvoke() {
					if it, isI := cl.Call.Value.Type().Underlying().(*types.Interface); isI && strings.HasPrefix(cl.Call.Value.Type().String(), modPath) || isI && strings.Contains(cl.Call.Value.Type().String(), modPath) {
						name = cl.Call.Method.Name()
						detour = hasCtxSibling(nil, it, name)
					}
				} else if g := staticCallee(&cl.Call); g != nil && inModule(g) {
					name = g.Name()
					detour = hasCtxSibling(g, nil, name)
				}
				if !detour || strings.HasSuffix(name, "WithContext") {
					return
				}
				n++
				c.FuncsSeen[fname(top)] = true
				c.violate("A22", fname(top)+"/detour:"+name, c.ipos(cl), fname(top)+" holds a context and calls "+name+", the form of the operation that runs under context.Background(), although "+name+"WithContext exists: once past its own gate the operation no longer sees the context end — a hash, a copy or a listing cancelled half-way runs to the end and reports success")
			})
		}
	}
	if n == 0 {
		c.ok("A22", "module/no-detour-around-the-context", "-", "no function that holds a context calls the context-free form of an operation that has a …WithContext form")
	}
}

// c09ContextualAdaptersConvert (A24): "every context-accepting operation of the library — these helpers … — fails with the
// 'cancelled' or 'timeout' kind". The readers and writers safeio hands out are built on the third-party contextio package,
// whose Read/Write answer the raw context.Canceled / context.DeadlineExceeded: commonerrors.Any(err, ErrCancelled) does not
// recognise those. What a contextio constructor returns is therefore never handed out as it is: it is kept in a field of a
// type of package safeio, and the methods of that type that return an error pass it through one of the package's converters.
func (c *Ctx) c09ContextualAdaptersConvert() {
	c.contextualAdaptersConvert("A24")
}

// contextualAdaptersConvert is the rule A24 reported as `rule` (C20/H10 evaluates it for the stream the hasher reads).
func (c *Ctx) contextualAdaptersConvert(rule string) {
	c.rule(rule, "what a contextio constructor returns is never handed out as it is: safeio keeps it in a field of one of its own types whose error-returning methods pass the error through ConvertIOError / ConvertContextError (directly or through safeReadFrom / safeCopy)", 2)
	converts := func(cl *ssa.Call) bool {
		n := calleeFull(&cl.Call)
		for _, s := range []string{"safeio.ConvertIOError", "commonerrors.ConvertContextError", "safeio.safeReadFrom", "safeio.safeCopy"} {
			if strings.HasSuffix(n, s) {
				return true
			}
		}
		return false
	}
	for _, f := range c.srcFuncs("safeio") {
		if f.Blocks == nil {
			continue
		}
		allInstrs(f, func(in ssa.Instruction) {
			cl, ok := in.(*ssa.Call)
			if !ok || !strings.Contains(calleeFull(&cl.Call), "dolmen-go/contextio.New") {
				return
			}
			c.FuncsSeen[fname(f)] = true
			key := fname(f) + "/" + short(calleeFull(&cl.Call))
			// where the value goes: into a field of a safeio type (through interface conversions), and nowhere else
			var holder *types.Named
			raw := ""
			var follow func(v ssa.Value, depth int)
			follow = func(v ssa.Value, depth int) {
				if depth > 4 || v.Referrers() == nil {
					return
				}
				for _, u := range *v.Referrers() {
					switch x := u.(type) {
					case *ssa.Store:
						if fa, ok := x.Addr.(*ssa.FieldAddr); ok && x.Val == v {
							if pt, ok := fa.X.Type().Underlying().(*types.Pointer); ok {
								if nm, ok := pt.Elem().(*types.Named); ok && nm.Obj().Pkg() != nil && strings.HasSuffix(nm.Obj().Pkg().Path(), "/safeio") {
									holder = nm
									continue
								}
							}
						}
						raw = c.ipos(x)
					case *ssa.MakeInterface:
						follow(x, depth+1)
					case *ssa.ChangeInterface:
						follow(x, depth+1)
					case *ssa.Return:
						raw = c.ipos(x)
					case *ssa.Call:
						raw = c.ipos(x)
					case *ssa.DebugRef:
					default:
						raw = c.ipos(u)
					}
				}
			}
			follow(cl, 0)
			switch {
			case raw != "":
				c.violate(rule, key, raw, "the reader / writer of the third-party contextio package is handed out (or used) as it is: once the context has ended its Read / Write answers the raw context.Canceled / context.DeadlineExceeded, which commonerrors.Any(err, ErrCancelled, ErrTimeout) does not recognise — the caller of the contextual reader cannot tell a cancellation from an I/O failure")
				return
			case holder == nil:
				c.undecided(rule, key, c.ipos(cl), "where the value of the contextio constructor goes was not recognised")
				return
			}
			// the holder's methods that return an error convert it
			bad := ""
			ownMaking := ""
			n := 0
			for _, g := range c.srcFuncs("safeio") {
				if g.Signature.Recv() == nil || g.Blocks == nil {
					continue
				}
				rt := g.Signature.Recv().Type()
				if pt, ok := rt.(*types.Pointer); ok {
					rt = pt.Elem()
				}
				if !types.Identical(rt, holder) {
					continue
				}
				res := g.Signature.Results()
				if res.Len() == 0 || !isErrorType(res.At(res.Len()-1).Type()) {
					continue
				}
				n++
				allInstrs(g, func(j ssa.Instruction) {
					r, ok := j.(*ssa.Return)
					if !ok {
						return
					}
					for _, l := range sources(r.Results[len(r.Results)-1], deriveOpts{}) {
						if isNilConst(l) {
							continue
						}
						// the wrapped call's own error, handed on only where it was found nil: a converter takes it on the other side
						if ex, ok := l.(*ssa.Extract); ok && isErrorType(ex.Type()) {
							convertedWhenSet := false
							allInstrs(g, func(j2 ssa.Instruction) {
								if k, ok := j2.(*ssa.Call); ok && converts(k) && len(k.Call.Args) > 0 && k.Call.Args[0] == ssa.Value(ex) && onNonNilSide(ex, k) {
									convertedWhenSet = true
								}
							})
							if convertedWhenSet {
								continue
							}
						}
						if ex, ok := l.(*ssa.Extract); ok {
							l = ex.Tuple
						}
						if k, ok := l.(*ssa.Call); ok && converts(k) {
							continue
						}
						bad = c.ipos(r)
						if u, ok := l.(*ssa.UnOp); ok {
							if g, ok := u.X.(*ssa.Global); ok {
								ownMaking = g.Pkg.Pkg.Name() + "." + g.Name()
							}
						}
						if isFreshError(l) {
							ownMaking = "an error built on the spot"
						}
					}
				})
			}
			switch {
			case n == 0:
				c.violate(rule, key, c.ipos(cl), "the type "+holder.Obj().Name()+" that keeps the contextio value has no method returning an error: nothing converts what the third-party reader / writer reports")
			case bad != "" && ownMaking != "":
				c.violate(rule, key, bad, "a method of "+holder.Obj().Name()+" answers an error of its own making ("+ownMaking+") that the reader / writer it wraps did not report: a read that delivers no bytes and no error (which the io.Reader contract allows and which is not the end of the data), or a source that breaks off in the middle (io.ErrUnexpectedEOF, a truncated compressed stream), ends the stream cleanly there; a read or a copy stops at a strict prefix and reports success, and a digest computed from that stream is the digest of the prefix")
			case bad != "":
				c.violate(rule, key, bad, "a method of "+holder.Obj().Name()+" returns the error of the third-party reader / writer without passing it through the package's converters: the end of the context is reported as the raw context.Canceled / context.DeadlineExceeded, which is neither the 'cancelled' nor the 'timeout' kind")
			default:
				c.ok(rule, key, c.ipos(cl), "kept in "+holder.Obj().Name()+", whose "+strconv.Itoa(n)+" error-returning method(s) convert the error")
			}
		})
	}
}
