package main

import (
	"fmt"
	"go/constant"
	"go/token"
	"go/types"
	"strconv"
	"strings"

	"golang.org/x/tools/go/ssa"
)

func init() {
	register(&propCheck{
		id:          "C17",
		level:       "other",
		explanation: "Static structural facts the timing argument of stale-lock detection stands on: (S1) heartbeat lifecycle — every successful TryLock has started `go heartBeat` on a child context whose cancel function is registered in the lock's own cancel store, with the lock's period field and a heartbeat file inside the lock directory; the heartbeat loop writes and touches the file on every iteration before sleeping and ends only on a context error; Unlock cancels the store before removing; (S2) writer interval and reader threshold are linear forms a·period+b in the same field and unit with interval ≤ period and threshold − interval ≥ one full period, compared with 'age > threshold'; (S3) IsStale answers false outright only where a filesystem call failed, the empty-directory branch decides by the directory's own age, several heartbeat files are stale only if all are, and a missing time info is not stale; (S4) ReleaseIfStale releases only on the stale side. Decided by symbolic evaluation of the duration expressions and dominance rules on SSA; nothing is executed. Not decided: anything with a clock in it (scheduler latency, I/O load, the bounded delay).",
		run:         runC17,
		assumptions: []string{
			"the scheduler wakes the heartbeat goroutine within one period of its deadline (the slack the code provides); this is a run-time fact and is not decided",
		},
	})
}

// linear form a*period + b (nanoseconds)
type linForm struct {
	a, b float64
	ok   bool
}

// linEval evaluates v as a linear form in `period` (any value satisfying isPeriod).
func linEval(v ssa.Value, isPeriod func(ssa.Value) bool, depth int) linForm {
	if depth > 12 {
		return linForm{}
	}
	v0 := v
	v = stripConv(v)
	if isPeriod(v) || isPeriod(v0) {
		return linForm{1, 0, true}
	}
	switch x := v.(type) {
	case *ssa.Const:
		if x.Value != nil && (x.Value.Kind() == constant.Int || x.Value.Kind() == constant.Float) {
			f, _ := constant.Float64Val(x.Value)
			return linForm{0, f, true}
		}
	case *ssa.Convert:
		return linEval(x.X, isPeriod, depth+1)
	case *ssa.BinOp:
		l, r := linEval(x.X, isPeriod, depth+1), linEval(x.Y, isPeriod, depth+1)
		if !l.ok || !r.ok {
			return linForm{}
		}
		switch x.Op {
		case token.ADD:
			return linForm{l.a + r.a, l.b + r.b, true}
		case token.SUB:
			return linForm{l.a - r.a, l.b - r.b, true}
		case token.MUL:
			if l.a == 0 {
				return linForm{l.b * r.a, l.b * r.b, true}
			}
			if r.a == 0 {
				return linForm{l.a * r.b, l.b * r.b, true}
			}
		case token.QUO:
			if r.a == 0 && r.b != 0 {
				return linForm{l.a / r.b, l.b / r.b, true}
			}
		}
	case *ssa.Call:
		n := calleeFull(&x.Call)
		scale := map[string]float64{"(time.Duration).Milliseconds": 1e-6, "(time.Duration).Microseconds": 1e-3, "(time.Duration).Nanoseconds": 1, "(time.Duration).Seconds": 1e-9}
		if s, ok := scale[n]; ok {
			l := linEval(x.Call.Args[0], isPeriod, depth+1)
			if l.ok {
				return linForm{l.a * s, l.b * s, true}
			}
		}
	}
	return linForm{}
}

func runC17(c *Ctx) {
	c.rule("S9", "in everything the staleness verdict reaches inside the filesystem package, an error assigned to a variable is read before it is overwritten and a failing side does not return success: a listing that failed is not an empty lock directory", 20)
	c.staleVerdictErrorsTravel("S9")
	c.rule("S13", "every sign of life whose times could be read is judged by its age: from a StatTimes call in the staleness test no path reaches the next file or the verdict without isStale having been given what was read, the failed read aside", 2)
	c.rule("S10", "while the holder is alive the heartbeat is refreshed every period: every beat (re)creates the heartbeat file (a creating write lies in the loop) — a creation that failed once is repaired one period later", 1)
	c.rule("S11", "the instant written at a beat is read from the clock at that beat (time.Now() evaluated in the loop): a schedule computed from the previous beat drifts from the observers' clocks and never catches up", 1)
	c.rule("S12", "the instant given to the heartbeat file is read after the write of that beat: a heartbeat that took a while to write is not back-dated (the lock would be reported stale less than two periods after a heartbeat)", 1)
	c.heartBeatEveryBeat("S10", "S11", "S12")
	c.lockDirectoryStampedOnceItExists("S14")
	c.heartBeatStampsEveryBeat("S15")
	c.lockDirectoryAgedAsListed("S16")
	c.rule("S1", "heartbeat lifecycle: started on every successful acquire with a cancellable child context registered in the lock's store, the lock's period and a file inside the lock directory; the loop writes every iteration and ends only on context error; Unlock cancels the store first", 6)
	c.rule("S2", "writer interval I(p) and reader threshold T(p) are linear in the same period field: I ≤ p, T − I ≥ p, comparison is age > T, both sides in the same unit", 3)
	c.rule("S3", "IsStale: constant false only on a failed filesystem call; the empty directory is judged by its own age; all heartbeat files must be stale; nil time info is not stale", 4)
	c.rule("S5", "every removal of the lock made on the strength of IsStale() claims the judged directory atomically first (rename to a private name), so that a lock taken over meanwhile by a live holder is not removed", 1)
	c.rule("S8", "LockWithTimeout: the contexts of the attempt are not registered in a store that the attempt itself can cancel (the take-over of a stale lock goes through Unlock); on failure they are cancelled, on success handed to the lock's store", 3)
	c.rule("S7", "a heartbeat file whose age cannot be read (removed since the listing, transient failure) counts as a sign of life, never as stale and never as absent", 1)
	c.rule("S6", "IsStale reads the age of the files it finds in the lock directory, not of a file named after the observer's own id", 1)
	c.rule("S4", "ReleaseIfStale calls Unlock only on the true side of IsStale()", 1)

	try := c.fn(fsPkgRel, "(*RemoteLockFile).TryLock")
	hb := c.fn(fsPkgRel, "heartBeat")
	unlock := c.fn(fsPkgRel, "(*RemoteLockFile).Unlock")
	isStaleM := c.fn(fsPkgRel, "(*RemoteLockFile).IsStale")
	isStaleF := c.fn(fsPkgRel, "isStale")
	allStale := c.fnOpt(fsPkgRel, "areHeartBeatFilesAllStale")
	rel := c.fn(fsPkgRel, "(*RemoteLockFile).ReleaseIfStale")
	if try == nil || hb == nil || unlock == nil || isStaleM == nil || isStaleF == nil || rel == nil {
		return
	}
	helperInlined := allStale == nil
	if !helperInlined {
		called := false
		allInstrs(isStaleM, func(in ssa.Instruction) {
			if cl, ok := in.(*ssa.Call); ok && staticCallee(&cl.Call) == allStale {
				called = true
			}
		})
		helperInlined = !called
	}
	if helperInlined {
		// the per-file judgement may have been folded into IsStale itself
		allStale = isStaleM
	}
	for _, f := range []*ssa.Function{try, hb, unlock, isStaleM, isStaleF, allStale, rel} {
		c.FuncsSeen[fname(f)] = true
	}
	isPeriodField := func(v ssa.Value) bool {
		_, ok := fieldLoad(v, "RemoteLockFile", "lockHeartBeatPeriod")
		return ok
	}

	// ---- S1 ----------------------------------------------------------------
	var goHB *ssa.Go
	allInstrs(try, func(in ssa.Instruction) {
		if g, ok := in.(*ssa.Go); ok && staticCallee(&g.Call) == hb {
			goHB = g
		}
	})
	if goHB == nil {
		c.violate("S1", fname(try)+"/start", c.pos(try.Pos()), "TryLock does not start the heartbeat: a live holder is reported stale after two periods")
	} else {
		bad := ""
		allInstrs(try, func(in ssa.Instruction) {
			r, ok := in.(*ssa.Return)
			if !ok {
				return
			}
			for _, l := range sources(r.Results[0], deriveOpts{through: func(string) bool { return false }}) {
				if isNilConst(l) && !dominates(goHB, r) {
					bad = c.ipos(r)
				}
			}
		})
		c.check(bad == "", "S1", fname(try)+"/start", c.ipos(goHB), "every successful return follows `go heartBeat`", "successful return at "+bad+" without a running heartbeat")
		// context wiring
		ctxArg := goHB.Call.Args[0]
		ex, ok := stripConv(ctxArg).(*ssa.Extract)
		wired := false
		why := "the heartbeat's context is not a child created by context.WithCancel in TryLock: Unlock cannot stop the writer"
		if ok && ex.Index == 0 {
			if mk, ok := ex.Tuple.(*ssa.Call); ok && calleeFull(&mk.Call) == "context.WithCancel" {
				why = "the cancel function of the heartbeat's context is not registered in l.cancelStore: Unlock cannot stop the writer and the released lock never looks free/stale correctly"
				allInstrs(try, func(in ssa.Instruction) {
					cl, ok := in.(*ssa.Call)
					if !ok || !strings.HasSuffix(calleeFull(&cl.Call), "CancelFunctionStore).RegisterCancelFunction") {
						return
					}
					if _, ok := fieldLoad(cl.Call.Args[0], "RemoteLockFile", "cancelStore"); !ok {
						return
					}
					for _, l := range sources(cl.Call.Args[1], deriveOpts{}) {
						if e2, ok := l.(*ssa.Extract); ok && e2.Tuple == ssa.Value(mk) && e2.Index == 1 && dominates(cl, goHB) {
							wired = true
						}
					}
				})
			}
		}
		c.check(wired, "S1", fname(try)+"/context", c.ipos(goHB), "child context of WithCancel; cancel registered in l.cancelStore before the start", why)
		c.check(isPeriodField(goHB.Call.Args[2]), "S1", fname(try)+"/period", c.ipos(goHB), "period = l.lockHeartBeatPeriod", "the heartbeat runs with a period other than l.lockHeartBeatPeriod, the one IsStale judges by")
		// heartbeat file lies inside the lock directory
		inside := false
		for _, l := range sources(goHB.Call.Args[3], deriveOpts{}) {
			if cl, ok := l.(*ssa.Call); ok && strings.HasSuffix(calleeFull(&cl.Call), "RemoteLockFile).heartBeatFile") && isLockPathValue(cl.Call.Args[1]) {
				inside = true
			}
		}
		c.check(inside, "S1", fname(try)+"/file", c.ipos(goHB), "heartbeat file = heartBeatFile(lockPath())", "the heartbeat is not written inside the lock directory that IsStale inspects")
	}
	// heartbeat loop
	{
		var write, touch, sleep *ssa.Call
		allInstrs(hb, func(in ssa.Instruction) {
			if cl, ok := in.(*ssa.Call); ok {
				n := calleeFull(&cl.Call)
				switch {
				case cl.Call.IsInvoke() && cl.Call.Method.Name() == "WriteFile":
					write = cl
				case cl.Call.IsInvoke() && cl.Call.Method.Name() == "Chtimes":
					touch = cl
				case staticCallee(&cl.Call) != nil && inPkg(fsPkgRel)(staticCallee(&cl.Call)) && funcContainsCall(staticCallee(&cl.Call), func(cc *ssa.CallCommon) bool {
					return cc.IsInvoke() && (cc.Method.Name() == "WriteFile" || cc.Method.Name() == "Chtimes")
				}):
					// the refresh was moved into a helper
					if write == nil {
						write = cl
					}
				case strings.HasSuffix(n, "SleepWithContext") || n == "time.Sleep":
					sleep = cl
				}
			}
		})
		good := (write != nil || touch != nil) && sleep != nil
		why := "the heartbeat loop no longer writes/touches the file and sleeps"
		if good {
			first := write
			if first == nil {
				first = touch
			}
			// every cycle through sleep passes a write: from sleep, the path back to sleep avoiding writes must not exist
			isW := func(in ssa.Instruction) bool {
				return in == ssa.Instruction(write) || in == ssa.Instruction(touch)
			}
			if pathAvoiding(sleep, isW, func(in ssa.Instruction) bool { return in == ssa.Instruction(sleep) }) != nil {
				good, why = false, "an iteration of the heartbeat loop can sleep again without refreshing the file"
			}
			if !dominates(first, sleep) {
				good, why = false, "the first refresh does not precede the first sleep: a fresh lock has no heartbeat for a whole period"
			}
			// path of the file written = parameter
			if write != nil && write.Call.IsInvoke() && paramIndex(hb, write.Call.Args[0]) < 0 {
				good, why = false, "the file written is not the heartbeat path given by the lock"
			}
		}
		c.check(good, "S1", fname(hb)+"/loop", c.pos(hb.Pos()), "refresh on every iteration, before sleeping", why)
		// returns only on context error
		bad := ""
		allInstrs(hb, func(in ssa.Instruction) {
			r, ok := in.(*ssa.Return)
			if !ok {
				return
			}
			okSide := onBoolSide(r, true, func(v ssa.Value) bool { return false })
			_ = okSide
			ctxErr := false
			allInstrs(hb, func(j ssa.Instruction) {
				if cl, ok := j.(*ssa.Call); ok && strings.HasSuffix(calleeFull(&cl.Call), "DetermineContextError") && onNonNilSide(cl, r) {
					ctxErr = true
				}
			})
			if !ctxErr {
				bad = c.ipos(r)
			}
		})
		c.check(bad == "", "S1", fname(hb)+"/exit", c.pos(hb.Pos()), "the writer stops only when its context ended", "the heartbeat can stop at "+bad+" although its context is still alive: a live holder becomes stale")
	}
	// Unlock cancels first
	{
		var cancel *ssa.Call
		allInstrs(unlock, func(in ssa.Instruction) {
			if cl, ok := in.(*ssa.Call); ok && strings.HasSuffix(calleeFull(&cl.Call), "CancelFunctionStore).Cancel") {
				if _, ok := fieldLoad(cl.Call.Args[0], "RemoteLockFile", "cancelStore"); ok && cancel == nil {
					cancel = cl
				}
			}
		})
		good := cancel != nil
		if good {
			allInstrs(unlock, func(in ssa.Instruction) {
				if cl, ok := in.(*ssa.Call); ok && cl != cancel {
					n := calleeFull(&cl.Call)
					if strings.HasSuffix(n, "retry-go/v4.Do") || strings.Contains(n, "VFS).R") {
						if !dominates(cancel, cl) {
							good = false
						}
					}
				}
			})
		}
		c.check(good, "S1", fname(unlock)+"/cancel-first", c.pos(unlock.Pos()), "cancelStore.Cancel() precedes the removal", "Unlock removes the lock directory without first stopping the heartbeat writer: the writer re-creates the file and the lock never goes away")
	}

	// ---- S2 ----------------------------------------------------------------
	{
		var sleep *ssa.Call
		allInstrs(hb, func(in ssa.Instruction) {
			if cl, ok := in.(*ssa.Call); ok && (strings.HasSuffix(calleeFull(&cl.Call), "SleepWithContext") || calleeFull(&cl.Call) == "time.Sleep") {
				sleep = cl
			}
		})
		var I linForm
		if sleep != nil {
			period := hb.Params[2]
			I = linEval(sleep.Call.Args[len(sleep.Call.Args)-1], func(v ssa.Value) bool { return v == ssa.Value(period) }, 0)
		}
		// threshold in isStale
		var cmp *ssa.BinOp
		allInstrs(isStaleF, func(in ssa.Instruction) {
			if b, ok := in.(*ssa.BinOp); ok && (b.Op == token.GTR || b.Op == token.GEQ || b.Op == token.LSS || b.Op == token.LEQ) {
				cmp = b
			}
		})
		var T, A linForm
		op := ""
		if cmp != nil {
			period := isStaleF.Params[1]
			isP := func(v ssa.Value) bool { return v == ssa.Value(period) }
			// age side: time.Since(ModTime()) possibly scaled
			isAge := func(v ssa.Value) bool {
				cl, ok := v.(*ssa.Call)
				return ok && calleeFull(&cl.Call) == "time.Since"
			}
			ax, ay := linEval(cmp.X, isAge, 0), linEval(cmp.Y, isAge, 0)
			switch {
			case ax.ok && ax.a != 0:
				A, T, op = ax, linEval(cmp.Y, isP, 0), cmp.Op.String()
			case ay.ok && ay.a != 0:
				A, T = ay, linEval(cmp.X, isP, 0)
				op = map[token.Token]string{token.GTR: "<", token.GEQ: "<=", token.LSS: ">", token.LEQ: ">="}[cmp.Op]
			}
		}
		c.Extra["S2_forms"] = map[string]any{"writer_interval": fmt.Sprintf("%g*period%+gns", I.a, I.b), "threshold": fmt.Sprintf("(%g*period%+g) in units of %g ns", T.a, T.b, 1/nz(A.a)), "comparison": "age " + op + " threshold"}
		c.check(I.ok && I.a <= 1 && I.a > 0 && I.b <= 0, "S2", fname(hb)+"/interval", c.iposOr(instrOf(sleep)), fmt.Sprintf("I(p) = %g·p %+g ns ≤ p", I.a, I.b),
			"the writer's sleep is not a linear form ≤ one period of its period parameter: the refresh interval exceeds what the reader allows for")
		goodT := T.ok && A.ok && A.a > 0 && op == ">"
		why := "isStale does not compare the age of the last sign of life with a threshold linear in the beat period using 'age > threshold'"
		if goodT {
			// same unit: threshold scale equals age scale
			ta := T.a / A.a // in periods
			tb := T.b / A.a // ns
			if !(ta-I.a >= 1 && tb >= I.b) {
				goodT = false
				why = fmt.Sprintf("threshold %g·p%+gns leaves less than one full period of slack over the writer interval %g·p%+gns: a live holder delayed by one period is reported stale", ta, tb, I.a, I.b)
			}
		}
		c.check(goodT, "S2", fname(isStaleF)+"/threshold", c.iposOr(instrOf(cmp)), "age > T(p), T − I ≥ p, same unit", why)
		// the period both sides use is the same field
		same := true
		n := 0
		allInstrs(isStaleM, func(in ssa.Instruction) {
			cl, ok := in.(*ssa.Call)
			if !ok {
				return
			}
			g := staticCallee(&cl.Call)
			if g == isStaleF || g == allStale {
				n++
				if !isPeriodField(cl.Call.Args[len(cl.Call.Args)-1]) {
					same = false
				}
			}
		})
		var inner *ssa.Call
		allInstrs(allStale, func(in ssa.Instruction) {
			if cl, ok := in.(*ssa.Call); ok && staticCallee(&cl.Call) == isStaleF {
				inner = cl
			}
		})
		// the helper's parameter that receives the period field at the call site is the one its age test uses
		periodParam := -1
		if !helperInlined {
			allInstrs(isStaleM, func(in ssa.Instruction) {
				if cl, ok := in.(*ssa.Call); ok && staticCallee(&cl.Call) == allStale {
					for i, a := range cl.Call.Args {
						if isPeriodField(a) {
							periodParam = i
						}
					}
				}
			})
		}
		if inner == nil || (!helperInlined && (periodParam < 0 || paramIndex(allStale, inner.Call.Args[1]) != periodParam)) || (helperInlined && !isPeriodField(inner.Call.Args[1])) {
			same = false
		}
		if helperInlined {
			n++ // the call that used to hand the period to the helper
		}
		c.check(same && n >= 2, "S2", fname(isStaleM)+"/same-period", c.pos(isStaleM.Pos()), "reader judges by l.lockHeartBeatPeriod, the field the writer runs on", "the staleness threshold is not computed from l.lockHeartBeatPeriod")
	}

	// ---- S3 ----------------------------------------------------------------
	{
		bad := ""
		emptyOK := false
		allInstrs(isStaleM, func(in ssa.Instruction) {
			r, ok := in.(*ssa.Return)
			if !ok {
				return
			}
			for _, l := range sources(r.Results[0], deriveOpts{}) {
				if b, isC := constBool(l); isC {
					if b {
						// "every file was found stale": the exit of a loop that leaves with false at the first file that is not
						if !(helperInlined && c17LoopAllForm(isStaleM, isStaleF, r)) {
							bad = c.ipos(r) + " (constant true)"
						}
						continue
					}
					// constant false: only where a call's error is non-nil (or a file was found not stale)
					onErr := c17FalseEdgesOK(r.Block(), isStaleF, map[*ssa.BasicBlock]bool{})
					allInstrs(isStaleM, func(j ssa.Instruction) {
						if cl, ok := j.(*ssa.Call); ok {
							for _, e := range errResultsOf(cl) {
								if onNonNilSide(e, r) {
									onErr = true
								}
							}
						}
					})
					if !onErr {
						bad = c.ipos(r) + " (false without a failed call)"
					}
					continue
				}
				cl, ok := l.(*ssa.Call)
				if !ok {
					bad = c.ipos(r)
					continue
				}
				g := staticCallee(&cl.Call)
				if g == isStaleF {
					// the empty-directory branch: argument is StatTimes(lockPath)
					for _, s := range sources(cl.Call.Args[0], deriveOpts{}) {
						if ex, ok := s.(*ssa.Extract); ok {
							if st, ok := ex.Tuple.(*ssa.Call); ok && strings.HasSuffix(calleeFull(&st.Call), ".StatTimes") && isLockPathValue(st.Call.Args[len(st.Call.Args)-1]) {
								emptyOK = true
							}
						}
					}
				} else if helperInlined && strings.HasSuffix(calleeFull(&cl.Call), "collection.All") {
					// the verdicts of the files, combined (S3/all below looks at how)
				} else if g != allStale || helperInlined {
					bad = c.ipos(r)
				}
			}
		})
		c.check(bad == "", "S3", fname(isStaleM)+"/verdicts", c.pos(isStaleM.Pos()), "false only on failed calls; otherwise decided by age", "IsStale answers at "+bad+" without looking at the age of the last sign of life")
		c.check(emptyOK, "S3", fname(isStaleM)+"/empty-dir", c.pos(isStaleM.Pos()), "empty lock directory judged by its own modification time", "a lock directory without heartbeat file (holder died between mkdir and first heartbeat) is not judged by the directory's own age: it can never become stale")
		// all, not any
		allOK := false
		allInstrs(allStale, func(in ssa.Instruction) {
			r, ok := in.(*ssa.Return)
			if !ok {
				return
			}
			if b, isC := constBool(r.Results[0]); isC && b && c17LoopAllForm(allStale, isStaleF, r) {
				allOK = true
			}
			for _, l := range sources(r.Results[0], deriveOpts{}) {
				if cl, ok := l.(*ssa.Call); ok && strings.HasSuffix(calleeFull(&cl.Call), "collection.All") {
					allOK = true
				}
			}
		})
		c.check(allOK, "S3", "filesystem.areHeartBeatFilesAllStale/all", c.pos(allStale.Pos()), "stale only if every heartbeat file is stale", "the files found in the lock directory are no longer judged one by one and combined with 'all': one old file makes a live lock stale, or the files present are not looked at")
		// S6: the reader looks at what the writer wrote. The path of every file whose age decides comes from the listing of
		// the lock directory (or is the directory itself) — never from a name the observer computes from its own id:
		// lockPath() trims the id, heartBeatFile() does not, so two lock objects for the same lock can name the file differently.
		badPath := c.c17JudgedPaths(isStaleM, allStale)
		c.check(badPath == "", "S6", fname(isStaleM)+"/judges-what-is-there", c.pos(isStaleM.Pos()), "ages are read from the files listed in the lock directory (or the directory itself)",
			"the age read at "+badPath+" is that of a path the observer computed itself (heartBeatFile of its own id) rather than of a file found in the lock directory: holder and observer whose ids differ by surrounding white space share the lock directory (lockPath trims the id) but name the heartbeat file differently, the observer falls back to the directory's age and reports a live lock stale")
		// S13: "once the holder dies at any point … the lock is reported stale within a bounded delay": every sign of
		// life whose times could be read is judged by its age. From the StatTimes call no path reaches the next file or the
		// verdict without the age test having looked at what was read, except where the read failed — a file passed over on
		// other grounds (it is empty: the holder died between truncating and writing it) counts as alive for ever.
		{
			fs13 := []*ssa.Function{isStaleM}
			if allStale != isStaleM {
				fs13 = append(fs13, allStale)
			}
			for _, f := range fs13 {
				n := 0
				allInstrs(f, func(in ssa.Instruction) {
					st, ok := in.(*ssa.Call)
					if !ok || !strings.HasSuffix(calleeFull(&st.Call), ".StatTimes") {
						return
					}
					n++
					key := fname(f) + "/every-readable-sign-is-aged"
					if n > 1 {
						key += "#" + strconv.Itoa(n)
					}
					errs := errResultsOf(st)
					judges := func(j ssa.Instruction) bool {
						cl, ok := j.(*ssa.Call)
						if !ok || staticCallee(&cl.Call) != isStaleF || len(cl.Call.Args) == 0 {
							return false
						}
						for _, s := range sources(cl.Call.Args[0], deriveOpts{}) {
							if ex, ok := s.(*ssa.Extract); ok && ex.Tuple == ssa.Value(st) {
								return true
							}
						}
						return false
					}
					prune := func(b *ssa.BasicBlock, k int) bool {
						ifi, ok := b.Instrs[len(b.Instrs)-1].(*ssa.If)
						if !ok {
							return false
						}
						x, nilSucc, ok := nilTest(ifi)
						if !ok {
							return false
						}
						for _, e := range errs {
							if sameValue(x, e) {
								return k != nilSucc
							}
						}
						return false
					}
					esc := pathPruned(f, st, judges, func(j ssa.Instruction) bool {
						if _, isRet := j.(*ssa.Return); isRet {
							return true
						}
						return j == ssa.Instruction(st)
					}, prune)
					c.check(esc == nil, "S13", key, c.ipos(st), "what StatTimes read is handed to the age test on every path on which the read succeeded",
						"the times read here can be passed over (path to "+iposOrEmpty(c, esc)+") without the age test: a sign of life that is skipped on other grounds than a failed read — an empty heartbeat file, left by a holder that died between truncating and writing it — counts as alive for ever, the lock never becomes stale and is never recovered")
				})
			}
		}
		c.c17AttemptStore()
		// S7: a heartbeat file that cannot be examined says nothing about the holder: it counts as a sign of life.
		okU, whyU, posU := c.c17UnreadableIsAlive(isStaleM, allStale, isStaleF)
		c.check(okU, "S7", fname(isStaleM)+"/unreadable-is-alive", posU, "a heartbeat file that cannot be examined makes the verdict 'not stale'", whyU)
		// nil info is not stale
		nilOK := false
		allInstrs(isStaleF, func(in ssa.Instruction) {
			r, ok := in.(*ssa.Return)
			if !ok {
				return
			}
			if b, isC := constBool(r.Results[0]); isC && !b {
				if onBoolSide(r, true, func(v ssa.Value) bool {
					bo, ok := v.(*ssa.BinOp)
					return ok && bo.Op == token.EQL && (isNilConst(bo.X) || isNilConst(bo.Y))
				}) {
					nilOK = true
				}
			}
		})
		c.check(nilOK, "S3", fname(isStaleF)+"/nil-info", c.pos(isStaleF.Pos()), "missing time info → not stale", "a missing time info is no longer treated as 'not stale'")
	}

	// ---- S4 ----------------------------------------------------------------
	{
		var un *ssa.Call
		allInstrs(rel, func(in ssa.Instruction) {
			if cl, ok := in.(*ssa.Call); ok && staticCallee(&cl.Call) == unlock {
				un = cl
			}
		})
		good := un != nil && onBoolSide(un, true, func(v ssa.Value) bool {
			cl, ok := v.(*ssa.Call)
			return ok && staticCallee(&cl.Call) == isStaleM
		})
		c.check(good, "S4", fname(rel), c.pos(rel.Pos()), "Unlock only on the true side of IsStale()", "ReleaseIfStale can release a lock that IsStale() did not declare stale: a live lock is taken away from its holder")
	}

	// ---- S5 ----------------------------------------------------------------
	// "while the holder is alive the lock is never released by ReleaseIfStale and never taken over": the verdict
	// 'stale' is about the directory that was there when it was read; the removal that follows acts on whatever is
	// there when it runs. Unless the judged directory is first claimed atomically (renamed to a private name), an
	// observer that read 'stale' before another observer took the dead lock over removes that observer's live lock.
	// One obligation per function that removes the lock on the true side of IsStale().
	sites := 0
	for _, f := range c.srcFuncs(fsPkgRel) {
		if !isRemoteLockMethod(f) {
			continue
		}
		var removal *ssa.Call
		allInstrs(f, func(in ssa.Instruction) {
			cl, ok := in.(*ssa.Call)
			if !ok {
				return
			}
			isRemoval := staticCallee(&cl.Call) == unlock
			if n := calleeFull(&cl.Call); hasSuffixAny(n, "VFS).Rm", "VFS).RemoveWithContext", ".Remove", ".RemoveAll") {
				for _, a := range cl.Call.Args {
					if isLockPathValue(a) {
						isRemoval = true
					}
				}
			}
			if isRemoval && onBoolSide(cl, true, func(v ssa.Value) bool {
				sc, ok := v.(*ssa.Call)
				return ok && staticCallee(&sc.Call) == isStaleM
			}) {
				removal = cl
			}
		})
		if removal == nil {
			continue
		}
		sites++
		claimed := false
		for g := range c.reachable([]*ssa.Function{outermost(f)}, false, inPkg(fsPkgRel)) {
			allInstrs(g, func(in ssa.Instruction) {
				if cl, ok := in.(*ssa.Call); ok && hasSuffixAny(calleeFull(&cl.Call), ".Rename", "VFS).Move", "VFS).MoveWithContext") {
					for _, a := range cl.Call.Args {
						if isLockPathValue(a) {
							claimed = true
						}
					}
				}
			})
		}
		c.check(claimed, "S5", fname(outermost(f))+"/stale-removal", c.ipos(removal), "the judged directory is claimed by rename before it is removed",
			outermost(f).Name()+" removes the lock path because IsStale() answered true a moment earlier, with no atomic claim of the directory that was judged: if another observer took the dead lock over in between (it is alive and heartbeating), its live lock is removed and taken over")
	}
	c.Extra["stale_removal_sites"] = sites
}

func nz(f float64) float64 {
	if f == 0 {
		return 1
	}
	return f
}

func instrOf(v any) ssa.Instruction {
	switch x := v.(type) {
	case *ssa.Call:
		if x == nil {
			return nil
		}
		return x
	case *ssa.BinOp:
		if x == nil {
			return nil
		}
		return x
	}
	return nil
}

// c17FalseEdgesOK: every way into block b (looking through blocks that only jump) is the failing side of a call's error
// test or the side where the age test answered "not stale".
func c17FalseEdgesOK(b *ssa.BasicBlock, isStaleF *ssa.Function, seen map[*ssa.BasicBlock]bool) bool {
	if seen[b] {
		return true
	}
	seen[b] = true
	if len(b.Preds) == 0 {
		return false
	}
	for _, p := range b.Preds {
		ifi, ok := p.Instrs[len(p.Instrs)-1].(*ssa.If)
		if !ok {
			// a block that merely jumps here
			if len(p.Instrs) == 1 {
				if !c17FalseEdgesOK(p, isStaleF, seen) {
					return false
				}
				continue
			}
			return false
		}
		side := 0
		if p.Succs[1] == b {
			side = 1
		}
		if x, nilSucc, isNil := nilTest(ifi); isNil && isErrorType(x.Type()) && side != nilSucc {
			if _, fromCall := x.(*ssa.Extract); fromCall {
				continue
			}
			if _, fromCall := x.(*ssa.Call); fromCall {
				continue
			}
		}
		v, ts := boolTest(ifi)
		if cl, isCall := v.(*ssa.Call); isCall && staticCallee(&cl.Call) == isStaleF && side == 1-ts {
			continue
		}
		return false
	}
	return true
}

// c17LoopAllForm: `return true` at r closes a loop over the files in which the age test is called and whose body leaves
// with false as soon as one file is not stale (or cannot be examined).
func c17LoopAllForm(f, isStaleF *ssa.Function, r *ssa.Return) bool {
	var test *ssa.Call
	allInstrs(f, func(in ssa.Instruction) {
		if cl, ok := in.(*ssa.Call); ok && staticCallee(&cl.Call) == isStaleF && inLoop(cl) {
			test = cl
		}
	})
	if test == nil {
		return false
	}
	// the not-stale side of the test leads to a return of false and cannot reach r without a further test
	v := ssa.Value(test)
	for _, b := range f.Blocks {
		ifi, ok := b.Instrs[len(b.Instrs)-1].(*ssa.If)
		if !ok {
			continue
		}
		cv, ts := boolTest(ifi)
		if cv != v {
			continue
		}
		notStale := b.Succs[1-ts]
		// follow plain jumps
		for len(notStale.Instrs) == 1 && len(notStale.Succs) == 1 {
			notStale = notStale.Succs[0]
		}
		ret, isRet := notStale.Instrs[len(notStale.Instrs)-1].(*ssa.Return)
		if !isRet {
			return false
		}
		if bv, isC := constBool(ret.Results[0]); !isC || bv {
			return false
		}
		return !inLoop(r)
	}
	return false
}

// c17UnreadableIsAlive: in the function that judges the files of the lock directory one by one, the failing side of the
// per-file StatTimes leads to the verdict "not stale" — false handed to the combination, or a return of false. A file that
// is skipped (continue) or counted as stale lets a contender take a live lock over when the holder's heartbeat file
// vanishes between the listing and the stat (the holder releases, the next holder's file is not there yet) or when the
// stat fails transiently (ESTALE on NFS).
func (c *Ctx) c17UnreadableIsAlive(isStaleM, combiner, isStaleF *ssa.Function) (bool, string, string) {
	var stat *ssa.Call
	allInstrs(combiner, func(in ssa.Instruction) {
		if cl, ok := in.(*ssa.Call); ok && inLoop(cl) {
			if name, _, isFs := fsMethodCall(cl); isFs && (name == "StatTimes" || name == "Stat" || name == "Lstat") {
				stat = cl
			}
		}
	})
	if stat == nil {
		return false, "the files of the lock directory are no longer examined one by one", c.pos(combiner.Pos())
	}
	errs := errResultsOf(stat)
	if len(errs) == 0 {
		// the error is not even taken: the age test receives a nil info, which it answers with "not stale" (S3/nil-info)
		return true, "", c.ipos(stat)
	}
	// constants handed to the combination: none may say "stale"
	usesAll := false
	constTrue := ""
	allInstrs(combiner, func(in ssa.Instruction) {
		cl, ok := in.(*ssa.Call)
		if !ok {
			return
		}
		if strings.HasSuffix(calleeFull(&cl.Call), "collection.All") {
			usesAll = true
		}
		if calleeFull(&cl.Call) == "builtin.append" && len(cl.Call.Args) == 2 {
			for _, e := range variadicElems(cl.Call.Args[1]) {
				if _, isBool := e.Type().Underlying().(*types.Basic); !isBool {
					continue
				}
				for _, l := range sources(e, deriveOpts{}) {
					if b, isC := constBool(l); isC && b {
						constTrue = c.ipos(cl)
					}
				}
			}
		}
	})
	if usesAll {
		if constTrue != "" {
			return false, "a verdict of 'stale' is handed to the combination at " + constTrue + " without the age having been read: a heartbeat file that cannot be examined counts as stale, and a live lock whose file was just replaced is taken over", constTrue
		}
		// and the failing side must still hand something to the combination: no way round the append back to the loop
		apps := map[ssa.Instruction]bool{}
		allInstrs(combiner, func(in ssa.Instruction) {
			if cl, ok := in.(*ssa.Call); ok && calleeFull(&cl.Call) == "builtin.append" && inLoop(cl) {
				apps[cl] = true
			}
		})
		hdr := loopHeaderOf(stat)
		if len(apps) > 0 && hdr != nil {
			skip := pathPruned(combiner, stat, func(in ssa.Instruction) bool { return apps[in] }, func(in ssa.Instruction) bool { return in.Block() == hdr && in == hdr.Instrs[0] }, nil)
			if skip != nil {
				return false, "a file can be left out of the combination (the loop goes on to the next file without recording a verdict): a heartbeat file that cannot be examined is treated as absent, and a lock whose only file is in that state is reported stale", c.ipos(stat)
			}
		}
		return true, "", c.ipos(stat)
	}
	// early-exit form: the failing side of the stat ends in `return false`
	for _, e := range errs {
		for _, b := range combiner.Blocks {
			ifi, ok := b.Instrs[len(b.Instrs)-1].(*ssa.If)
			if !ok {
				continue
			}
			x, nilSucc, isNil := nilTest(ifi)
			if !isNil || x != e {
				continue
			}
			t := b.Succs[1-nilSucc]
			for len(t.Instrs) == 1 && len(t.Succs) == 1 {
				t = t.Succs[0]
			}
			if r, isRet := t.Instrs[len(t.Instrs)-1].(*ssa.Return); isRet {
				if v, isC := constBool(r.Results[0]); isC && !v {
					return true, "", c.ipos(stat)
				}
			}
			return false, "where the age of a heartbeat file cannot be read (" + c.ipos(stat) + ") the verdict is not 'not stale': the file is skipped or counted as stale, so a lock whose file was removed since the listing (the holder released and the next holder's file is not there yet) or whose stat failed transiently is reported stale and taken over while it is held", c.ipos(ifi)
		}
	}
	return false, "the outcome of reading the age of a heartbeat file (" + c.ipos(stat) + ") is not examined in a recognised way", c.ipos(stat)
}

// c17AttemptStore (S8): "once the holder dies … ReleaseIfStale followed by a new acquire then succeeds" — for every acquire.
// LockWithTimeout runs Lock under parallelisation.RunActionWithTimeoutAndCancelStore, which registers the cancel functions
// of the attempt in the store it is given. Lock → TryLock → (stale, override) ReleaseIfStale → Unlock → cancelStore.Cancel():
// if that is the same store, the attempt cancels itself and the stale lock is never recovered.
func (c *Ctx) c17AttemptStore() {
	f := c.fn(fsPkgRel, "(*RemoteLockFile).LockWithTimeout")
	lock := c.fn(fsPkgRel, "(*RemoteLockFile).Lock")
	if f == nil || lock == nil {
		return
	}
	c.FuncsSeen[fname(f)] = true
	var run *ssa.Call
	allInstrs(f, func(in ssa.Instruction) {
		if cl, ok := in.(*ssa.Call); ok && strings.HasSuffix(calleeFull(&cl.Call), "parallelisation.RunActionWithTimeoutAndCancelStore") {
			run = cl
		}
	})
	key := fname(f)
	if run == nil {
		c.ok("S8", key+"/own-store", c.pos(f.Pos()), "the attempt does not register its contexts in any store")
		c.ok("S8", key+"/failure-cancels", c.pos(f.Pos()), "n/a")
		c.ok("S8", key+"/success-hands-over", c.pos(f.Pos()), "n/a")
		return
	}
	store := run.Call.Args[2]
	isLockStore := func(v ssa.Value) bool {
		_, ok := fieldLoad(resolveValue(v), "RemoteLockFile", "cancelStore")
		return ok
	}
	// does the action reach a Cancel() of the lock's own store?
	reachesCancel := false
	seen := map[*ssa.Function]bool{}
	var walk func(g *ssa.Function, d int)
	walk = func(g *ssa.Function, d int) {
		if g == nil || seen[g] || d > 6 || g.Blocks == nil {
			return
		}
		seen[g] = true
		allInstrs(g, func(in ssa.Instruction) {
			ci, ok := in.(ssa.CallInstruction)
			if !ok {
				return
			}
			cc := ci.Common()
			if strings.HasSuffix(calleeFull(cc), "CancelFunctionStore).Cancel") && len(cc.Args) > 0 && isLockStore(cc.Args[0]) {
				reachesCancel = true
			}
			if h := staticCallee(cc); h != nil && inPkg(fsPkgRel)(h) {
				walk(h, d+1)
			}
		})
	}
	walk(lock, 0)
	c.check(!(isLockStore(store) && reachesCancel), "S8", key+"/own-store", c.ipos(run), "the attempt's contexts are kept in a store the attempt cannot cancel",
		"the contexts of the attempt are registered in the lock's own cancel store, which the attempt itself cancels when it takes over a stale lock (Lock → TryLock → ReleaseIfStale → Unlock → cancelStore.Cancel()): the removal of the stale lock is abandoned and LockWithTimeout returns 'cancelled' — a dead holder's lock is never recovered through LockWithTimeout")
	if isLockStore(store) {
		// nothing to hand over
		c.ok("S8", key+"/failure-cancels", c.ipos(run), "the lock's own store: cancelled by Unlock")
		c.ok("S8", key+"/success-hands-over", c.ipos(run), "the lock's own store")
		return
	}
	// own store: cancelled where the attempt failed; handed to the lock's store where it succeeded
	errs := errResultsOf(run)
	failCancels, successHands := false, false
	allInstrs(f, func(in ssa.Instruction) {
		cl, ok := in.(*ssa.Call)
		if !ok || len(errs) == 0 {
			return
		}
		n := calleeFull(&cl.Call)
		if strings.HasSuffix(n, "CancelFunctionStore).Cancel") && sameValue(cl.Call.Args[0], store) && onNonNilSide(errs[0], cl) {
			failCancels = true
		}
		if strings.HasSuffix(n, "CancelFunctionStore).RegisterCancelFunction") && isLockStore(cl.Call.Args[0]) && onNilSide(errs[0], cl) {
			for _, e := range variadicElems(cl.Call.Args[1]) {
				if mc, isMC := stripConv(e).(*ssa.MakeClosure); isMC {
					// bound method value store.Cancel
					for _, b := range mc.Bindings {
						if sameValue(b, store) {
							successHands = true
						}
					}
				}
			}
		}
	})
	c.check(failCancels, "S8", key+"/failure-cancels", c.ipos(run), "a failed attempt cancels its contexts",
		"where the attempt failed its own store is not cancelled: if Lock succeeded just as the time ran out, the heart beat of a lock nobody holds keeps running — the lock is never stale and never released")
	c.check(successHands, "S8", key+"/success-hands-over", c.ipos(run), "the attempt's store is registered in the lock's store on success",
		"where the attempt succeeded its store is not handed to the lock's cancel store: Unlock() does not stop the heart beat, which goes on writing after the release")
}

// c17JudgedPaths: "" when every path whose age IsStale (and its helper) reads comes from a plain listing of the lock
// directory or is the directory itself; otherwise the position (and reason) of the offending read. Shared by C17/S6 and C01/R7.
func (c *Ctx) c17JudgedPaths(isStaleM, allStale *ssa.Function) string {
	badPath := ""
	for _, f := range []*ssa.Function{isStaleM, allStale} {
		allInstrs(f, func(in ssa.Instruction) {
			cl, ok := in.(*ssa.Call)
			if !ok {
				return
			}
			name, args, isFs := fsMethodCall(in)
			if !isFs || !(name == "StatTimes" || name == "Stat" || name == "Lstat") || len(args) == 0 {
				return
			}
			pth := args[len(args)-1]
			if isLockPathValue(pth) {
				return
			}
			fromListing, fromOwnName := false, false
			notLiteral := ""
			for _, l := range sources(pth, deriveOpts{through: func(n string) bool { return n == "path/filepath.Join" || n == "path/filepath.Clean" }}) {
				switch x := l.(type) {
				case *ssa.Extract:
					if lc, ok := x.Tuple.(*ssa.Call); ok {
						if ln, largs, ok := fsMethodCall(lc); ok && strings.HasPrefix(ln, "Ls") && len(largs) > 0 && isLockPathValue(largs[0]) {
							fromListing = true
						} else if ok {
							notLiteral = ln
						}
					}
				case *ssa.Call:
					if strings.HasSuffix(calleeFull(&x.Call), "RemoteLockFile).heartBeatFile") {
						fromOwnName = true
					}
				case *ssa.Parameter:
					// the helper's list parameter: filled at its call site, where it must come from a literal listing (Ls…) of the lock path
					if _, isSlice := x.Type().Underlying().(*types.Slice); isSlice {
						pi := paramIndex(f, x)
						allInstrs(isStaleM, func(j ssa.Instruction) {
							jc, isCall := j.(*ssa.Call)
							if !isCall || staticCallee(&jc.Call) != f || pi < 0 || pi >= len(jc.Call.Args) {
								return
							}
							for _, ll := range sources(jc.Call.Args[pi], deriveOpts{}) {
								if ex, isEx := ll.(*ssa.Extract); isEx {
									if lc, isLC := ex.Tuple.(*ssa.Call); isLC {
										if ln, largs, isL := fsMethodCall(lc); isL && strings.HasPrefix(ln, "Ls") && len(largs) > 0 && isLockPathValue(largs[0]) {
											fromListing = true
										} else if isL {
											notLiteral = ln
										}
									}
								}
							}
						})
					}
				}
			}
			if fromOwnName || !fromListing {
				badPath = c.ipos(cl)
				if notLiteral != "" {
					badPath += " (the files judged come from " + notLiteral + ", not from a plain listing of the lock directory: a search by pattern reads the lock path — which contains the caller's id — as a pattern)"
				}
			}
		})
	}
	return badPath
}
