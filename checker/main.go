package main

import (
	"flag"
	"fmt"
	"os"
	"path/filepath"
	"runtime/debug"
	"sort"
	"strconv"
	"strings"
	"time"
)

// A property check: runs its rules over a loaded tree, filling c.Obls.
type propCheck struct {
	id          string
	level       string
	explanation string
	run         func(c *Ctx)
	// extra build configurations analysed in the thorough tier
	thoroughConfigs []string
	assumptions     []string
	trustedBase     []string
	// overlayGen adds in-memory files to the tree before loading (e.g. instantiation wrappers)
	overlayGen func(repo string) map[string][]byte
}

var registry = map[string]*propCheck{}

func register(p *propCheck) { registry[p.id] = p }

func main() {
	os.Exit(realMain())
}

func realMain() (code int) {
	defer func() {
		if r := recover(); r != nil {
			fmt.Fprintf(os.Stderr, "ANALYSIS-ERROR: panic: %v\n%s\n", r, debug.Stack())
			code = 2
		}
	}()
	if len(os.Args) < 2 {
		fmt.Fprintln(os.Stderr, "usage: gucheck <property|list> [--tier quick|thorough] [--only key] [--overlay file=replacement]...")
		return 2
	}
	id := os.Args[1]
	if id == "selftest" {
		if len(os.Args) < 3 {
			return 2
		}
		root := envOr("VERIF_ROOT", "/verif")
		repo := envOr("VERIF_REPO", "/repo/utils")
		allOK := true
		for _, p := range os.Args[2:] {
			fmt.Println("selftest", p)
			_, ok := runSelftest(root, repo, p, 6, true)
			allOK = allOK && ok
		}
		if allOK {
			return 0
		}
		return 1
	}
	if id == "list" {
		var ids []string
		for k := range registry {
			ids = append(ids, k)
		}
		sort.Strings(ids)
		fmt.Println(strings.Join(ids, " "))
		return 0
	}
	fs := flag.NewFlagSet("gucheck", flag.ContinueOnError)
	tier := fs.String("tier", envOr("VERIF_TIER", "quick"), "quick|thorough")
	only := fs.String("only", "", "report only this obligation key")
	replay := fs.String("replay", "", "replay file written by an earlier run (its key is re-checked)")
	var overlays multiFlag
	fs.Var(&overlays, "overlay", "path=replacementfile (analyse the tree with path replaced in memory)")
	seedFile := fs.String("seed-file", "", "self-validation child: seed file")
	seedName := fs.String("seed-name", "", "self-validation child: seed name")
	if err := fs.Parse(os.Args[2:]); err != nil {
		return 2
	}
	p := registry[id]
	if p == nil {
		fmt.Fprintf(os.Stderr, "unknown property %q\n", id)
		return 2
	}
	if *tier != "quick" && *tier != "thorough" {
		*tier = "quick"
	}
	root := envOr("VERIF_ROOT", "/verif")
	repo := envOr("VERIF_REPO", "/repo/utils")
	seed, _ := strconv.ParseInt(envOr("VERIF_SEED", "0"), 10, 64)
	if *replay != "" {
		k, err := keyFromReplay(*replay)
		if err != nil {
			fmt.Fprintln(os.Stderr, "cannot read replay:", err)
			return 2
		}
		*only = k
	}
	meta := &runMeta{start: time.Now(), level: p.level, explanation: p.explanation, only: *only, trustedBase: p.trustedBase}
	if p.level == "proof" {
		meta.checkerCmd = "cd /verif && ./check " + id + " --tier " + *tier
	}
	ov := map[string][]byte{}
	for _, o := range overlays {
		i := strings.Index(o, "=")
		if i < 0 {
			return 2
		}
		b, err := os.ReadFile(o[i+1:])
		if err != nil {
			fmt.Fprintln(os.Stderr, err)
			return 2
		}
		path := o[:i]
		if !filepath.IsAbs(path) {
			path = filepath.Join(repo, path)
		}
		ov[path] = b
	}
	mutantMode := false
	if *seedFile != "" {
		sd, err := seedByName(root, *seedFile, *seedName)
		if err != nil {
			fmt.Fprintln(os.Stderr, err)
			return 2
		}
		o, ok, err := overlayFor(repo, sd)
		if err != nil || !ok {
			fmt.Fprintln(os.Stderr, "seed does not apply", err)
			return 2
		}
		for k, v := range o {
			ov[k] = v
		}
		mutantMode = true
		*tier = "quick"
	}
	if p.overlayGen != nil {
		for k, v := range p.overlayGen(repo) {
			ov[k] = v
		}
	}
	configs := []string{"linux/amd64"}
	if *tier == "thorough" {
		configs = append(configs, p.thoroughConfigs...)
	}
	var main *Ctx
	for _, cf := range configs {
		parts := strings.Split(cf, "/")
		c, err := load(repo, loadOpts{goos: parts[0], goarch: parts[1], overlay: ov})
		if err != nil {
			fmt.Fprintln(os.Stderr, "ANALYSIS-ERROR:", err)
			return 2
		}
		c.Prop, c.Tier, c.Seed, c.Root = id, *tier, seed, root
		c.Assumptions = append(c.Assumptions, p.assumptions...)
		if main == nil {
			p.run(c)
			main = c
		} else {
			// secondary configuration: same rules; obligations are keyed with the configuration
			p.run(c)
			for _, o := range c.Obls {
				o.Key = o.Key + "@" + cf
				main.Obls = append(main.Obls, o)
			}
			for _, r := range c.Rules {
				if mr := main.rulesByID[r.ID]; mr != nil {
					// floors are per configuration; a shortfall in a secondary configuration is reported
					if r.Count < r.Floor && !strings.HasPrefix(cf, "linux/") {
						continue // OS-specific files legitimately change counts
					}
					if r.Count < r.Floor {
						main.fatalf("rule %s matched %d (<%d) under %s", r.ID, r.Count, r.Floor, cf)
					}
				}
			}
			main.fatal = append(main.fatal, c.fatal...)
			for k := range c.FuncsSeen {
				main.FuncsSeen[k+"@"+cf] = true
			}
		}
		meta.configs = append(meta.configs, cf)
	}
	if mutantMode {
		return finishMutant(main)
	}
	if *tier == "thorough" && *only == "" {
		res, _ := runSelftest(root, repo, id, 6, false)
		sum := map[string]int{}
		for _, r := range res {
			sum[r.Outcome]++
		}
		meta.selfval = map[string]any{"note": "seeded one-construct mutants must be reported by the expected rule, behaviour-preserving refactors must stay silent; applied in memory (overlay), one process each; the outcome describes the checker, not the property, and does not change the exit status", "summary": sum, "results": res}
	}
	return finish(main, meta)
}

type multiFlag []string

func (m *multiFlag) String() string     { return strings.Join(*m, ",") }
func (m *multiFlag) Set(s string) error { *m = append(*m, s); return nil }

func envOr(k, d string) string {
	if v := os.Getenv(k); v != "" {
		return v
	}
	return d
}
