package main

import (
	"flag"
	"fmt"
	"os"
	"path/filepath"
	"runtime/debug"
	"sort"
	"strconv"
	"strings"
	"time"
)

// A property check: runs its rules over a loaded tree, filling c.Obls.
type propCheck struct {
	id          string
	level       string
	explanation string
	run         func(c *Ctx)
	// extra build configurations analysed in the thorough tier
	thoroughConfigs []string
	assumptions     []string
	trustedBase     []string
}

var registry = map[string]*propCheck{}

func register(p *propCheck) { registry[p.id] = p }

func main() {
	os.Exit(realMain())
}

func realMain() (code int) {
	defer func() {
		if r := recover(); r != nil {
			fmt.Fprintf(os.Stderr, "ANALYSIS-ERROR: panic: %v\n%s\n", r, debug.Stack())
			code = 2
		}
	}()
	if len(os.Args) < 2 {
		fmt.Fprintln(os.Stderr, "usage: gucheck <property|list> [--tier quick|thorough] [--only key] [--overlay file=replacement]...")
		return 2
	}
	id := os.Args[1]
	if id == "list" {
		var ids []string
		for k := range registry {
			ids = append(ids, k)
		}
		sort.Strings(ids)
		fmt.Println(strings.Join(ids, " "))
		return 0
	}
	fs := flag.NewFlagSet("gucheck", flag.ContinueOnError)
	tier := fs.String("tier", envOr("VERIF_TIER", "quick"), "quick|thorough")
	only := fs.String("only", "", "report only this obligation key")
	replay := fs.String("replay", "", "replay file written by an earlier run (its key is re-checked)")
	var overlays multiFlag
	fs.Var(&overlays, "overlay", "path=replacementfile (analyse the tree with path replaced in memory)")
	noEvidence := fs.Bool("no-evidence", false, "do not write evidence (used by self-validation children)")
	if err := fs.Parse(os.Args[2:]); err != nil {
		return 2
	}
	_ = noEvidence
	p := registry[id]
	if p == nil {
		fmt.Fprintf(os.Stderr, "unknown property %q\n", id)
		return 2
	}
	if *tier != "quick" && *tier != "thorough" {
		*tier = "quick"
	}
	root := envOr("VERIF_ROOT", "/verif")
	repo := envOr("VERIF_REPO", "/repo/utils")
	seed, _ := strconv.ParseInt(envOr("VERIF_SEED", "0"), 10, 64)
	if *replay != "" {
		k, err := keyFromReplay(*replay)
		if err != nil {
			fmt.Fprintln(os.Stderr, "cannot read replay:", err)
			return 2
		}
		*only = k
	}
	meta := &runMeta{start: time.Now(), level: p.level, explanation: p.explanation, only: *only, trustedBase: p.trustedBase}
	if p.level == "proof" {
		meta.checkerCmd = "cd /verif && ./check " + id + " --tier " + *tier
	}
	ov := map[string][]byte{}
	for _, o := range overlays {
		i := strings.Index(o, "=")
		if i < 0 {
			return 2
		}
		b, err := os.ReadFile(o[i+1:])
		if err != nil {
			fmt.Fprintln(os.Stderr, err)
			return 2
		}
		path := o[:i]
		if !filepath.IsAbs(path) {
			path = filepath.Join(repo, path)
		}
		ov[path] = b
	}
	configs := []string{"linux/amd64"}
	if *tier == "thorough" {
		configs = append(configs, p.thoroughConfigs...)
	}
	var main *Ctx
	for _, cf := range configs {
		parts := strings.Split(cf, "/")
		c, err := load(repo, loadOpts{goos: parts[0], goarch: parts[1], overlay: ov})
		if err != nil {
			fmt.Fprintln(os.Stderr, "ANALYSIS-ERROR:", err)
			return 2
		}
		c.Prop, c.Tier, c.Seed, c.Root = id, *tier, seed, root
		c.Assumptions = append(c.Assumptions, p.assumptions...)
		if main == nil {
			p.run(c)
			main = c
		} else {
			// secondary configuration: same rules; obligations are keyed with the configuration
			p.run(c)
			for _, o := range c.Obls {
				o.Key = o.Key + "@" + cf
				main.Obls = append(main.Obls, o)
			}
			for _, r := range c.Rules {
				if mr := main.rulesByID[r.ID]; mr != nil {
					// floors are per configuration; a shortfall in a secondary configuration is reported
					if r.Count < r.Floor && !strings.HasPrefix(cf, "linux/") {
						continue // OS-specific files legitimately change counts
					}
					if r.Count < r.Floor {
						main.fatalf("rule %s matched %d (<%d) under %s", r.ID, r.Count, r.Floor, cf)
					}
				}
			}
			main.fatal = append(main.fatal, c.fatal...)
			for k := range c.FuncsSeen {
				main.FuncsSeen[k+"@"+cf] = true
			}
		}
		meta.configs = append(meta.configs, cf)
	}
	return finish(main, meta)
}

type multiFlag []string

func (m *multiFlag) String() string     { return strings.Join(*m, ",") }
func (m *multiFlag) Set(s string) error { *m = append(*m, s); return nil }

func envOr(k, d string) string {
	if v := os.Getenv(k); v != "" {
		return v
	}
	return d
}
