package main

import (
	"go/ast"
	"go/token"
	"go/types"
	"strconv"
	"strings"

	"golang.org/x/tools/go/ssa"
)

func init() {
	register(&propCheck{
		id:          "C19",
		level:       "other",
		explanation: "Static necessary conditions of 'paginators yield every item exactly once, in order; nothing after stop; constructor failures are reported': (E1) in package pagination no return that is reached only where a callee's error was found non-nil returns a nil error (the shadowed-result defect); (E2) AbstractPaginator.HasNext/GetNext test the paginator's context before anything else and the stream paginator only answers through them; (E3) HasNext answers true only where the current page iterator says so or through its own recursion after a successful page fetch; (E8) after a page fetch returns, the context is consulted again before HasNext can answer true (a stop landing during the fetch yields nothing more); (E4) GetNext hands out the current iterator's item and only after HasNext advanced the cursor; (E5) whoever replaces the current page replaces the iterator from that same page; (E6) the context consulted by the gate is the one cancelled by Stop/Close; (E7) the stream paginator gives up only when told the stream is drying up and the grace period test has been made. Decided on SSA; nothing is executed. Not decided: the item sequence itself for arbitrary page partitions (behavioural), liveness of the stream loop.",
		run:         runC19,
		assumptions: []string{
			"page and iterator implementations supplied by the caller honour IStaticPage / IIterator",
		},
	})
}

const pagPkg = "collection/pagination"

func runC19(c *Ctx) {
	c.paginatorContextsDescendFromTheCallers()
	c.rule("E1", "a return reached only on the non-nil side of a test of a callee's error must not return a nil error (constructor failures are reported)", 10)
	c.rule("E9", "in a function that can report an error, the error obtained from a callee goes somewhere: into a return, a call or a store — it is not merely looked at", 12)
	c.rule("E12", "the stream paginator's GetNext looks for further items through the stream paginator's own HasNext (the one that follows future pages), not the embedded paginator's", 1)
	c.rule("E11", "stream paginator: the page asked for its future is the page the paginator is on — no cursor-advancing call lies between reading the current page and using it", 1)
	c.rule("E10", "the polling loop of the stream paginator's HasNext consults the paginator's context in every iteration and answers false once it is done", 1)
	c.rule("E2", "HasNext/GetNext consult the paginator's context first: the DetermineContextError(a.ctx) test dominates every other call, and its failing side answers false / the error", 2)
	c.rule("E3", "HasNext returns true only on the true side of the current iterator's HasNext, or as the result of its own recursion after fetchNextPage succeeded", 2)
	c.rule("E8", "HasNext consults the paginator's context again between the return of a page fetch and any answer that can be true", 1)
	c.rule("E4", "GetNext returns the item of the current page iterator's GetNext, obtained after HasNext() answered true", 2)
	c.rule("E5", "every function that stores AbstractPaginator.currentPage also re-derives currentPageIterator from that page (or clears it) on every path", 1)
	c.rule("E6", "the context stored in AbstractPaginator.ctx is the child context whose cancel function is registered in the store that Stop() cancels; Close() invokes Stop()'s result", 3)
	c.rule("E16", "the future page the stream paginator fetched is installed through the setter that refuses a nil page, or where it was found not nil: 'no page yet' does not cost the paginator the page it is on", 1)
	c.rule("E7", "the stream paginator's HasNext answers true only through AbstractPaginator.HasNext, and ends for lack of items only after IsRunningDry() and the grace-period comparison", 2)

	for _, f := range c.srcFuncs(pagPkg) {
		c.FuncsSeen[fname(f)] = true
		c.errDropRule("E1", f)
		c.errDeadRule("E9", f)
	}
	c.c19Gate()
	c.c19HasNext()
	c.c19GetNext()
	c.c19Cursor()
	c.c19Stop()
	c.c19Stream()
	c.c19StreamStops()
	c.c19GraceReadEveryRound()
	c.c19ConversionsAssertWhatTheyReturn()
	c.c19PagesAreNotComparedAsValues()
	c.c19StreamCurrentPage()
	c.c19StreamGetNext()
	c.c19GraceFromDryUp()
	c.c19NoRewind()
}

// errDeadRule (E9): E1 looks at returns that lie wholly on the failing side of a test. A failure can also vanish without
// such a return: the error is received in a variable of its own (a shadow of the named result), tested, and the function
// carries on to the common return with the outer, still nil, error. What E9 asks is that the value received goes somewhere.
func (c *Ctx) errDeadRule(rule string, f *ssa.Function) {
	res := f.Signature.Results()
	if res.Len() == 0 || !isErrorType(res.At(res.Len()-1).Type()) {
		return
	}
	k := res.Len() - 1
	allInstrs(f, func(in ssa.Instruction) {
		call, ok := in.(*ssa.Call)
		if !ok {
			return
		}
		for _, e := range errResultsOf(call) {
			from := short(calleeFull(&call.Call))
			if from == "" {
				from = "dynamic call"
				if call.Call.Method != nil {
					from += " " + call.Call.Method.Name()
				}
			}
			key := fname(f) + "/err-of:" + from
			if e == ssa.Value(call) && (call.Referrers() == nil || len(*call.Referrers()) == 0) {
				// no use of the value at all: either the result is deliberately not taken (`_ = f()`, a bare call: not this
				// rule's business) or it is assigned to a variable that is overwritten before anything looks at it
				if name := assignedErrName(f, call, 0); name != "" {
					c.violate(rule, key, c.ipos(call), "the error returned by "+from+" is assigned to "+name+" and never looked at: every path from here overwrites "+name+" or leaves without it, so a failure of the callee is lost")
				}
				continue
			}
			if c19ErrorGoesSomewhere(e, f, k, map[ssa.Value]bool{}) {
				c.ok(rule, key, c.ipos(call), "error reported, passed on or stored")
			} else {
				c.violate(rule, key, c.ipos(call), "the error returned by "+from+" is received and at most compared with nil; it reaches no return, call or store: when the callee fails the function carries on and reports success (a variable of the same name as the error result, declared in an inner scope, is the usual way this happens)")
			}
		}
	})
}

// assignedErrName: the name of the variable which result idx of the call is assigned to in the source, "" when the source
// does not take the result (`_ = f()`, `f()`, defer, go).
func assignedErrName(f *ssa.Function, call *ssa.Call, idx int) string {
	syn := f.Syntax()
	if syn == nil {
		return ""
	}
	name := ""
	ast.Inspect(syn, func(n ast.Node) bool {
		as, ok := n.(*ast.AssignStmt)
		if !ok {
			return true
		}
		for i, r := range as.Rhs {
			ce, ok := ast.Unparen(r).(*ast.CallExpr)
			if !ok || ce.Lparen != call.Pos() {
				continue
			}
			k := i
			if len(as.Rhs) == 1 && len(as.Lhs) > 1 {
				k = idx
			} else if len(as.Rhs) != len(as.Lhs) {
				continue
			}
			if k < len(as.Lhs) {
				if id, ok := as.Lhs[k].(*ast.Ident); ok && id.Name != "_" {
					name = id.Name
				}
			}
		}
		return true
	})
	return name
}

// errOverwrittenRule: the narrow half of errDeadRule, for code that legitimately probes (`if _, e := Lstat(p); e == nil && …`)
// and translates (`if err != nil { return fresh }`): an error assigned to a named variable which nothing ever reads — every
// path from the assignment overwrites the variable or leaves without it — is a failure that cannot be reported.
func (c *Ctx) errOverwrittenRule(rule string, f *ssa.Function) {
	allInstrs(f, func(in ssa.Instruction) {
		call, ok := in.(*ssa.Call)
		if !ok {
			return
		}
		for _, e := range errResultsOf(call) {
			from := short(calleeFull(&call.Call))
			if from == "" {
				from = "dynamic call"
				if call.Call.Method != nil {
					from += " " + call.Call.Method.Name()
				}
			}
			key := fname(f) + "/err-of:" + from
			idx := 0
			if ex, ok := e.(*ssa.Extract); ok {
				idx = ex.Index
			}
			if refs := e.Referrers(); refs == nil || len(*refs) == 0 {
				if name := assignedErrName(f, call, idx); name != "" {
					c.violate(rule, key, c.ipos(call), "the error returned by "+from+" is assigned to "+name+" and never looked at: every path from here overwrites "+name+" or leaves without it, so a failure of the callee is lost and the function carries on as if the step had succeeded")
					continue
				}
				c.info(rule, key, c.ipos(call), "result not taken in the source")
				continue
			}
			// read — but by merges only? Then on a path from here into a merge by another edge, carrying another value, the
			// error is replaced without anybody having looked at it (`err = a(); if c { err = b() }; return err`)
			onlyMerged := true
			for _, r := range *e.Referrers() {
				switch r.(type) {
				case *ssa.Phi, *ssa.DebugRef:
				default:
					onlyMerged = false
				}
			}
			bad := ""
			if onlyMerged {
				for _, r := range *e.Referrers() {
					phi, ok := r.(*ssa.Phi)
					if !ok {
						continue
					}
					for j, v := range phi.Edges {
						if v == e || isFreshError(v) {
							continue // replaced by an error made on the spot: a failure either way
						}
						pred := phi.Block().Preds[j]
						// can the definition of e reach the end of pred without going through the merge?
						last := pred.Instrs[len(pred.Instrs)-1]
						reach := call.Block() == pred && instrIndex(call) < len(pred.Instrs)
						if !reach {
							reach = pathAvoiding(call, func(i ssa.Instruction) bool { return i.Block() == phi.Block() }, func(i ssa.Instruction) bool { return i == last }) != nil
						}
						if reach {
							bad = c.ipos(last)
						}
					}
				}
			}
			// the same through a variable kept in memory (a named result of a function with deferred calls): a path from the
			// store of e to another store into the same variable with no load in between
			if bad == "" {
				for _, r := range *e.Referrers() {
					st, ok := r.(*ssa.Store)
					if !ok || st.Val != e {
						continue
					}
					a, ok := st.Addr.(*ssa.Alloc)
					if !ok {
						continue
					}
					captured := false
					for _, ar := range *a.Referrers() {
						if _, isMC := ar.(*ssa.MakeClosure); isMC {
							captured = true
						}
					}
					if captured {
						continue
					}
					hit := pathAvoiding(st, func(i ssa.Instruction) bool {
						u, ok := i.(*ssa.UnOp)
						return ok && u.Op == token.MUL && u.X == ssa.Value(a)
					}, func(i ssa.Instruction) bool {
						s2, ok := i.(*ssa.Store)
						return ok && s2 != st && s2.Addr == ssa.Value(a) && !isFreshError(s2.Val) && s2.Val != e
					})
					if hit != nil {
						bad = c.ipos(hit)
					}
				}
			}
			if bad != "" {
				c.violate(rule, key, c.ipos(call), "the error returned by "+from+" is only ever merged with other values: on the path that leaves "+bad+" another value takes its place and nobody has looked at it — a failure of this step is covered by the outcome of the next one")
				continue
			}
			c.ok(rule, key, c.ipos(call), "error value read")
		}
	})
}

func c19ErrorGoesSomewhere(v ssa.Value, f *ssa.Function, k int, seen map[ssa.Value]bool) bool {
	if seen[v] {
		return false
	}
	seen[v] = true
	refs := v.Referrers()
	if refs == nil {
		return false
	}
	for _, r := range *refs {
		switch x := r.(type) {
		case *ssa.Return:
			return true
		case *ssa.Store:
			if x.Val == v {
				if a, ok := x.Addr.(*ssa.Alloc); ok {
					// a local: somewhere only if the local is read by something that goes somewhere
					for _, ar := range *a.Referrers() {
						if u, ok := ar.(*ssa.UnOp); ok && c19ErrorGoesSomewhere(u, f, k, seen) {
							return true
						}
					}
					// named result spilled because of a defer: the return reads it implicitly
					if f.Recover != nil {
						return true
					}
					continue
				}
				return true
			}
		case ssa.CallInstruction:
			return true
		case *ssa.Phi:
			if c19ErrorGoesSomewhere(x, f, k, seen) {
				return true
			}
		case *ssa.MakeInterface:
			if c19ErrorGoesSomewhere(x, f, k, seen) {
				return true
			}
		case *ssa.ChangeInterface:
			if c19ErrorGoesSomewhere(x, f, k, seen) {
				return true
			}
		case *ssa.MakeClosure:
			return true
		}
	}
	return false
}

// errDropRule: see E1.
func (c *Ctx) errDropRule(rule string, f *ssa.Function) {
	res := f.Signature.Results()
	if res.Len() == 0 {
		return
	}
	k := res.Len() - 1
	if !isErrorType(res.At(k).Type()) {
		return
	}
	// error tests in f
	type test struct {
		blk     *ssa.BasicBlock
		nonNil  int
		v       ssa.Value
		fromFun string
	}
	var tests []test
	for _, b := range f.Blocks {
		if len(b.Instrs) == 0 {
			continue
		}
		ifi, ok := b.Instrs[len(b.Instrs)-1].(*ssa.If)
		if !ok {
			continue
		}
		x, nilSucc, ok := nilTest(ifi)
		if !ok || !isErrorType(x.Type()) {
			// a classification of an error against kinds (Any(err, ErrInvalid), errors.Is(err, k)) is a test of that error too:
			// on its true side the error is not nil
			v, ts := boolTest(ifi)
			cl, isCall := v.(*ssa.Call)
			if !isCall || len(cl.Call.Args) < 2 {
				continue
			}
			n := calleeFull(&cl.Call)
			if !(strings.HasSuffix(n, "commonerrors.Any") || n == "errors.Is") || !isErrorType(cl.Call.Args[0].Type()) {
				continue
			}
			withNil := false
			if n != "errors.Is" {
				for _, e := range variadicElems(cl.Call.Args[1]) {
					if isNilConst(e) {
						withNil = true
					}
				}
			}
			if withNil {
				continue
			}
			x, nilSucc, ok = cl.Call.Args[0], 1-ts, true
		}
		// only errors that come out of a call
		from := ""
		for _, l := range sources(x, deriveOpts{}) {
			switch y := l.(type) {
			case *ssa.Extract:
				if call, ok := y.Tuple.(*ssa.Call); ok {
					from = short(calleeFull(&call.Call))
					if from == "" {
						from = "dynamic call"
					}
				}
			case *ssa.Call:
				from = short(calleeFull(&y.Call))
				if from == "" {
					from = "dynamic call"
				}
			}
		}
		if from == "" {
			continue
		}
		tests = append(tests, test{b, 1 - nilSucc, x, from})
	}
	for _, t := range tests {
		// returns inside the region only reachable through the non-nil edge, before any re-merge
		n := 0
		for _, b := range f.Blocks {
			if len(b.Instrs) == 0 {
				continue
			}
			r, ok := b.Instrs[len(b.Instrs)-1].(*ssa.Return)
			if !ok || !edgeDominates(t.blk, t.nonNil, b) {
				continue
			}
			// a failure that was looked at and classified (IsPathNotExist(err), commonerrors.Any(err, …), errors.Is(err, …)) before
			// this return is a handled failure, not a dropped one
			handled := onBoolSide(r, true, func(v ssa.Value) bool {
				cl, isCall := v.(*ssa.Call)
				if !isCall {
					return false
				}
				takes := false
				for _, a := range cl.Call.Args {
					if sameValue(a, t.v) || resolveValue(a) == resolveValue(t.v) {
						takes = true
					}
				}
				if !takes {
					return false
				}
				// … and the classification is of the kind "there is nothing (more) there": not found, end of stream, skip
				// this directory. A failure classified as anything else (invalid, conflict, …) and answered with success
				// is a failure swallowed.
				switch n := calleeFull(&cl.Call); {
				case strings.HasSuffix(n, "filesystem.IsPathNotExist"), n == "os.IsNotExist":
					return true
				case strings.HasSuffix(n, "commonerrors.Any"), n == "errors.Is", strings.HasSuffix(n, "commonerrors.None"):
					var kinds []ssa.Value
					if n == "errors.Is" {
						kinds = []ssa.Value{cl.Call.Args[1]}
					} else if len(cl.Call.Args) > 1 {
						kinds = variadicElems(cl.Call.Args[1])
					}
					if len(kinds) == 0 {
						return false
					}
					for _, k := range kinds {
						u, ok := stripConv(k).(*ssa.UnOp)
						if !ok {
							return false
						}
						g, ok := u.X.(*ssa.Global)
						if !ok {
							return false
						}
						switch g.Name() {
						case "ErrNotFound", "ErrNotExist", "ErrPathNotExist", "SkipDir", "SkipAll", "EOF", "ErrEOF", "ErrEmpty", "ErrFileNotFound":
						default:
							return false
						}
					}
					return true
				}
				// another predicate of the module over the error: accepted as before
				return !strings.Contains(calleeFull(&cl.Call), "commonerrors.")
			})
			if handled {
				continue
			}
			n++
			allNil := true
			for _, l := range sources(r.Results[k], deriveOpts{through: func(string) bool { return false }}) {
				if isNilConst(l) {
					continue
				}
				if u, ok := l.(*ssa.UnOp); ok {
					if a, ok := u.X.(*ssa.Alloc); ok {
						if st, _ := reachingStores(u, a); len(st) == 0 {
							continue // zero value of a local
						}
					}
				}
				// another error, which this return can only be reached with after it was found nil
				if l != t.v && isErrorType(l.Type()) && onNilSide(l, r) {
					continue
				}
				allNil = false
			}
			key := fname(f) + "/err-of:" + t.fromFun
			if allNil {
				c.violate(rule, key, c.ipos(r), "the error returned by "+t.fromFun+" was found non-nil, yet this return yields a nil error: the failure is swallowed and the caller receives a nil result with no error")
			} else {
				c.ok(rule, key, c.ipos(r), "error propagated")
			}
		}
	}
}

func isCtxFieldLoad(v ssa.Value) bool {
	_, ok := fieldLoad(v, "AbstractPaginator", "ctx")
	return ok
}

const detCtxErr = modPath + "/parallelisation.DetermineContextError"

func (c *Ctx) c19Gate() {
	for _, name := range []string{"(*AbstractPaginator).HasNext", "(*AbstractPaginator).GetNext"} {
		f := c.fn(pagPkg, name)
		if f == nil {
			continue
		}
		var gate *ssa.Call
		allInstrs(f, func(in ssa.Instruction) {
			if call, ok := in.(*ssa.Call); ok && calleeFull(&call.Call) == detCtxErr && len(call.Call.Args) == 1 && isCtxFieldLoad(call.Call.Args[0]) {
				if gate == nil {
					gate = call
				}
			}
		})
		if gate == nil {
			c.violate("E2", fname(f), c.pos(f.Pos()), "no test of the paginator's own context: items keep coming after Stop/Close/cancellation")
			continue
		}
		bad := ""
		allInstrs(f, func(in ssa.Instruction) {
			if call, ok := in.(*ssa.Call); ok && call != gate && !dominates(gate, call) {
				bad = c.ipos(call) + " " + short(calleeFull(&call.Call))
			}
		})
		if bad != "" {
			c.violate("E2", fname(f), c.ipos(gate), "call "+bad+" is not dominated by the context test")
			continue
		}
		// failing side must leave the function without touching the cursor: every
		// other call must be on the nil side of the gate's result
		unguarded := ""
		allInstrs(f, func(in ssa.Instruction) {
			if call, ok := in.(*ssa.Call); ok && call != gate && !onNilSide(gate, call) {
				unguarded = c.ipos(call) + " " + short(calleeFull(&call.Call))
			}
		})
		c.check(unguarded == "", "E2", fname(f), c.ipos(gate), "context test first; everything else on its nil side",
			"call "+unguarded+" can execute although the context test failed")
	}
}

func isIfaceInvoke(v ssa.Value, iface, method string) (*ssa.Call, bool) {
	call, ok := v.(*ssa.Call)
	if !ok || !call.Call.IsInvoke() || call.Call.Method.Name() != method {
		return nil, false
	}
	if iface != "" {
		if n, ok := types.Unalias(call.Call.Value.Type()).(*types.Named); !ok || n.Obj().Name() != iface {
			return nil, false
		}
	}
	return call, true
}

func (c *Ctx) c19HasNext() {
	f := c.fn(pagPkg, "(*AbstractPaginator).HasNext")
	if f == nil {
		return
	}
	fetchNext := c.fn(pagPkg, "(*AbstractPaginator).fetchNextPage")
	for _, b := range f.Blocks {
		r, ok := b.Instrs[len(b.Instrs)-1].(*ssa.Return)
		if !ok {
			continue
		}
		for _, l := range sources(r.Results[0], deriveOpts{}) {
			key := fname(f) + "/return"
			if bv, ok := constBool(l); ok {
				if !bv {
					c.ok("E3", key+":false", c.ipos(r), "answers false")
					continue
				}
				good := onBoolSide(r, true, func(v ssa.Value) bool {
					call, ok := isIfaceInvoke(v, "IIterator", "HasNext")
					if !ok {
						return false
					}
					// the iterator is the paginator's current one
					for _, s := range sources(call.Call.Value, deriveOpts{}) {
						if ex, ok := s.(*ssa.Extract); ok {
							if cl, ok := ex.Tuple.(*ssa.Call); ok && strings.HasSuffix(calleeFull(&cl.Call), ".FetchCurrentPageIterator") {
								return true
							}
						}
						if _, ok := fieldLoad(s, "AbstractPaginator", "currentPageIterator"); ok {
							return true
						}
					}
					return false
				})
				c.check(good, "E3", key+":true", c.ipos(r), "true only where the current iterator has an item",
					"answers true without the current page iterator having said so (an empty or exhausted page makes the following GetNext fail or skip)")
				continue
			}
			if call, ok := l.(*ssa.Call); ok && staticCallee(&call.Call) == f {
				// recursion: after a successful fetchNextPage
				good := false
				allInstrs(f, func(in ssa.Instruction) {
					if fc, ok := in.(*ssa.Call); ok && staticCallee(&fc.Call) == fetchNext && dominates(fc, call) && onNilSide(fc, call) {
						good = true
					}
				})
				c.check(good, "E3", key+":recursion", c.ipos(r), "recursion after fetchNextPage succeeded",
					"recursive answer not preceded by a successful fetchNextPage")
				continue
			}
			c.violate("E3", key+":other", c.ipos(r), "HasNext's answer comes from "+l.String()+", neither the current iterator nor the recursion")
		}
	}
	// E8: a page fetch can take arbitrarily long; Stop/Close/cancellation landing during it must be noticed before
	// 'true' is answered. Between the return of fetchNextPage and any answer that can be true the paginator's
	// context is consulted again (directly, or through the recursion whose first act it is).
	allInstrs(f, func(in ssa.Instruction) {
		fc, ok := in.(*ssa.Call)
		if !ok || staticCallee(&fc.Call) != fetchNext {
			return
		}
		hit := pathAvoiding(fc, func(i ssa.Instruction) bool {
			call, ok := i.(*ssa.Call)
			if !ok {
				return false
			}
			if staticCallee(&call.Call) == f {
				return true
			}
			return calleeFull(&call.Call) == detCtxErr && len(call.Call.Args) == 1 && isCtxFieldLoad(call.Call.Args[0])
		}, func(i ssa.Instruction) bool {
			r, ok := i.(*ssa.Return)
			if !ok {
				return false
			}
			for _, l := range sources(r.Results[0], deriveOpts{}) {
				if bv, isC := constBool(l); !isC || bv {
					return true
				}
			}
			return false
		})
		key := fname(f) + "/recheck-after-fetch"
		if hit != nil {
			c.violate("E8", key, c.ipos(hit), "after fetchNextPage() at "+c.ipos(fc)+" returns, this answer can be true without the paginator's context having been consulted again: a Stop/Close/cancellation that lands while the page is being fetched is not noticed and one more item is yielded")
		} else {
			c.ok("E8", key, c.ipos(fc), "the context is consulted again (recursion or explicit test) before any answer that can be true")
		}
	})
	// the page advance asks the current page first and installs what the fetcher returned
	if fetchNext != nil {
		var set, fetch *ssa.Call
		allInstrs(fetchNext, func(in ssa.Instruction) {
			if call, ok := in.(*ssa.Call); ok {
				n := calleeFull(&call.Call)
				if strings.HasSuffix(n, ".setCurrentPage") || strings.HasSuffix(n, ".SetCurrentPage") {
					set = call
				}
				if strings.HasSuffix(n, ".FetchNextPage") {
					fetch = call
				}
			}
		})
		good := set != nil && fetch != nil && dominates(fetch, set)
		if good {
			good = false
			for _, l := range sources(set.Call.Args[len(set.Call.Args)-1], deriveOpts{}) {
				if ex, ok := l.(*ssa.Extract); ok && ex.Tuple == ssa.Value(fetch) && ex.Index == 0 {
					good = true
				}
			}
			// the page handed to the fetcher is the current page
			cur := false
			for _, l := range sources(fetch.Call.Args[len(fetch.Call.Args)-1], deriveOpts{}) {
				if ex, ok := l.(*ssa.Extract); ok {
					if cl, ok := ex.Tuple.(*ssa.Call); ok && strings.HasSuffix(calleeFull(&cl.Call), ".FetchCurrentPage") {
						cur = true
					}
				}
			}
			good = good && cur && onNilSide(errResultsOf(fetch)[0], set)
		}
		pos := c.pos(fetchNext.Pos())
		c.check(good, "E3", fname(fetchNext)+"/advance", pos, "next page fetched from the current page and installed on success",
			"fetchNextPage does not install exactly the page fetched from the current page (pages skipped or repeated)")
	}
}

func (c *Ctx) c19GetNext() {
	f := c.fn(pagPkg, "(*AbstractPaginator).GetNext")
	hn := c.fn(pagPkg, "(*AbstractPaginator).HasNext")
	if f == nil || hn == nil {
		return
	}
	var itemCall *ssa.Call
	allInstrs(f, func(in ssa.Instruction) {
		if call, ok := in.(*ssa.Call); ok {
			if cl, ok := isIfaceInvoke(call, "IIterator", "GetNext"); ok {
				itemCall = cl
			}
		}
	})
	if itemCall == nil {
		c.violate("E4", fname(f)+"/item", c.pos(f.Pos()), "GetNext no longer takes the item from the page iterator")
		return
	}
	guarded := onBoolSide(itemCall, true, func(v ssa.Value) bool {
		call, ok := v.(*ssa.Call)
		return ok && staticCallee(&call.Call) == hn
	})
	c.check(guarded, "E4", fname(f)+"/advance", c.ipos(itemCall), "item taken on the true side of a.HasNext()",
		"the iterator's GetNext is not guarded by a.HasNext(): GetNext without HasNext fails at a page boundary instead of moving to the next page")
	fromCur := false
	for _, s := range sources(itemCall.Call.Value, deriveOpts{}) {
		if ex, ok := s.(*ssa.Extract); ok {
			if cl, ok := ex.Tuple.(*ssa.Call); ok && strings.HasSuffix(calleeFull(&cl.Call), ".FetchCurrentPageIterator") && dominatesAfterHasNext(cl, f, hn) {
				fromCur = true
			}
		}
	}
	c.check(fromCur, "E4", fname(f)+"/iterator", c.ipos(itemCall), "iterator read after HasNext moved the cursor",
		"the iterator used was read before HasNext() could advance to the next page (stale iterator)")
	// returned item is the iterator's
	ret := false
	allInstrs(f, func(in ssa.Instruction) {
		r, ok := in.(*ssa.Return)
		if !ok || !dominates(itemCall, r) {
			return
		}
		for _, l := range sources(r.Results[0], deriveOpts{}) {
			if ex, ok := l.(*ssa.Extract); ok && ex.Tuple == ssa.Value(itemCall) && ex.Index == 0 {
				ret = true
			}
		}
	})
	c.check(ret, "E4", fname(f)+"/result", c.ipos(itemCall), "the iterator's item is the result", "the item returned is not the one the iterator produced")
}

func dominatesAfterHasNext(cl *ssa.Call, f, hn *ssa.Function) bool {
	ok := false
	allInstrs(f, func(in ssa.Instruction) {
		if call, isCall := in.(*ssa.Call); isCall && staticCallee(&call.Call) == hn && dominates(call, cl) {
			ok = true
		}
	})
	return ok
}

func (c *Ctx) c19Cursor() {
	n := 0
	for _, f := range c.srcFuncs(pagPkg) {
		var stores []*ssa.Store
		allInstrs(f, func(in ssa.Instruction) {
			if st, ok := in.(*ssa.Store); ok {
				if fa, ok := st.Addr.(*ssa.FieldAddr); ok {
					if _, ok := fieldAddrOf(fa, "AbstractPaginator", "currentPage"); ok {
						if _, isAlloc := fa.X.(*ssa.Alloc); !isAlloc { // composite literal initialisation is not a cursor move
							stores = append(stores, st)
						}
					}
				}
			}
		})
		for _, st := range stores {
			n++
			// every path from the store to a return stores currentPageIterator
			isItStore := func(in ssa.Instruction) bool {
				s, ok := in.(*ssa.Store)
				if !ok {
					return false
				}
				fa, ok := s.Addr.(*ssa.FieldAddr)
				if !ok {
					return false
				}
				_, ok = fieldAddrOf(fa, "AbstractPaginator", "currentPageIterator")
				return ok
			}
			esc := pathAvoiding(st, isItStore, isReturn)
			if esc != nil {
				c.violate("E5", fname(f), c.ipos(st), "currentPage replaced but a path to the return at "+c.ipos(esc)+" keeps the old page's iterator")
				continue
			}
			// non-nil iterator values stored derive from GetItemIterator of the page stored
			good := true
			allInstrs(f, func(in ssa.Instruction) {
				if !isItStore(in) {
					return
				}
				s := in.(*ssa.Store)
				for _, l := range sources(s.Val, deriveOpts{}) {
					if isNilConst(l) {
						continue
					}
					ex, ok := l.(*ssa.Extract)
					if !ok {
						good = false
						continue
					}
					cl, ok := ex.Tuple.(*ssa.Call)
					if !ok || !cl.Call.IsInvoke() || cl.Call.Method.Name() != "GetItemIterator" || stripConv(cl.Call.Value) != stripConv(st.Val) {
						good = false
					}
				}
			})
			c.check(good, "E5", fname(f), c.ipos(st), "iterator re-derived from the page just installed", "the iterator installed does not come from GetItemIterator() of the page installed")
		}
	}
	if n == 0 {
		c.fatalf("C19/E5: no store to AbstractPaginator.currentPage found — anchor lost")
	}
}

func (c *Ctx) c19Stop() {
	f := c.fn(pagPkg, "NewAbstractPaginator")
	if f != nil {
		var withCancel, register *ssa.Call
		var ctxStore, storeStore *ssa.Store
		allInstrs(f, func(in ssa.Instruction) {
			switch x := in.(type) {
			case *ssa.Call:
				n := calleeFull(&x.Call)
				if n == "context.WithCancel" {
					withCancel = x
				}
				if strings.HasSuffix(n, "CancelFunctionStore).RegisterCancelFunction") {
					register = x
				}
			case *ssa.Store:
				if fa, ok := x.Addr.(*ssa.FieldAddr); ok {
					if _, ok := fieldAddrOf(fa, "AbstractPaginator", "ctx"); ok {
						ctxStore = x
					}
					if _, ok := fieldAddrOf(fa, "AbstractPaginator", "cancellationStore"); ok {
						storeStore = x
					}
				}
			}
		})
		good := withCancel != nil && register != nil && ctxStore != nil && storeStore != nil
		why := "constructor no longer wires context, cancel function and store together"
		if good {
			ex, ok := ctxStore.Val.(*ssa.Extract)
			if !ok || ex.Tuple != ssa.Value(withCancel) || ex.Index != 0 {
				good, why = false, "the context kept in the paginator is not the cancellable child context: Stop()/Close() cannot stop the iteration"
			}
		}
		if good {
			okArg := false
			for _, a := range register.Call.Args[1:] {
				for _, l := range sources(a, deriveOpts{}) {
					if ex, ok := l.(*ssa.Extract); ok && ex.Tuple == ssa.Value(withCancel) && ex.Index == 1 {
						okArg = true
					}
				}
			}
			if !okArg || stripConv(register.Call.Args[0]) != stripConv(storeStore.Val) {
				good, why = false, "the cancel function of the paginator's context is not registered in the store that Stop() cancels"
			}
		}
		c.check(good, "E6", fname(f), c.pos(f.Pos()), "ctx = child of WithCancel; its cancel registered in the paginator's store", why)
	}
	if g := c.fn(pagPkg, "(*AbstractPaginator).Stop"); g != nil {
		good := false
		allInstrs(g, func(in ssa.Instruction) {
			r, ok := in.(*ssa.Return)
			if !ok {
				return
			}
			for _, l := range sources(r.Results[0], deriveOpts{}) {
				if mc, ok := l.(*ssa.MakeClosure); ok {
					if fn, ok := mc.Fn.(*ssa.Function); ok && strings.Contains(fn.Name(), "Cancel") && len(mc.Bindings) == 1 {
						if _, ok := fieldLoad(mc.Bindings[0], "AbstractPaginator", "cancellationStore"); ok {
							good = true
						}
					}
				}
			}
		})
		c.check(good, "E6", fname(g), c.pos(g.Pos()), "Stop returns cancellationStore.Cancel", "Stop() does not return the Cancel of the paginator's own store")
	}
	if g := c.fn(pagPkg, "(*AbstractPaginator).Close"); g != nil {
		stop := c.fn(pagPkg, "(*AbstractPaginator).Stop")
		good := false
		allInstrs(g, func(in ssa.Instruction) {
			call, ok := in.(*ssa.Call)
			if !ok {
				return
			}
			if inner, ok := call.Call.Value.(*ssa.Call); ok && staticCallee(&inner.Call) == stop {
				good = true
			}
		})
		c.check(good, "E6", fname(g), c.pos(g.Pos()), "Close invokes Stop()'s cancel", "Close() does not invoke the cancel function returned by Stop()")
	}
}

func (c *Ctx) c19Stream() {
	f := c.fn(pagPkg, "(*AbstractStreamPaginator).HasNext")
	baseHN := c.fn(pagPkg, "(*AbstractPaginator).HasNext")
	if f == nil || baseHN == nil {
		return
	}
	// true answers
	for _, b := range f.Blocks {
		r, ok := b.Instrs[len(b.Instrs)-1].(*ssa.Return)
		if !ok {
			continue
		}
		for _, l := range sources(r.Results[0], deriveOpts{}) {
			bv, isConst := constBool(l)
			if isConst && !bv {
				continue
			}
			good := false
			if isConst && bv {
				good = onBoolSide(r, true, func(v ssa.Value) bool {
					call, ok := v.(*ssa.Call)
					return ok && staticCallee(&call.Call) == baseHN
				})
			} else if call, ok := l.(*ssa.Call); ok && staticCallee(&call.Call) == baseHN {
				good = true
			}
			c.check(good, "E7", fname(f)+"/true", c.ipos(r), "true only through AbstractPaginator.HasNext (context gate, cursor advance)",
				"the stream paginator answers true without AbstractPaginator.HasNext having found an item")
		}
	}
	// the give-up return: the comparison with timeOut is on the true side of IsRunningDry()
	var cmp *ssa.BinOp
	allInstrs(f, func(in ssa.Instruction) {
		if b, ok := in.(*ssa.BinOp); ok {
			for _, op := range []ssa.Value{b.X, b.Y} {
				if _, ok := fieldLoad(op, "AbstractStreamPaginator", "timeOut"); ok {
					cmp = b
				}
			}
		}
	})
	if cmp == nil {
		c.violate("E7", fname(f)+"/dry-up", c.pos(f.Pos()), "no comparison with the grace period (timeOut) left: the stream either never ends or ends at once")
		return
	}
	dry := onBoolSide(cmp, true, func(v ssa.Value) bool {
		call, ok := v.(*ssa.Call)
		return ok && strings.HasSuffix(calleeFull(&call.Call), ".IsRunningDry")
	})
	c.check(dry, "E7", fname(f)+"/dry-up", c.ipos(cmp), "grace-period test only once the stream was declared drying up",
		"the grace-period give-up does not depend on IsRunningDry(): a stream that has not been told to dry up stops yielding future pages")
	// the reference instant of the grace period keeps moving while the stream has not been told to dry up:
	// from the "not running dry" side every path to the fetch of the future page refreshes timeReachLast
	isRefresh := func(in ssa.Instruction) bool {
		cl, ok := in.(*ssa.Call)
		if !ok || !strings.HasSuffix(calleeFull(&cl.Call), "atomic.Time).Store") {
			return false
		}
		_, ok = fieldLoad(cl.Call.Args[0], "AbstractStreamPaginator", "timeReachLast")
		return ok
	}
	var fetchFuture ssa.Instruction
	allInstrs(f, func(in ssa.Instruction) {
		if cl, ok := in.(*ssa.Call); ok && strings.HasSuffix(calleeFull(&cl.Call), ".FetchFuturePage") {
			fetchFuture = cl
		}
	})
	refreshed := fetchFuture != nil
	nDry := 0
	for _, b := range f.Blocks {
		ifi, ok := b.Instrs[len(b.Instrs)-1].(*ssa.If)
		if !ok {
			continue
		}
		v, ts := boolTest(ifi)
		cl, ok := v.(*ssa.Call)
		if !ok || !strings.HasSuffix(calleeFull(&cl.Call), ".IsRunningDry") {
			continue
		}
		nDry++
		notDry := b.Succs[1-ts]
		first := notDry.Instrs[0]
		if isRefresh(first) {
			continue
		}
		if first == fetchFuture || pathAvoiding(first, isRefresh, func(in ssa.Instruction) bool { return in == fetchFuture }) != nil {
			refreshed = false
		}
	}
	c.check(refreshed && nDry > 0, "E7", fname(f)+"/grace-from-dry-up", c.pos(f.Pos()), "timeReachLast is refreshed on every pass while the stream is not declared dry",
		"while the stream has not been told to dry up the reference instant of the grace period is not refreshed: the grace period is then counted from the last item seen instead of from DryUp(), and items of future pages arriving within the grace period are never yielded")
	// and the future page fetched is installed
	var fetch, set *ssa.Call
	unguarded := false
	allInstrs(f, func(in ssa.Instruction) {
		if call, ok := in.(*ssa.Call); ok {
			n := calleeFull(&call.Call)
			if strings.HasSuffix(n, ".FetchFuturePage") {
				fetch = call
			}
			if strings.HasSuffix(n, ".SetCurrentPage") {
				set = call
			}
			if strings.HasSuffix(n, ".setCurrentPage") && set == nil {
				set, unguarded = call, true
			}
		}
	})
	good := fetch != nil && set != nil && dominates(fetch, set)
	var future ssa.Value
	if good {
		good = false
		for _, l := range sources(set.Call.Args[len(set.Call.Args)-1], deriveOpts{}) {
			if ex, ok := l.(*ssa.Extract); ok && ex.Tuple == ssa.Value(fetch) && ex.Index == 0 {
				good, future = true, ex
			}
		}
	}
	c.check(good, "E7", fname(f)+"/future", c.pos(f.Pos()), "future page fetched and installed as current", "the future page fetched is not installed as the current page")
	// E16: "keeps yielding items of future pages until it has been told the stream is drying up": a fetch that answers "no
	// page yet" (nil, nil) must not cost the paginator the page it is on. The exported setter refuses a nil page; the
	// internal one installs it — no page, no iterator, for good.
	if good {
		okNil := !unguarded
		if unguarded && future != nil {
			okNil = onNonNilSide(future, set)
		}
		c.check(okNil, "E16", fname(f)+"/no-page-yet-is-not-a-page", c.ipos(set), "the future page is installed through the setter that refuses nil (or where it was found not nil)",
			"the future page is installed with the internal setter, which accepts nil: a fetch that answers 'nothing published yet' (nil, nil) replaces the current page by no page at all — the paginator is dead from then on, the items of the future pages are never yielded although the stream was never told to dry up")
	}

	// stream GetNext returns AbstractPaginator.GetNext's item
	g := c.fn(pagPkg, "(*AbstractStreamPaginator).GetNext")
	baseGN := c.fn(pagPkg, "(*AbstractPaginator).GetNext")
	if g != nil && baseGN != nil {
		good := true
		n := 0
		allInstrs(g, func(in ssa.Instruction) {
			r, ok := in.(*ssa.Return)
			if !ok {
				return
			}
			for _, l := range sources(r.Results[0], deriveOpts{}) {
				if isNilConst(l) {
					continue
				}
				n++
				ex, ok := l.(*ssa.Extract)
				if !ok {
					good = false
					continue
				}
				cl, ok := ex.Tuple.(*ssa.Call)
				if !ok || staticCallee(&cl.Call) != baseGN {
					good = false
				}
			}
		})
		c.check(good && n > 0, "E7", fname(g)+"/item", c.pos(g.Pos()), "items only from AbstractPaginator.GetNext", "the stream paginator returns an item that does not come from AbstractPaginator.GetNext")
	}
}

// c19StreamStops (E10): "after Stop/Close or cancellation nothing more is yielded" — and the caller is told so. The loop of
// the stream paginator's HasNext ends when an item shows up, when the stream has no future, when a fetch fails or when the
// grace period of a drying stream is over. After Stop() none of these need ever happen (a fetch function that does not look
// at the context, a page whose HasFuture() stays true), and the sleeps return at once: the loop must test the context itself.
func (c *Ctx) c19StreamStops() {
	f := c.fn(pagPkg, "(*AbstractStreamPaginator).HasNext")
	if f == nil {
		return
	}
	key := fname(f) + "/loop-consults-context"
	var gates []*ssa.Call
	allInstrs(f, func(in ssa.Instruction) {
		cl, ok := in.(*ssa.Call)
		if !ok || !inLoop(cl) {
			return
		}
		var ctxV ssa.Value
		switch {
		case calleeFull(&cl.Call) == detCtxErr:
			ctxV = cl.Call.Args[0]
		case cl.Call.IsInvoke() && cl.Call.Method.Name() == "Err" && strings.HasSuffix(cl.Call.Value.Type().String(), "context.Context"):
			ctxV = cl.Call.Value
		default:
			return
		}
		// the context of the paginator: s.GetContext() or the ctx field
		fromPaginator := false
		for _, l := range sources(ctxV, deriveOpts{}) {
			if isCtxFieldLoad(l) {
				fromPaginator = true
			}
			if g, isCall := l.(*ssa.Call); isCall && strings.HasSuffix(calleeFull(&g.Call), ".GetContext") {
				fromPaginator = true
			}
		}
		if !fromPaginator {
			return
		}
		// its failing side answers false
		for _, b := range f.Blocks {
			ifi, isIf := b.Instrs[len(b.Instrs)-1].(*ssa.If)
			if !isIf {
				continue
			}
			x, nilSucc, isNil := nilTest(ifi)
			if !isNil || x != ssa.Value(cl) {
				continue
			}
			t := b.Succs[1-nilSucc]
			for len(t.Instrs) == 1 && len(t.Succs) == 1 {
				t = t.Succs[0]
			}
			if r, isRet := t.Instrs[len(t.Instrs)-1].(*ssa.Return); isRet {
				if v, isC := constBool(r.Results[0]); isC && !v {
					gates = append(gates, cl)
				}
			}
		}
	})
	if len(gates) == 0 {
		c.violate("E10", key, c.pos(f.Pos()), "the loop that waits for future pages never tests the paginator's context: after Stop() (or cancellation), with a stream whose page keeps reporting a future and a fetch function that does not look at the context, HasNext polls for ever — the sleeps between polls return at once on a done context")
		return
	}
	// no cycle avoids the gate
	hdr := loopHeaderOf(gates[0])
	isGate := func(i ssa.Instruction) bool {
		for _, g := range gates {
			if ssa.Instruction(g) == i {
				return true
			}
		}
		return false
	}
	var cyc ssa.Instruction
	if hdr != nil {
		first := hdr.Instrs[0]
		// from just after the header's first instruction back to it
		cyc = pathPruned(f, first, isGate, func(i ssa.Instruction) bool { return i == first }, nil)
	}
	c.check(cyc == nil, "E10", key, c.ipos(gates[0]), "every iteration of the polling loop tests the paginator's context; done → false",
		"an iteration of the polling loop can go round without testing the paginator's context: after Stop() the loop can keep polling")
}

// c19StreamCurrentPage (E11): "yields every item of every page … empty pages anywhere" and "keeps yielding items of future
// pages". AbstractPaginator.HasNext() follows `next` links over empty pages and replaces the current page. The page whose
// HasFuture() decides whether to wait, and which is handed to the fetch of the future page, must be read after that walk:
// a page read before it is the page the iteration has left, and its future (or lack of one) says nothing about the stream.
func (c *Ctx) c19StreamCurrentPage() {
	f := c.fn(pagPkg, "(*AbstractStreamPaginator).HasNext")
	if f == nil {
		return
	}
	key := fname(f) + "/future-of-the-current-page"
	var fetches, advances, uses []ssa.Instruction
	var fromFetch func(v ssa.Value) *ssa.Call
	fromFetch = func(v ssa.Value) *ssa.Call {
		for _, l := range sources(v, deriveOpts{}) {
			if ex, ok := l.(*ssa.Extract); ok {
				if cl, ok := ex.Tuple.(*ssa.Call); ok && strings.HasSuffix(calleeFull(&cl.Call), ".FetchCurrentPage") {
					return cl
				}
				// value, ok := page.(T)
				if ta, ok := ex.Tuple.(*ssa.TypeAssert); ok && ex.Index == 0 {
					if r := fromFetch(ta.X); r != nil {
						return r
					}
				}
			}
		}
		return nil
	}
	allInstrs(f, func(in ssa.Instruction) {
		cl, ok := in.(*ssa.Call)
		if !ok {
			return
		}
		n := calleeFull(&cl.Call)
		switch {
		case strings.HasSuffix(n, ".FetchCurrentPage"):
			fetches = append(fetches, cl)
		case strings.HasSuffix(n, "AbstractPaginator).HasNext") || strings.HasSuffix(n, "AbstractPaginator).GetNext") || strings.HasSuffix(n, ".SetCurrentPage") || strings.HasSuffix(n, ".setCurrentPage") || strings.HasSuffix(n, ".fetchNextPage"):
			advances = append(advances, cl)
		}
		if cl.Call.IsInvoke() && cl.Call.Method.Name() == "HasFuture" && fromFetch(cl.Call.Value) != nil {
			uses = append(uses, cl)
		}
		if strings.HasSuffix(n, ".FetchFuturePage") {
			for _, a := range cl.Call.Args {
				if fromFetch(a) != nil {
					uses = append(uses, cl)
				}
			}
		}
	})
	if len(fetches) == 0 || len(uses) == 0 {
		c.violate("E11", key, c.pos(f.Pos()), "the stream paginator no longer asks the page it is on (FetchCurrentPage) for its future")
		return
	}
	bad := ""
	isFetch := func(i ssa.Instruction) bool {
		for _, x := range fetches {
			if x == i {
				return true
			}
		}
		return false
	}
	for _, fe := range fetches {
		for _, a := range advances {
			a := a
			if pathPruned(f, fe, isFetch, func(i ssa.Instruction) bool { return i == a }, nil) == nil {
				continue
			}
			for _, u := range uses {
				u := u
				if pathPruned(f, a, isFetch, func(i ssa.Instruction) bool { return i == u }, nil) != nil {
					bad = "the page read at " + c.ipos(fe) + " is used at " + c.ipos(u) + " after " + short(calleeNameOf(a)) + " (" + c.ipos(a) + ") may have moved the paginator to another page"
				}
			}
		}
	}
	c.check(bad == "", "E11", key, c.ipos(fetches[0]), "the page asked for its future is read after every call that can move the paginator",
		bad+": when a chain of `next` links ends in an empty page that carries the `future` link, the page asked is the one the iteration has left — it has no future, HasNext answers false and the items of the future pages are never yielded")
}

// c19StreamGetNext (E12): "GetNext without HasNext works" — for the stream paginators too, whose items continue on future
// pages. Only (*AbstractStreamPaginator).HasNext follows the future of the current page; the embedded
// (*AbstractPaginator).HasNext stops at the end of the `next` chain. When GetNext finds no item, the HasNext it asks is the
// stream's own.
func (c *Ctx) c19StreamGetNext() {
	f := c.fn(pagPkg, "(*AbstractStreamPaginator).GetNext")
	own := c.fn(pagPkg, "(*AbstractStreamPaginator).HasNext")
	base := c.fn(pagPkg, "(*AbstractPaginator).HasNext")
	if f == nil || own == nil || base == nil {
		return
	}
	key := fname(f) + "/asks-the-stream"
	asksOwn, asksBase := false, ""
	allInstrs(f, func(in ssa.Instruction) {
		if cl, ok := in.(*ssa.Call); ok {
			switch staticCallee(&cl.Call) {
			case own:
				asksOwn = true
			case base:
				asksBase = c.ipos(cl)
			}
		}
	})
	c.check(asksOwn && asksBase == "", "E12", key, c.pos(f.Pos()), "the stream paginator's GetNext consults its own HasNext",
		"the stream paginator's GetNext consults the embedded paginator's HasNext ("+asksBase+"), which never follows the future of the current page: GetNext called without HasNext at the end of a page returns 'not found' although items of future pages are to come")
}

// c19GraceFromDryUp (E13): "keeps yielding items of future pages until it has been told the stream is drying up and the grace
// period has elapsed". The grace period is measured from the instant kept in timeReachLast. Whatever marks the stream as
// running dry (stores true into runningOut) also sets that instant — otherwise the period is counted from the consumer's
// last look at the stream, and a consumer that was idle for longer sees the stream end the moment it is marked.
func (c *Ctx) c19GraceFromDryUp() {
	c.rule("E15", "the instant the grace period is counted from is recorded only by the call that finds the stream not yet marked as running dry (the previous value of the flag is tested): being told twice does not start the period again", 1)
	c.rule("E13", "the function that marks the stream as running dry also records the instant the grace period is counted from", 1)
	n := 0
	for _, f := range c.srcFuncs("collection/pagination") {
		marks := false
		var site ssa.Instruction
		stamps := false
		var stampSites []*ssa.Call
		fieldOf := func(v ssa.Value) string {
			u, ok := v.(*ssa.UnOp)
			if !ok {
				return ""
			}
			fa, ok := u.X.(*ssa.FieldAddr)
			if !ok {
				return ""
			}
			if so := structOf(fa.X.Type()); so != nil {
				return so.Field(fa.Field).Name()
			}
			return ""
		}
		allInstrs(f, func(in ssa.Instruction) {
			cl, ok := in.(*ssa.Call)
			if !ok || len(cl.Call.Args) == 0 {
				return
			}
			n := calleeFull(&cl.Call)
			fieldOf := func(v ssa.Value) string {
				u, ok := v.(*ssa.UnOp)
				if !ok {
					return ""
				}
				fa, ok := u.X.(*ssa.FieldAddr)
				if !ok {
					return ""
				}
				if so := structOf(fa.X.Type()); so != nil {
					return so.Field(fa.Field).Name()
				}
				return ""
			}
			switch {
			case strings.HasSuffix(n, "atomic.Bool).Store") || strings.HasSuffix(n, "atomic.Bool).Swap") || strings.HasSuffix(n, "atomic.Bool).CompareAndSwap") || strings.HasSuffix(n, "atomic.Bool).CAS"):
				if fieldOf(cl.Call.Args[0]) == "runningOut" {
					last := cl.Call.Args[len(cl.Call.Args)-1]
					if b, isB := constBool(last); isB && b {
						marks = true
						site = cl
					}
				}
			case strings.HasSuffix(n, "atomic.Time).Store"):
				if fieldOf(cl.Call.Args[0]) == "timeReachLast" {
					stamps = true
					stampSites = append(stampSites, cl)
				}
			}
		})
		if !marks {
			continue
		}
		n++
		c.FuncsSeen[fname(f)] = true
		c.check(stamps, "E13", fname(f)+"/grace-period-starts-here", c.ipos(site), "the instant the grace period is counted from is recorded where the stream is marked",
			fname(f)+" marks the stream as running dry without recording when: the grace period is then counted from the last time HasNext() looked at the stream, and for a consumer that had been idle for longer than the period HasNext() answers false at once — the future page, and the items already on it, are never looked at")
		// E15: told once is told: a repeated DryUp() does not start the grace period again
		if stamps {
			firstOnly := true
			for _, st := range stampSites {
				was := func(want bool) func(ssa.Value) bool {
					return func(v ssa.Value) bool {
						t, ok := v.(*ssa.Call)
						if !ok || len(t.Call.Args) == 0 || fieldOf(t.Call.Args[0]) != "runningOut" {
							return false
						}
						tn := calleeFull(&t.Call)
						if want { // CompareAndSwap(false, true) answered true: the flag was not set before
							return strings.HasSuffix(tn, "atomic.Bool).CompareAndSwap") || strings.HasSuffix(tn, "atomic.Bool).CAS")
						}
						return strings.HasSuffix(tn, "atomic.Bool).Swap") || strings.HasSuffix(tn, "atomic.Bool).Load")
					}
				}
				if !onBoolSide(st, false, was(false)) && !onBoolSide(st, true, was(true)) {
					firstOnly = false
				}
			}
			c.check(firstOnly, "E15", fname(f)+"/grace-period-starts-once", c.ipos(site), "the instant is recorded only where the stream was not yet marked as running dry",
				fname(f)+" records a new instant every time it is called: a stream that is told again that it is drying up (a poller that repeats DryUp() more often than the grace period lasts) starts its grace period again each time — HasNext() goes on waiting for future pages after the period has elapsed, for ever if the calls keep coming")
		}
	}
	if n == 0 {
		c.violate("E13", "collection/pagination/running-dry-never-marked", "", "nothing marks the stream as running dry any more")
	}
}

// c19NoRewind (E14): "yields every item … exactly once". Installing a page derives a fresh iterator from it (E5): installing
// the page the paginator is already on rewinds it, and the items already yielded come out again. The page handed to
// setCurrentPage / SetCurrentPage inside the package is therefore never the current page itself (a load of currentPage, the
// result of FetchCurrentPage) — in a function or in one of its deferred literals.
func (c *Ctx) c19NoRewind() {
	c.rule("E14", "inside the package the page installed as current is never the page the paginator is already on: re-installing it would rewind its iterator and yield its items twice", 2)
	n := 0
	isCurrent := func(v ssa.Value) bool {
		for _, l := range sources(v, deriveOpts{}) {
			l = resolveValue(l)
			switch x := l.(type) {
			case *ssa.UnOp:
				if fa, ok := x.X.(*ssa.FieldAddr); ok {
					if so := structOf(fa.X.Type()); so != nil && so.Field(fa.Field).Name() == "currentPage" {
						return true
					}
				}
			case *ssa.Extract:
				if cl, ok := x.Tuple.(*ssa.Call); ok {
					if g := staticCallee(&cl.Call); g != nil && (g.Name() == "FetchCurrentPage" || g.Name() == "GetCurrentPage") {
						return true
					}
					if cl.Call.IsInvoke() && (cl.Call.Method.Name() == "FetchCurrentPage" || cl.Call.Method.Name() == "GetCurrentPage") {
						return true
					}
				}
			}
		}
		return false
	}
	for _, f := range c.srcFuncs("collection/pagination") {
		allInstrs(f, func(in ssa.Instruction) {
			cc := callCommon(in)
			if cc == nil {
				return
			}
			name := ""
			if g := staticCallee(cc); g != nil {
				name = g.Name()
			} else if cc.IsInvoke() {
				name = cc.Method.Name()
			}
			if name != "setCurrentPage" && name != "SetCurrentPage" {
				return
			}
			// the setters themselves forward their parameter
			if o := outermost(f); o.Name() == "SetCurrentPage" || o.Name() == "setCurrentPage" {
				return
			}
			n++
			arg := cc.Args[len(cc.Args)-1]
			c.check(!isCurrent(arg), "E14", fname(outermost(f))+"/installs-another-page", c.ipos(in), "the page installed is not the current one",
				"the page installed here is the page the paginator is already on: its iterator is derived anew and starts again at its first item — after a failed move to the next page every item of the current page that was already yielded is yielded a second time, and HasNext, which had answered false, answers true again")
		})
	}
	c.Extra["pages_installed"] = n
}

// c19GraceReadEveryRound (E17): "keeps yielding items of future pages until it has been told the stream is drying up and the
// grace period has elapsed". The loop of the stream paginator's HasNext runs for as long as the stream is alive and records
// the instant of its last progress as it goes (and DryUp records the instant the stream was marked). The instant the grace
// period is counted from is therefore read in the round that compares it: an instant read before the loop is the one of the
// call's beginning — after a wait longer than the grace period the stream ends the moment it is marked, or while pages are
// still arriving.
func (c *Ctx) c19GraceReadEveryRound() {
	c.rule("E17", "the instant the grace period is counted from is read (timeReachLast.Load()) in the round of the polling loop that compares it with the grace period, not once before the loop", 1)
	f := c.fn(pagPkg, "(*AbstractStreamPaginator).HasNext")
	if f == nil {
		return
	}
	c.FuncsSeen[fname(f)] = true
	key := fname(f) + "/grace-instant-read-in-the-round"
	fieldOf := func(v ssa.Value) string {
		u, ok := v.(*ssa.UnOp)
		if !ok {
			return ""
		}
		fa, ok := u.X.(*ssa.FieldAddr)
		if !ok {
			return ""
		}
		if so := structOf(fa.X.Type()); so != nil {
			return so.Field(fa.Field).Name()
		}
		return ""
	}
	// the operands a value is computed from, through calls, conversions and arithmetic (not through memory)
	var leaves func(v ssa.Value, seen map[ssa.Value]bool, visit func(ssa.Value))
	leaves = func(v ssa.Value, seen map[ssa.Value]bool, visit func(ssa.Value)) {
		if v == nil || seen[v] {
			return
		}
		seen[v] = true
		visit(v)
		in, ok := v.(ssa.Instruction)
		if !ok {
			return
		}
		if _, isPhi := v.(*ssa.Phi); !isPhi {
			if u, isU := v.(*ssa.UnOp); isU && u.Op == token.MUL {
				return
			}
		}
		var ops []*ssa.Value
		for _, o := range in.Operands(ops) {
			if o != nil && *o != nil {
				leaves(*o, seen, visit)
			}
		}
	}
	isGraceLoad := func(cl *ssa.Call) bool {
		return strings.HasSuffix(calleeFull(&cl.Call), "atomic.Time).Load") && len(cl.Call.Args) > 0 && fieldOf(cl.Call.Args[0]) == "timeReachLast"
	}
	type cmp struct {
		at    *ssa.BinOp
		loads []*ssa.Call
	}
	var found []cmp
	var scan func(g *ssa.Function, inRound bool, depth int)
	seenFn := map[*ssa.Function]bool{}
	scan = func(g *ssa.Function, inRound bool, depth int) {
		if g == nil || g.Blocks == nil || seenFn[g] || depth > 2 {
			return
		}
		seenFn[g] = true
		allInstrs(g, func(in ssa.Instruction) {
			if cl, ok := in.(*ssa.Call); ok {
				if h := staticCallee(&cl.Call); h != nil && inPkg(pagPkg)(h) && strings.Contains(fname(h), "AbstractStreamPaginator") && h != f {
					scan(h, inRound || (g == f && inLoop(cl)), depth+1)
				}
				return
			}
			bo, ok := in.(*ssa.BinOp)
			if !ok {
				return
			}
			switch bo.Op {
			case token.GEQ, token.GTR, token.LEQ, token.LSS:
			default:
				return
			}
			side := func(v ssa.Value) (isLimit bool, loads []*ssa.Call) {
				leaves(v, map[ssa.Value]bool{}, func(x ssa.Value) {
					if fieldOf(x) == "timeOut" {
						isLimit = true
					}
					cl, ok := x.(*ssa.Call)
					if !ok {
						return
					}
					if isGraceLoad(cl) {
						loads = append(loads, cl)
						return
					}
					// a helper of the package that returns the instant (or the time since)
					if h := staticCallee(&cl.Call); h != nil && inPkg(pagPkg)(h) && h.Blocks != nil {
						allInstrs(h, func(j ssa.Instruction) {
							r, isRet := j.(*ssa.Return)
							if !isRet {
								return
							}
							for _, res := range r.Results {
								leaves(res, map[ssa.Value]bool{}, func(y ssa.Value) {
									if l2, ok := y.(*ssa.Call); ok && isGraceLoad(l2) {
										loads = append(loads, cl)
									}
								})
							}
						})
					}
				})
				return
			}
			lx, loadsX := side(bo.X)
			ly, loadsY := side(bo.Y)
			switch {
			case lx && len(loadsY) > 0:
				found = append(found, cmp{bo, loadsY})
			case ly && len(loadsX) > 0:
				found = append(found, cmp{bo, loadsX})
			}
			_ = inRound
		})
	}
	scan(f, false, 0)
	if len(found) == 0 {
		c.violate("E17", key, c.pos(f.Pos()), "HasNext (and what it calls) no longer compares the time since the recorded instant (timeReachLast) with the grace period (timeOut): a stream marked as running dry ends at once, or never")
		return
	}
	for _, cm := range found {
		for _, ld := range cm.loads {
			g := ld.Parent()
			if g == f && !inLoop(ld) {
				c.violate("E17", key, c.ipos(ld), "the instant compared with the grace period at "+c.ipos(cm.at)+" is read once, before the polling loop: what the loop records as it goes (progress, and DryUp's own stamp) is never seen — a consumer that waits in HasNext for longer than the grace period sees the stream end the moment it is marked as running dry, with pages still to come")
				return
			}
		}
	}
	c.ok("E17", key, c.ipos(found[0].at), "the instant compared with the grace period is read in the round that compares it")
}

// c19ConversionsAssertWhatTheyReturn (E18): "yields every item of every page … for the static, dynamic and stream paginators".
// The helpers that turn a page into the kind of page a paginator needs (toDynamicPage, toDynamicStream) answer "this page
// is not of that kind" for whatever fails their type assertion, and the paginator takes that for the end of the pages.
// The assertion is to the type the helper returns: asserted to a narrower interface (a stream, where a dynamic page is
// returned) every page that is a perfectly good page of the returned kind is refused, and the iteration ends after the
// first page without an error.
func (c *Ctx) c19ConversionsAssertWhatTheyReturn() {
	c.rule("E18", "a helper of package pagination that returns the outcome of a checked type assertion asserts the very type it returns: no page is refused for lacking methods the result does not need", 2)
	for _, f := range c.srcFuncs(pagPkg) {
		if f.Blocks == nil || f.Signature.Results().Len() == 0 {
			continue
		}
		rt := f.Signature.Results().At(0).Type()
		if _, isIface := rt.Underlying().(*types.Interface); !isIface {
			continue
		}
		n := 0
		allInstrs(f, func(in ssa.Instruction) {
			ta, ok := in.(*ssa.TypeAssert)
			if !ok || !ta.CommaOk {
				return
			}
			// does the asserted value reach the first result?
			reaches := false
			allInstrs(f, func(j ssa.Instruction) {
				r, ok := j.(*ssa.Return)
				if !ok || len(r.Results) == 0 {
					return
				}
				for _, l := range sources(r.Results[0], deriveOpts{}) {
					if ex, ok := l.(*ssa.Extract); ok && ex.Tuple == ssa.Value(ta) && ex.Index == 0 {
						reaches = true
					}
				}
			})
			if !reaches {
				return
			}
			key := fname(f) + "/asserts-what-it-returns"
			if n > 0 {
				key += "#" + strconv.Itoa(n)
			}
			n++
			c.FuncsSeen[fname(f)] = true
			c.check(types.Identical(ta.AssertedType, rt), "E18", key, c.ipos(ta), "the assertion is to the type returned",
				"the value returned as "+types.TypeString(rt, nil)+" is obtained by asserting "+types.TypeString(ta.AssertedType, nil)+", an interface that asks for more: a page that is a good "+types.TypeString(rt, nil)+" but lacks the extra methods is refused as 'not dynamic', the paginator takes the refusal for the end of the pages, and the iteration stops after the first page without an error")
		})
	}
}

// c19PagesAreNotComparedAsValues (E19): "for any partition of a collection into pages". A page is whatever implements the
// page interface — a pointer, a struct with a slice in it, a small value. Two interface values compared with == compare
// the dynamic values: equal for two different pages with the same content (the second one is taken for 'the same page
// again' and the iteration ends), a run-time panic for a page type that is not comparable. The package compares pages
// with nil only.
func (c *Ctx) c19PagesAreNotComparedAsValues() {
	c.rule("E19", "package pagination never compares two page values with == / != (interface values compare their dynamic values: equal content is not the same page, and an uncomparable page type panics); comparisons with nil aside", 0)
	n := 0
	for _, f := range c.srcFuncs(pagPkg) {
		if f.Blocks == nil {
			continue
		}
		allInstrs(f, func(in ssa.Instruction) {
			bo, ok := in.(*ssa.BinOp)
			if !ok || (bo.Op != token.EQL && bo.Op != token.NEQ) {
				return
			}
			isPage := func(v ssa.Value) bool {
				if isNilConst(v) {
					return false
				}
				_, isIface := v.Type().Underlying().(*types.Interface)
				return isIface && strings.Contains(v.Type().String(), "pagination.I")
			}
			if isPage(bo.X) && isPage(bo.Y) {
				n++
				c.FuncsSeen[fname(outermost(f))] = true
				c.violate("E19", fname(outermost(f))+"/pages-compared-as-values", c.ipos(bo), "two pages are compared with "+bo.Op.String()+": for page types that are values the comparison is by content — the second of two pages with equal content is taken for the page the paginator is already on, the fetch is refused and the items of every later page are never yielded — and for a page type that is not comparable (a struct holding a slice) it panics at the first page boundary")
			}
		})
	}
	if n == 0 {
		c.info("E19", "pagination/no-page-comparison", "-", "no two page values are compared")
	}
}
