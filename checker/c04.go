package main

import (
	"go/token"
	"strconv"
	"strings"

	"golang.org/x/tools/go/ssa"
)

func init() {
	register(&propCheck{
		id:              "C04",
		level:           "other",
		explanation:     "Static decision of the link clause of 'recursive removal stays inside the tree': the removal code never bases a descend or an already-gone decision on a stat that follows links. Over the removal call graph R (functions of package filesystem reachable from RemoveWithContextAndExclusionPatterns, CleanDirWithContextAndExclusionPatterns, RemoveWithPrivileges and garbageCollect): (N1) every call that lists or recurses into a path that can be a child (CleanDir*, Ls*, garbageCollectDir) is preceded by an Lstat of that very path whose 'is a symbolic link' side cannot reach the descent — or the path is the parameter of a function that only lists, whose call sites carry the obligation; (N2) a successful return taken because a link-following Exists() said 'not there' is preceded by that same Lstat test (a dangling link does not exist for Stat); (N3) the only removal primitives in R are afero.Fs.Remove — which unlinks a link and never follows it — and the privileged fallback; RemoveAll is never introduced. Decided on SSA with the static call graph; nothing is executed. Not decided: exclusion semantics (C08), the bit-for-bit state of the rest of the sandbox, backends that cannot Lstat.",
		run:             runC04,
		thoroughConfigs: []string{"darwin/amd64", "windows/amd64"},
		assumptions: []string{
			"afero.Fs.Remove on a symbolic link removes the link itself (os.Remove semantics)",
			"a backend without LstatIfPossible has no symbolic links",
		},
	})
}

var c04Roots = []string{
	"(*VFS).RemoveWithContextAndExclusionPatterns", "(*VFS).CleanDirWithContextAndExclusionPatterns",
	"(*VFS).RemoveWithPrivileges", "(*VFS).garbageCollect",
}

var c04Descents = map[string]bool{
	"CleanDir": true, "CleanDirWithContext": true, "CleanDirWithContextAndExclusionPatterns": true,
	"Ls": true, "LsWithExclusionPatterns": true, "LsRecursive": true, "Lls": true, "LsRecursiveWithExclusionPatterns": true,
	"garbageCollectDir": true, "ListDirTree": true, "ListDirTreeWithContext": true, "Walk": true, "WalkWithContext": true, "WalkWithContextAndExclusionPatterns": true,
}

// linkGuard: is there, in f, an Lstat(p) dominating `at` whose is-link side
// cannot reach `at`?
func linkGuard(f *ssa.Function, p ssa.Value, at ssa.Instruction) (bool, ssa.Instruction) {
	var res bool
	var where ssa.Instruction
	allInstrs(f, func(in ssa.Instruction) {
		cl, ok := in.(*ssa.Call)
		if !ok {
			return
		}
		name, args, ok := fsMethodCall(cl)
		if !ok || name != "Lstat" || len(args) < 1 || !samePath(args[0], p) || !dominates(cl, at) {
			return
		}
		// info = extract #0
		var info ssa.Value
		for _, r := range *cl.Referrers() {
			if ex, ok := r.(*ssa.Extract); ok && ex.Index == 0 {
				info = ex
			}
		}
		if info == nil {
			return
		}
		// branch on IsSymLink(info) / info.Mode()&ModeSymlink
		for _, b := range f.Blocks {
			ifi, ok := b.Instrs[len(b.Instrs)-1].(*ssa.If)
			if !ok {
				continue
			}
			v, ts := boolTest(ifi)
			if !isLinkPredicate(v, info) {
				continue
			}
			// the link side must not reach `at`
			reaches := false
			visitBlocksFrom(b.Succs[ts], func(x *ssa.BasicBlock) {
				if x == at.Block() {
					reaches = true
				}
			})
			if b.Succs[ts] == b.Succs[1-ts] {
				reaches = true
			}
			if !reaches && dominates(ifi, at) || (!reaches && ifi.Block().Dominates(at.Block())) {
				res = true
				where = cl
			} else if !reaches {
				// the test is only made where Lstat succeeded (`err == nil && IsSymLink(info)`): accepted
				res = true
				where = cl
			}
		}
	})
	return res, where
}

func isLinkPredicate(v ssa.Value, info ssa.Value) bool {
	switch x := v.(type) {
	case *ssa.Phi:
		// `err == nil && IsSymLink(info)` kept in a variable: true only through the predicate
		pred := false
		for _, e := range x.Edges {
			if b, isC := constBool(e); isC {
				if b {
					return false
				}
				continue
			}
			if !isLinkPredicate(e, info) {
				return false
			}
			pred = true
		}
		return pred
	case *ssa.Call:
		n := calleeFull(&x.Call)
		if strings.HasSuffix(n, "filesystem.IsSymLink") && len(x.Call.Args) == 1 && sameValue(x.Call.Args[0], info) {
			return true
		}
	case *ssa.BinOp:
		// info.Mode()&os.ModeSymlink != 0  /  info.Mode()&os.ModeType == os.ModeSymlink
		for _, l := range sources(x, deriveOpts{}) {
			_ = l
		}
		var modeCall bool
		var walk func(ssa.Value, int)
		walk = func(y ssa.Value, d int) {
			if d > 4 {
				return
			}
			switch z := y.(type) {
			case *ssa.BinOp:
				walk(z.X, d+1)
				walk(z.Y, d+1)
			case *ssa.Call:
				if z.Call.IsInvoke() && z.Call.Method.Name() == "Mode" && sameValue(z.Call.Value, info) {
					modeCall = true
				}
			}
		}
		walk(x, 0)
		return modeCall && (x.Op == token.NEQ || x.Op == token.EQL)
	}
	return false
}

// samePath: same SSA value, or both derive from the same parameter / call.
func samePath(a, b ssa.Value) bool {
	a, b = resolveValue(a), resolveValue(b)
	return a == b || sameValue(a, b) || sameValue(b, a)
}

func runC04(c *Ctx) {
	c.notExistMeansAbsent("N22")
	c.rule("N1", "every descent (list / recurse) on a path that can be a child is preceded by Lstat of that path with the is-link side not reaching the descent; listing-only functions pass the obligation to their call sites", 3)
	c.rule("N2", "a successful return justified by a link-following Exists()==false is preceded by the Lstat link test on the same path", 2)
	c.rule("N4", "entries matching an exclusion pattern survive: the pattern list is compiled in full (NewExclusionRegexList leaves its loops only at the end of the list or on an error)", 1)
	c.rule("N5", "the Lstat link test of the removal functions is made on a cleaned path: Lstat of a path that ends with a separator resolves the link, so the caller's spelling must not reach it", 2)
	c.rule("N7", "the platform helpers of the privileged removal hand the path to every command they run (in every build configuration)", 2)
	c.rule("N6", "in the removal call graph, operations that act through symbolic links (chown, chmod, chtimes) are applied only to paths found not to be links", 1)
	c.rule("N3", "removal primitives in the removal call graph are afero.Fs.Remove and the privileged fallback only (no RemoveAll)", 2)

	c.rule("N9", "a function that holds the removal primitive does not take Exists()==false for 'absent': on that side the path is examined with Lstat/Stat, the error is classified (not-exist or not) and reported when it is not 'absent'", 1)
	c.rule("N10", "Exists(): where opening a directory fails, 'does not exist' is answered only if the failure says so (the error is classified), never for every failure", 1)
	c.rule("N11", "an empty path designates no tree: where a removal function tests its path parameter for emptiness, no caller hands it the result of filepath.Clean (which turns \"\" into \".\", the current directory)", 1)
	c.rule("N12", "the privileged removal of package platform cleans the path it is given before it examines it and hands it to a command: `link/` designates what the link points to, for rm as for Lstat", 1)
	c.rule("N13", "in the removal call graph a name or a path is tested for emptiness by comparison with \"\", never with reflection.IsEmpty (which trims white space: entries whose names are made of blanks are legal, and would be skipped)", 0)
	c.rule("N8", "in the removal call graph, an error assigned to a variable is read before the variable is overwritten or the function returns: a failed step (cleaning, listing, removing) cannot be covered by the result of the next one", 40)

	c.patternLoopsComplete("N4")

	var roots []*ssa.Function
	for _, n := range c04Roots {
		if f := c.fn(fsPkgRel, n); f != nil {
			roots = append(roots, f)
		}
	}
	R := c.reachable(roots, false, inPkg(fsPkgRel))
	var fns []*ssa.Function
	for f := range R {
		if f.Parent() == nil || true {
			fns = append(fns, f)
		}
	}
	sortFuncs(fns)
	c.Extra["removal_call_graph"] = len(fns)

	c.c04LinkTestOnCleanPath(fns)
	c.c04AbsenceOnlyFromLstat(fns)
	c.c04PatternsHandedDown(fns)
	c.c04FailuresAreNotOvertaken(fns)
	c.c04GivenPathMatchedWhole(fns)
	c.c04BackendsOnlyRemove()
	c.filterLeavesOutOnlyWhatMatches("N21") // the obligation C08/E15: what a listing holds is decided by the patterns alone
	// N20: "entries matching an exclusion pattern survive": the expressions the removal protects with are those of *this* call's
	// patterns. The compiled list depends on the arguments of NewExclusionRegexList only — no package-level state is read or
	// written on the way (a cache of compiled lists keyed by less than the whole list hands one call the expressions of
	// another, and what should survive is deleted): the obligation C08/E10.
	c.rule("N20", "the compiled exclusion list the removal protects with depends on the arguments of NewExclusionRegexList only: no package-level state is read or written on the way (the obligation C08/E10)", 1)
	if front, _ := c.c08Compiler(); front != nil {
		c.ruleAlias = map[string]string{"E10": "N20"}
		c.c08Pure(front)
		c.ruleAlias = nil
	}
	c.rule("N14", absentOnlyWhenAbsentText, 3)
	c.c04AbsentOnlyWhenAbsent("N14", nil)
	for _, f := range fns {
		c.errOverwrittenRule("N8", f)
	}

	// functions whose own path parameter is only listed (obligation on callers)
	isLister := func(f *ssa.Function) bool { return c04Descents[outermost(f).Name()] }

	c.c04DescentRule("N1", fns, isLister)

	// ---- N6 -----------------------------------------------------------------
	// chown / chmod / chtimes follow symbolic links: in the removal call graph they are only applied to a path that was
	// found not to be a link — otherwise what the link points to, outside the tree, is modified.
	nFollow := 0
	for _, f := range fns {
		allInstrs(f, func(in ssa.Instruction) {
			cl, ok := in.(*ssa.Call)
			if !ok {
				return
			}
			name, args, isFs := fsMethodCall(cl)
			if !isFs {
				return
			}
			switch name {
			case "Chown", "ChangeOwnership", "Chmod", "Chtimes", "ChownRecursively", "ChangeOwnershipRecursively", "ChmodRecursively":
			default:
				return
			}
			var p ssa.Value
			for _, a := range args {
				if a.Type().String() == "string" {
					p = a
					break
				}
			}
			if p == nil {
				return
			}
			outer := outermost(f)
			// the primitives themselves (Chown called by ChangeOwnership on its own parameter): the obligation is on their callers
			if pi := paramIndex(outer, resolveValue(p)); pi >= 0 && (outer.Name() == "ChangeOwnership" || outer.Name() == "Chown") {
				return
			}
			nFollow++
			key := fname(outer) + "/through-links:" + name
			okG, where := linkGuard(f, p, cl)
			if !okG {
				// the link test may be made on the cleaned spelling of the same path
				allInstrs(f, func(j ssa.Instruction) {
					if lc, isCall := j.(*ssa.Call); isCall {
						if ln, largs, isL := fsMethodCall(lc); isL && ln == "Lstat" && len(largs) > 0 && operandReaches(largs[0], p, 4) {
							if g, w := linkGuard(f, largs[0], cl); g {
								okG, where = true, w
							}
						}
					}
				})
			}
			if okG {
				c.ok("N6", key, c.ipos(cl), "applied only where the path was found not to be a link ("+c.ipos(where)+")")
			} else {
				c.violate("N6", key, c.ipos(cl), name+" follows symbolic links and is applied to a path that may be one: what the link points to — outside the tree being removed — has its owner, mode or times changed")
			}
		})
	}
	c.Extra["link_following_mutations"] = nFollow

	// ---- N7 -----------------------------------------------------------------
	// "When the call reports success … the tree is really gone": the last resort of RemoveWithPrivileges is a command run
	// with the privileges of an administrator. The path to remove must be an operand of every command these helpers run —
	// `rm -f` without an operand succeeds and removes nothing. The helpers exist once per platform (siblings): the rule is
	// evaluated in every build configuration of the thorough tier.
	for _, name := range []string{"removeFileAs", "removeDirAs"} {
		g := c.fnOpt("platform", name)
		if g == nil {
			c.violate("N7", "platform."+name+"/path-is-an-operand", "", "helper platform."+name+" not found")
			continue
		}
		c.FuncsSeen[fname(g)] = true
		pi := paramIndexByName(g, "path")
		bad, n := "", 0
		allInstrs(g, func(in ssa.Instruction) {
			cl, ok := in.(*ssa.Call)
			if !ok {
				return
			}
			h := staticCallee(&cl.Call)
			if h == nil || h.Name() != "executeCommandAs" {
				return
			}
			n++
			has := false
			if pi >= 0 {
				for _, e := range variadicElems(cl.Call.Args[len(cl.Call.Args)-1]) {
					for _, l := range sources(e, deriveOpts{through: func(nm string) bool {
						return strings.HasPrefix(nm, "path/filepath.") || strings.HasPrefix(nm, "strings.") || nm == "fmt.Sprintf"
					}}) {
						if l == ssa.Value(g.Params[pi]) {
							has = true
						}
					}
				}
			}
			if !has {
				bad = c.ipos(cl)
			}
		})
		c.check(n > 0 && bad == "", "N7", fname(g)+"/path-is-an-operand", c.pos(g.Pos()), "the path is an operand of every command run",
			"the command run at "+bad+" does not receive the path it is meant to remove: it succeeds without removing anything, and the forced removal — the last resort of RemoveWithPrivileges — reports success with the tree still in place")
	}

	// ---- N12 ----------------------------------------------------------------
	if rp := c.fnOpt("platform", "RemoveWithPrivileges"); rp != nil {
		c.FuncsSeen[fname(rp)] = true
		pi := paramIndexByName(rp, "path")
		bad, n := "", 0
		allInstrs(rp, func(in ssa.Instruction) {
			cl, ok := in.(*ssa.Call)
			if !ok {
				return
			}
			h := staticCallee(&cl.Call)
			if h == nil || !(h.Name() == "removeFileAs" || h.Name() == "removeDirAs") || pi < 0 {
				return
			}
			n++
			cleaned := false
			for _, a := range cl.Call.Args {
				if a.Type().String() != "string" {
					continue
				}
				for _, l := range sources(a, deriveOpts{}) {
					if cc, ok := l.(*ssa.Call); ok && calleeFull(&cc.Call) == "path/filepath.Clean" && resolveValue(cc.Call.Args[0]) == ssa.Value(rp.Params[pi]) {
						cleaned = true
					}
				}
			}
			if !cleaned {
				bad = c.ipos(cl)
			}
		})
		c.check(n > 0 && bad == "", "N12", fname(rp)+"/path-cleaned", c.pos(rp.Pos()), "the helpers receive the cleaned path",
			"the command run at "+bad+" receives the path as the caller spelt it: for a symbolic link to a directory given with a trailing separator, `rm -r -f -- link/` deletes what the link points to — outside the tree — and leaves the link, and the call reports success")
	}

	// ---- N2 -----------------------------------------------------------------
	for _, f := range fns {
		if f.Parent() != nil {
			continue
		}
		// only functions that take the removal decision for a path that can be a child
		removes := false
		allInstrs(f, func(in ssa.Instruction) {
			if cl, ok := in.(*ssa.Call); ok {
				if cl.Call.IsInvoke() && cl.Call.Method.Name() == "Remove" {
					removes = true
				}
				if g := staticCallee(&cl.Call); g != nil && (strings.HasPrefix(g.Name(), "garbageCollect") || strings.HasPrefix(g.Name(), "RemoveWithContext")) && g != f {
					removes = true
				}
			}
		})
		if !removes || isLister(f) {
			continue
		}
		allInstrs(f, func(in ssa.Instruction) {
			cl, ok := in.(*ssa.Call)
			if !ok {
				return
			}
			name, args, ok := fsMethodCall(cl)
			if !ok || name != "Exists" {
				return
			}
			// successful returns on the false side of this Exists
			for _, b := range f.Blocks {
				ifi, ok := b.Instrs[len(b.Instrs)-1].(*ssa.If)
				if !ok {
					continue
				}
				v, ts := boolTest(ifi)
				if v != ssa.Value(cl) {
					continue
				}
				// the returns that can only be reached over the "does not exist" edge and are not plain failures
				var r *ssa.Return
				var region []*ssa.BasicBlock
				for _, rb := range f.Blocks {
					if !edgeDominates(b, 1-ts, rb) {
						continue
					}
					region = append(region, rb)
					if x, ok := rb.Instrs[len(rb.Instrs)-1].(*ssa.Return); ok && !isErrorExit(f, x) && r == nil {
						r = x
					}
				}
				if r == nil {
					// the return reached straight from the "does not exist" edge (it may be shared with other tests: `a || !Exists(p)`)
					nb := b.Succs[1-ts]
					for steps := 0; steps < 20 && len(nb.Succs) == 1; steps++ {
						nb = nb.Succs[0]
					}
					if x, ok := nb.Instrs[len(nb.Instrs)-1].(*ssa.Return); ok && !isErrorExit(f, x) {
						r = x
					}
				}
				if r == nil {
					continue
				}
				key := fname(f) + "/gone-by-stat"
				if ok, where := linkGuard(f, args[0], cl); ok {
					c.ok("N2", key, c.ipos(r), "dangling links were handled by the Lstat test at "+c.ipos(where)+" before Exists() is trusted")
				} else {
					c.violate("N2", key, c.ipos(r), "success is reported because Exists() (a link-following Stat) says the path is not there: a dangling symbolic link 'does not exist' for Stat, is left in place, and the call still reports that the tree is gone")
				}
				// N9: the functions that remove for good (they hold the removal primitive itself) do not take Exists()==false
				// for "absent": Exists() is also false for what cannot be examined
				holdsPrimitive := false
				allInstrs(f, func(i2 ssa.Instruction) {
					if c2, ok := i2.(*ssa.Call); ok && c2.Call.IsInvoke() && c2.Call.Method.Name() == "Remove" {
						if _, ok := fieldLoad(c2.Call.Value, "VFS", "vfs"); ok {
							holdsPrimitive = true
						}
					}
				})
				if !holdsPrimitive {
					continue
				}
				probeErr, classified, reported := absentByKind(region, args[0])
				c.check(probeErr != nil && classified && reported, "N9", fname(f)+"/absent-by-error-kind", c.ipos(cl), "where Exists() answers false the path is examined (Lstat), its error classified, and reported unless it says 'absent'",
					"the removal returns without an error as soon as Exists() answers false, which it also does for a path that cannot be examined (longer than PATH_MAX, unreadable parent): nothing is removed, the caller — a recursive removal one level up — finds the directory not empty and stops there, and Rm() reports success with the tree in place")
			}
		})
	}

	// ---- N11 ----------------------------------------------------------------
	// "deletes only entries located inside that tree": an empty path (an unset variable, a temporary directory never
	// created) designates nothing and the removal returns at once — provided the test sees the caller's spelling.
	// filepath.Clean("") is ".": cleaned before the test, the empty path becomes the current directory.
	{
		n := 0
		for _, f := range fns {
			if f.Parent() != nil {
				continue
			}
			for pi, prm := range f.Params {
				if prm.Type().String() != "string" {
					continue
				}
				tested := false
				for _, r := range *prm.Referrers() {
					if bo, ok := r.(*ssa.BinOp); ok && (bo.Op == token.EQL || bo.Op == token.NEQ) {
						other := bo.X
						if other == ssa.Value(prm) {
							other = bo.Y
						}
						if sv, isS := constString(other); isS && sv == "" {
							tested = true
						}
					}
				}
				if !tested {
					continue
				}
				n++
				bad := ""
				for _, g := range c.srcFuncs(fsPkgRel) {
					allInstrs(g, func(in ssa.Instruction) {
						cc := callCommon(in)
						if cc == nil || staticCallee(cc) != f {
							return
						}
						ai := pi
						if len(cc.Args) <= ai {
							return
						}
						if cl, ok := stripConv(cc.Args[ai]).(*ssa.Call); ok {
							switch calleeFull(&cl.Call) {
							case "path/filepath.Clean", "path.Clean", "path/filepath.Join", "path/filepath.Abs":
								if calleeFull(&cl.Call) == "path/filepath.Join" {
									return // a child path: never empty by construction, and never the caller's spelling
								}
								// the caller has itself seen the spelling it cleans: the call lies where that value was found non-empty
								seen := false
								raw := cl.Call.Args[0]
								for _, tb := range g.Blocks {
									ifi, isIf := tb.Instrs[len(tb.Instrs)-1].(*ssa.If)
									if !isIf {
										continue
									}
									bo, isB := ifi.Cond.(*ssa.BinOp)
									if !isB || (bo.Op != token.EQL && bo.Op != token.NEQ) {
										continue
									}
									var other ssa.Value
									if bo.X == raw {
										other = bo.Y
									} else if bo.Y == raw {
										other = bo.X
									} else {
										continue
									}
									if sv, isS := constString(other); !isS || sv != "" {
										continue
									}
									nonEmpty := 1
									if bo.Op == token.NEQ {
										nonEmpty = 0
									}
									if edgeDominates(tb, nonEmpty, in.Block()) {
										seen = true
									}
								}
								if seen {
									return
								}
								bad = c.ipos(in) + " (" + fname(outermost(g)) + ")"
							}
						}
					})
				}
				c.check(bad == "", "N11", fname(f)+"/empty-path-seen-as-given:"+prm.Name(), c.pos(f.Pos()), "no caller cleans the path before the emptiness test",
					"the path handed over at "+bad+" has been through filepath.Clean, which turns the empty path into \".\": the test for an empty path in "+f.Name()+" can no longer see it, and removing \"\" — an unset variable, say — empties the current directory")
			}
		}
		if n == 0 {
			c.violate("N11", "filesystem/empty-path-guard", "", "no removal function tests its path for emptiness any more: removing the empty path acts on the current directory")
		}
	}

	// ---- N13 ----------------------------------------------------------------
	// "the tree is really gone": an entry whose name consists of blanks is an entry like any other. reflection.IsEmpty
	// answers true for a string of white space: used on the name of an entry (or on a path) it makes the removal skip it,
	// the level above finds the directory not empty and stops there, successfully.
	{
		n := 0
		for _, f := range fns {
			if c08Appliers[outermost(f).Name()] {
				continue // patterns are not names
			}
			allInstrs(f, func(in ssa.Instruction) {
				cl, ok := in.(*ssa.Call)
				if !ok || !strings.HasSuffix(calleeFull(&cl.Call), "reflection.IsEmpty") || len(cl.Call.Args) == 0 {
					return
				}
				a := cl.Call.Args[0]
				if mi, ok := a.(*ssa.MakeInterface); ok {
					a = mi.X
				}
				if a.Type().String() != "string" {
					return
				}
				n++
				c.violate("N13", fname(outermost(f))+"/blank-names", c.ipos(cl), "reflection.IsEmpty is applied to a name or a path: it is true for a string of white space, so an entry named \" \" (a file, a directory, a dangling link) is skipped by the removal, which reports success with the entry — and every directory above it — still there")
			})
		}
		if n == 0 {
			c.info("N13", "filesystem/no-blank-trimming-emptiness-test", "-", "no reflection.IsEmpty on a string in the removal call graph")
		}
	}

	// ---- N10 ----------------------------------------------------------------
	// The removal trusts Exists(); Exists() double-checks a directory by opening it. A directory that cannot be opened
	// (no read permission) is not a directory that is not there.
	{
		ex := c.fn(fsPkgRel, "(*VFS).Exists")
		var scope []*ssa.Function
		if ex != nil {
			scope = append(scope, ex)
			for _, e := range c.outCalls(ex, false) {
				if inPkg(fsPkgRel)(e.callee) && e.callee.Signature.Results().Len() == 1 && e.callee.Signature.Results().At(0).Type().String() == "bool" {
					scope = append(scope, e.callee)
				}
			}
		}
		n := 0
		for _, f := range scope {
			allInstrs(f, func(in ssa.Instruction) {
				cl, ok := in.(*ssa.Call)
				if !ok || !cl.Call.IsInvoke() || cl.Call.Method.Name() != "Open" {
					return
				}
				es := errResultsOf(cl)
				if len(es) == 0 {
					return
				}
				e := es[0]
				n++
				c.FuncsSeen[fname(f)] = true
				bad := ""
				for _, b := range f.Blocks {
					r, isR := b.Instrs[len(b.Instrs)-1].(*ssa.Return)
					if !isR || len(r.Results) != 1 {
						continue
					}
					// on the failing side of the error, or of what it was converted into
					failing := onNonNilSide(e, r)
					for _, tb := range f.Blocks {
						ifi, ok := tb.Instrs[len(tb.Instrs)-1].(*ssa.If)
						if !ok || failing {
							continue
						}
						if x, nilSucc, isNil := nilTest(ifi); isNil && x != e && c11DependsOn(x, []ssa.Value{e}, map[ssa.Value]bool{}, 0) && edgeDominates(tb, 1-nilSucc, b) {
							failing = true
						}
					}
					if !failing {
						continue
					}
					classified := false
					for _, l := range sources(r.Results[0], deriveOpts{through: func(string) bool { return false }}) {
						if c11DependsOn(l, []ssa.Value{e}, map[ssa.Value]bool{}, 0) {
							classified = true
						}
					}
					if !classified {
						bad = c.ipos(r)
					}
				}
				c.check(bad == "", "N10", fname(f)+"/open-failure-classified", c.ipos(cl), "on the failing side of Open the answer depends on what the error says",
					"where opening the directory fails the answer ("+bad+") does not depend on the error: a directory that cannot be read (permissions) 'does not exist', the removal of the tree around it stops there — successfully — and Rm() reports success with the tree in place")
			})
		}
		if n == 0 {
			c.info("N10", "filesystem.(*VFS).Exists/no-open", "-", "Exists() does not open directories any more")
		}
	}

	// ---- N3 -----------------------------------------------------------------
	prims := 0
	for _, f := range fns {
		allInstrs(f, func(in ssa.Instruction) {
			cl, ok := in.(*ssa.Call)
			if !ok {
				return
			}
			n := calleeFull(&cl.Call)
			outer := outermost(f)
			switch {
			case cl.Call.IsInvoke() && cl.Call.Method.Name() == "RemoveAll", n == "os.RemoveAll", strings.HasSuffix(n, "afero.RemoveAll"):
				prims++
				c.violate("N3", fname(outer)+"/primitive:RemoveAll", c.ipos(cl), "RemoveAll in the removal call graph: the backend's recursive removal decides by itself what to follow and ignores exclusion patterns")
			case cl.Call.IsInvoke() && cl.Call.Method.Name() == "Remove":
				if _, ok := fieldLoad(cl.Call.Value, "VFS", "vfs"); ok {
					prims++
					c.ok("N3", fname(outer)+"/primitive:Remove", c.ipos(cl), "afero.Fs.Remove (unlinks, never follows)")
				}
			case cl.Call.IsInvoke() && cl.Call.Method.Name() == "ForceRemoveIfPossible":
				prims++
				c.ok("N3", fname(outer)+"/primitive:ForceRemove", c.ipos(cl), "privileged fallback")
			case n == "os.Remove":
				prims++
				c.violate("N3", fname(outer)+"/primitive:os.Remove", c.ipos(cl), "removal bypasses the filesystem abstraction")
			}
		})
	}
	if prims == 0 {
		c.fatalf("C04/N3: no removal primitive found in the removal call graph — anchor lost")
	}
}

// c04LinkTestOnCleanPath (N5). lstat("tree/link/") follows the link (POSIX: a trailing separator forces resolution),
// so a link test on the caller's own spelling of the path can be made blind. Inside the recursion paths come out of
// filepath.Join, which cleans; the entry points must clean what they are given before the test.
// c04DescentRule: every descent (list / recurse) on a path that can be a child is preceded by the Lstat link test of that
// path (rule N1 of C04; C08 applies it to the same call graph as E11: what lies beneath an excluded entry is not reached
// through a link elsewhere in the tree).
func (c *Ctx) c04DescentRule(rule string, fns []*ssa.Function, isLister func(*ssa.Function) bool) {
	for _, f := range fns {
		c.FuncsSeen[fname(outermost(f))] = true
		allInstrs(f, func(in ssa.Instruction) {
			cl, ok := in.(*ssa.Call)
			if !ok {
				return
			}
			var name string
			var args []ssa.Value
			if n, a, ok := fsMethodCall(cl); ok {
				name, args = n, a
			} else if g := staticCallee(&cl.Call); g != nil && inPkg(fsPkgRel)(g) && g.Signature.Recv() == nil {
				name, args = g.Name(), cl.Call.Args
			} else {
				return
			}
			if !c04Descents[name] {
				return
			}
			// the path argument: first string-typed argument
			var p ssa.Value
			for _, a := range args {
				if a.Type().String() == "string" {
					p = a
					break
				}
			}
			if p == nil {
				return
			}
			outer := outermost(f)
			key := fname(outer) + "/descent:" + name
			if ok, where := linkGuard(f, p, cl); ok {
				c.ok(rule, key, c.ipos(cl), "Lstat link test at "+c.ipos(where)+" keeps links out of this descent")
				return
			}
			// listing-only function operating on its own parameter: obligation on the call sites (which are descents themselves)
			if pi := paramIndex(outer, resolveValue(p)); pi >= 0 && isLister(outer) && f == outer {
				c.ok(rule, key, c.ipos(cl), "lists its own parameter; the decision to descend is taken (and checked) at the call sites of "+outer.Name())
				return
			}
			// wrappers that only forward their own parameter to the context variant (Rm → RemoveWithContext …) are not decisions
			c.violate(rule, key, c.ipos(cl), "the decision to descend into this path rests on link-following tests (Exists/IsDir/IsEmpty use Stat): a symbolic link to a directory found in the tree is followed and what lies behind it — outside the tree — is deleted")
		})
	}
}

func (c *Ctx) c04LinkTestOnCleanPath(fns []*ssa.Function) {
	for _, f := range fns {
		allInstrs(f, func(in ssa.Instruction) {
			cl, ok := in.(*ssa.Call)
			if !ok {
				return
			}
			name, args, ok := fsMethodCall(cl)
			if !ok || name != "Lstat" || len(args) == 0 {
				return
			}
			// only tests whose outcome decides about links
			usedForLink := false
			for _, ex := range *cl.Referrers() {
				if e, ok := ex.(*ssa.Extract); ok && e.Index == 0 {
					for _, r := range *e.Referrers() {
						if rc, ok := r.(*ssa.Call); ok && (strings.HasSuffix(calleeFull(&rc.Call), "filesystem.IsSymLink") || (rc.Call.IsInvoke() && rc.Call.Method.Name() == "Mode")) {
							usedForLink = true
						}
					}
				}
			}
			if !usedForLink {
				return
			}
			outer := outermost(f)
			key := fname(outer) + "/link-test-path"
			if c.c04Canonical(args[0], 3) {
				c.ok("N5", key, c.ipos(cl), "the path tested is a cleaned path")
			} else {
				c.violate("N5", key, c.ipos(cl), "the link test is made on the path as the caller spelt it: with a trailing separator (\"tree/link/\") Lstat resolves the link, the test does not see a link, and the directory it points to — outside the tree — is cleaned")
			}
		})
	}
}

// c04Canonical: v is the result of filepath.Clean/Join, or a parameter of an unexported function (or of a function
// literal) all of whose package-local call sites pass such values.
func (c *Ctx) c04Canonical(v ssa.Value, depth int) bool {
	v = resolveValue(v)
	if canonicalPath(v, 4) {
		return true
	}
	if depth == 0 {
		return false
	}
	if phi, isPhi := v.(*ssa.Phi); isPhi {
		// a merge of cleaned values with the value itself on the edge where it is the empty string (nothing to clean)
		for i, e := range phi.Edges {
			if c.c04Canonical(e, depth-1) {
				continue
			}
			pb := phi.Block().Preds[i]
			okEmpty := false
			if ifi, isIf := pb.Instrs[len(pb.Instrs)-1].(*ssa.If); isIf {
				cond, ts := boolTest(ifi)
				if b, isB := cond.(*ssa.BinOp); isB && (b.Op == token.NEQ || b.Op == token.EQL) {
					sx, okx := constString(b.Y)
					if okx && sx == "" && resolveValue(b.X) == resolveValue(e) {
						emptySucc := ts // == "" true side
						if b.Op == token.NEQ {
							emptySucc = 1 - ts
						}
						if pb.Succs[emptySucc] == phi.Block() && pb.Succs[1-emptySucc] != phi.Block() {
							okEmpty = true
						}
					}
				}
			}
			if !okEmpty {
				return false
			}
		}
		return true
	}
	p, ok := v.(*ssa.Parameter)
	if !ok {
		return false
	}
	f := p.Parent()
	if f.Object() != nil && f.Object().Exported() {
		return false
	}
	idx := -1
	for i, q := range f.Params {
		if q == p {
			idx = i
		}
	}
	sites, all := 0, true
	for _, g := range c.srcFuncs(fsPkgRel) {
		allInstrs(g, func(in ssa.Instruction) {
			cc := callCommon(in)
			if cc == nil || staticCallee(cc) != f || idx >= len(cc.Args) {
				return
			}
			sites++
			if !c.c04Canonical(cc.Args[idx], depth-1) {
				all = false
			}
		})
	}
	return sites > 0 && all
}

// absentByKind: in the region reached only when Exists(path) answered false, is the path examined (Lstat/Stat), the error of
// that examination classified, and reported by some return?
func absentByKind(region []*ssa.BasicBlock, path ssa.Value) (probeErr ssa.Value, classified, reported bool) {
	for _, rb := range region {
		for _, i2 := range rb.Instrs {
			c2, ok := i2.(*ssa.Call)
			if !ok {
				continue
			}
			if n2, a2, ok := fsMethodCall(c2); ok && (n2 == "Lstat" || n2 == "Stat") && len(a2) > 0 && samePath(a2[0], path) {
				if es := errResultsOf(c2); len(es) > 0 {
					probeErr = es[0]
				}
			}
		}
	}
	if probeErr == nil {
		return
	}
	for _, rb := range region {
		for _, i2 := range rb.Instrs {
			switch x := i2.(type) {
			case *ssa.Call:
				n2 := calleeFull(&x.Call)
				if len(x.Call.Args) > 0 && x.Call.Args[0] == probeErr && (strings.HasSuffix(n2, "filesystem.IsPathNotExist") || strings.HasSuffix(n2, "commonerrors.Any") || n2 == "os.IsNotExist" || n2 == "errors.Is") {
					classified = true
				}
			case *ssa.Return:
				k := len(x.Results) - 1
				if k >= 0 {
					for _, l := range sources(x.Results[k], deriveOpts{}) {
						if l == probeErr || c11DependsOn(l, []ssa.Value{probeErr}, map[ssa.Value]bool{}, 0) {
							reported = true
						}
					}
				}
			}
		}
	}
	return
}

// c04AnswersForTheTree: the functions whose successful answer on the Exists()==false side says something about the tree
// ("gone", "clean", "empty"); confirmed by reading, see DESIGN §5 F66, F77, F78.
var c04AnswersForTheTree = map[string]bool{
	"removeWithContextAndExclusionPatterns":   true,
	"CleanDirWithContextAndExclusionPatterns": true,
	"IsEmpty": true,
}

// c04AbsenceExempt: the other functions that return without an error on that side, one line of reason each.
var c04AbsenceExempt = map[string]string{
	"IsFile":            "a query: 'not known to be a file' is the answer for what cannot be examined",
	"IsLink":            "a query: 'not known to be a link'",
	"IsZipWithContext":  "a query: 'not known to be an archive'",
	"MkDirAll":          "goes on to create the directory: the failure, if any, is reported by the creation",
	"Touch":             "goes on to create the file: the failure, if any, is reported by the creation",
	"FindAll":           "a search in a directory that cannot be examined finds nothing; nothing is claimed about the tree",
	"garbageCollect":    "best-effort collection of old entries: nothing is promised about what is left",
	"garbageCollectDir": "best-effort collection of old entries",
	"Validate":          "a validation rule: the error of the examination is what it reports",
}

// c04AbsentOnlyWhenAbsent (N14): the functions of the filesystem layer which answer "nothing to do" / "empty" because
// Exists() said false. Exists() is also false for a path that cannot be examined; a function which then reports success
// (nothing to remove, nothing to clean, empty) has reported on a tree it never saw.
const absentOnlyWhenAbsentText = "a function of the filesystem layer which returns without an error on the Exists()==false side, having been asked to remove, clean or measure emptiness, examines the path (Lstat), classifies the error and reports it unless it says 'absent'"

func (c *Ctx) c04AbsentOnlyWhenAbsent(rule string, only func(*ssa.Function) bool) {
	for _, f := range c.srcFuncs(fsPkgRel) {
		if f.Parent() != nil || f.Blocks == nil || (only != nil && !only(f)) {
			continue
		}
		allInstrs(f, func(in ssa.Instruction) {
			cl, ok := in.(*ssa.Call)
			if !ok {
				return
			}
			name, args, ok := fsMethodCall(cl)
			if !ok || name != "Exists" || len(args) == 0 {
				return
			}
			for _, b := range f.Blocks {
				ifi, ok := b.Instrs[len(b.Instrs)-1].(*ssa.If)
				if !ok {
					continue
				}
				v, ts := boolTest(ifi)
				if v != ssa.Value(cl) {
					continue
				}
				var r *ssa.Return
				var region []*ssa.BasicBlock
				for _, rb := range f.Blocks {
					if !edgeDominates(b, 1-ts, rb) {
						continue
					}
					region = append(region, rb)
					if x, ok := rb.Instrs[len(rb.Instrs)-1].(*ssa.Return); ok && !isErrorExit(f, x) && r == nil {
						r = x
					}
				}
				if r == nil {
					continue
				}
				key := fname(f) + "/absent-by-error-kind"
				if why, ok := c04AbsenceExempt[f.Name()]; ok {
					c.info(rule, key, c.ipos(cl), "not held to the rule: "+why)
					continue
				}
				if !c04AnswersForTheTree[f.Name()] {
					c.info(rule, key, c.ipos(cl), "returns without an error where Exists() answers false; not one of the functions whose answer describes the tree (remove, clean, is-empty)")
					continue
				}
				probeErr, classified, reported := absentByKind(region, args[0])
				c.check(probeErr != nil && classified && reported, rule, key, c.ipos(cl), "where Exists() answers false the path is examined (Lstat), its error classified, and reported unless it says 'absent'",
					"the function answers 'nothing there' as soon as Exists() answers false, which it also does for a path that cannot be examined (longer than PATH_MAX, a failing Stat): the content stays in place and the caller is told that it is gone / clean / empty")
			}
		})
	}
}

// c04AbsenceOnlyFromLstat (N15): "when the call reports success the tree is really gone, dangling links included". In the
// removal call graph, success is sometimes concluded from the kind of an error ('not found': there is nothing to remove).
// That conclusion is only sound for an examination which does not follow links: Stat, and everything built on it (the
// privileged fallback of package platform looks at the path with os.Stat), answers 'not found' for a dangling link that is
// still there. Decided: wherever a return hands back a nil error on the true side of a classification of an error value
// (commonerrors.Any with a not-found kind, IsPathNotExist, os.IsNotExist, errors.Is), the value classified is the error of
// an Lstat call.
func (c *Ctx) c04AbsenceOnlyFromLstat(fns []*ssa.Function) {
	c.rule("N15", "in the removal call graph a failure is turned into success on the strength of its kind ('not found') only where the error classified is that of an Lstat — the one examination that does not follow links", 0)
	classifierOf := func(v ssa.Value) (*ssa.Call, bool) {
		cl, ok := v.(*ssa.Call)
		if !ok || len(cl.Call.Args) == 0 {
			return nil, false
		}
		n := calleeFull(&cl.Call)
		switch {
		case strings.HasSuffix(n, "filesystem.IsPathNotExist"), n == "os.IsNotExist", n == "errors.Is":
			return cl, true
		case strings.HasSuffix(n, "commonerrors.Any") && len(cl.Call.Args) > 1:
			for _, e := range variadicElems(cl.Call.Args[1]) {
				if isNilConst(e) {
					return nil, false // Any(err, nil, …): true for a success too, nothing is concluded from a kind
				}
			}
			return cl, true
		}
		return nil, false
	}
	fromLstat := func(e ssa.Value) bool {
		ok := false
		for _, l := range sources(e, deriveOpts{through: func(n string) bool { return strings.HasSuffix(n, "ConvertFileSystemError") }}) {
			if ex, isEx := l.(*ssa.Extract); isEx {
				l = ex.Tuple
			}
			cl, isCall := l.(*ssa.Call)
			if !isCall {
				return false
			}
			if nm, _, isFs := fsMethodCall(cl); isFs && nm == "Lstat" {
				ok = true
				continue
			}
			if calleeFull(&cl.Call) == "os.Lstat" {
				ok = true
				continue
			}
			return false
		}
		return ok
	}
	n := 0
	for _, f := range fns {
		if f.Blocks == nil {
			continue
		}
		k := f.Signature.Results().Len() - 1
		if k < 0 || !isErrorType(f.Signature.Results().At(k).Type()) {
			continue
		}
		var sites []*ssa.BasicBlock
		allInstrs(f, func(in ssa.Instruction) {
			r, ok := in.(*ssa.Return)
			if !ok || len(r.Results) <= k {
				return
			}
			seen := map[ssa.Value]bool{}
			var walk func(v ssa.Value, b *ssa.BasicBlock)
			walk = func(v ssa.Value, b *ssa.BasicBlock) {
				if isNilConst(v) {
					sites = append(sites, b)
					return
				}
				if p, ok := v.(*ssa.Phi); ok && !seen[p] {
					seen[p] = true
					for i, e := range p.Edges {
						walk(e, p.Block().Preds[i])
					}
				}
			}
			walk(r.Results[k], r.Block())
		})
		done := map[*ssa.Call]bool{}
		for _, b := range sites {
			at := b.Instrs[len(b.Instrs)-1]
			var hit *ssa.Call
			onBoolSide(at, true, func(v ssa.Value) bool {
				if cl, ok := classifierOf(v); ok {
					hit = cl
					return true
				}
				return false
			})
			if hit == nil || done[hit] {
				continue
			}
			done[hit] = true
			converter := false
			for _, l := range sources(hit.Call.Args[0], deriveOpts{through: func(string) bool { return true }}) {
				if prm, isParam := l.(*ssa.Parameter); isParam && isErrorType(prm.Type()) {
					converter = true
				}
			}
			if converter {
				continue // a converter: it classifies the error it was given and decides nothing about a removal
			}
			n++
			key := fname(f) + "/success-by-kind"
			if n > 1 {
				key += "#" + strconv.Itoa(n-1)
			}
			c.FuncsSeen[fname(f)] = true
			c.check(fromLstat(hit.Call.Args[0]), "N15", key, c.ipos(hit), "the error taken for 'absent' is that of an Lstat",
				"success is reported because an error was classified as 'not found', and that error does not come from an Lstat: an examination that follows links (Stat, the privileged fallback of package platform) answers 'not found' for a dangling link which is still there — the call reports that the tree is gone and the link stays")
		}
	}
	if n == 0 {
		c.info("N15", "filesystem/no-success-by-kind", "-", "no function of the removal call graph concludes success from the kind of an error")
	}
}

// c04PatternsHandedDown (N16): "entries matching an exclusion pattern survive together with their ancestors" — at every depth.
// The removal descends by calling itself through helpers; a helper that receives the caller's patterns and calls the next
// removal function without them removes everything below that point unprotected. Decided over the removal call graph: a
// function with a patterns parameter (`...string`, `[]string` or `[]*regexp.Regexp` named like exclusion patterns) that calls
// a function of the graph which has one too, hands over a value derived from its own.
func (c *Ctx) c04PatternsHandedDown(fns []*ssa.Function) {
	c.rule("N16", "in the removal call graph the exclusion patterns a function received are handed to every function of the graph it calls that takes patterns: what is protected at the first level is protected at every depth", 4)
	inGraph := map[*ssa.Function]bool{}
	for _, f := range fns {
		inGraph[f] = true
	}
	patternParam := func(g *ssa.Function) int {
		for i, p := range g.Params {
			t := p.Type().String()
			if (t == "[]string" || t == "[]*regexp.Regexp") && strings.Contains(strings.ToLower(p.Name()), "exclusion") {
				return i
			}
		}
		return -1
	}
	for _, f := range fns {
		if f.Parent() != nil || f.Blocks == nil {
			continue
		}
		pi := patternParam(f)
		if pi < 0 {
			continue
		}
		own := f.Params[pi]
		n := 0
		withAnon(f, func(h *ssa.Function) {
			allInstrs(h, func(in ssa.Instruction) {
				cl, ok := in.(*ssa.Call)
				if !ok {
					return
				}
				g := staticCallee(&cl.Call)
				if g == nil || !inGraph[g] || g == f && false {
					return
				}
				gi := patternParam(g)
				if gi < 0 || gi >= len(cl.Call.Args) {
					return
				}
				handed := false
				for _, l := range sources(cl.Call.Args[gi], deriveOpts{through: func(string) bool { return true }}) {
					if rv := resolveValue(l); rv == ssa.Value(own) {
						handed = true
					}
					if fv, isFv := l.(*ssa.FreeVar); isFv && fv.Name() == own.Name() {
						handed = true
					}
				}
				key := fname(f) + "/patterns-to:" + g.Name()
				if n > 0 {
					key += "#" + strconv.Itoa(n)
				}
				n++
				c.FuncsSeen[fname(f)] = true
				c.check(handed, "N16", key, c.ipos(cl), "the patterns received are handed on",
					fname(f)+" receives exclusion patterns and calls "+g.Name()+" without them: everything below that call is removed with no pattern at all — an excluded entry two levels down is deleted together with its ancestors, and the call reports success")
			})
		})
	}
}

// c04FailuresAreNotOvertaken (N17): "when the call reports success … the tree (for CleanDir, its content) is really gone". The
// cleaning removes the entries of a directory one after the other. If the loop goes on after an entry could not be removed,
// the failure has to be kept somewhere: assigned to the variable that the next iteration assigns again, it is overtaken by
// the success of a later entry, and the caller — which finds the directory not empty and takes that for excluded entries —
// reports success all the way up. Decided over the removal call graph: where the error of a removal call made in a loop
// can be non-nil on a path that leads back to the same call (the next iteration), that error is handed to something that
// keeps it (append, errors.Join, a store into a structure) — looking at its kind is not keeping it.
func (c *Ctx) c04FailuresAreNotOvertaken(fns []*ssa.Function) {
	c.rule("N17", "in the loops of the removal call graph, the error of a removal step is either the end of the loop (a return) or kept (appended, joined, stored) before the next iteration: it is never merely overtaken by the outcome of the next entry", 1)
	inGraph := map[*ssa.Function]bool{}
	for _, f := range fns {
		inGraph[f] = true
	}
	n := 0
	for _, f := range fns {
		if f.Blocks == nil {
			continue
		}
		allInstrs(f, func(in ssa.Instruction) {
			cl, ok := in.(*ssa.Call)
			if !ok || !inLoop(cl) {
				return
			}
			g := staticCallee(&cl.Call)
			if g == nil || !inGraph[g] || !(strings.Contains(strings.ToLower(g.Name()), "remove") || strings.HasPrefix(g.Name(), "Rm") || strings.Contains(g.Name(), "garbageCollect")) {
				return
			}
			es := errResultsOf(cl)
			if len(es) == 0 {
				return
			}
			e := es[0]
			n++
			// can the next iteration be reached with e possibly non-nil?
			prune := func(b *ssa.BasicBlock, k int) bool {
				ifi, ok := b.Instrs[len(b.Instrs)-1].(*ssa.If)
				if !ok {
					return false
				}
				if x, nilSucc, isNil := nilTest(ifi); isNil && sameValue(x, e) {
					return k == nilSucc // e is nil there: nothing to lose
				}
				return false
			}
			again := pathPruned(f, cl, func(ssa.Instruction) bool { return false }, func(i ssa.Instruction) bool { return i == ssa.Instruction(cl) }, prune)
			kept := false
			if again != nil {
				seen := map[ssa.Value]bool{}
				var uses func(v ssa.Value, d int)
				uses = func(v ssa.Value, d int) {
					if v == nil || seen[v] || d > 6 || v.Referrers() == nil {
						return
					}
					seen[v] = true
					for _, r := range *v.Referrers() {
						switch x := r.(type) {
						case *ssa.Phi:
							uses(x, d+1)
						case *ssa.MakeInterface:
							uses(x, d+1)
						case *ssa.Store:
							if _, isAlloc := x.Addr.(*ssa.Alloc); !isAlloc || x.Val != v {
								kept = kept || x.Val == v
							}
						case *ssa.Call:
							cn := calleeFull(&x.Call)
							if bi, isB := x.Call.Value.(*ssa.Builtin); isB && bi.Name() == "append" {
								kept = true
							}
							if cn == "errors.Join" || strings.HasSuffix(cn, "multierror.Append") {
								kept = true
							}
						}
					}
				}
				uses(e, 0)
			}
			key := fname(outermost(f)) + "/failure-kept:" + g.Name()
			c.FuncsSeen[fname(outermost(f))] = true
			c.check(again == nil || kept, "N17", key, c.ipos(cl), "a failed removal ends the loop, or is kept before the next iteration",
				"the loop goes on to the next entry with the error of "+g.Name()+" possibly not nil and kept nowhere: the next iteration assigns the variable again, the failure of one entry is overtaken by the success of a later one, CleanDir returns nil with the entry in place, the caller takes the non-empty directory for excluded entries, and Rm() reports success with the tree still there")
		})
	}
	if n == 0 {
		c.info("N17", "filesystem/no-removal-in-a-loop", "-", "no removal step is made in a loop any more")
	}
}

// c04GivenPathMatchedWhole (N18): "entries matching an exclusion pattern survive". An entry found while a directory is
// cleaned is matched by its name when the directory is listed; the path a removal function was *given* is matched as the
// path it is — every pattern is expanded into a form that matches a whole path with the named component anywhere in it
// (`.*/pattern/.*`). Reduced to its last component first (filepath.Base), a path below an excluded directory, or one a
// pattern designates in path form, is no longer recognised and is removed.
func (c *Ctx) c04GivenPathMatchedWhole(fns []*ssa.Function) {
	c.rule("N18", "in the removal call graph the path a function was given is tested against the patterns as the (cleaned) path itself, not reduced to a component (filepath.Base / Dir / Ext / Rel) first", 1)
	for _, f := range fns {
		if f.Blocks == nil {
			continue
		}
		top := outermost(f)
		n := 0
		allInstrs(f, func(in ssa.Instruction) {
			cl, ok := in.(*ssa.Call)
			if !ok {
				return
			}
			name := calleeFull(&cl.Call)
			if !strings.HasSuffix(name, "filesystem.IsPathExcluded") && !strings.HasSuffix(name, "filesystem.IsPathExcludedFromPatterns") || len(cl.Call.Args) == 0 {
				return
			}
			reduced := ""
			fromParam := false
			for _, l := range sources(cl.Call.Args[0], deriveOpts{through: func(g string) bool {
				for _, red := range []string{"path.Base", "path.Dir", "path.Ext", "FilepathStem", "filepath.Base", "filepath.Dir", "filepath.Ext", "filepath.Rel", "filepath.Split"} {
					if strings.HasSuffix(g, red) {
						reduced = red
					}
				}
				return true
			}}) {
				if p, ok := resolveValue(l).(*ssa.Parameter); ok && p.Parent() == top && p.Type().String() == "string" {
					fromParam = true
				}
				if fv, ok := l.(*ssa.FreeVar); ok && fv.Type().String() == "*string" {
					fromParam = true
				}
			}
			if !fromParam || inLoop(cl) {
				return // an item of a listing (matched by name, E3), not the path given
			}
			key := fname(top) + "/given-path-matched-whole"
			if n > 0 {
				key += "#" + strconv.Itoa(n)
			}
			n++
			c.FuncsSeen[fname(top)] = true
			c.check(reduced == "", "N18", key, c.ipos(cl), "the path given is matched as it is",
				"the path given is reduced with "+reduced+" before it is matched: a file below an excluded directory (…/vault/sub/data.txt with the pattern `vault`), or one a pattern designates in path form, is no longer recognised as excluded — the library's own IsPathExcludedFromPatterns says it is — and it is removed")
		})
	}
}

// c04BackendsOnlyRemove (N19): the removal hands every path — symbolic links among them, after its own Lstat test — to the
// backend's Remove. The backends the package defines itself (the extended OS filesystem, wrappers) may override that
// primitive; an override only removes: anything it does to the path beforehand that goes through links (chmod, chown,
// chtimes — "make it writable and try again") is done to what a link points to, outside the tree, behind the back of the
// link test the removal made.
func (c *Ctx) c04BackendsOnlyRemove() {
	c.rule("N19", "a Remove / RemoveAll method defined by a backend type of package filesystem applies no link-following operation (chmod, chown, chtimes) to the path it is given", 0)
	n := 0
	for _, f := range c.srcFuncs(fsPkgRel) {
		if f.Signature.Recv() == nil || f.Blocks == nil || (f.Name() != "Remove" && f.Name() != "RemoveAll") {
			continue
		}
		if strings.Contains(f.Signature.Recv().Type().String(), "filesystem.VFS") {
			continue // the layer itself: N1–N18
		}
		n++
		c.FuncsSeen[fname(f)] = true
		bad := ""
		allInstrs(f, func(in ssa.Instruction) {
			cc := callCommon(in)
			if cc == nil {
				return
			}
			name := ""
			if cc.IsInvoke() {
				name = cc.Method.Name()
			} else if g := staticCallee(cc); g != nil {
				name = g.Name()
			}
			switch name {
			case "Chmod", "Chown", "Chtimes", "ChangeOwnership", "ChmodRecursively", "ChownRecursively":
				bad = c.ipos(in) + " (" + name + ")"
			}
		})
		c.check(bad == "", "N19", fname(f)+"/only-removes", c.pos(f.Pos()), "the backend's removal primitive does nothing to the path but remove it",
			"the backend's own "+f.Name()+" applies a link-following operation to the path at "+bad+": the removal hands it symbolic links too (it tested them with Lstat and does not descend), so where removing a link is refused (a read-only or immutable directory) the file or directory the link points to — outside the tree — has its mode, owner or times changed")
	}
	if n == 0 {
		c.info("N19", "filesystem/no-backend-overrides-remove", "-", "no backend type of package filesystem defines Remove / RemoveAll itself: the embedded afero primitive is used")
	}
}
