package main

// SSA helpers: callee resolution, dominance at instruction granularity,
// path search, value derivation, error-edge classification, defers.

import (
	"go/constant"
	"go/token"
	"go/types"
	"strings"

	"golang.org/x/tools/go/ssa"
)

// ---------------------------------------------------------------------------
// callee naming

// calleeFull returns the fully qualified name of the callee of a call when it
// is statically known: "pkg/path.Func", "(*pkg/path.T).Method",
// "(pkg/path.I).Method" for interface invokes. Empty for dynamic calls of
// function values.
func calleeFull(cc *ssa.CallCommon) string {
	if cc.IsInvoke() {
		return cc.Method.FullName()
	}
	switch v := cc.Value.(type) {
	case *ssa.Function:
		return funcFull(v)
	case *ssa.MakeClosure:
		if f, ok := v.Fn.(*ssa.Function); ok {
			return funcFull(f)
		}
	case *ssa.Builtin:
		return "builtin." + v.Name()
	}
	return ""
}

func funcFull(f *ssa.Function) string {
	if o := f.Origin(); o != nil {
		f = o
	}
	if obj, ok := f.Object().(*types.Func); ok && obj != nil {
		return obj.FullName()
	}
	return f.String()
}

// shortCallee strips the module path for readability.
func short(s string) string {
	return strings.ReplaceAll(s, modPath+"/", "")
}

func callCommon(i ssa.Instruction) *ssa.CallCommon {
	switch v := i.(type) {
	case *ssa.Call:
		return &v.Call
	case *ssa.Defer:
		return &v.Call
	case *ssa.Go:
		return &v.Call
	}
	return nil
}

// staticCallee returns the function called when it is statically determined
// (including closures created in place).
func staticCallee(cc *ssa.CallCommon) *ssa.Function {
	if cc.IsInvoke() {
		return nil
	}
	switch v := cc.Value.(type) {
	case *ssa.Function:
		return v
	case *ssa.MakeClosure:
		f, _ := v.Fn.(*ssa.Function)
		return f
	}
	return nil
}

// isCall reports whether instruction i is a plain call (not defer/go) whose
// callee's full name is one of names.
func isCall(i ssa.Instruction, names ...string) bool {
	c, ok := i.(*ssa.Call)
	if !ok {
		return false
	}
	n := calleeFull(&c.Call)
	for _, x := range names {
		if n == x {
			return true
		}
	}
	return false
}

func hasSuffixAny(s string, suf ...string) bool {
	for _, x := range suf {
		if strings.HasSuffix(s, x) {
			return true
		}
	}
	return false
}

// ---------------------------------------------------------------------------
// instruction order and dominance

func instrIndex(i ssa.Instruction) int {
	b := i.Block()
	for k, j := range b.Instrs {
		if j == i {
			return k
		}
	}
	return -1
}

// dominates: a executes before b on every path from the function entry to b.
func dominates(a, b ssa.Instruction) bool {
	if a.Parent() != b.Parent() {
		return false
	}
	if a.Block() == b.Block() {
		return instrIndex(a) < instrIndex(b)
	}
	return a.Block().Dominates(b.Block())
}

// blockDominatedByEdge: block b can only be entered through the edge
// from→from.Succs[k] (i.e. the successor dominates b and the successor has
// the single predecessor from, or every other predecessor of succ is dominated
// by succ itself).
func edgeDominates(from *ssa.BasicBlock, k int, b *ssa.BasicBlock) bool {
	succ := from.Succs[k]
	if !succ.Dominates(b) {
		return false
	}
	for _, p := range succ.Preds {
		if p == from {
			// the same block may reach succ through both edges
			if from.Succs[0] == from.Succs[1] {
				return false
			}
			continue
		}
		if !succ.Dominates(p) {
			return false
		}
	}
	return true
}

// ---------------------------------------------------------------------------
// path search at instruction granularity

// pathAvoiding searches a control-flow path starting right after instruction
// `from` to any instruction satisfying `target`, along which no instruction
// satisfies `stop`. It returns the target reached (nil if none). Panics
// blocks (ending in *ssa.Panic) are not targets unless target says so.
func pathAvoiding(from ssa.Instruction, stop func(ssa.Instruction) bool, target func(ssa.Instruction) bool) ssa.Instruction {
	b := from.Block()
	idx := instrIndex(from)
	seen := map[*ssa.BasicBlock]bool{}
	var walk func(b *ssa.BasicBlock, start int) ssa.Instruction
	walk = func(b *ssa.BasicBlock, start int) ssa.Instruction {
		for k := start; k < len(b.Instrs); k++ {
			in := b.Instrs[k]
			if target(in) {
				return in
			}
			if stop(in) {
				return nil
			}
		}
		for _, s := range b.Succs {
			if seen[s] {
				continue
			}
			seen[s] = true
			if r := walk(s, 0); r != nil {
				return r
			}
		}
		return nil
	}
	return walk(b, idx+1)
}

// pathFromEntryAvoiding: same, from function entry.
func pathFromEntryAvoiding(f *ssa.Function, stop func(ssa.Instruction) bool, target func(ssa.Instruction) bool) ssa.Instruction {
	if len(f.Blocks) == 0 {
		return nil
	}
	seen := map[*ssa.BasicBlock]bool{f.Blocks[0]: true}
	var walk func(b *ssa.BasicBlock) ssa.Instruction
	walk = func(b *ssa.BasicBlock) ssa.Instruction {
		for _, in := range b.Instrs {
			if target(in) {
				return in
			}
			if stop(in) {
				return nil
			}
		}
		for _, s := range b.Succs {
			if seen[s] {
				continue
			}
			seen[s] = true
			if r := walk(s); r != nil {
				return r
			}
		}
		return nil
	}
	return walk(f.Blocks[0])
}

func isReturn(i ssa.Instruction) bool {
	_, ok := i.(*ssa.Return)
	return ok
}

// ---------------------------------------------------------------------------
// nil / error tests

func isNilConst(v ssa.Value) bool {
	c, ok := v.(*ssa.Const)
	return ok && c.Value == nil
}

func isErrorType(t types.Type) bool {
	return types.Identical(t, types.Universe.Lookup("error").Type())
}

// errTest decodes `if x != nil` / `if x == nil` on an If instruction.
// Returns the tested value and the index of the successor on which x is nil.
func nilTest(ifi *ssa.If) (x ssa.Value, nilSucc int, ok bool) {
	cond := ifi.Cond
	neg := false
	for {
		if u, isU := cond.(*ssa.UnOp); isU && u.Op == token.NOT {
			neg = !neg
			cond = u.X
			continue
		}
		break
	}
	b, isB := cond.(*ssa.BinOp)
	if !isB || (b.Op != token.NEQ && b.Op != token.EQL) {
		return nil, 0, false
	}
	var v ssa.Value
	if isNilConst(b.Y) {
		v = b.X
	} else if isNilConst(b.X) {
		v = b.Y
	} else {
		return nil, 0, false
	}
	// x != nil: true succ (0) is non-nil, false succ (1) is nil
	nilSucc = 1
	if b.Op == token.EQL {
		nilSucc = 0
	}
	if neg {
		nilSucc = 1 - nilSucc
	}
	return v, nilSucc, true
}

// onNilSide reports whether instruction `at` can only execute after value v
// (typically an error) has been tested and found nil.
func onNilSide(v ssa.Value, at ssa.Instruction) bool {
	f := at.Parent()
	for _, b := range f.Blocks {
		ifi, ok := b.Instrs[len(b.Instrs)-1].(*ssa.If)
		if !ok {
			continue
		}
		x, nilSucc, ok := nilTest(ifi)
		if !ok || !sameValue(x, v) {
			continue
		}
		if edgeDominates(b, nilSucc, at.Block()) {
			return true
		}
	}
	return false
}

// onNonNilSide: `at` only executes where v != nil.
func onNonNilSide(v ssa.Value, at ssa.Instruction) bool {
	f := at.Parent()
	for _, b := range f.Blocks {
		ifi, ok := b.Instrs[len(b.Instrs)-1].(*ssa.If)
		if !ok {
			continue
		}
		x, nilSucc, ok := nilTest(ifi)
		if !ok || !sameValue(x, v) {
			continue
		}
		if edgeDominates(b, 1-nilSucc, at.Block()) {
			return true
		}
	}
	return false
}

// sameValue: identity modulo loads of the same local cell with no store in
// between being checked (conservative: same SSA value, or both loads of the
// same Alloc in the same block with no intervening store/call).
func sameValue(a, b ssa.Value) bool {
	if a == b {
		return true
	}
	// a is a load of a local cell whose only reaching store is b (results
	// spilled because of defer/closures)
	if la, ok := a.(*ssa.UnOp); ok && la.Op == token.MUL {
		if al, ok := la.X.(*ssa.Alloc); ok {
			st, zero := reachingStores(la, al)
			if !zero && len(st) == 1 && st[0] == b {
				return true
			}
		}
	}
	la, ok1 := a.(*ssa.UnOp)
	lb, ok2 := b.(*ssa.UnOp)
	if ok1 && ok2 && la.Op == token.MUL && lb.Op == token.MUL && la.X == lb.X {
		if _, isAlloc := la.X.(*ssa.Alloc); isAlloc {
			return true // refined by callers when it matters
		}
		if _, isFV := la.X.(*ssa.FreeVar); isFV {
			return true
		}
	}
	return false
}

// ---------------------------------------------------------------------------
// value derivation (backward def-use closure)

type deriveOpts struct {
	// through reports whether the call's result should be considered derived
	// from its arguments (e.g. filepath.Clean). Receives the callee full name.
	through func(callee string) bool
	// stopAt: values at which the walk stops (treated as leaves).
	maxDepth int
}

// sources computes the set of leaf values (parameters, constants, calls not
// passed through, globals, free vars, field loads) a value is derived from.
func sources(v ssa.Value, o deriveOpts) []ssa.Value {
	seen := map[ssa.Value]bool{}
	var leaves []ssa.Value
	var walk func(v ssa.Value, d int)
	walk = func(v ssa.Value, d int) {
		if v == nil || seen[v] {
			return
		}
		seen[v] = true
		switch x := v.(type) {
		case *ssa.Phi:
			for _, e := range x.Edges {
				walk(e, d)
			}
		case *ssa.ChangeType:
			walk(x.X, d)
		case *ssa.Convert:
			walk(x.X, d)
		case *ssa.ChangeInterface:
			walk(x.X, d)
		case *ssa.MakeInterface:
			walk(x.X, d)
		case *ssa.TypeAssert:
			walk(x.X, d)
		case *ssa.Slice:
			walk(x.X, d)
		case *ssa.Extract:
			if call, ok := x.Tuple.(*ssa.Call); ok {
				n := calleeFull(&call.Call)
				if o.through != nil && n != "" && o.through(n) {
					for _, a := range call.Call.Args {
						walk(a, d)
					}
					if call.Call.IsInvoke() {
						walk(call.Call.Value, d)
					}
					return
				}
			}
			leaves = append(leaves, v)
		case *ssa.Call:
			n := calleeFull(&x.Call)
			if n == "builtin.min" || n == "builtin.max" || (o.through != nil && n != "" && o.through(n)) {
				for _, a := range x.Call.Args {
					walk(a, d)
				}
				if x.Call.IsInvoke() {
					walk(x.Call.Value, d)
				}
				return
			}
			leaves = append(leaves, v)
		case *ssa.UnOp:
			if x.Op == token.MUL {
				// load: from an Alloc → everything stored there
				switch a := x.X.(type) {
				case *ssa.Alloc:
					st, zero := reachingStores(x, a)
					if len(st) == 0 || zero {
						leaves = append(leaves, v)
					}
					for _, s := range st {
						walk(s, d)
					}
					return
				case *ssa.IndexAddr:
					// element of a slice/array: derived from the container
					walk(a.X, d)
					return
				}
				leaves = append(leaves, v)
				return
			}
			walk(x.X, d)
		case *ssa.BinOp:
			if x.Op == token.ADD || x.Op == token.SUB || x.Op == token.MUL || x.Op == token.QUO {
				walk(x.X, d)
				walk(x.Y, d)
				return
			}
			leaves = append(leaves, v)
		case *ssa.Alloc:
			// slice literal backing array (variadic args): elements stored
			es := storesToElems(x)
			for _, s := range es {
				walk(s, d)
			}
			st := storesTo(x)
			for _, s := range st {
				walk(s, d)
			}
			if len(st)+len(es) == 0 {
				leaves = append(leaves, v)
			}
		default:
			leaves = append(leaves, v)
		}
	}
	walk(v, 0)
	return leaves
}

// reachingStores: the values that may be in local cell a when `load` executes:
// per backward path, the nearest store to a. Stores made by closures that
// capture the cell are added flow-insensitively. When some path reaches the
// function entry without a store the zero value is represented by nil being
// absent (callers treat "no store" as a leaf).
func reachingStores(load *ssa.UnOp, a *ssa.Alloc) (vals []ssa.Value, zero bool) {
	var out []ssa.Value
	add := func(v ssa.Value) {
		for _, o := range out {
			if o == v {
				return
			}
		}
		out = append(out, v)
	}
	if load.Parent() != a.Parent() {
		// load inside a closure: flow-insensitive
		return storesToDeep(a), false
	}
	seen := map[*ssa.BasicBlock]bool{}
	var back func(b *ssa.BasicBlock, from int)
	back = func(b *ssa.BasicBlock, from int) {
		for k := from; k >= 0; k-- {
			if s, ok := b.Instrs[k].(*ssa.Store); ok && s.Addr == ssa.Value(a) {
				add(s.Val)
				return
			}
		}
		if b.Index == 0 {
			zero = true
		}
		for _, p := range b.Preds {
			if seen[p] {
				continue
			}
			seen[p] = true
			back(p, len(p.Instrs)-1)
		}
	}
	back(load.Block(), instrIndex(load)-1)
	// stores through captures (a literal that is only deferred runs at exit: its stores cannot reach a load in the body)
	for _, r := range *a.Referrers() {
		if mc, ok := r.(*ssa.MakeClosure); ok {
			if onlyDeferred(mc) {
				continue
			}
			if g, ok := mc.Fn.(*ssa.Function); ok {
				for i, b := range mc.Bindings {
					if b == ssa.Value(a) && i < len(g.FreeVars) {
						for _, rr := range *g.FreeVars[i].Referrers() {
							if s, ok := rr.(*ssa.Store); ok && s.Addr == ssa.Value(g.FreeVars[i]) {
								add(s.Val)
							}
						}
					}
				}
			}
		}
	}
	return out, zero
}

func storesToDeep(a *ssa.Alloc) []ssa.Value {
	out := storesTo(a)
	for _, r := range *a.Referrers() {
		if mc, ok := r.(*ssa.MakeClosure); ok {
			if g, ok := mc.Fn.(*ssa.Function); ok {
				for i, b := range mc.Bindings {
					if b == ssa.Value(a) && i < len(g.FreeVars) {
						for _, rr := range *g.FreeVars[i].Referrers() {
							if s, ok := rr.(*ssa.Store); ok && s.Addr == ssa.Value(g.FreeVars[i]) {
								out = append(out, s.Val)
							}
						}
					}
				}
			}
		}
	}
	return out
}

// storesTo: values stored directly into an Alloc cell.
func storesTo(a *ssa.Alloc) []ssa.Value {
	var out []ssa.Value
	for _, r := range *a.Referrers() {
		if s, ok := r.(*ssa.Store); ok && s.Addr == a {
			out = append(out, s.Val)
		}
	}
	return out
}

// storesToElems: values stored into elements of an array Alloc (variadic
// argument packs: new [n]T; &t[i]; *p = v; slice t[:]).
func storesToElems(a *ssa.Alloc) []ssa.Value {
	var out []ssa.Value
	for _, r := range *a.Referrers() {
		if ia, ok := r.(*ssa.IndexAddr); ok {
			for _, rr := range *ia.Referrers() {
				if s, ok := rr.(*ssa.Store); ok && s.Addr == ia {
					out = append(out, s.Val)
				}
			}
		}
	}
	return out
}

// derivesFrom: is `root` among the transitive operands of v (through the same
// walk as sources, with all calls passed through when throughAll).
func derivesFrom(v ssa.Value, root ssa.Value, through func(string) bool) bool {
	for _, l := range sources(v, deriveOpts{through: through}) {
		if l == root {
			return true
		}
	}
	return false
}

// ---------------------------------------------------------------------------
// constants

func constString(v ssa.Value) (string, bool) {
	c, ok := v.(*ssa.Const)
	if !ok || c.Value == nil || c.Value.Kind() != constant.String {
		return "", false
	}
	return constant.StringVal(c.Value), true
}

func constInt(v ssa.Value) (int64, bool) {
	c, ok := v.(*ssa.Const)
	if !ok || c.Value == nil || c.Value.Kind() != constant.Int {
		return 0, false
	}
	n, exact := constant.Int64Val(c.Value)
	return n, exact
}

// ---------------------------------------------------------------------------
// defers

// deferredCallees lists, for a Defer instruction, the functions whose bodies
// will run: the callee itself and (when it is a closure) its body is returned
// as the function.
func deferBody(d *ssa.Defer) *ssa.Function {
	return staticCallee(&d.Call)
}

// funcCalls reports whether f's body (not transitively) contains a call whose
// callee satisfies pred, at any instruction.
func funcContainsCall(f *ssa.Function, pred func(cc *ssa.CallCommon) bool) bool {
	if f == nil {
		return false
	}
	for _, b := range f.Blocks {
		for _, in := range b.Instrs {
			if cc := callCommon(in); cc != nil && pred(cc) {
				return true
			}
		}
	}
	return false
}

// allInstrs iterates over all instructions of f.
func allInstrs(f *ssa.Function, fn func(ssa.Instruction)) {
	for _, b := range f.Blocks {
		if b == f.Recover {
			continue // synthetic block of functions with defers: returns the named results after a recovered panic
		}
		for _, in := range b.Instrs {
			fn(in)
		}
	}
}

// withAnon iterates f and all nested anonymous functions.
func withAnon(f *ssa.Function, fn func(*ssa.Function)) {
	fn(f)
	for _, a := range f.AnonFuncs {
		withAnon(a, fn)
	}
}

// ---------------------------------------------------------------------------
// call graph (static + closures + optional CHA for interface invokes)

type callEdge struct {
	site   ssa.Instruction
	callee *ssa.Function
}

// outCalls returns the statically resolved callees of f, including functions
// referenced as values (closures made, functions/method values passed as
// arguments) — an over-approximation suited to "reaches" questions.
func (c *Ctx) outCalls(f *ssa.Function, cha bool) []callEdge {
	var out []callEdge
	allInstrs(f, func(in ssa.Instruction) {
		if cc := callCommon(in); cc != nil {
			if g := staticCallee(cc); g != nil {
				out = append(out, callEdge{in, g})
			} else if cc.IsInvoke() && cha {
				for _, g := range c.implementations(cc.Method) {
					out = append(out, callEdge{in, g})
				}
			}
		}
		// function values referenced
		var ops [16]*ssa.Value
		for _, op := range in.Operands(ops[:0]) {
			if op == nil || *op == nil {
				continue
			}
			switch v := (*op).(type) {
			case *ssa.Function:
				if cc := callCommon(in); cc != nil && cc.Value == v {
					continue
				}
				out = append(out, callEdge{in, v})
			case *ssa.MakeClosure:
				if g, ok := v.Fn.(*ssa.Function); ok {
					if cc := callCommon(in); cc != nil && cc.Value == v {
						continue
					}
					out = append(out, callEdge{in, g})
				}
			}
		}
		if mc, ok := in.(*ssa.MakeClosure); ok {
			if g, ok := mc.Fn.(*ssa.Function); ok {
				out = append(out, callEdge{in, g})
			}
		}
	})
	return out
}

var implCache = map[*types.Func][]*ssa.Function{}

// implementations: methods of module types implementing the interface method.
func (c *Ctx) implementations(m *types.Func) []*ssa.Function {
	if r, ok := implCache[m]; ok {
		return r
	}
	var out []*ssa.Function
	sig := m.Type().(*types.Signature)
	recv := sig.Recv()
	if recv == nil {
		return nil
	}
	iface, _ := recv.Type().Underlying().(*types.Interface)
	if iface == nil {
		return nil
	}
	for _, sp := range c.SSAPkgs {
		for _, mem := range sp.Members {
			t, ok := mem.(*ssa.Type)
			if !ok {
				continue
			}
			if _, isIface := t.Type().Underlying().(*types.Interface); isIface {
				continue
			}
			for _, tt := range []types.Type{t.Type(), types.NewPointer(t.Type())} {
				if types.Implements(tt, iface) {
					sel := c.Prog.MethodSets.MethodSet(tt).Lookup(m.Pkg(), m.Name())
					if sel != nil {
						if f := c.Prog.MethodValue(sel); f != nil {
							out = append(out, f)
						}
					}
					break
				}
			}
		}
	}
	implCache[m] = out
	return out
}

// reachable computes the set of functions reachable from roots.
func (c *Ctx) reachable(roots []*ssa.Function, cha bool, within func(*ssa.Function) bool) map[*ssa.Function]bool {
	seen := map[*ssa.Function]bool{}
	var stack []*ssa.Function
	for _, r := range roots {
		if r != nil && !seen[r] {
			seen[r] = true
			stack = append(stack, r)
		}
	}
	for len(stack) > 0 {
		f := stack[len(stack)-1]
		stack = stack[:len(stack)-1]
		for _, e := range c.outCalls(f, cha) {
			g := e.callee
			if seen[g] || g.Blocks == nil {
				continue
			}
			if within != nil && !within(g) {
				continue
			}
			seen[g] = true
			stack = append(stack, g)
		}
	}
	return seen
}

func inModule(f *ssa.Function) bool {
	return f.Pkg != nil && strings.HasPrefix(f.Pkg.Pkg.Path(), modPath)
}

func inPkg(rel string) func(*ssa.Function) bool {
	return func(f *ssa.Function) bool {
		p := f.Pkg
		if p == nil && f.Parent() != nil {
			p = f.Parent().Pkg
		}
		return p != nil && p.Pkg.Path() == modPath+"/"+rel
	}
}

// parentChain: outermost named function of an anonymous function.
func outermost(f *ssa.Function) *ssa.Function {
	for f.Parent() != nil {
		f = f.Parent()
	}
	return f
}

// ---------------------------------------------------------------------------
// boolean branch helpers

// boolTest decodes the condition of an If down to a non-negated value and
// tells which successor is taken when that value is true.
func boolTest(ifi *ssa.If) (v ssa.Value, trueSucc int) {
	cond := ifi.Cond
	trueSucc = 0
	for {
		if u, ok := cond.(*ssa.UnOp); ok && u.Op == token.NOT {
			cond = u.X
			trueSucc = 1 - trueSucc
			continue
		}
		// x == true, x != false, x == false, x != true
		if b, ok := cond.(*ssa.BinOp); ok && (b.Op == token.EQL || b.Op == token.NEQ) {
			var other ssa.Value
			var k, isConst bool
			if kv, isC := constBool(b.Y); isC {
				other, k, isConst = b.X, kv, true
			} else if kv, isC := constBool(b.X); isC {
				other, k, isConst = b.Y, kv, true
			}
			if isConst {
				if bt, isB := other.Type().Underlying().(*types.Basic); isB && bt.Kind() == types.Bool {
					if (b.Op == token.EQL) != k {
						trueSucc = 1 - trueSucc
					}
					cond = other
					continue
				}
			}
		}
		return cond, trueSucc
	}
}

// onBoolSide reports whether `at` executes only after a branch on a value
// satisfying pred took the side `want`.
func onBoolSide(at ssa.Instruction, want bool, pred func(ssa.Value) bool) bool {
	f := at.Parent()
	for _, b := range f.Blocks {
		if len(b.Instrs) == 0 {
			continue
		}
		ifi, ok := b.Instrs[len(b.Instrs)-1].(*ssa.If)
		if !ok {
			continue
		}
		v, ts := boolTest(ifi)
		if !pred(v) {
			continue
		}
		k := ts
		if !want {
			k = 1 - ts
		}
		if edgeDominates(b, k, at.Block()) {
			return true
		}
	}
	return false
}

// isCallValue: v is the (single) result of a call whose callee full name
// satisfies pred.
func isCallValue(v ssa.Value, pred func(cc *ssa.CallCommon) bool) bool {
	call, ok := v.(*ssa.Call)
	return ok && pred(&call.Call)
}

// extractOf: v is `extract call #idx`.
func extractOf(v ssa.Value, idx int) (*ssa.Call, bool) {
	ex, ok := v.(*ssa.Extract)
	if !ok || ex.Index != idx {
		return nil, false
	}
	call, ok := ex.Tuple.(*ssa.Call)
	return call, ok
}

// errResultOf returns the value holding the error result of a call (the call
// itself when it returns a single error, or the extract of the last result).
func errResultsOf(call *ssa.Call) []ssa.Value {
	var out []ssa.Value
	sig := call.Call.Signature()
	n := sig.Results().Len()
	if n == 0 {
		return nil
	}
	if n == 1 {
		if isErrorType(sig.Results().At(0).Type()) {
			out = append(out, call)
		}
		return out
	}
	for _, r := range *call.Referrers() {
		if ex, ok := r.(*ssa.Extract); ok && isErrorType(sig.Results().At(ex.Index).Type()) {
			out = append(out, ex)
		}
	}
	return out
}

// constBool
func constBool(v ssa.Value) (bool, bool) {
	c, ok := v.(*ssa.Const)
	if !ok || c.Value == nil || c.Value.Kind() != constant.Bool {
		return false, false
	}
	return constant.BoolVal(c.Value), true
}

// ---------------------------------------------------------------------------
// closures

// closureSite: the MakeClosure instruction that creates anonymous function g
// inside its parent (nil if not found).
func closureSite(g *ssa.Function) *ssa.MakeClosure {
	p := g.Parent()
	if p == nil {
		return nil
	}
	var site *ssa.MakeClosure
	allInstrs(p, func(in ssa.Instruction) {
		if mc, ok := in.(*ssa.MakeClosure); ok && mc.Fn == ssa.Value(g) {
			site = mc
		}
	})
	return site
}

// anchorInOuter maps an instruction inside (possibly nested) anonymous
// functions to the instruction of the outermost named function at which the
// enclosing closure is created. For instructions of named functions it is the
// instruction itself.
func anchorInOuter(in ssa.Instruction) ssa.Instruction {
	for in != nil && in.Parent() != nil && in.Parent().Parent() != nil {
		site := closureSite(in.Parent())
		if site == nil {
			return nil
		}
		in = site
	}
	return in
}

// resolveFreeVar follows a free variable of a closure to the value bound at
// the creation site (repeatedly).
func resolveFreeVar(v ssa.Value) ssa.Value {
	for {
		fv, ok := v.(*ssa.FreeVar)
		if !ok {
			return v
		}
		g := fv.Parent()
		site := closureSite(g)
		if site == nil {
			return v
		}
		idx := -1
		for i, x := range g.FreeVars {
			if x == fv {
				idx = i
			}
		}
		if idx < 0 || idx >= len(site.Bindings) {
			return v
		}
		v = site.Bindings[idx]
	}
}

// sameObject: a and b denote the same object, looking through free-variable
// bindings, loads of the same local cell and loads of the same field of the
// same base.
func sameObject(a, b ssa.Value) bool {
	a, b = resolveFreeVar(stripConv(a)), resolveFreeVar(stripConv(b))
	if a == b {
		return true
	}
	la, ok1 := a.(*ssa.UnOp)
	lb, ok2 := b.(*ssa.UnOp)
	if ok1 && ok2 && la.Op == token.MUL && lb.Op == token.MUL {
		xa, xb := resolveFreeVar(la.X), resolveFreeVar(lb.X)
		if xa == xb {
			return true
		}
		fa, okA := xa.(*ssa.FieldAddr)
		fb, okB := xb.(*ssa.FieldAddr)
		if okA && okB && fa.Field == fb.Field && sameObject(fa.X, fb.X) {
			return true
		}
	}
	return false
}

func structOf(t types.Type) *types.Struct {
	if p, ok := t.Underlying().(*types.Pointer); ok {
		t = p.Elem()
	}
	st, _ := t.Underlying().(*types.Struct)
	return st
}

// resolveValue follows conversions, free-variable bindings and loads of local
// cells that have exactly one store, to the value originally bound.
func resolveValue(v ssa.Value) ssa.Value {
	for i := 0; i < 20; i++ {
		v = resolveFreeVar(stripConv(v))
		u, ok := v.(*ssa.UnOp)
		if !ok || u.Op != token.MUL {
			return v
		}
		a, ok := resolveFreeVar(u.X).(*ssa.Alloc)
		if !ok {
			return v
		}
		st := storesToDeep(a)
		if len(st) != 1 {
			return v
		}
		v = st[0]
	}
	return v
}

// isFreshError (G7): v is certainly a non-nil error: the result of an error
// constructor or a package-level Err* sentinel.
func isFreshError(v ssa.Value) bool {
	v = stripConv(v)
	switch x := v.(type) {
	case *ssa.Call:
		n := calleeFull(&x.Call)
		if n == "fmt.Errorf" || n == "errors.New" {
			return true
		}
		if strings.HasPrefix(n, modPath+"/commonerrors.") {
			b := strings.TrimPrefix(n, modPath+"/commonerrors.")
			return strings.HasPrefix(b, "New") || strings.HasPrefix(b, "Wrap") || strings.HasPrefix(b, "Undefined") || strings.HasPrefix(b, "Describe")
		}
	case *ssa.UnOp:
		if g, ok := x.X.(*ssa.Global); ok && x.Op == token.MUL && strings.HasPrefix(g.Name(), "Err") {
			return true
		}
	}
	return false
}

// returnedAlong follows the straight-line path starting with edge prev→b to a
// Return and gives the value of result idx that this path returns (selecting
// the phi operand that belongs to the path). nil when the path branches.
func returnedAlong(prev, b *ssa.BasicBlock, idx int) ssa.Value {
	for steps := 0; steps < 50; steps++ {
		if r, ok := b.Instrs[len(b.Instrs)-1].(*ssa.Return); ok {
			v := r.Results[idx]
			if phi, ok := v.(*ssa.Phi); ok && phi.Block() == b {
				for i, p := range b.Preds {
					if p == prev {
						return phi.Edges[i]
					}
				}
			}
			return v
		}
		if len(b.Succs) != 1 {
			return nil
		}
		prev, b = b, b.Succs[0]
	}
	return nil
}

// onlyDeferred: every use of the closure value is as the callee of a defer.
func onlyDeferred(mc *ssa.MakeClosure) bool {
	refs := mc.Referrers()
	if refs == nil || len(*refs) == 0 {
		return false
	}
	for _, r := range *refs {
		d, ok := r.(*ssa.Defer)
		if !ok || d.Call.Value != ssa.Value(mc) {
			return false
		}
	}
	return true
}

// noContextCause: "the 'cancelled' or 'timeout' kind". The kind of the end of a context is what ctx.Err() says —
// context.Canceled or context.DeadlineExceeded, which ConvertContextError maps to the library's two kinds. context.Cause
// returns whatever error the canceller supplied (WithCancelCause, WithTimeoutCause): converted or returned in place of
// Err(), it makes the outcome depend on how the caller built its context — a cancellation is reported under an arbitrary
// error, and the code that recognises the two kinds (to stop, to refrain from a forced removal) no longer does.
func (c *Ctx) noContextCause(rule string, rels []string) {
	n := 0
	for _, rel := range rels {
		for _, f := range c.srcFuncs(rel) {
			allInstrs(f, func(in ssa.Instruction) {
				cc := callCommon(in)
				if cc == nil || calleeFull(cc) != "context.Cause" {
					return
				}
				n++
				c.FuncsSeen[fname(outermost(f))] = true
				c.violate(rule, fname(outermost(f))+"/context-cause", c.ipos(in), "the end of the context is read through context.Cause: for a context ended with a cause of its own (WithCancelCause, WithTimeoutCause) that is an arbitrary error, which is neither converted to 'cancelled' / 'timeout' nor recognised by the code that stops on those kinds")
			})
		}
	}
	if n == 0 {
		c.info(rule, strings.Join(rels, "+")+"/no-context-cause", "-", "the end of a context is never read through context.Cause")
	}
}

// forwarderFinding describes a pure forwarder (a function whose body is one call whose results it returns) that does not
// hand each of its parameters to that call exactly once.
type forwarderFinding struct {
	f       *ssa.Function
	call    ssa.Instruction
	dropped []string
	twice   []string
}

// forwarders lists, for the functions given, the pure forwarders and what each does with its parameters. A parameter counts
// as handed over when the call receives it directly, sliced/converted, or wrapped in an interface; the receiver of a method
// may be the receiver of the call.
func forwarders(fns []*ssa.Function) (all []*ssa.Function, bad []forwarderFinding) {
	for _, f := range fns {
		if f.Parent() != nil || f.Blocks == nil || len(f.Blocks) != 1 || len(f.Params) == 0 {
			continue
		}
		var calls []ssa.Instruction
		other := false
		for _, in := range f.Blocks[0].Instrs {
			switch x := in.(type) {
			case *ssa.Call:
				if _, isBuiltin := x.Call.Value.(*ssa.Builtin); isBuiltin {
					continue
				}
				calls = append(calls, x)
			case *ssa.Return, *ssa.Extract, *ssa.DebugRef, *ssa.MakeInterface, *ssa.Slice, *ssa.ChangeType, *ssa.Convert, *ssa.ChangeInterface, *ssa.UnOp, *ssa.FieldAddr, *ssa.Field:
			default:
				other = true
			}
		}
		if other || len(calls) == 0 {
			continue
		}
		// the last call is the one whose results are returned; the others must only prepare a receiver (GetGlobalFileSystem())
		last := calls[len(calls)-1].(*ssa.Call)
		prep := true
		for _, c0 := range calls[:len(calls)-1] {
			if len(c0.(*ssa.Call).Call.Args) != 0 {
				prep = false
			}
		}
		if !prep {
			continue
		}
		all = append(all, f)
		count := map[*ssa.Parameter]int{}
		note := func(v ssa.Value) {
			seen := map[ssa.Value]bool{}
			var walk func(v ssa.Value, d int)
			walk = func(v ssa.Value, d int) {
				if v == nil || seen[v] || d > 6 {
					return
				}
				seen[v] = true
				switch x := v.(type) {
				case *ssa.Parameter:
					count[x]++
				case *ssa.MakeInterface:
					walk(x.X, d+1)
				case *ssa.ChangeInterface:
					walk(x.X, d+1)
				case *ssa.ChangeType:
					walk(x.X, d+1)
				case *ssa.Convert:
					walk(x.X, d+1)
				case *ssa.Slice:
					walk(x.X, d+1)
				case *ssa.UnOp:
					walk(x.X, d+1)
				case *ssa.FieldAddr:
					walk(x.X, d+1)
				case *ssa.Field:
					walk(x.X, d+1)
				}
			}
			walk(v, 0)
		}
		for _, c0 := range calls[:len(calls)-1] {
			// what a preparing call is made on (ctx.Err(), GetGlobalFileSystem()) is used
			if cc := c0.(*ssa.Call); cc.Call.IsInvoke() {
				note(cc.Call.Value)
			}
		}
		if last.Call.IsInvoke() {
			note(last.Call.Value)
		}
		for _, a := range last.Call.Args {
			note(a)
		}
		var fd forwarderFinding
		for i, p := range f.Params {
			if p.Name() == "_" {
				continue
			}
			switch {
			case count[p] == 0:
				// an unnamed receiver that is simply not needed (package-level state) is not a dropped argument
				if i == 0 && f.Signature.Recv() != nil {
					continue
				}
				fd.dropped = append(fd.dropped, p.Name())
			case count[p] > 1 && !(i == 0 && f.Signature.Recv() != nil):
				fd.twice = append(fd.twice, p.Name())
			}
		}
		if len(fd.dropped)+len(fd.twice) > 0 {
			fd.f, fd.call = f, last
			bad = append(bad, fd)
		}
	}
	return
}

// forwardersKeepTheirArguments: the variants of an operation (the package-level function, the method, the …WithContext,
// …WithLimits, …As… forms) are mostly one-line forwarders to the guarded implementation. A forwarder that does not hand one of
// its parameters on (the limits, the patterns, the failure message) or hands one over twice in the place of another silently
// changes what that variant does, and only that variant. Decided for every pure forwarder selected by `keep`: each named
// parameter reaches the forwarded call exactly once.
func (c *Ctx) forwardersKeepTheirArguments(rule string, rels []string, keep func(*ssa.Function) bool, consequence string) {
	for _, rel := range rels {
		var fns []*ssa.Function
		for _, f := range c.srcFuncs(rel) {
			if keep == nil || keep(f) {
				fns = append(fns, f)
			}
		}
		all, bad := forwarders(fns)
		badOf := map[*ssa.Function]forwarderFinding{}
		for _, b := range bad {
			badOf[b.f] = b
		}
		for _, f := range all {
			b, isBad := badOf[f]
			why := ""
			if isBad {
				if len(b.dropped) > 0 {
					why += "the parameter(s) " + strings.Join(b.dropped, ", ") + " are not handed to the call it forwards to (" + c.ipos(b.call) + ")"
				}
				if len(b.twice) > 0 {
					if why != "" {
						why += "; "
					}
					why += "the parameter(s) " + strings.Join(b.twice, ", ") + " are handed over more than once (" + c.ipos(b.call) + ")"
				}
				why += ": " + consequence
			}
			c.FuncsSeen[fname(f)] = true
			c.check(!isBad, rule, fname(f)+"/forwards-its-arguments", c.pos(f.Pos()), "every named parameter reaches the forwarded call exactly once", why)
		}
	}
}

// iposOrEmpty: the position of an instruction, or "" for none (messages about a path that was not found are never printed).
func iposOrEmpty(c *Ctx, in ssa.Instruction) string {
	if in == nil {
		return ""
	}
	return c.ipos(in)
}
