package main

import (
	"go/ast"
	"go/constant"
	"go/token"
	"go/types"
	"sort"
	"strconv"
	"strings"

	"golang.org/x/tools/go/packages"
	"golang.org/x/tools/go/ssa"
)

func init() {
	register(&propCheck{
		id:          "C11",
		level:       "other",
		explanation: "Static decision of the tables whose order and completeness the property singles out: (D1) the deserialiser's decision list (a 30-way chain of equality and substring tests) is evaluated symbolically for the text of every error kind — as is and blank-padded (upper-cased variants are reported as information only: serialisation never changes case) — and the first matching case must return that very kind; kind texts contain neither ':' nor a newline (the serialised form splits on them); (D2) every kind appears in IsCommonError and has a case of its own; (D3) Errorf's format has exactly one %w, first, bound to the target kind after ConvertContextError / the ErrUnknown default, and WrapError lets a cancellation/deadline cause replace the target; (D4) the converters named by the property pass their argument through ConvertContextError before any classification, and a pass-through case for ErrTimeout/ErrCancelled precedes every re-classifying case; (D5) every call of commonerrors.Any/None outside tests has at least one candidate (a call with the target alone is constantly false/true: the condition it was written for is never mapped). (D7) the separator the constructors write between kind and reason is the one the deserialiser splits on, and joined errors are written and split on the newline errors.Join uses; (D6) the deserialiser re-joins every ':'-separated element after the kind into the reason, empty ones included (unconditional append in a loop from index 1). Decided on the typed AST and SSA with go/constant; nothing is executed. Not decided: arbitrary reasons and wrapping chains (string behaviour of fmt/errors/strings), joined errors, errors.Is itself.",
		run:         runC11,
		assumptions: []string{
			"errors.Is and fmt.Errorf(\"%w\") behave as documented",
		},
	})
}

const cePkg = "commonerrors"

type ceKind struct {
	name string
	text string
	pos  token.Pos
}

// ceKinds: package-level `ErrX = errors.New("<const>")` variables.
func (c *Ctx) ceKinds(p *packages.Package) []ceKind {
	var out []ceKind
	for _, f := range p.Syntax {
		for _, d := range f.Decls {
			gd, ok := d.(*ast.GenDecl)
			if !ok || gd.Tok != token.VAR {
				continue
			}
			for _, sp := range gd.Specs {
				vs := sp.(*ast.ValueSpec)
				for i, n := range vs.Names {
					if !strings.HasPrefix(n.Name, "Err") || i >= len(vs.Values) {
						continue
					}
					call, ok := vs.Values[i].(*ast.CallExpr)
					if !ok || len(call.Args) != 1 {
						continue
					}
					if fn, ok := call.Fun.(*ast.SelectorExpr); !ok || fn.Sel.Name != "New" {
						continue
					} else if id, ok := fn.X.(*ast.Ident); !ok || id.Name != "errors" {
						continue
					}
					tv, ok := p.TypesInfo.Types[call.Args[0]]
					if !ok || tv.Value == nil || tv.Value.Kind() != constant.String {
						continue
					}
					out = append(out, ceKind{n.Name, constant.StringVal(tv.Value), n.Pos()})
				}
			}
		}
	}
	return out
}

type ceCase struct {
	kind    string // "empty" | "eq" | "corr"
	of      string // Err name tested
	returns string // Err name returned ("nil" for nil)
	pos     token.Pos
}

func funcDecl(p *packages.Package, name string) *ast.FuncDecl {
	for _, f := range p.Syntax {
		for _, d := range f.Decls {
			if fd, ok := d.(*ast.FuncDecl); ok && fd.Name.Name == name && fd.Recv == nil {
				return fd
			}
		}
	}
	return nil
}

func runC11(c *Ctx) {
	c.deserialiseParsesTheTextAsGiven()
	c.rule("D1", "deserialiseCommonError, evaluated as a decision list on the text of every kind (as is / blank-padded), returns that kind; kind texts contain no ':' or newline", 80)
	c.rule("D2", "every kind is listed in IsCommonError and has its own case in the deserialiser", 54)
	c.rule("D3", "Errorf: one %w, first, bound to the target kind after ConvertContextError (ErrUnknown when nil); WrapError: a cancellation/deadline cause replaces the target kind", 3)
	c.rule("D17", "WrapError looks at the cause on every path: the test Any(ConvertContextError(original), ErrTimeout, ErrCancelled) dominates every construction of the result, whatever the target is", 1)
	c.c11ConditionsRecognisedOnEveryPlatform()
	c.contextConverterGoesByIdentity("D18", "every constructor and converter starts with this call: an error whose description merely mentions a cancellation is reclassified, and the wrong kind survives serialisation")
	c.rule("D4", "converters normalise context errors first; a pass-through case for ErrTimeout/ErrCancelled precedes every re-classifying case", 5)
	c.rule("D6", "deserialisation re-joins every element after the kind into the reason: loop from index 1, step one, unconditional append of the (trimmed) element", 1)
	c.rule("D10", "WrapIfNotCommonError / WrapIfNotCommonErrorf: the branch that gives the result the kind of the cause is reached only where the target was found not to be a cancellation or a deadline", 2)
	c.rule("D11", "the filesystem, process and I/O converters are stable when applied twice: no case that goes by the error's description (here or in a converter they delegate to) can be reached by an error that IsCommonError recognised", 2)
	c.rule("D9", "serialisation: where the parsed kind is replaced by the error Unwrap() returned, the description of that error is compared with the parsed text and the reason is rewritten accordingly (what the wrapped error already says is not said twice)", 1)
	c.rule("D7", "writer and reader of the text form agree on the separators: kind/reason (constructors vs deserialiser) and joined errors (marshaller, errors.Join vs deserialiser); every line of a joined error is read, whatever its length", 3)
	c.rule("D8", "the filesystem converter maps a backend condition to one kind whatever the path: no case that recognises a condition by the error's text (which embeds the caller's path) is evaluated before a case that recognises another condition structurally; the timeout case recognises Timeout() errors (os.IsTimeout); no converter that goes by the text is applied before the table; the same order in the process converter", 4)
	c.rule("D5", "every call of commonerrors.Any / None has at least one candidate error", 45)

	p := c.tpkg(cePkg)
	if p == nil {
		return
	}
	kinds := c.ceKinds(p)
	if len(kinds) < 30 {
		c.fatalf("C11: only %d error kinds found in commonerrors (30 expected)", len(kinds))
		return
	}
	text := map[string]string{}
	for _, k := range kinds {
		text[k.name] = k.text
	}
	c.Extra["kinds"] = len(kinds)

	// ---- the decision list ------------------------------------------------
	fd := funcDecl(p, "deserialiseCommonError")
	if fd == nil {
		c.fatalf("anchor: commonerrors.deserialiseCommonError not found")
		return
	}
	c.FuncsSeen["commonerrors.deserialiseCommonError"] = true
	var sw *ast.SwitchStmt
	ast.Inspect(fd.Body, func(n ast.Node) bool {
		if s, ok := n.(*ast.SwitchStmt); ok && sw == nil {
			sw = s
		}
		return true
	})
	trims := false
	ast.Inspect(fd.Body, func(n ast.Node) bool {
		if ce, ok := n.(*ast.CallExpr); ok {
			if se, ok := ce.Fun.(*ast.SelectorExpr); ok && se.Sel.Name == "TrimSpace" {
				trims = true
			}
		}
		return true
	})
	if sw == nil || sw.Tag != nil {
		c.undecided("D1", "deserialiseCommonError/shape", c.pos(fd.Pos()), "the deserialiser is no longer a tag-less switch (decision list): the checker's evaluator does not know this form")
		return
	}
	param := fd.Type.Params.List[0].Names[0].Name
	errName := func(e ast.Expr) string {
		if id, ok := e.(*ast.Ident); ok && strings.HasPrefix(id.Name, "Err") {
			return id.Name
		}
		return ""
	}
	var list []ceCase
	okShape := true
	for _, st := range sw.Body.List {
		cc := st.(*ast.CaseClause)
		if cc.List == nil {
			continue // default
		}
		// return value
		ret := ""
		if len(cc.Body) == 1 {
			if rs, ok := cc.Body[0].(*ast.ReturnStmt); ok && len(rs.Results) == 2 {
				if id, ok := rs.Results[1].(*ast.Ident); ok {
					ret = id.Name
				}
			}
		}
		if ret == "" {
			okShape = false
			c.undecided("D1", "deserialiseCommonError/case-body", c.pos(cc.Pos()), "case body is not `return <bool>, <kind>`")
			continue
		}
		for _, e := range cc.List {
			cs := ceCase{returns: ret, pos: cc.Pos()}
			switch x := e.(type) {
			case *ast.BinaryExpr:
				if x.Op != token.EQL {
					okShape = false
					continue
				}
				a, b := x.X, x.Y
				if id, ok := b.(*ast.Ident); ok && id.Name == param {
					a, b = b, a
				}
				if id, ok := a.(*ast.Ident); !ok || id.Name != param {
					okShape = false
					continue
				}
				if tv, ok := p.TypesInfo.Types[b]; ok && tv.Value != nil && constant.StringVal(tv.Value) == "" {
					cs.kind = "empty"
				} else if call, ok := b.(*ast.CallExpr); ok {
					if se, ok := call.Fun.(*ast.SelectorExpr); ok && se.Sel.Name == "Error" && errName(se.X) != "" {
						cs.kind, cs.of = "eq", errName(se.X)
					}
				}
			case *ast.CallExpr:
				if id, ok := x.Fun.(*ast.Ident); ok && id.Name == "CorrespondTo" && len(x.Args) == 2 && errName(x.Args[0]) != "" {
					if a, ok := x.Args[1].(*ast.Ident); ok && a.Name == param {
						cs.kind, cs.of = "corr", errName(x.Args[0])
					}
				}
			}
			if cs.kind == "" {
				okShape = false
				c.undecided("D1", "deserialiseCommonError/case-form", c.pos(e.Pos()), "case condition is neither `s == \"\"`, `s == ErrX.Error()` nor `CorrespondTo(ErrX, s)`")
				continue
			}
			list = append(list, cs)
		}
	}
	if !okShape {
		return
	}
	eval := func(s string) (string, token.Pos) {
		if trims {
			s = strings.TrimSpace(s)
		}
		for _, cs := range list {
			switch cs.kind {
			case "empty":
				if s == "" {
					return cs.returns, cs.pos
				}
			case "eq":
				if s == text[cs.of] {
					return cs.returns, cs.pos
				}
			case "corr":
				// CorrespondTo(target=ErrX, description=s): lower(text(X)) == lower(s) || contains
				d, t := strings.ToLower(s), strings.ToLower(text[cs.of])
				if t == d || strings.Contains(t, d) {
					return cs.returns, cs.pos
				}
			}
		}
		return "(default)", fd.Pos()
	}
	sort.Slice(kinds, func(i, j int) bool { return kinds[i].name < kinds[j].name })
	hasCase := map[string]bool{}
	for _, cs := range list {
		if cs.returns == cs.of {
			hasCase[cs.of] = true
		}
	}
	for _, k := range kinds {
		if got, at := eval(strings.ToUpper(k.text)); got != k.name {
			c.info("D1", k.name+"/upper", c.pos(at), "information only (serialisation never changes case): \""+strings.ToUpper(k.text)+"\" → "+got)
		}
		for _, v := range []struct{ tag, s string }{{"exact", k.text}, {"padded", "  " + k.text + " \t"}} {
			got, at := eval(v.s)
			c.check(got == k.name, "D1", k.name+"/"+v.tag, c.pos(at), "\""+v.s+"\" → "+got,
				"the text \""+v.s+"\" of kind "+k.name+" is deserialised as "+got+" (first matching case at "+c.pos(at)+"): the kind does not survive a round trip through text")
		}
		c.check(!strings.ContainsAny(k.text, ":\n"), "D1", k.name+"/separator-free", c.pos(k.pos), "no ':' or newline in the kind text", "the text of "+k.name+" contains ':' or a newline: the '<kind>: <reason>' form can no longer be split back")
	}

	// ---- D2 -----------------------------------------------------------------
	listed := map[string]bool{}
	if ic := funcDecl(p, "IsCommonError"); ic != nil {
		ast.Inspect(ic.Body, func(n ast.Node) bool {
			if id, ok := n.(*ast.Ident); ok && strings.HasPrefix(id.Name, "Err") {
				listed[id.Name] = true
			}
			return true
		})
	} else {
		c.fatalf("anchor: commonerrors.IsCommonError not found")
	}
	for _, k := range kinds {
		c.check(listed[k.name], "D2", k.name+"/IsCommonError", c.pos(k.pos), "listed", k.name+" is not listed in IsCommonError: WrapIfNotCommonError re-wraps it and NewWarning rejects it")
		c.check(hasCase[k.name], "D2", k.name+"/deserialiser-case", c.pos(k.pos), "has a case returning itself", k.name+" has no case of its own in deserialiseCommonError")
	}

	c.c11Wrapping()
	c.c11ContextualTarget()
	c.c11Converters()
	c.c11Vacuous()
	c.c11Reason()
	c.c11WrappedReason()
	c.c11Separators()
	c.c11ConverterTables()
	c.c11MessagesAreNotFormats()
	c.c11ContextFirst()
	c.c11SerialisedBytesBelongToTheCaller()
	c.rule("D15", "where a converter builds its result with fmt.Errorf and a kind of package commonerrors, the verb bound to the kind is %w: the result is an error of that kind, not only a text that starts with its name", 1)
	c.rule("D16", "no converter of the module compares an error with a sentinel by identity (`==`, value switch): conditions are recognised with commonerrors.Any / errors.Is, wrapped or not", 5)
	c.c11ConvertersWrapTheKind("D16", "D15")
}

// c11Separators (D7): writer and reader of the text form agree. The constructors write "kind<sep> reason" and the
// multi-error marshaller ends each item with <msep> (errors.Join uses "\n"); the deserialiser splits on them.
func (c *Ctx) c11Separators() {
	constArgs := func(f *ssa.Function, callee string, idx int) []string {
		var out []string
		allInstrs(f, func(in ssa.Instruction) {
			cl, ok := in.(*ssa.Call)
			if !ok || calleeFull(&cl.Call) != callee || idx >= len(cl.Call.Args) {
				return
			}
			if sv, ok := constString(cl.Call.Args[idx]); ok {
				out = append(out, sv)
			} else {
				out = append(out, "<not constant>")
			}
		})
		return out
	}
	line := c.fn(cePkg, "processErrorStrLine")
	multi := c.fn(cePkg, "processErrorStr")
	errorf := c.fn(cePkg, "Errorf")
	marshal := c.fn(cePkg, "(*multiplemarshallingError).MarshalText")
	for _, f := range []*ssa.Function{line, multi, errorf, marshal} {
		c.FuncsSeen[fname(f)] = true
	}
	// reader side
	splitLine := constArgs(line, "strings.Split", 1)
	splitMulti := constArgs(multi, "strings.Split", 1)
	// a bufio.Scanner with the default split function cuts at "\n" as well
	usesScanner, scannerErrChecked := false, false
	allInstrs(multi, func(in ssa.Instruction) {
		if cl, ok := in.(*ssa.Call); ok {
			switch calleeFull(&cl.Call) {
			case "bufio.NewScanner":
				usesScanner = true
			case "(*bufio.Scanner).Err":
				scannerErrChecked = cl.Referrers() != nil && len(*cl.Referrers()) > 0
			}
		}
	})
	if usesScanner && len(splitMulti) == 0 {
		splitMulti = []string{"\n"}
	}
	// every line counts: a Scanner stops silently at the first line longer than its buffer (64 KiB by default)
	if usesScanner {
		c.check(scannerErrChecked, "D7", "commonerrors/every-line-read", c.pos(multi.Pos()), "the scanner's error is examined",
			"the lines of a joined error are read with a bufio.Scanner whose Err() is never examined: Scan() stops without a word at the first line longer than the scanner's buffer (64 KiB by default), so that error and every one after it vanish from the result — the kinds of a joined error do not survive when one message is long")
	} else {
		c.ok("D7", "commonerrors/every-line-read", c.pos(multi.Pos()), "the whole text is split in memory: no line can be skipped for its length")
	}
	// writer side: the separator operand of Errorf's final fmt.Errorf("%w%v %v", kind, sep, msg)
	var written []string
	allInstrs(errorf, func(in ssa.Instruction) {
		cl, ok := in.(*ssa.Call)
		if !ok || calleeFull(&cl.Call) != "fmt.Errorf" {
			return
		}
		format, _ := constString(cl.Call.Args[0])
		el := variadicElems(cl.Call.Args[1])
		if strings.HasPrefix(format, "%w%v") && len(el) >= 2 {
			if sv, ok := constString(stripConv(el[1])); ok {
				written = append(written, sv)
			} else if mi, ok := el[1].(*ssa.MakeInterface); ok {
				if sv, ok := constString(mi.X); ok {
					written = append(written, sv)
				}
			}
		} else if strings.HasPrefix(format, "%w") && len(format) > 2 {
			written = append(written, string(format[2]))
		}
	})
	key := "commonerrors/kind-reason-separator"
	switch {
	case len(splitLine) != 1 || len(written) != 1:
		c.undecided("D7", key, c.pos(line.Pos()), "expected one strings.Split in processErrorStrLine and one separator operand in Errorf, found "+strconv.Itoa(len(splitLine))+" and "+strconv.Itoa(len(written)))
	case splitLine[0] != written[0]:
		c.violate("D7", key, c.pos(line.Pos()), "the deserialiser splits kind and reason on "+strconv.Quote(splitLine[0])+" but the constructors write "+strconv.Quote(written[0])+" between them: no serialised error is recognised as its kind any more")
	default:
		c.ok("D7", key, c.pos(line.Pos()), "constructors write and deserialiser splits on "+strconv.Quote(written[0]))
	}
	// multi-error: marshaller appends the separator byte after each item
	var appended []string
	allInstrs(marshal, func(in ssa.Instruction) {
		cl, ok := in.(*ssa.Call)
		if !ok {
			return
		}
		// the same through a buffer: WriteByte(sep) / WriteRune(sep) / WriteString(string(sep))
		switch calleeFull(&cl.Call) {
		case "(*bytes.Buffer).WriteByte", "(*bytes.Buffer).WriteRune", "(*strings.Builder).WriteByte", "(*strings.Builder).WriteRune":
			if n, ok := constInt(cl.Call.Args[len(cl.Call.Args)-1]); ok {
				appended = append(appended, string(rune(n)))
			}
			return
		case "(*bytes.Buffer).WriteString", "(*strings.Builder).WriteString":
			if sv, ok := constString(cl.Call.Args[len(cl.Call.Args)-1]); ok && len(sv) == 1 {
				appended = append(appended, sv)
			}
			return
		}
		if b, isB := cl.Call.Value.(*ssa.Builtin); !isB || b.Name() != "append" {
			return
		}
		for _, e := range variadicElems(cl.Call.Args[len(cl.Call.Args)-1]) {
			if k, ok := e.(*ssa.Const); ok && k.Value != nil {
				if n, ok := constInt(e); ok {
					appended = append(appended, string(rune(n)))
				}
			}
		}
	})
	key = "commonerrors/multiple-error-separator"
	switch {
	case len(splitMulti) != 1 || len(appended) != 1:
		c.undecided("D7", key, c.pos(multi.Pos()), "expected one strings.Split in processErrorStr and one separator byte appended in MarshalText, found "+strconv.Itoa(len(splitMulti))+" and "+strconv.Itoa(len(appended)))
	case splitMulti[0] != appended[0] || splitMulti[0] != "\n":
		c.violate("D7", key, c.pos(multi.Pos()), "joined errors are written with "+strconv.Quote(appended[0])+" (errors.Join: \"\\n\") but split on "+strconv.Quote(splitMulti[0])+": the kinds of a joined error do not survive serialisation")
	default:
		c.ok("D7", key, c.pos(multi.Pos()), "joined errors are written and split on the newline errors.Join uses")
	}
}

// c11Reason (D6): "the same reason up to whitespace around colons". processErrorStrLine splits the text on the
// separator, takes element 0 as the kind and re-joins the others: every other element, empty ones included, has
// to be re-joined — the loop starts at index 1, steps by one, and the append sits on every way round the loop.
func (c *Ctx) c11Reason() {
	f := c.fn(cePkg, "processErrorStrLine")
	c.FuncsSeen[fname(f)] = true
	key := fname(f) + "/reason-elements"
	var apps []*ssa.Call
	allInstrs(f, func(in ssa.Instruction) {
		cl, ok := in.(*ssa.Call)
		if !ok {
			return
		}
		if b, isB := cl.Call.Value.(*ssa.Builtin); isB && b.Name() == "append" && inLoop(cl) {
			if sl, isS := cl.Type().Underlying().(*types.Slice); isS {
				if bb, isBasic := sl.Elem().Underlying().(*types.Basic); isBasic && bb.Kind() == types.String {
					apps = append(apps, cl)
				}
			}
		}
	})
	if len(apps) != 1 {
		c.undecided("D6", key, c.pos(f.Pos()), "expected exactly one append of reason elements inside a loop, found "+strconv.Itoa(len(apps)))
		return
	}
	app := apps[0]
	h := loopHeaderOf(app)
	if h == nil {
		c.undecided("D6", key, c.ipos(app), "loop header not found")
		return
	}
	// the counter: a phi at the header with a constant start and a +1 step
	start, step := int64(-1), false
	for _, in := range h.Instrs {
		phi, ok := in.(*ssa.Phi)
		if !ok {
			continue
		}
		for _, e := range phi.Edges {
			if k, isC := constInt(e); isC {
				start = k
			}
			if add, isA := e.(*ssa.BinOp); isA && add.Op == token.ADD && add.X == ssa.Value(phi) {
				if k, isC := constInt(add.Y); isC && k == 1 {
					step = true
				}
			}
		}
	}
	// `for _, e := range elems[1:]`: the counter starts at 0 over the split minus its first element
	if (start == 0 || start == -1) && step && c11RangesOverTail(app) {
		// go/ssa lowers a range over a slice to a counter that starts at -1 and is incremented before each use
		start = 1
	}
	if start != 1 || !step {
		c.violate("D6", key, c.ipos(app), "the loop over the split elements does not run from index 1 in steps of one (start "+strconv.FormatInt(start, 10)+"): elements of the reason are skipped or the kind is repeated in it")
		return
	}
	term := h.Instrs[len(h.Instrs)-1]
	skip := pathAvoiding(term, func(i ssa.Instruction) bool { return i == ssa.Instruction(app) }, func(i ssa.Instruction) bool { return i == h.Instrs[0] })
	if skip != nil {
		c.violate("D6", key, c.ipos(app), "the append of a split element to the reason is conditional: there is a way round the loop that drops an element (an empty one, as between the colons of \"::1\" or in \"kind: : cause\"), so the text re-joined differs from the original by more than whitespace")
		return
	}
	// what is appended is the element, trimmed at most
	okElem := false
	elems := variadicElems(app.Call.Args[len(app.Call.Args)-1])
	if len(elems) == 1 {
		for _, l := range sources(elems[0], deriveOpts{through: func(n string) bool { return n == "strings.TrimSpace" }}) {
			if cl, ok := l.(*ssa.Call); ok && calleeFull(&cl.Call) == "strings.Split" {
				okElem = true
				continue
			}
			okElem = false
			break
		}
	}
	c.check(okElem, "D6", key, c.ipos(app), "every element after the kind is re-joined (trimmed), on every way round the loop",
		"what is appended to the reason is not the split element (trimmed)")
}

func isGlobalLoad(v ssa.Value, name string) bool {
	u, ok := stripConv(v).(*ssa.UnOp)
	if !ok || u.Op != token.MUL {
		return false
	}
	g, ok := u.X.(*ssa.Global)
	return ok && g.Name() == name
}

const ceConvCtx = modPath + "/commonerrors.ConvertContextError"

func (c *Ctx) c11Wrapping() {
	f := c.fn(cePkg, "Errorf")
	if f != nil {
		c.FuncsSeen[fname(f)] = true
		var fe *ssa.Call
		allInstrs(f, func(in ssa.Instruction) {
			if cl, ok := in.(*ssa.Call); ok && calleeFull(&cl.Call) == "fmt.Errorf" {
				fe = cl
			}
		})
		good := fe != nil
		why := "Errorf no longer builds the error with fmt.Errorf"
		if good {
			format, isC := constString(fe.Call.Args[0])
			if !isC || strings.Count(format, "%w") != 1 || !strings.HasPrefix(format, "%w") {
				good, why = false, "the format of Errorf does not have exactly one %w in first position: the kind is not what errors.Is finds"
			} else {
				elems := variadicElems(fe.Call.Args[1])
				if len(elems) == 0 {
					good, why = false, "no operand for %w"
				} else {
					hasConv := false
					for _, l := range sources(elems[0], deriveOpts{}) {
						switch {
						case isGlobalLoad(l, "ErrUnknown"):
						default:
							cl, ok := l.(*ssa.Call)
							if ok && calleeFull(&cl.Call) == ceConvCtx && paramIndex(f, cl.Call.Args[0]) == 0 {
								hasConv = true
							} else {
								good, why = false, "the %w operand of Errorf is not the target kind (after ConvertContextError) or ErrUnknown"
							}
						}
					}
					if !hasConv && good {
						good, why = false, "the %w operand of Errorf does not derive from the target kind parameter"
					}
				}
			}
		}
		c.check(good, "D3", fname(f), c.pos(f.Pos()), "fmt.Errorf(\"%w…\", ConvertContextError(target) | ErrUnknown, …)", why)
	}
	w := c.fn(cePkg, "WrapError")
	if w != nil {
		c.FuncsSeen[fname(w)] = true
		// kind passed on = phi(target | ErrUnknown, ConvertContextError(original)) where the latter is selected under Any(orig, ErrTimeout, ErrCancelled)
		var conv *ssa.Call
		allInstrs(w, func(in ssa.Instruction) {
			if cl, ok := in.(*ssa.Call); ok && calleeFull(&cl.Call) == ceConvCtx && paramIndex(w, cl.Call.Args[0]) == 1 {
				conv = cl
			}
		})
		good := conv != nil
		why := "WrapError no longer normalises the original error with ConvertContextError"
		if good {
			n := 0
			allInstrs(w, func(in ssa.Instruction) {
				cl, ok := in.(*ssa.Call)
				if !ok {
					return
				}
				cn := calleeFull(&cl.Call)
				if cn != modPath+"/commonerrors.New" && cn != modPath+"/commonerrors.Errorf" {
					return
				}
				n++
				fromOrig, fromTarget := false, false
				for _, l := range sources(cl.Call.Args[0], deriveOpts{}) {
					switch {
					case l == ssa.Value(conv):
						fromOrig = true
					case paramIndex(w, l) == 0 || isGlobalLoad(l, "ErrUnknown"):
						fromTarget = true
					default:
						good, why = false, "the kind handed on by WrapError is neither the target, ErrUnknown nor the normalised original"
					}
				}
				if !fromOrig || !fromTarget {
					good, why = false, "WrapError does not let a cancellation/deadline cause replace the target kind"
				}
			})
			if n == 0 {
				good, why = false, "WrapError no longer builds its result through New/Errorf"
			}
			// the replacement is conditional on Any(orig, ErrTimeout, ErrCancelled)
			cond := false
			allInstrs(w, func(in ssa.Instruction) {
				cl, ok := in.(*ssa.Call)
				if !ok || calleeFull(&cl.Call) != modPath+"/commonerrors.Any" || cl.Call.Args[0] != ssa.Value(conv) {
					return
				}
				names := map[string]bool{}
				for _, e := range variadicElems(cl.Call.Args[1]) {
					for _, g := range []string{"ErrTimeout", "ErrCancelled"} {
						if isGlobalLoad(e, g) {
							names[g] = true
						}
					}
				}
				if names["ErrTimeout"] && names["ErrCancelled"] {
					cond = true
				}
			})
			if good && !cond {
				good, why = false, "the override of the target kind is not conditional on Any(original, ErrTimeout, ErrCancelled) with both kinds"
			}
		}
		c.check(good, "D3", fname(w), c.pos(w.Pos()), "context causes win over the target kind", why)
		// D17: "a cause that is a cancellation or a deadline is never reclassified as anything else" — whatever the target is,
		// the other contextual kind included (WrapError(ErrTimeout, context.Canceled) is a cancellation). The look at the cause
		// is therefore made on every path: the test Any(normalised cause, ErrTimeout, ErrCancelled) dominates every
		// construction of the result; guarded by a test of the target it is skipped for the targets that "already carry" a
		// contextual kind, and a cancelled cause comes out as a timeout.
		if conv != nil {
			var test *ssa.Call
			allInstrs(w, func(in ssa.Instruction) {
				if cl, ok := in.(*ssa.Call); ok && calleeFull(&cl.Call) == modPath+"/commonerrors.Any" && len(cl.Call.Args) > 0 && cl.Call.Args[0] == ssa.Value(conv) {
					test = cl
				}
			})
			bad := ""
			if test != nil {
				allInstrs(w, func(in ssa.Instruction) {
					cl, ok := in.(*ssa.Call)
					if !ok {
						return
					}
					cn := calleeFull(&cl.Call)
					if (cn == modPath+"/commonerrors.New" || cn == modPath+"/commonerrors.Errorf") && !dominates(test, cl) {
						bad = c.ipos(cl)
					}
				})
			}
			c.check(test != nil && bad == "", "D17", fname(w)+"/cause-looked-at-whatever-the-target", c.pos(w.Pos()), "the test of the cause precedes every construction of the result",
				"the result built at "+bad+" can be reached without the cause having been tested for a cancellation / a deadline (the test is guarded by something else, the target's own kind for instance): WrapError(ErrTimeout, context.Canceled, …) comes out as a timeout — a cause that is a cancellation is reclassified, and the wrong kind survives serialisation")
		}
	}
	// WrapIfNotCommonError(f): context check first, common errors kept
	for _, name := range []string{"WrapIfNotCommonError", "WrapIfNotCommonErrorf"} {
		g := c.fn(cePkg, name)
		if g == nil {
			continue
		}
		c.FuncsSeen[fname(g)] = true
		// New/Newf(originalError, …) is on the true side of IsCommonError(originalError)
		good := false
		allInstrs(g, func(in ssa.Instruction) {
			cl, ok := in.(*ssa.Call)
			if !ok {
				return
			}
			cn := calleeFull(&cl.Call)
			if (cn == modPath+"/commonerrors.New" || cn == modPath+"/commonerrors.Newf") && paramIndex(g, cl.Call.Args[0]) == 1 {
				if onBoolSide(cl, true, func(v ssa.Value) bool {
					ic, ok := v.(*ssa.Call)
					return ok && calleeFull(&ic.Call) == modPath+"/commonerrors.IsCommonError" && paramIndex(g, ic.Call.Args[0]) == 1
				}) {
					good = true
				}
			}
		})
		c.check(good, "D3", fname(g), c.pos(g.Pos()), "a common error keeps its own kind", name+" no longer keeps the kind of an original error that is already a common error")
	}
}

func (c *Ctx) c11Converters() {
	type conv struct{ pkg, fn string }
	for _, cv := range []conv{
		{"filesystem", "ConvertFileSystemError"}, {"filesystem", "convertZipError"}, {"safeio", "ConvertIOError"},
		{"proc", "ConvertProcessError"}, {"config", "convertViperError"},
	} {
		f := c.fnOpt(cv.pkg, cv.fn)
		if f == nil {
			if cv.pkg == "config" {
				continue
			}
			c.fatalf("anchor: converter %s.%s not found", cv.pkg, cv.fn)
			continue
		}
		c.FuncsSeen[fname(f)] = true
		// (i) the parameter reaches ConvertContextError (directly or nested) and every classification uses the normalised value
		var norm *ssa.Call
		allInstrs(f, func(in ssa.Instruction) {
			if cl, ok := in.(*ssa.Call); ok && calleeFull(&cl.Call) == ceConvCtx && norm == nil {
				for _, l := range sources(cl.Call.Args[0], deriveOpts{through: func(string) bool { return true }}) {
					if paramIndex(f, l) == 0 {
						norm = cl
					}
				}
			}
		})
		key := fname(f)
		if norm == nil {
			c.violate("D4", key, c.pos(f.Pos()), "the converter does not pass its argument through commonerrors.ConvertContextError: context.Canceled / DeadlineExceeded are classified by text instead of being kept as cancellation / timeout")
			continue
		}
		// every classifying call (Any, CorrespondTo, os.Is*) is dominated by norm and takes the normalised value, not the raw parameter
		bad := ""
		var passThrough ssa.Instruction
		var classifiers []*ssa.Call
		allInstrs(f, func(in ssa.Instruction) {
			cl, ok := in.(*ssa.Call)
			if !ok || cl == norm {
				return
			}
			cn := calleeFull(&cl.Call)
			isClass := cn == modPath+"/commonerrors.Any" || cn == modPath+"/commonerrors.CorrespondTo" || cn == modPath+"/commonerrors.None" ||
				strings.HasPrefix(cn, "os.Is") || cn == "errors.Is" || cn == "errors.As"
			if !isClass {
				return
			}
			classifiers = append(classifiers, cl)
			if !dominates(norm, cl) {
				bad = c.ipos(cl) + ": classification before the context normalisation"
			}
			if len(cl.Call.Args) > 0 && paramIndex(f, cl.Call.Args[0]) == 0 && f.Params[0].Referrers() != nil {
				// raw parameter classified although a normalised value exists (only when the parameter was not reassigned: SSA would show the call value)
				bad = c.ipos(cl) + ": the raw argument is classified instead of the normalised error"
			}
			if cn == modPath+"/commonerrors.Any" {
				names := map[string]bool{}
				for _, e := range variadicElems(cl.Call.Args[1]) {
					for _, g := range []string{"ErrTimeout", "ErrCancelled"} {
						if isGlobalLoad(e, g) {
							names[g] = true
						}
					}
				}
				if names["ErrTimeout"] && names["ErrCancelled"] && passThrough == nil {
					passThrough = cl
				}
			}
		})
		if bad != "" {
			c.violate("D4", key, c.pos(f.Pos()), bad)
			continue
		}
		if passThrough != nil {
			// no classifier precedes the pass-through test
			early := ""
			for _, cl := range classifiers {
				if cl != passThrough && !dominates(passThrough, cl) && dominates(cl, passThrough) {
					early = c.ipos(cl) + " " + short(calleeFull(&cl.Call))
				}
			}
			// and its true side returns the error unchanged
			same := false
			for _, b := range f.Blocks {
				ifi, ok := b.Instrs[len(b.Instrs)-1].(*ssa.If)
				if !ok {
					continue
				}
				v, ts := boolTest(ifi)
				if v != passThrough.(ssa.Value) {
					continue
				}
				if rv := returnedAlong(b, b.Succs[ts], 0); rv != nil {
					for _, l := range sources(rv, deriveOpts{}) {
						if l == ssa.Value(norm) {
							same = true
						}
					}
				}
			}
			c.check(early == "" && same, "D4", key, c.ipos(passThrough), "normalised first; timeout/cancelled returned unchanged before any other classification",
				map[bool]string{true: "the pass-through case does not return the context error unchanged", false: "classification " + early + " precedes the pass-through of timeout/cancelled: a context cause can be reclassified"}[early == ""])
		} else {
			// without a pass-through, a case that goes by the text of the error can match an error of kind timeout/cancelled
			textual := ""
			for _, cl := range classifiers {
				if calleeFull(&cl.Call) == modPath+"/commonerrors.CorrespondTo" {
					textual = c.ipos(cl)
				}
			}
			c.check(textual == "", "D4", key, c.ipos(norm), "normalised first; no case goes by the text of the error, so none can match an error of kind timeout/cancelled",
				"the converter classifies by the text of the error ("+textual+") and has no earlier case that returns ErrTimeout/ErrCancelled unchanged: an error of kind 'cancelled' or 'timeout' whose description contains that text is reclassified")
		}
	}
}

func (c *Ctx) c11Vacuous() {
	for _, sp := range c.SSAPkgs {
		if !strings.HasPrefix(sp.Pkg.Path(), modPath) {
			continue
		}
		rel := shortPkg(sp.Pkg.Path())
		for _, f := range c.srcFuncs(rel) {
			allInstrs(f, func(in ssa.Instruction) {
				cc := callCommon(in)
				if cc == nil {
					return
				}
				cn := calleeFull(cc)
				if cn != modPath+"/commonerrors.Any" && cn != modPath+"/commonerrors.None" {
					return
				}
				c.FuncsSeen[fname(outermost(f))] = true
				key := fname(outermost(f)) + "/" + strings.TrimPrefix(cn, modPath+"/commonerrors.")
				va := cc.Args[1]
				if isNilConst(va) {
					what := ""
					if u, ok := stripConv(cc.Args[0]).(*ssa.UnOp); ok {
						what = " (" + strings.TrimPrefix(u.X.String(), "github.com/") + ")"
					}
					c.violate("D5", key, c.ipos(in), short(cn)+" is called with the target"+what+" alone and no candidate: the result is constant, the case can never fire and the condition it was written for is not mapped to its kind")
					return
				}
				c.ok("D5", key, c.ipos(in), "has candidates")
			})
		}
	}
}

var _ = types.Universe

// c11ConverterTables (D8). "The converters map each backend condition to one stable kind." ConvertFileSystemError is a
// decision list whose cases mix structural tests (os.IsNotExist, errors.Is through commonerrors.Any) with tests on
// the error's text (commonerrors.CorrespondTo). The text of an *os.PathError contains the path the caller supplied:
// a textual case placed before a structural case of another kind lets the path decide the kind.
func (c *Ctx) c11ConverterTables() {
	c.c11ConverterTable("filesystem", "ConvertFileSystemError", true)
	c.c11ConverterTable("proc", "ConvertProcessError", false)
	c.c11ConverterStable("filesystem", "ConvertFileSystemError")
	c.c11ConverterStable("proc", "ConvertProcessError")
	// the I/O converter has no case that goes by the description today; one that is added must sit behind the same guard
	c.c11ConverterStable("safeio", "ConvertIOError")
}

// c11ConverterStable (D11). The converters are applied by helpers that call one another, so an error goes through them more
// than once. What the first pass returns is an error of a library kind whose description embeds the backend's text (with
// the caller's path or command name); if a second pass can reach a case that goes by the description, that text decides
// the kind anew. Decided on SSA: with the 'not a common error' edge of every IsCommonError(err) test removed, no call of
// CorrespondTo — direct, or inside a module function the converter hands the error to — is reachable from the entry.
func (c *Ctx) c11ConverterStable(pkgRel, fnName string) {
	f := c.fn(pkgRel, fnName)
	if f == nil {
		return
	}
	key := pkgRel + "." + fnName + "/stable-when-applied-twice"
	textual := func(g *ssa.Function) bool {
		found := false
		allInstrs(g, func(in ssa.Instruction) {
			if cc := callCommon(in); cc != nil && strings.HasSuffix(calleeFull(cc), "commonerrors.CorrespondTo") {
				found = true
			}
		})
		return found
	}
	isTextual := func(in ssa.Instruction) bool {
		cc := callCommon(in)
		if cc == nil {
			return false
		}
		if strings.HasSuffix(calleeFull(cc), "commonerrors.CorrespondTo") {
			return true
		}
		g := staticCallee(cc)
		return g != nil && inModule(g) && len(g.Blocks) > 0 && textual(g)
	}
	gates := 0
	isGateCall := func(v ssa.Value) bool {
		cl, isCall := v.(*ssa.Call)
		return isCall && strings.HasSuffix(calleeFull(&cl.Call), "commonerrors.IsCommonError")
	}
	// the value tested is IsCommonError(err), or `err != nil && IsCommonError(err)` kept in a variable
	isGate := func(v ssa.Value) bool {
		if isGateCall(v) {
			return true
		}
		if phi, ok := v.(*ssa.Phi); ok {
			n := 0
			for _, e := range phi.Edges {
				if b, isB := constBool(e); isB && !b {
					continue
				}
				if !isGateCall(e) {
					return false
				}
				n++
			}
			return n > 0
		}
		return false
	}
	prune := func(b *ssa.BasicBlock, k int) bool {
		ifi, ok := b.Instrs[len(b.Instrs)-1].(*ssa.If)
		if !ok {
			return false
		}
		// a nil error is not an error already converted
		if x, nilSucc, isNil := nilTest(ifi); isNil && isErrorType(x.Type()) {
			return k == nilSucc
		}
		v, side := boolTest(ifi)
		if v == nil || !isGate(v) {
			return false
		}
		// side: the successor index on which v is true
		return k != side
	}
	for _, b := range f.Blocks {
		if ifi, ok := b.Instrs[len(b.Instrs)-1].(*ssa.If); ok {
			if v, _ := boolTest(ifi); v != nil && isGate(v) {
				gates++
			}
		}
	}
	hit := pathPruned(f, nil, func(ssa.Instruction) bool { return false }, isTextual, prune)
	why := ""
	if hit != nil {
		why = "the case at " + c.ipos(hit) + " goes by the description of the error and can be reached by an error that is already of a library kind"
		if gates == 0 {
			why += " (the converter never asks IsCommonError)"
		}
		why += ": applied twice — the helpers are nested — the converter lets the path or the command name embedded in the description decide the kind (ENOENT on \"/tmp/file exists.txt\" becomes 'already exists')"
	}
	c.check(hit == nil, "D11", key, c.pos(f.Pos()), "cases that go by the description are out of reach of an error already converted", why)
}

// c11ConverterTable: the order obligation of D8 on one converter; for the filesystem converter also what is applied before
// the table and the timeout case.
func (c *Ctx) c11ConverterTable(pkgRel, fnName string, isFilesystem bool) {
	p := c.tpkg(pkgRel)
	fd := funcDecl(p, fnName)
	if fd == nil {
		c.fatalf("anchor: " + pkgRel + "." + fnName + " not found")
		return
	}
	conv := pkgRel + "." + fnName
	c.FuncsSeen[conv] = true
	var sw *ast.SwitchStmt
	ast.Inspect(fd.Body, func(n ast.Node) bool {
		if x, ok := n.(*ast.SwitchStmt); ok && sw == nil && x.Tag == nil {
			sw = x
		}
		return true
	})
	if sw == nil {
		c.undecided("D8", conv+"/order", c.pos(fd.Pos()), "no tagless switch found")
		return
	}
	type clause struct {
		pos        token.Pos
		kind       string
		textual    []string
		structural []string
	}
	calleeName := func(ce *ast.CallExpr) string {
		switch f := ce.Fun.(type) {
		case *ast.SelectorExpr:
			if id, ok := f.X.(*ast.Ident); ok {
				return id.Name + "." + f.Sel.Name
			}
			return f.Sel.Name
		case *ast.Ident:
			return f.Name
		}
		return ""
	}
	var clauses []clause
	for _, st := range sw.Body.List {
		cc, ok := st.(*ast.CaseClause)
		if !ok || len(cc.List) == 0 {
			continue
		}
		cl := clause{pos: cc.Pos(), kind: "unchanged"}
		var leaves func(e ast.Expr)
		leaves = func(e ast.Expr) {
			switch x := e.(type) {
			case *ast.ParenExpr:
				leaves(x.X)
			case *ast.BinaryExpr:
				if x.Op == token.LOR || x.Op == token.LAND {
					leaves(x.X)
					leaves(x.Y)
				}
			case *ast.CallExpr:
				n := calleeName(x)
				switch {
				case n == "commonerrors.CorrespondTo":
					var texts []string
					for _, a := range x.Args[1:] {
						if tv, ok := p.TypesInfo.Types[a]; ok && tv.Value != nil {
							texts = append(texts, tv.Value.ExactString())
						}
					}
					cl.textual = append(cl.textual, strings.Join(texts, ", "))
				case strings.HasPrefix(n, "os.Is") || n == "commonerrors.Any" || n == "errors.Is" || n == "errors.As":
					cl.structural = append(cl.structural, n)
				}
			}
		}
		for _, e := range cc.List {
			leaves(e)
		}
		ast.Inspect(&ast.BlockStmt{List: cc.Body}, func(n ast.Node) bool {
			if se, ok := n.(*ast.SelectorExpr); ok {
				if id, ok := se.X.(*ast.Ident); ok && (id.Name == "commonerrors" || id.Name == "os") && strings.HasPrefix(se.Sel.Name, "Err") && cl.kind == "unchanged" {
					cl.kind = se.Sel.Name
				}
			}
			return true
		})
		clauses = append(clauses, cl)
	}
	bad := ""
	var badPos token.Pos
	for i := range clauses {
		if len(clauses[i].textual) == 0 {
			continue
		}
		for j := i + 1; j < len(clauses); j++ {
			if len(clauses[j].structural) > 0 && clauses[j].kind != clauses[i].kind && clauses[j].kind != "unchanged" {
				bad = "the case recognising " + clauses[i].textual[0] + " in the error's text (→ " + clauses[i].kind + ") is evaluated before the structural case → " + clauses[j].kind + " (" + strings.Join(clauses[j].structural, ", ") + "): the text of an *os.PathError contains the caller's path, so e.g. a missing file below a directory whose name contains that text is not classified " + clauses[j].kind + " but " + clauses[i].kind
				badPos = clauses[i].pos
				break
			}
		}
		if bad != "" {
			break
		}
	}
	if bad != "" {
		c.violate("D8", conv+"/order", c.pos(badPos), bad)
	} else {
		c.ok("D8", conv+"/order", c.pos(sw.Pos()), strconv.Itoa(len(clauses))+" cases: every structural case precedes the cases that go by the error's text")
	}
	if !isFilesystem {
		return
	}
	// converters called on the error before the table: none of them goes by the error's text
	{
		pre := ""
		var prePos token.Pos
		ast.Inspect(fd.Body, func(n ast.Node) bool {
			ce, ok := n.(*ast.CallExpr)
			if !ok || ce.Pos() >= sw.Pos() || pre != "" {
				return true
			}
			var id *ast.Ident
			switch f := ce.Fun.(type) {
			case *ast.SelectorExpr:
				id = f.Sel
			case *ast.Ident:
				id = f
			}
			if id == nil {
				return true
			}
			fo, isF := p.TypesInfo.Uses[id].(*types.Func)
			if !isF || fo.Pkg() == nil || !strings.HasPrefix(fo.Pkg().Path(), modPath+"/") {
				return true
			}
			q := c.ByPath[fo.Pkg().Path()]
			if q == nil {
				return true
			}
			gd := funcDecl(q, fo.Name())
			if gd == nil || gd.Body == nil {
				return true
			}
			ast.Inspect(gd.Body, func(m ast.Node) bool {
				if ie, ok := m.(*ast.CallExpr); ok && strings.HasSuffix(calleeName(ie), "CorrespondTo") {
					pre = fo.Pkg().Name() + "." + fo.Name()
					prePos = ce.Pos()
				}
				return true
			})
			return true
		})
		c.check(pre == "", "D8", "filesystem.ConvertFileSystemError/nothing-textual-before-the-table", c.pos(fd.Pos()), "no converter that goes by the error's text is applied before the structural cases",
			pre+" is applied to the error at "+c.pos(prePos)+", before the table: it recognises a condition in the error's text, which contains the caller's path — a missing file below a directory named \"not supported\" is reported as 'unsupported', not 'not found'")
	}
	// the timeout case recognises errors reporting Timeout() — os.IsTimeout, or a Timeout() call
	okTimeout := false
	for _, cl := range clauses {
		if cl.kind != "ErrTimeout" {
			continue
		}
		for _, sname := range cl.structural {
			if sname == "os.IsTimeout" {
				okTimeout = true
			}
		}
	}
	if !okTimeout {
		ast.Inspect(fd.Body, func(n ast.Node) bool {
			if ce, ok := n.(*ast.CallExpr); ok {
				if se, ok := ce.Fun.(*ast.SelectorExpr); ok && se.Sel.Name == "Timeout" && len(ce.Args) == 0 {
					okTimeout = true
				}
			}
			return true
		})
	}
	c.check(okTimeout, "D8", "filesystem.ConvertFileSystemError/timeout", c.pos(fd.Pos()), "timeouts reported through Timeout() are recognised (os.IsTimeout)",
		"no case maps an error that reports Timeout() (syscall.ETIMEDOUT, EAGAIN, net-style errors inside *os.PathError) to the 'timeout' kind: errors.Is(err, os.ErrDeadlineExceeded) and the text \"i/o timeout\" do not match them, they leave the converter unclassified and are wrapped as 'unexpected' further up")
}

func elemsOf(app *ssa.Call) ssa.Value {
	el := variadicElems(app.Call.Args[len(app.Call.Args)-1])
	if len(el) == 1 {
		return el[0]
	}
	return app.Call.Args[len(app.Call.Args)-1]
}

// c11RangesOverTail: the element appended is read from a slice x[1:] of the split.
func c11RangesOverTail(app *ssa.Call) bool {
	found := false
	var walk func(v ssa.Value, d int)
	walk = func(v ssa.Value, d int) {
		if d == 0 || v == nil || found {
			return
		}
		switch x := v.(type) {
		case *ssa.Call:
			for _, a := range x.Call.Args {
				walk(a, d-1)
			}
		case *ssa.UnOp:
			walk(x.X, d-1)
		case *ssa.IndexAddr:
			if sl, ok := x.X.(*ssa.Slice); ok && sl.Low != nil {
				if k, isC := constInt(sl.Low); isC && k == 1 && sl.High == nil {
					if sc, ok := sl.X.(*ssa.Call); ok && calleeFull(&sc.Call) == "strings.Split" {
						found = true
					}
				}
			}
		}
	}
	walk(elemsOf(app), 6)
	return found
}

// c11WrappedReason (D9): ConvertToError composes the text from ErrorType.Error() and Reason. processErrorStrLine fills
// both from the text; SetWrappedError then replaces ErrorType by what Unwrap() returned — an error whose description is
// the parsed kind only when it is a bare kind. For New(New(ErrConflict, "inner"), "outer") it is "conflict: inner", and
// the reason "inner: outer" kept as it is gives "conflict: inner: inner: outer". Decided: the setter consults the
// description of the error it is given, and a store to Reason depends on a comparison that involves it. Not decided:
// that the rewritten reason is the right one (string contents).
func (c *Ctx) c11WrappedReason() {
	f := c.fn(cePkg, "(*marshallingError).SetWrappedError")
	if f == nil {
		return
	}
	c.FuncsSeen[fname(f)] = true
	key := fname(f) + "/reason-follows-the-wrapped-error"
	if len(f.Params) < 2 {
		c.violate("D9", key, c.pos(f.Pos()), "SetWrappedError no longer takes the wrapped error")
		return
	}
	errP := f.Params[1]
	var desc []ssa.Value
	var reasonStores []*ssa.Store
	typeStored := false
	allInstrs(f, func(in ssa.Instruction) {
		switch x := in.(type) {
		case *ssa.Call:
			if x.Call.IsInvoke() && x.Call.Method.Name() == "Error" && resolveValue(x.Call.Value) == ssa.Value(errP) {
				desc = append(desc, x)
			}
		case *ssa.Store:
			if fa, ok := x.Addr.(*ssa.FieldAddr); ok {
				if so := structOf(fa.X.Type()); so != nil {
					switch so.Field(fa.Field).Name() {
					case "Reason":
						reasonStores = append(reasonStores, x)
					case "ErrorType":
						if resolveValue(x.Val) == ssa.Value(errP) {
							typeStored = true
						}
					}
				}
			}
		}
	})
	if !typeStored {
		c.violate("D9", key, c.pos(f.Pos()), "SetWrappedError no longer stores the wrapped error as the error type")
		return
	}
	good := false
	for _, st := range reasonStores {
		// some branch condition that dominates the store is computed from the wrapped error's description
		for _, b := range f.Blocks {
			ifi, ok := b.Instrs[len(b.Instrs)-1].(*ssa.If)
			if !ok || !(edgeDominates(b, 0, st.Block()) || edgeDominates(b, 1, st.Block())) {
				continue
			}
			if c11DependsOn(ifi.Cond, desc, map[ssa.Value]bool{}, 0) {
				good = true
			}
		}
	}
	// second obligation: a comparison of lengths on the way to the rewriting does not exclude equal lengths — the wrapped
	// error may say everything the parsed text says (then nothing is left for the reason), and excluding that case keeps
	// the whole reason, which is said twice
	{
		bad := ""
		for _, st := range reasonStores {
			for _, b := range f.Blocks {
				ifi, ok := b.Instrs[len(b.Instrs)-1].(*ssa.If)
				if !ok {
					continue
				}
				side := -1
				if edgeDominates(b, 0, st.Block()) {
					side = 0
				} else if edgeDominates(b, 1, st.Block()) {
					side = 1
				}
				bo, isB := ifi.Cond.(*ssa.BinOp)
				if side < 0 || !isB {
					continue
				}
				isLen := func(v ssa.Value) bool {
					cl, ok := v.(*ssa.Call)
					return ok && calleeFull(&cl.Call) == "builtin.len"
				}
				if !isLen(bo.X) || !isLen(bo.Y) || !c11DependsOn(bo, desc, map[ssa.Value]bool{}, 0) {
					continue
				}
				excludes := false
				switch bo.Op {
				case token.LSS, token.GTR, token.NEQ:
					excludes = side == 0
				case token.LEQ, token.GEQ, token.EQL:
					excludes = side == 1
				}
				if excludes {
					bad = c.ipos(ifi)
				}
			}
		}
		c.check(bad == "", "D9", key+":equal-lengths", c.pos(f.Pos()), "length comparisons on the way to the rewriting admit equal lengths",
			"the comparison at "+bad+" keeps the rewriting of the reason away from the case where the wrapped error's description has as many elements as the parsed text: a wrapped error that already says everything (kind and reason) has its reason said twice in the serialised form")
	}
	c.check(good && len(desc) > 0, "D9", key, c.pos(f.Pos()), "the reason is rewritten after comparing the wrapped error's description with the parsed text",
		"SetWrappedError replaces the parsed kind by the wrapped error and leaves the parsed reason as it is: when the wrapped error has a reason of its own (New(New(ErrConflict, \"inner\"), \"outer\"), WrapIfNotCommonError(…, New(ErrNotFound, \"file a\"), \"ctx\"), every element of a join) its description already holds the first elements of the reason, and the serialised text says them twice — the deserialised error has another reason than the original")
}

// c11DependsOn: v is computed (through calls, conversions, slices, phis, binary operations, element loads) from one of the given values.
func c11DependsOn(v ssa.Value, from []ssa.Value, seen map[ssa.Value]bool, depth int) bool {
	if v == nil || seen[v] || depth > 12 {
		return false
	}
	seen[v] = true
	for _, d := range from {
		if v == d {
			return true
		}
	}
	var ops []*ssa.Value
	if in, ok := v.(ssa.Instruction); ok {
		ops = in.Operands(ops)
	}
	for _, o := range ops {
		if o != nil && *o != nil && c11DependsOn(*o, from, seen, depth+1) {
			return true
		}
	}
	if u, ok := v.(*ssa.UnOp); ok && u.Op == token.MUL {
		if a, isA := u.X.(*ssa.Alloc); isA {
			st, _ := reachingStores(u, a)
			for _, sv := range st {
				if c11DependsOn(sv, from, seen, depth+1) {
					return true
				}
			}
		}
	}
	return false
}

// c11ContextualTarget (D10): "recognised … as the kind it was given, and a cancellation or a deadline is never reclassified".
// WrapIfNotCommonError(f) lets a cause that already is a common error keep its own kind (New(cause, msg)). When the kind
// given is a cancellation or a deadline, that would turn a result the caller declared cancelled into 'conflict', 'not found'…
// Both siblings must guard the branch the same way.
func (c *Ctx) c11ContextualTarget() {
	for _, name := range []string{"WrapIfNotCommonError", "WrapIfNotCommonErrorf"} {
		f := c.fnOpt(cePkg, name)
		if f == nil {
			c.violate("D10", "commonerrors."+name, "", "constructor "+name+" not found")
			continue
		}
		c.FuncsSeen[fname(f)] = true
		key := fname(f)
		if len(f.Params) < 2 {
			c.violate("D10", key, c.pos(f.Pos()), "unexpected signature")
			continue
		}
		target, cause := f.Params[0], f.Params[1]
		// calls that build an error whose kind is the cause: New/Newf/Errorf(cause, …)
		var takes []*ssa.Call
		allInstrs(f, func(in ssa.Instruction) {
			cl, ok := in.(*ssa.Call)
			if !ok {
				return
			}
			g := staticCallee(&cl.Call)
			if g == nil || !inPkg(cePkg)(g) || len(cl.Call.Args) == 0 {
				return
			}
			if (g.Name() == "New" || g.Name() == "Newf" || g.Name() == "Errorf") && resolveValue(cl.Call.Args[0]) == ssa.Value(cause) {
				takes = append(takes, cl)
			}
		})
		if len(takes) == 0 {
			c.ok("D10", key, c.pos(f.Pos()), "no branch gives the result the kind of the cause")
			continue
		}
		isGuard := func(v ssa.Value) bool {
			cl, ok := v.(*ssa.Call)
			if !ok || calleeFull(&cl.Call) != modPath+"/commonerrors.Any" || len(cl.Call.Args) != 2 {
				return false
			}
			fromTarget := false
			for _, l := range sources(cl.Call.Args[0], deriveOpts{through: func(n string) bool { return n == ceConvCtx }}) {
				if l == ssa.Value(target) {
					fromTarget = true
				}
			}
			names := map[string]bool{}
			for _, e := range variadicElems(cl.Call.Args[1]) {
				for _, g := range []string{"ErrTimeout", "ErrCancelled"} {
					if isGlobalLoad(e, g) {
						names[g] = true
					}
				}
			}
			return fromTarget && names["ErrTimeout"] && names["ErrCancelled"]
		}
		good := true
		for _, t := range takes {
			if !onBoolSide(t, false, isGuard) {
				good = false
			}
		}
		c.check(good, "D10", key, c.ipos(takes[0]), "the cause's kind is taken only where the target is neither a cancellation nor a deadline",
			name+" gives its result the kind of the cause without having found that the kind it was given is not a cancellation or a deadline: WrapIfNotCommonError(f)(ErrCancelled, New(ErrConflict, …), …) is recognised as 'conflict' and no longer as 'cancelled' — and its sibling (with / without format) answers differently on the same arguments")
	}
}

// c11MessagesAreNotFormats (D12): "with any message". New(kind, msg) and the other constructors that take a finished message
// build their error through the printf-like constructors of the package, handing the message over in the format position
// with no operands. That is only sound if the printf-like constructor applies the format where operands were given and
// takes the string as it is otherwise: a message containing '%' ("disk 100% full", "my%20file") is rewritten by Sprintf
// ("100%!f(MISSING)ull"), again on every hop across a process boundary.
func (c *Ctx) c11MessagesAreNotFormats() {
	c.rule("D12", "a printf-like constructor that receives finished messages in its format position (from New and friends, with no operands) formats only where operands were given: its Sprintf lies where len(args) was found positive", 1)
	printfLike := func(g *ssa.Function) (format, args *ssa.Parameter) {
		if g == nil || len(g.Blocks) == 0 || !g.Signature.Variadic() {
			return nil, nil
		}
		n := len(g.Params)
		if n < 2 || g.Params[n-2].Type().String() != "string" {
			return nil, nil
		}
		if sl, ok := g.Params[n-1].Type().Underlying().(*types.Slice); !ok || !types.IsInterface(sl.Elem()) {
			return nil, nil
		}
		return g.Params[n-2], g.Params[n-1]
	}
	need := map[*ssa.Function]string{} // printf-like callee → a call site that hands it a message
	for _, f := range c.srcFuncs(cePkg) {
		_, fArgs := printfLike(f)
		allInstrs(f, func(in ssa.Instruction) {
			cl, ok := in.(*ssa.Call)
			if !ok {
				return
			}
			g := staticCallee(&cl.Call)
			if g == nil || !inPkg(cePkg)(g) {
				return
			}
			gf, _ := printfLike(g)
			if gf == nil {
				return
			}
			na := len(cl.Call.Args)
			if _, isConst := cl.Call.Args[na-2].(*ssa.Const); isConst {
				return
			}
			// operands: none, or the caller's own (then the caller is a printf-like forwarder and the format is a format)
			if fArgs != nil && resolveValue(cl.Call.Args[na-1]) == ssa.Value(fArgs) {
				return
			}
			if len(variadicElems(cl.Call.Args[na-1])) > 0 {
				return
			}
			if _, has := need[g]; !has {
				need[g] = fname(f) + " (" + c.ipos(cl) + ")"
			}
		})
	}
	var callees []*ssa.Function
	for g := range need {
		callees = append(callees, g)
	}
	sortFuncs(callees)
	for _, g := range callees {
		c.FuncsSeen[fname(g)] = true
		gf, ga := printfLike(g)
		var lens []ssa.Value
		allInstrs(g, func(in ssa.Instruction) {
			if cl, ok := in.(*ssa.Call); ok && calleeFull(&cl.Call) == "builtin.len" && resolveValue(cl.Call.Args[0]) == ssa.Value(ga) {
				lens = append(lens, cl)
			}
		})
		bad := ""
		allInstrs(g, func(in ssa.Instruction) {
			cl, ok := in.(*ssa.Call)
			if !ok {
				return
			}
			switch calleeFull(&cl.Call) {
			case "fmt.Sprintf", "fmt.Errorf", "fmt.Fprintf", "fmt.Appendf":
			default:
				return
			}
			fi := 0
			if calleeFull(&cl.Call) == "fmt.Fprintf" || calleeFull(&cl.Call) == "fmt.Appendf" {
				fi = 1
			}
			if resolveValue(cl.Call.Args[fi]) != ssa.Value(gf) {
				return
			}
			guarded := false
			for _, p := range cl.Block().Preds {
				for _, l := range lens {
					if gd := guardsOnEdge(l, p, cl.Block()); gd.hasLo && gd.lo.Sign() > 0 {
						guarded = true
					}
				}
			}
			if !guarded {
				bad = c.ipos(cl)
			}
		})
		c.check(bad == "", "D12", fname(g)+"/formats-only-with-operands", c.pos(g.Pos()), "the format parameter is formatted only where operands were given",
			fname(g)+" receives finished messages in its format position (from "+need[g]+") yet formats that string at "+bad+" whether operands were given or not: a message containing '%' is rewritten (\"disk 100% full\" → \"disk 100%!f(MISSING)ull\"), in the process and again each time the error is rebuilt on the other side of a process boundary")
	}
	if len(callees) == 0 {
		c.info("D12", cePkg+"/no-message-in-format-position", "-", "no constructor hands a finished message to a printf-like constructor")
	}
}

// c11ContextFirst (D13): "a cause that is a cancellation or a deadline is never reclassified". Every constructor and every
// converter starts by handing its cause to ConvertContextError and relies on getting ErrCancelled / ErrTimeout back for
// anything that contains context.Canceled / context.DeadlineExceeded — also when the error carries a kind of the library
// besides (a join of a worker's 'invalid' with a cancellation). ConvertContextError therefore returns its argument as it is
// only where both tests for the two context errors answered false.
func (c *Ctx) c11ContextFirst() {
	c.rule("D13", "ConvertContextError hands its argument back unchanged only where it was found to contain neither context.Canceled nor context.DeadlineExceeded", 1)
	f := c.fn(cePkg, "ConvertContextError")
	if f == nil || len(f.Params) == 0 {
		return
	}
	c.FuncsSeen[fname(f)] = true
	prm := f.Params[0]
	// the two tests: Any(err, context.Canceled) / errors.Is(err, context.Canceled) and the same for DeadlineExceeded
	tests := map[string][]*ssa.If{}
	for _, b := range f.Blocks {
		ifi, ok := b.Instrs[len(b.Instrs)-1].(*ssa.If)
		if !ok {
			continue
		}
		v, _ := boolTest(ifi)
		cl, isCall := v.(*ssa.Call)
		if !isCall || len(cl.Call.Args) < 2 || resolveValue(cl.Call.Args[0]) != ssa.Value(prm) {
			continue
		}
		n := calleeFull(&cl.Call)
		if !(strings.HasSuffix(n, "commonerrors.Any") || n == "errors.Is") {
			continue
		}
		var kinds []ssa.Value
		if n == "errors.Is" {
			kinds = []ssa.Value{cl.Call.Args[1]}
		} else {
			kinds = variadicElems(cl.Call.Args[1])
		}
		for _, k := range kinds {
			if u, ok := stripConv(k).(*ssa.UnOp); ok {
				if g, ok := u.X.(*ssa.Global); ok && g.Pkg != nil && g.Pkg.Pkg.Path() == "context" {
					tests[g.Name()] = append(tests[g.Name()], ifi)
				}
			}
		}
	}
	bad := ""
	allInstrs(f, func(in ssa.Instruction) {
		r, ok := in.(*ssa.Return)
		if !ok || len(r.Results) != 1 {
			return
		}
		unchanged := false
		for _, l := range sources(r.Results[0], deriveOpts{}) {
			if l == ssa.Value(prm) {
				unchanged = true
			}
		}
		if !unchanged {
			return
		}
		for _, kind := range []string{"Canceled", "DeadlineExceeded"} {
			found := false
			for _, ifi := range tests[kind] {
				_, ts := boolTest(ifi)
				if edgeDominates(ifi.Block(), 1-ts, r.Block()) {
					found = true
				}
			}
			if !found {
				bad = c.ipos(r) + " (context." + kind + " not excluded)"
			}
		}
	})
	c.check(bad == "", "D13", fname(f)+"/unchanged-only-without-a-context-error", c.pos(f.Pos()), "the argument is returned unchanged only past both context tests",
		"ConvertContextError can hand its argument back as it is at "+bad+": an error that carries a kind of the library and contains a cancellation or a deadline (errors.Join(New(ErrInvalid, …), context.Canceled)) is then no longer turned into 'cancelled' / 'timeout' — WrapError, New and the converters, which all start with this call, reclassify the cancellation")
}

// c11SerialisedBytesBelongToTheCaller (D14): "serialising such an error to text and deserialising it yields an error of the
// same kinds". The bytes SerialiseError returns are the caller's from then on: it may keep them while it serialises the
// next error. Bytes that alias a buffer the package keeps (a sync.Pool of buffers, a package-level buffer) are overwritten
// by the next marshalling — deserialising the first text then yields the kinds of the second error. Decided for every
// MarshalText of package commonerrors (and SerialiseError): nothing they return derives from an object taken out of a
// sync.Pool or from a package-level variable.
func (c *Ctx) c11SerialisedBytesBelongToTheCaller() {
	c.rule("D14", "the bytes returned by the marshallers of package commonerrors belong to the caller: they do not alias a buffer taken from a sync.Pool or kept in a package-level variable", 2)
	for _, f := range c.srcFuncs("commonerrors") {
		if f.Parent() != nil || f.Blocks == nil {
			continue
		}
		if f.Name() != "MarshalText" && f.Name() != "SerialiseError" {
			continue
		}
		bad := ""
		allInstrs(f, func(in ssa.Instruction) {
			r, ok := in.(*ssa.Return)
			if !ok || len(r.Results) == 0 {
				return
			}
			seen := map[ssa.Value]bool{}
			var walk func(v ssa.Value, d int)
			walk = func(v ssa.Value, d int) {
				if v == nil || seen[v] || d > 25 {
					return
				}
				seen[v] = true
				switch x := v.(type) {
				case *ssa.Global:
					bad = "the package-level variable " + x.Name()
				case *ssa.Call:
					n := calleeFull(&x.Call)
					if n == "(*sync.Pool).Get" {
						bad = "an object taken from a sync.Pool (" + c.ipos(x) + ")"
						return
					}
					// accessors that return the object's own storage: follow the object
					switch n {
					case "(*bytes.Buffer).Bytes", "(*bytes.Buffer).Next", "(*bytes.Buffer).AvailableBuffer":
						walk(x.Call.Args[0], d+1)
					}
					if b, isB := x.Call.Value.(*ssa.Builtin); isB && b.Name() == "append" {
						walk(x.Call.Args[0], d+1)
					}
				case *ssa.Phi:
					for _, e := range x.Edges {
						walk(e, d+1)
					}
				case *ssa.Extract:
					walk(x.Tuple, d+1)
				case *ssa.TypeAssert:
					walk(x.X, d+1)
				case *ssa.UnOp:
					walk(x.X, d+1)
				case *ssa.Slice:
					walk(x.X, d+1)
				case *ssa.ChangeType:
					walk(x.X, d+1)
				case *ssa.Convert:
					// string <-> []byte conversions copy
				case *ssa.Alloc:
					for _, st := range storesToDeep(x) {
						walk(st, d+1)
					}
				case *ssa.FieldAddr:
					walk(x.X, d+1)
				}
			}
			walk(r.Results[0], 0)
		})
		c.FuncsSeen[fname(f)] = true
		c.check(bad == "", "D14", fname(f)+"/bytes-of-their-own", c.pos(f.Pos()), "what is returned does not alias pooled or package-level storage",
			"the bytes "+fname(f)+" returns alias "+bad+": the caller that keeps the text of one joined error while it serialises (or deserialises) another finds the first text overwritten in place — deserialised, it yields the kinds of the second error, or a truncated mix of the two")
	}
}

// c11ConvertersWrapTheKind (D15, and A23 for C09): the converters (Convert…Error) of the module. Two obligations:
//   - identity: a converter recognises a sentinel with commonerrors.Any / errors.Is, never by comparing the error value with
//     `==` or a value `switch` — a wrapped end-of-stream (`fmt.Errorf("record %d is incomplete: %w", k, io.ErrUnexpectedEOF)`)
//     is an end-of-stream;
//   - wrap: where a converter builds its result with fmt.Errorf and one operand is a kind of package commonerrors, the verb
//     bound to that operand is %w — `"%v: %w"` with the kind first prints the same text and wraps the other operand: the result
//     reads 'timeout: …' and is not a timeout.
func (c *Ctx) c11ConvertersWrapTheKind(ruleIdentity, ruleWrap string) {
	nI, nW := 0, 0
	for _, sp := range c.SSAPkgs {
		if !strings.HasPrefix(sp.Pkg.Path(), modPath) {
			continue
		}
		for _, f := range c.srcFuncs(shortPkg(sp.Pkg.Path())) {
			top := outermost(f)
			if f.Blocks == nil || !strings.HasPrefix(top.Name(), "Convert") || !strings.HasSuffix(top.Name(), "Error") && !strings.Contains(top.Name(), "Error") {
				continue
			}
			if ruleIdentity != "" {
				bad := ""
				allInstrs(f, func(in ssa.Instruction) {
					b, ok := in.(*ssa.BinOp)
					if !ok || (b.Op != token.EQL && b.Op != token.NEQ) || !isErrorType(b.X.Type()) {
						return
					}
					isSentinel := func(v ssa.Value) bool {
						u, ok := v.(*ssa.UnOp)
						if !ok {
							return false
						}
						_, isG := u.X.(*ssa.Global)
						return isG
					}
					if isSentinel(b.X) || isSentinel(b.Y) {
						bad = c.ipos(b)
					}
				})
				nI++
				c.FuncsSeen[fname(top)] = true
				c.check(bad == "", ruleIdentity, fname(f)+"/sentinels-recognised-when-wrapped", c.pos(f.Pos()), "no sentinel is compared with `==` (or a value switch) in the converter",
					"the converter compares the error with a sentinel by identity at "+bad+": an end-of-stream (or any other condition) that reaches it wrapped — `fmt.Errorf(\"record %d is incomplete: %w\", k, io.ErrUnexpectedEOF)`, an error type answering Is() — is no longer recognised and comes out without its kind")
			}
			if ruleWrap != "" {
				allInstrs(f, func(in ssa.Instruction) {
					cl, ok := in.(*ssa.Call)
					if !ok || calleeFull(&cl.Call) != "fmt.Errorf" || len(cl.Call.Args) < 2 {
						return
					}
					format, isC := constString(cl.Call.Args[0])
					if !isC {
						return
					}
					var verbs []string
					for i := 0; i+1 < len(format); i++ {
						if format[i] == '%' {
							if format[i+1] == '%' {
								i++
								continue
							}
							j := i + 1
							for j < len(format) && strings.ContainsRune("+-# 0123456789.[]*", rune(format[j])) {
								j++
							}
							if j < len(format) {
								verbs = append(verbs, string(format[j]))
							}
							i = j
						}
					}
					els := variadicElems(cl.Call.Args[1])
					kindAt := -1
					for i, e := range els {
						u, ok := resolveValue(e).(*ssa.UnOp)
						if !ok {
							continue
						}
						if g, isG := u.X.(*ssa.Global); isG && g.Pkg != nil && strings.HasSuffix(g.Pkg.Pkg.Path(), "/commonerrors") && strings.HasPrefix(g.Name(), "Err") {
							kindAt = i
						}
					}
					if kindAt < 0 || kindAt >= len(verbs) {
						return
					}
					nW++
					c.FuncsSeen[fname(top)] = true
					kindName := ""
					if u, ok := resolveValue(els[kindAt]).(*ssa.UnOp); ok {
						if g, isG := u.X.(*ssa.Global); isG {
							kindName = g.Name()
						}
					}
					c.check(verbs[kindAt] == "w", ruleWrap, fname(f)+"/kind-wrapped:"+kindName, c.ipos(cl), "the verb bound to the kind is %w",
						"the kind handed to fmt.Errorf is formatted with %"+verbs[kindAt]+" (format "+strconv.Quote(format)+"): the result reads like an error of that kind and does not wrap it — `commonerrors.Any(err, kind)` answers false, a later wrap reclassifies it, and after serialisation no kind is left")
				})
			}
		}
	}
	if ruleIdentity != "" && nI == 0 {
		c.violate(ruleIdentity, "module/no-converter", "-", "no Convert…Error function left in the module")
	}
	if ruleWrap != "" && nW == 0 {
		c.info(ruleWrap, "module/no-errorf-with-a-kind", "-", "no converter builds its result with fmt.Errorf and a kind")
	}
}

// contextConverterGoesByIdentity (C11/D18, evaluated as C02/X7 and C14/O13): every constructor and converter of the library
// starts with ConvertContextError, so what it answers decides the kind of every error that passes through the library:
// (a) it answers nil only for a nil argument — an error without a description is still an error (RetryIf returns what this
//
//	function made of the last error: nil there means 'some attempt succeeded');
//
// (b) it answers 'cancelled' / 'timeout' only where the error *is* (errors.Is / Any) context.Canceled / DeadlineExceeded —
//
//	never on the strength of the description: the descriptions the library builds contain the caller's names (an entry
//	`../context canceled/x` refused as malicious, re-wrapped for the nested archive, comes out as 'cancelled').
func (c *Ctx) contextConverterGoesByIdentity(rule, consequence string) {
	c.rule(rule, "ConvertContextError answers nil only for a nil argument, and 'cancelled' / 'timeout' only where the argument was found (Any / errors.Is) to be context.Canceled / context.DeadlineExceeded — never by its description", 1)
	f := c.fn(cePkg, "ConvertContextError")
	if f == nil || len(f.Params) == 0 {
		return
	}
	c.FuncsSeen[fname(f)] = true
	prm := f.Params[0]
	isIdentityTest := func(v ssa.Value, kind string) bool {
		cl, ok := v.(*ssa.Call)
		if !ok || len(cl.Call.Args) < 2 || resolveValue(cl.Call.Args[0]) != ssa.Value(prm) {
			return false
		}
		n := calleeFull(&cl.Call)
		var kinds []ssa.Value
		switch {
		case n == "errors.Is":
			kinds = []ssa.Value{cl.Call.Args[1]}
		case strings.HasSuffix(n, "commonerrors.Any"):
			kinds = variadicElems(cl.Call.Args[1])
		default:
			return false
		}
		for _, k := range kinds {
			if u, ok := stripConv(k).(*ssa.UnOp); ok {
				if g, ok := u.X.(*ssa.Global); ok && g.Pkg != nil && g.Pkg.Pkg.Path() == "context" && g.Name() == kind {
					return true
				}
			}
		}
		return false
	}
	bad := ""
	rets := 0
	allInstrs(f, func(in ssa.Instruction) {
		r, ok := in.(*ssa.Return)
		if !ok || len(r.Results) != 1 {
			return
		}
		rets++
		for _, l := range sources(r.Results[0], deriveOpts{}) {
			switch {
			case isNilConst(l):
				if !onNilSide(prm, r) {
					bad = c.ipos(r) + ": nil is answered although the argument was not found nil"
				}
			case isGlobalLoad(l, "ErrCancelled"):
				if !onBoolSide(r, true, func(v ssa.Value) bool { return isIdentityTest(v, "Canceled") }) {
					bad = c.ipos(r) + ": 'cancelled' is answered without the argument having been found to be context.Canceled"
				}
			case isGlobalLoad(l, "ErrTimeout"):
				if !onBoolSide(r, true, func(v ssa.Value) bool { return isIdentityTest(v, "DeadlineExceeded") }) {
					bad = c.ipos(r) + ": 'timeout' is answered without the argument having been found to be context.DeadlineExceeded"
				}
			}
		}
	})
	c.check(rets > 0 && bad == "", rule, fname(f)+"/by-identity-and-nil-only-for-nil", c.pos(f.Pos()), "nil only for nil; the context kinds only for errors that are the context errors", bad+" — "+consequence)
}

// c11ConditionsRecognisedOnEveryPlatform (D19): "the filesystem, process and I/O error converters map each backend condition
// to one stable kind". A condition the converters recognise by what the backend says (CorrespondTo(err, "not supported"))
// is the same condition on every platform: the test is not made only where a platform predicate answered true. (A test
// for an error *value* that exists on one platform only — errNotSupportedByWindows — may be.)
func (c *Ctx) c11ConditionsRecognisedOnEveryPlatform() {
	c.rule("D19", "in the converters (Convert…Error) a condition recognised by the error's description is tested on every platform: no such test is evaluated only on the true side of a platform predicate (IsWindows(), runtime.GOOS == …)", 1)
	isPlatformPredicate := func(v ssa.Value) bool {
		if cl, ok := v.(*ssa.Call); ok {
			if g := staticCallee(&cl.Call); g != nil {
				switch g.Name() {
				case "IsWindows", "IsLinux", "IsMac", "IsDarwin", "IsUnix":
					return true
				}
			}
		}
		if bo, ok := v.(*ssa.BinOp); ok {
			for _, o := range []ssa.Value{bo.X, bo.Y} {
				if k, isK := constString(o); isK && (k == "windows" || k == "linux" || k == "darwin") {
					return true
				}
			}
		}
		return false
	}
	n := 0
	for _, sp := range c.SSAPkgs {
		if !strings.HasPrefix(sp.Pkg.Path(), modPath) {
			continue
		}
		for _, f := range c.srcFuncs(shortPkg(sp.Pkg.Path())) {
			name := outermost(f).Name()
			if f.Blocks == nil || !strings.HasPrefix(name, "Convert") && !strings.HasPrefix(name, "convert") || !strings.Contains(name, "Error") {
				continue
			}
			allInstrs(f, func(in ssa.Instruction) {
				cl, ok := in.(*ssa.Call)
				if !ok || !strings.HasSuffix(calleeFull(&cl.Call), "commonerrors.CorrespondTo") {
					return
				}
				n++
				key := fname(outermost(f)) + "/described-condition-on-every-platform"
				if n > 1 {
					key += "#" + strconv.Itoa(n)
				}
				c.FuncsSeen[fname(outermost(f))] = true
				c.check(!onBoolSide(cl, true, isPlatformPredicate), "D19", key, c.ipos(cl), "the test by description is made whatever the platform",
					"the condition is recognised by its description only where a platform predicate answered true: on the other platforms the same backend condition (`operation not supported`: ENOTSUP from chown, link or xattr on a filesystem that lacks them) gets no kind at all, falls through and is later labelled 'unexpected' — the kind of one condition depends on the platform, and the wrong one survives serialisation")
			})
		}
	}
}
