package main

// C10 — safecast: exact decision by partition + monotonicity.
//
// The conversion functions touch their argument only through conversions and
// comparisons with constants. For such code the argument type splits into
// finitely many cells on which every comparison has a constant outcome; the
// checker finds that partition by evaluating the SSA of every instantiation
// concretely (exact arithmetic, Go spec conversion semantics) at the two ends
// of a candidate cell, bisecting the cell whenever the two branch traces
// differ. On a cell with equal traces every branch condition — a monotone
// conversion chain of the argument compared with a constant — has the same
// outcome for all values in between, so the result is either one constant or
// the direct conversion of the argument, and agreement with clamp∘trunc at both
// ends is agreement on the cell.

import (
	"fmt"
	"go/constant"
	"go/token"
	"go/types"
	"math"
	"math/big"
	"os"
	"path/filepath"
	"sort"
	"strings"

	"golang.org/x/tools/go/ssa"
)

func init() {
	register(&propCheck{
		id:          "C10",
		level:       "proof",
		explanation: "Whole property except NaN (for which the statement defines no result): every instantiation of ToInt…ToUint64 (10 targets × 12 source kinds × {predeclared, named}) is decided exactly. The SSA of the instantiation is evaluated with exact arithmetic and the Go specification's conversion semantics (integer→integer wraps, float→integer truncates when representable and is implementation-defined = poison otherwise, integer→float rounds to nearest even) at the two ends of every cell of a partition of the source type; the partition starts from all range boundaries of all targets (±1, and the neighbouring floats) and is refined by bisection wherever the two ends take different branches, down to single values. The interpreter only admits programs in which every branch depends on the argument through a conversion chain compared with a constant (or a type/kind test), so equal traces at both ends of a cell mean equal traces inside it; on such a cell the result is a constant c with clamp(trunc(v)) = c at both ends, or the direct in-range conversion: equality with clamp∘trunc, hence saturation and monotonicity, follow for the whole cell. A comparison or result that goes through a wrapped or implementation-defined conversion is a violation; any construct outside the admitted subset makes the run undecided (never ok). 'Never panics' is decided by the absence, in the package's non-test functions, of every instruction that can panic (index, slice, division by a non-constant, single-value type assertion, nil-able dereference, panic call). Decided for 64-bit int/uint (amd64): the repository itself does not type-check for 32-bit targets (safecast/cast.go passes math.MinInt64 as an int, filesystem/extendedfile.go overflows uintptr), so a 32-bit configuration cannot be analysed.",
		run:         runC10,
		overlayGen:  c10Overlay,
		trustedBase: []string{"go/types, go/constant, go/ssa (x/tools v0.50.0)", "math/big", "the transcription of the Go specification's conversion rules in checker/c10.go", "gc on amd64/386 implements the specified conversions for representable values"},
		assumptions: []string{
			"NaN arguments are outside the statement (reported as information only)",
		},
	})
}

var c10Targets = []string{"Int", "Uint", "Int8", "Uint8", "Int16", "Uint16", "Int32", "Uint32", "Int64", "Uint64"}
var c10Sources = []string{"int", "int8", "int16", "int32", "int64", "uint", "uint8", "uint16", "uint32", "uint64", "float32", "float64"}

const c10File = "zz_verif_c10_instances.go"

func c10Overlay(repo string) map[string][]byte {
	var b strings.Builder
	b.WriteString("package safecast\n\n// generated in memory by the checker: one wrapper per instantiation to analyse\n\n")
	for _, s := range c10Sources {
		fmt.Fprintf(&b, "type vc10N%s %s\n", s, s)
	}
	for _, t := range c10Targets {
		rt := strings.ToLower(t)
		for _, s := range c10Sources {
			fmt.Fprintf(&b, "func vc10_To%s_%s(v %s) %s { return To%s(v) }\n", t, s, s, rt, t)
			fmt.Fprintf(&b, "func vc10_To%s_N%s(v vc10N%s) %s { return To%s(v) }\n", t, s, s, rt, t)
		}
	}
	return map[string][]byte{filepath.Join(repo, "safecast", c10File): []byte(b.String())}
}

// ---------------------------------------------------------------------------
// concrete values

type cval struct {
	t    types.Type // static type
	isB  bool
	b    bool
	isF  bool
	f    float64 // float kinds (float32 values are exactly representable)
	i    *big.Int
	dep  bool   // depends on the argument
	pure bool   // obtained from the argument by conversions only
	mono bool   // a monotone step function of the argument on every cell that does not straddle zero (the binary exponent of math.Frexp)
	bad  string // "wrapped" | "poison"
	// interface / reflect values
	dyn   types.Type
	inner *cval
	tuple []*cval
	refl  bool // reflect.Value / reflect.Type of dyn
}

type c10Sizes struct{ intBits int }

func basicOf(t types.Type) *types.Basic {
	b, _ := t.Underlying().(*types.Basic)
	return b
}

func (z c10Sizes) bitsSigned(t types.Type) (bits int, signed, isFloat, ok bool) {
	b := basicOf(t)
	if b == nil {
		return 0, false, false, false
	}
	switch b.Kind() {
	case types.Int:
		return z.intBits, true, false, true
	case types.Uint, types.Uintptr:
		return z.intBits, false, false, true
	case types.Int8:
		return 8, true, false, true
	case types.Int16:
		return 16, true, false, true
	case types.Int32:
		return 32, true, false, true
	case types.Int64:
		return 64, true, false, true
	case types.Uint8:
		return 8, false, false, true
	case types.Uint16:
		return 16, false, false, true
	case types.Uint32:
		return 32, false, false, true
	case types.Uint64:
		return 64, false, false, true
	case types.Float32:
		return 32, true, true, true
	case types.Float64, types.UntypedFloat:
		return 64, true, true, true
	case types.UntypedInt:
		return 0, true, false, true
	}
	return 0, false, false, false
}

func (z c10Sizes) rangeOf(t types.Type) (lo, hi *big.Int) {
	bits, signed, _, _ := z.bitsSigned(t)
	one := big.NewInt(1)
	if signed {
		hi = new(big.Int).Sub(new(big.Int).Lsh(one, uint(bits-1)), one)
		lo = new(big.Int).Neg(new(big.Int).Lsh(one, uint(bits-1)))
	} else {
		lo = big.NewInt(0)
		hi = new(big.Int).Sub(new(big.Int).Lsh(one, uint(bits)), one)
	}
	return
}

// convert implements the Go specification's numeric conversion.
func (z c10Sizes) convert(v *cval, to types.Type) *cval {
	bits, _, toFloat, ok := z.bitsSigned(to)
	if !ok {
		return nil
	}
	out := &cval{t: to, dep: v.dep, pure: v.pure, bad: v.bad}
	if v.isF {
		if toFloat {
			out.isF = true
			if bits == 32 {
				out.f = float64(float32(v.f))
			} else {
				out.f = v.f
			}
			return out
		}
		// float → integer: truncation if representable, else implementation-defined
		lo, hi := z.rangeOf(to)
		if math.IsNaN(v.f) || math.IsInf(v.f, 0) {
			out.i = big.NewInt(0)
			out.bad = "poison"
			return out
		}
		tr, _ := new(big.Float).SetFloat64(math.Trunc(v.f)).Int(nil)
		if tr.Cmp(lo) < 0 || tr.Cmp(hi) > 0 {
			out.i = big.NewInt(0)
			out.bad = "poison"
			return out
		}
		out.i = tr
		return out
	}
	if toFloat {
		out.isF = true
		if bits == 32 {
			f, _ := new(big.Float).SetPrec(24).SetMode(big.ToNearestEven).SetInt(v.i).Float32()
			out.f = float64(f)
		} else {
			f, _ := new(big.Float).SetPrec(53).SetMode(big.ToNearestEven).SetInt(v.i).Float64()
			out.f = f
		}
		return out
	}
	// integer → integer: wrap
	lo, hi := z.rangeOf(to)
	if v.i.Cmp(lo) >= 0 && v.i.Cmp(hi) <= 0 {
		out.i = new(big.Int).Set(v.i)
		return out
	}
	mod := new(big.Int).Lsh(big.NewInt(1), uint(bits))
	w := new(big.Int).Mod(v.i, mod)
	if w.Cmp(hi) > 0 {
		w.Sub(w, mod)
	}
	out.i = w
	if out.bad == "" {
		out.bad = "wrapped"
	}
	return out
}

// ---------------------------------------------------------------------------
// interpreter

type c10Interp struct {
	z      c10Sizes
	c      *Ctx
	steps  int
	trace  []string
	undec  string
	viol   string
	violAt token.Pos
}

func (it *c10Interp) constVal(k *ssa.Const) *cval {
	out := &cval{t: k.Type()}
	if k.Value == nil {
		return out
	}
	switch k.Value.Kind() {
	case constant.Bool:
		out.isB, out.b = true, constant.BoolVal(k.Value)
	case constant.Int:
		if b := basicOf(k.Type()); b != nil && b.Info()&types.IsFloat != 0 {
			f, _ := constant.Float64Val(k.Value)
			out.isF, out.f = true, f
		} else {
			i, _ := new(big.Int).SetString(k.Value.ExactString(), 10)
			out.i = i
		}
	case constant.Float:
		if b := basicOf(k.Type()); b != nil && b.Info()&types.IsInteger != 0 {
			i, _ := new(big.Int).SetString(constant.ToInt(k.Value).ExactString(), 10)
			out.i = i
		} else {
			f, _ := constant.Float64Val(k.Value)
			if b != nil && b.Kind() == types.Float32 {
				f32, _ := constant.Float32Val(k.Value)
				f = float64(f32)
			}
			out.isF, out.f = true, f
		}
	default:
		return nil
	}
	return out
}

func cmpNum(a, b *cval) (int, bool) {
	if a.isF != b.isF {
		return 0, false
	}
	if a.isF {
		if math.IsNaN(a.f) || math.IsNaN(b.f) {
			return 2, true // unordered
		}
		switch {
		case a.f < b.f:
			return -1, true
		case a.f > b.f:
			return 1, true
		}
		return 0, true
	}
	return a.i.Cmp(b.i), true
}

func (it *c10Interp) exec(f *ssa.Function, args []*cval, depth int) *cval {
	if depth > 8 || f.Blocks == nil {
		it.undec = "call depth / external function " + f.String()
		return nil
	}
	env := map[ssa.Value]*cval{}
	for i, p := range f.Params {
		env[p] = args[i]
	}
	get := func(v ssa.Value) *cval {
		if k, ok := v.(*ssa.Const); ok {
			cv := it.constVal(k)
			if cv == nil {
				it.undec = "constant of unsupported kind " + k.String()
			}
			return cv
		}
		if g, ok := v.(*ssa.Function); ok {
			return &cval{t: g.Type()}
		}
		cv := env[v]
		if cv == nil && it.undec == "" {
			it.undec = "value of unsupported instruction " + v.String()
		}
		return cv
	}
	var prev *ssa.BasicBlock
	b := f.Blocks[0]
	for {
		for _, in := range b.Instrs {
			it.steps++
			if it.steps > 20000 {
				it.undec = "step limit (loop?) in " + f.String()
			}
			if it.undec != "" || it.viol != "" {
				return nil
			}
			switch x := in.(type) {
			case *ssa.Phi:
				for i, p := range b.Preds {
					if p == prev {
						env[x] = get(x.Edges[i])
					}
				}
			case *ssa.DebugRef:
			case *ssa.BinOp:
				l, r := get(x.X), get(x.Y)
				if l == nil || r == nil {
					return nil
				}
				switch x.Op {
				case token.EQL, token.NEQ, token.LSS, token.LEQ, token.GTR, token.GEQ:
					if l.isB && r.isB {
						res := l.b == r.b
						if x.Op == token.NEQ {
							res = !res
						}
						env[x] = &cval{t: x.Type(), isB: true, b: res, dep: l.dep || r.dep}
						continue
					}
					if l.dep && r.dep {
						it.undec = "comparison with the argument on both sides at " + it.c.pos(x.Pos())
						return nil
					}
					for _, s := range []*cval{l, r} {
						if s.dep && !s.pure && !s.mono {
							it.undec = "comparison of a non-conversion expression of the argument at " + it.c.pos(x.Pos())
							return nil
						}
						if s.dep && s.bad != "" {
							it.viol = fmt.Sprintf("the argument is compared through a type that cannot hold it (%s conversion to %s) at %s", s.bad, s.t, it.c.pos(x.Pos()))
							it.violAt = x.Pos()
							return nil
						}
					}
					c, ok := cmpNum(l, r)
					if !ok {
						it.undec = "comparison of mixed kinds at " + it.c.pos(x.Pos())
						return nil
					}
					var res bool
					if c == 2 {
						res = x.Op == token.NEQ
					} else {
						switch x.Op {
						case token.EQL:
							res = c == 0
						case token.NEQ:
							res = c != 0
						case token.LSS:
							res = c < 0
						case token.LEQ:
							res = c <= 0
						case token.GTR:
							res = c > 0
						case token.GEQ:
							res = c >= 0
						}
					}
					env[x] = &cval{t: x.Type(), isB: true, b: res, dep: l.dep || r.dep}
				case token.ADD, token.SUB, token.MUL, token.QUO:
					if l.dep || r.dep {
						it.undec = "arithmetic on the argument at " + it.c.pos(x.Pos())
						return nil
					}
					out := &cval{t: x.Type()}
					if l.isF {
						out.isF = true
						switch x.Op {
						case token.ADD:
							out.f = l.f + r.f
						case token.SUB:
							out.f = l.f - r.f
						case token.MUL:
							out.f = l.f * r.f
						case token.QUO:
							out.f = l.f / r.f
						}
						if bs, _, _, _ := it.z.bitsSigned(x.Type()); bs == 32 {
							out.f = float64(float32(out.f))
						}
					} else {
						out.i = new(big.Int)
						switch x.Op {
						case token.ADD:
							out.i.Add(l.i, r.i)
						case token.SUB:
							out.i.Sub(l.i, r.i)
						case token.MUL:
							out.i.Mul(l.i, r.i)
						case token.QUO:
							if r.i.Sign() == 0 {
								it.viol = "division by zero at " + it.c.pos(x.Pos())
								return nil
							}
							out.i.Quo(l.i, r.i)
						}
						out = it.z.convert(out, x.Type())
						out.bad = ""
					}
					env[x] = out
				default:
					it.undec = "operator " + x.Op.String() + " at " + it.c.pos(x.Pos())
					return nil
				}
			case *ssa.UnOp:
				v := get(x.X)
				if v == nil {
					return nil
				}
				switch x.Op {
				case token.NOT:
					env[x] = &cval{t: x.Type(), isB: true, b: !v.b, dep: v.dep}
				case token.SUB:
					// Negation is order-reversing and exact wherever the result is representable: a predicate built from it and a
					// comparison with a constant still switches once over the source type, so the partition argument holds. Where
					// the result is not representable (the minimum of a signed type) the value wraps: it is marked like a wrapped
					// conversion, and comparing or returning it is reported.
					out := &cval{t: x.Type(), isF: v.isF, f: -v.f, dep: v.dep, pure: v.pure, bad: v.bad}
					if !v.isF {
						out.i = new(big.Int).Neg(v.i)
						if v.dep {
							out = it.z.convert(out, x.Type())
							if out == nil {
								it.undec = "negation in an unsupported type at " + it.c.pos(x.Pos())
								return nil
							}
							if out.bad == "wrapped" && v.bad == "" {
								out.bad = "wrapped negation (the minimum of a signed type has no opposite)"
							}
						}
					}
					env[x] = out
				default:
					it.undec = "unary " + x.Op.String() + " at " + it.c.pos(x.Pos())
					return nil
				}
			case *ssa.Convert:
				v := get(x.X)
				if v == nil {
					return nil
				}
				out := it.z.convert(v, x.Type())
				if out == nil {
					it.undec = "conversion to " + x.Type().String() + " at " + it.c.pos(x.Pos())
					return nil
				}
				env[x] = out
			case *ssa.ChangeType:
				v := get(x.X)
				if v == nil {
					return nil
				}
				cp := *v
				cp.t = x.Type()
				env[x] = &cp
			case *ssa.MakeInterface:
				v := get(x.X)
				if v == nil {
					return nil
				}
				env[x] = &cval{t: x.Type(), dyn: x.X.Type(), inner: v, dep: v.dep}
			case *ssa.TypeAssert:
				v := get(x.X)
				if v == nil {
					return nil
				}
				match := v.dyn != nil && types.Identical(v.dyn, x.AssertedType)
				if !x.CommaOk {
					if !match {
						it.viol = "single-value type assertion fails (panics) at " + it.c.pos(x.Pos())
						return nil
					}
					env[x] = v.inner
					continue
				}
				var inner *cval
				if match {
					inner = v.inner
				} else {
					inner = &cval{t: x.AssertedType, i: big.NewInt(0)}
					if bb := basicOf(x.AssertedType); bb != nil && bb.Info()&types.IsFloat != 0 {
						inner = &cval{t: x.AssertedType, isF: true}
					}
				}
				it.trace = append(it.trace, fmt.Sprintf("%s:is-%s=%v", it.c.pos(x.Pos()), x.AssertedType, match))
				env[x] = &cval{t: x.Type(), tuple: []*cval{inner, {t: types.Typ[types.Bool], isB: true, b: match}}}
			case *ssa.Extract:
				v := get(x.Tuple)
				if v == nil || x.Index >= len(v.tuple) {
					it.undec = "extract at " + it.c.pos(x.Pos())
					return nil
				}
				env[x] = v.tuple[x.Index]
			case *ssa.Call:
				res := it.call(x, get, depth)
				if res == nil {
					return nil
				}
				env[x] = res
			case *ssa.If:
				cv := get(x.Cond)
				if cv == nil {
					return nil
				}
				it.trace = append(it.trace, fmt.Sprintf("%s=%v", it.c.ipos(x), cv.b))
				prev = b
				if cv.b {
					b = b.Succs[0]
				} else {
					b = b.Succs[1]
				}
				goto next
			case *ssa.Jump:
				prev = b
				b = b.Succs[0]
				goto next
			case *ssa.Return:
				if len(x.Results) == 0 {
					return &cval{}
				}
				if len(x.Results) == 1 {
					return get(x.Results[0])
				}
				out := &cval{}
				for _, r := range x.Results {
					out.tuple = append(out.tuple, get(r))
				}
				return out
			default:
				it.undec = fmt.Sprintf("instruction %T outside the admitted subset at %s", in, it.c.ipos(in))
				return nil
			}
		}
		it.undec = "block without terminator"
		return nil
	next:
	}
}

var reflectKind = map[types.BasicKind]int64{
	types.Bool: 1, types.Int: 2, types.Int8: 3, types.Int16: 4, types.Int32: 5, types.Int64: 6,
	types.Uint: 7, types.Uint8: 8, types.Uint16: 9, types.Uint32: 10, types.Uint64: 11, types.Uintptr: 12,
	types.Float32: 13, types.Float64: 14,
}

func (it *c10Interp) call(x *ssa.Call, get func(ssa.Value) *cval, depth int) *cval {
	n := calleeFull(&x.Call)
	switch {
	case n == "reflect.ValueOf" || n == "reflect.TypeOf":
		v := get(x.Call.Args[0])
		if v == nil {
			return nil
		}
		return &cval{t: x.Type(), refl: true, dyn: v.dyn, inner: v.inner}
	case n == "(reflect.Value).Kind" || (x.Call.IsInvoke() && x.Call.Method.Name() == "Kind"):
		var recv *cval
		if x.Call.IsInvoke() {
			recv = get(x.Call.Value)
		} else {
			recv = get(x.Call.Args[0])
		}
		if recv == nil || !recv.refl || recv.dyn == nil {
			it.undec = "Kind() of an unknown value at " + it.c.pos(x.Pos())
			return nil
		}
		bb := basicOf(recv.dyn)
		if bb == nil {
			it.undec = "Kind() of a non-basic type"
			return nil
		}
		it.trace = append(it.trace, fmt.Sprintf("%s:kind=%s", it.c.pos(x.Pos()), bb.Name()))
		return &cval{t: x.Type(), i: big.NewInt(reflectKind[bb.Kind()])}
	case x.Call.IsInvoke() && (x.Call.Method.Name() == "Bits" || x.Call.Method.Name() == "Size") && x.Call.Method.Pkg() != nil && x.Call.Method.Pkg().Path() == "reflect":
		recv := get(x.Call.Value)
		if recv == nil || !recv.refl || recv.dyn == nil || basicOf(recv.dyn) == nil {
			it.undec = x.Call.Method.Name() + "() of an unknown type at " + it.c.pos(x.Pos())
			return nil
		}
		bits, _, _, okb := it.z.bitsSigned(recv.dyn)
		if !okb {
			it.undec = x.Call.Method.Name() + "() of a non-numeric type at " + it.c.pos(x.Pos())
			return nil
		}
		sz := int64(bits)
		if x.Call.Method.Name() == "Size" {
			sz /= 8
		}
		it.trace = append(it.trace, fmt.Sprintf("%s:%s=%d", it.c.pos(x.Pos()), x.Call.Method.Name(), sz))
		return &cval{t: x.Type(), i: big.NewInt(sz)}
	case n == "(reflect.Value).CanFloat" || n == "(reflect.Value).CanInt" || n == "(reflect.Value).CanUint" || n == "(reflect.Value).IsValid":
		recv := get(x.Call.Args[0])
		if recv == nil || !recv.refl || recv.dyn == nil {
			it.undec = "reflect predicate on an unknown value at " + it.c.pos(x.Pos())
			return nil
		}
		_, signed, isFloat, okb := it.z.bitsSigned(recv.dyn)
		if !okb {
			it.undec = "reflect predicate on a non-numeric value at " + it.c.pos(x.Pos())
			return nil
		}
		var r bool
		switch {
		case strings.HasSuffix(n, "CanFloat"):
			r = isFloat
		case strings.HasSuffix(n, "CanInt"):
			r = !isFloat && signed
		case strings.HasSuffix(n, "CanUint"):
			r = !isFloat && !signed
		default:
			r = true
		}
		it.trace = append(it.trace, fmt.Sprintf("%s:%s=%v", it.c.pos(x.Pos()), n[len("(reflect.Value)."):], r))
		return &cval{t: x.Type(), isB: true, b: r}
	case n == "(reflect.Value).Int" || n == "(reflect.Value).Uint":
		recv := get(x.Call.Args[0])
		if recv == nil || !recv.refl || recv.dyn == nil || recv.inner == nil {
			it.undec = "reflect accessor on an unknown value at " + it.c.pos(x.Pos())
			return nil
		}
		_, signed, isFloat, okb := it.z.bitsSigned(recv.dyn)
		wantSigned := n == "(reflect.Value).Int"
		if !okb || isFloat || signed != wantSigned {
			// reflect panics when the accessor does not match the kind
			it.viol = fmt.Sprintf("%s is called on a value of kind %s at %s: reflect panics", n, basicOf(recv.dyn).Name(), it.c.pos(x.Pos()))
			it.violAt = x.Pos()
			return nil
		}
		cp := *recv.inner
		cp.t = x.Type()
		return &cp
	case n == "(reflect.Value).Float":
		recv := get(x.Call.Args[0])
		if recv == nil || recv.inner == nil || !recv.inner.isF {
			it.undec = "reflect Float() on a non-float at " + it.c.pos(x.Pos())
			return nil
		}
		cp := *recv.inner
		cp.t = x.Type()
		return &cp
	}
	// a few functions of the standard library whose value is, on a cell of same-signed arguments, a monotone function of the
	// argument (so that equal traces at both ends of a cell still mean equal traces inside it), or a constant
	switch n {
	case "math.Frexp":
		v := get(x.Call.Args[0])
		if v == nil {
			return nil
		}
		if !v.isF {
			it.undec = "math.Frexp of a non-float at " + it.c.pos(x.Pos())
			return nil
		}
		frac, exp := math.Frexp(v.f)
		it.trace = append(it.trace, fmt.Sprintf("%s:Frexp.exp=%d", it.c.pos(x.Pos()), exp))
		return &cval{t: x.Type(), tuple: []*cval{
			{t: types.Typ[types.Float64], isF: true, f: frac, dep: v.dep},
			{t: types.Typ[types.Int], i: big.NewInt(int64(exp)), dep: v.dep, mono: v.dep && v.pure && v.bad == ""},
		}}
	case "math.Floor", "math.Ceil", "math.Trunc":
		// non-decreasing step functions of their argument: equal traces at both ends of a cell still mean equal traces inside
		v := get(x.Call.Args[0])
		if v == nil {
			return nil
		}
		if !v.isF {
			it.undec = n + " of a non-float at " + it.c.pos(x.Pos())
			return nil
		}
		r := v.f
		switch n {
		case "math.Floor":
			r = math.Floor(v.f)
		case "math.Ceil":
			r = math.Ceil(v.f)
		case "math.Trunc":
			r = math.Trunc(v.f)
		}
		return &cval{t: x.Type(), isF: true, f: r, dep: v.dep, pure: v.pure, bad: v.bad}
	case "math.IsInf", "math.IsNaN":
		v := get(x.Call.Args[0])
		if v == nil {
			return nil
		}
		if !v.isF || (v.dep && (!v.pure || v.bad != "")) {
			it.undec = n + " of something other than a conversion of the argument at " + it.c.pos(x.Pos())
			return nil
		}
		r := math.IsNaN(v.f)
		if n == "math.IsInf" {
			sign := get(x.Call.Args[1])
			if sign == nil || sign.i == nil || sign.dep {
				it.undec = "math.IsInf with a sign that is not a constant at " + it.c.pos(x.Pos())
				return nil
			}
			r = math.IsInf(v.f, int(sign.i.Int64()))
		}
		it.trace = append(it.trace, fmt.Sprintf("%s:%s=%v", it.c.pos(x.Pos()), n, r))
		return &cval{t: x.Type(), isB: true, b: r, dep: v.dep}
	case "math/bits.Len64", "math/bits.Len", "math/bits.Len32":
		v := get(x.Call.Args[0])
		if v == nil {
			return nil
		}
		if v.i == nil || v.dep || v.i.Sign() < 0 {
			it.undec = n + " of something other than a non-negative constant at " + it.c.pos(x.Pos())
			return nil
		}
		return &cval{t: x.Type(), i: big.NewInt(int64(v.i.BitLen()))}
	}
	g := staticCallee(&x.Call)
	gp := ""
	if g != nil {
		o := g
		if g.Origin() != nil {
			o = g.Origin()
		}
		if o.Pkg != nil {
			gp = o.Pkg.Pkg.Path()
		}
	}
	if g == nil || g.Blocks == nil || !strings.HasSuffix(gp, "/safecast") {
		it.undec = "call of " + n + " outside the admitted subset at " + it.c.pos(x.Pos())
		return nil
	}
	var args []*cval
	for _, a := range x.Call.Args {
		v := get(a)
		if v == nil {
			return nil
		}
		args = append(args, v)
	}
	return it.exec(g, args, depth+1)
}

// ---------------------------------------------------------------------------
// points of a source type (ordered)

type c10Point struct {
	isF bool
	i   *big.Int
	f   float64
}

func (p c10Point) String() string {
	if p.isF {
		return fmt.Sprintf("%g(0x%x)", p.f, math.Float64bits(p.f))
	}
	return p.i.String()
}

// float ordering key: monotone map from float64 to uint64
func fkey(f float64) uint64 {
	b := math.Float64bits(f)
	if b>>63 == 1 {
		return ^b
	}
	return b | 1<<63
}
func fromKey(k uint64) float64 {
	if k>>63 == 1 {
		return math.Float64frombits(k &^ (1 << 63))
	}
	return math.Float64frombits(^k)
}
func f32key(f float32) uint32 {
	b := math.Float32bits(f)
	if b>>31 == 1 {
		return ^b
	}
	return b | 1<<31
}
func from32Key(k uint32) float32 {
	if k>>31 == 1 {
		return math.Float32frombits(k &^ (1 << 31))
	}
	return math.Float32frombits(^k)
}

func (z c10Sizes) specResult(p c10Point, target types.Type) *big.Int {
	lo, hi := z.rangeOf(target)
	var v *big.Int
	if p.isF {
		if math.IsInf(p.f, 1) {
			return hi
		}
		if math.IsInf(p.f, -1) {
			return lo
		}
		v, _ = new(big.Float).SetFloat64(math.Trunc(p.f)).Int(nil)
	} else {
		v = p.i
	}
	if v.Cmp(lo) < 0 {
		return lo
	}
	if v.Cmp(hi) > 0 {
		return hi
	}
	return v
}

// ---------------------------------------------------------------------------

type c10Outcome struct {
	trace  string
	result *big.Int
	dep    bool
	undec  string
	viol   string
}

func (c *Ctx) c10Eval(z c10Sizes, wrapper *ssa.Function, p c10Point) c10Outcome {
	it := &c10Interp{z: z, c: c}
	st := wrapper.Params[0].Type()
	arg := &cval{t: st, dep: true, pure: true}
	if p.isF {
		arg.isF, arg.f = true, p.f
	} else {
		arg.i = p.i
	}
	res := it.exec(wrapper, []*cval{arg}, 0)
	out := c10Outcome{trace: strings.Join(it.trace, ";"), undec: it.undec, viol: it.viol}
	if res != nil && out.undec == "" && out.viol == "" {
		if res.bad != "" {
			out.viol = "the value returned comes out of a " + res.bad + " conversion to " + res.t.String()
		} else if res.i == nil {
			out.undec = "non-integer result"
		} else {
			out.result, out.dep = res.i, res.dep
			if res.dep && !res.pure {
				out.undec = "result is not a conversion of the argument"
			}
		}
	}
	return out
}

func runC10(c *Ctx) {
	c.rule("K1", "for every instantiation (target × source kind × named/predeclared) and every cell of the partition of the source type: result = clamp_T(trunc(v)), no comparison or result through a wrapped / implementation-defined conversion", 240)
	c.rule("K2", "package safecast contains no instruction that can panic", 1)
	c.rule("K3", "the 10 conversion functions and the 12 kinds of the IConvertable constraint are all present", 2)

	// K4: "returns the source value when that lies in the target type's range …; monotonic": the result is a function of the
	// value and of the two types. No function of the package reads or writes a package-level variable: an answer memoised
	// "for the last type seen" (two atomics that are not published together) makes one goroutine's conversion depend on the
	// types other goroutines are converting at that moment, and an in-range value next to a 64-bit boundary is compared as
	// a float. (The interpreter behind K1 refuses such a function as outside its subset: K4 says why.)
	c.rule("K4", "the conversions are pure: no function of package safecast reads or writes a package-level variable", 1)
	{
		bad := ""
		nf := 0
		for _, f := range c.srcFuncs("safecast") {
			if f.Blocks == nil || f.Name() == "init" {
				continue
			}
			nf++
			allInstrs(f, func(in ssa.Instruction) {
				var ops []*ssa.Value
				for _, o := range in.Operands(ops) {
					if o == nil || *o == nil {
						continue
					}
					if g, ok := (*o).(*ssa.Global); ok && g.Pkg != nil && strings.HasSuffix(g.Pkg.Pkg.Path(), "/safecast") {
						bad = c.ipos(in) + " (" + g.Name() + " in " + fname(outermost(f)) + ")"
					}
				}
			})
		}
		c.check(nf > 0 && bad == "", "K4", "safecast/no-package-state", "-", "no function of the package touches a package-level variable",
			"a conversion helper reads or writes the package-level variable at "+bad+": what a conversion answers then depends on what was converted before — or, with several goroutines, at the same moment: a memo of 'the kind of the last type seen' whose two halves are not published together hands an int64 conversion the answer for float64, and an in-range value next to a 64-bit boundary saturates (ToInt64(int64(MaxInt64-1)) is MaxInt64); +Inf compared as an integer wraps")
	}
	arch := c.GOARCH
	z := c10Sizes{intBits: 64}
	if arch == "386" || arch == "arm" {
		z.intBits = 32
	}
	sp := c.pkg("safecast")
	tp := c.tpkg("safecast")
	if sp == nil || tp == nil {
		return
	}
	// K3: discovery
	nFns := 0
	for _, t := range c10Targets {
		if f := sp.Func("To" + t); f != nil && f.Object() != nil {
			nFns++
		}
	}
	kinds := map[string]bool{}
	if obj := tp.Types.Scope().Lookup("IConvertable"); obj != nil {
		var walk func(t types.Type)
		walk = func(t types.Type) {
			switch u := t.Underlying().(type) {
			case *types.Interface:
				for i := 0; i < u.NumEmbeddeds(); i++ {
					walk(u.EmbeddedType(i))
				}
			case *types.Union:
				for i := 0; i < u.Len(); i++ {
					if _, isIface := u.Term(i).Type().Underlying().(*types.Interface); isIface {
						walk(u.Term(i).Type())
					} else if u.Term(i).Tilde() {
						kinds[u.Term(i).Type().String()] = true
					} else {
						kinds["!"+u.Term(i).Type().String()] = true
					}
				}
			case *types.Basic:
				kinds[u.String()] = true
			}
			if un, ok := t.(*types.Union); ok {
				for i := 0; i < un.Len(); i++ {
					if un.Term(i).Tilde() {
						kinds[un.Term(i).Type().String()] = true
					}
				}
			}
		}
		walk(obj.Type())
	}
	missing := []string{}
	for _, s := range c10Sources {
		if !kinds[s] {
			missing = append(missing, s)
		}
	}
	c.check(nFns == 10, "K3", "functions", c.pos(sp.Func("ToInt").Pos()), "ToInt…ToUint64 present", fmt.Sprintf("only %d of the 10 conversion functions found", nFns))
	c.check(len(missing) == 0, "K3", "constraint", "-", "IConvertable = the 12 numeric kinds, each with ~", "kinds missing from IConvertable (or without ~): "+strings.Join(missing, ","))

	// K2
	bad := ""
	for _, f := range c.srcFuncs("safecast") {
		if strings.HasSuffix(c.Fset.Position(f.Pos()).Filename, c10File) {
			continue
		}
		c.FuncsSeen[fname(f)] = true
		allInstrs(f, func(in ssa.Instruction) {
			switch x := in.(type) {
			case *ssa.Index, *ssa.IndexAddr, *ssa.Slice, *ssa.Panic, *ssa.MapUpdate, *ssa.Lookup, *ssa.Send, *ssa.SliceToArrayPointer:
				bad = c.ipos(in) + fmt.Sprintf(" %T", in)
			case *ssa.TypeAssert:
				if !x.CommaOk {
					bad = c.ipos(in) + " single-value type assertion"
				}
			case *ssa.BinOp:
				if x.Op == token.QUO || x.Op == token.REM {
					if _, isC := x.Y.(*ssa.Const); !isC {
						if bb := basicOf(x.Y.Type()); bb != nil && bb.Info()&types.IsInteger != 0 {
							bad = c.ipos(in) + " integer division by a non-constant"
						}
					}
				}
			case *ssa.UnOp:
				if x.Op == token.MUL {
					if _, isAlloc := x.X.(*ssa.Alloc); !isAlloc {
						if _, isG := x.X.(*ssa.Global); !isG {
							bad = c.ipos(in) + " dereference"
						}
					}
				}
			case *ssa.Call:
				if b, ok := x.Call.Value.(*ssa.Builtin); ok && b.Name() == "panic" {
					bad = c.ipos(in) + " panic call"
				}
			}
		})
	}
	c.check(bad == "", "K2", "safecast/no-panic", "-", "no instruction that can panic in the package's functions", "an instruction that can panic: "+bad)

	// K1
	cells, evals := 0, 0
	nanInfo := 0
	for _, t := range c10Targets {
		for _, s := range c10Sources {
			for _, named := range []bool{false, true} {
				wn := "vc10_To" + t + "_" + s
				if named {
					wn = "vc10_To" + t + "_N" + s
				}
				w := sp.Func(wn)
				variant := s
				if named {
					variant = "named " + s
				}
				key := "To" + t + "/" + strings.ReplaceAll(variant, " ", "-")
				if w == nil {
					c.fatalf("C10: instantiation wrapper %s missing (overlay not loaded?)", wn)
					return
				}
				target := w.Signature.Results().At(0).Type()
				pts := c10Points(z, w.Params[0].Type())
				res := c.c10Decide(z, w, target, pts, &cells, &evals)
				fnPos := "-"
				if g := sp.Func("To" + t); g != nil {
					fnPos = c.pos(g.Pos())
				}
				switch {
				case res.undec != "":
					c.undecided("K1", key, fnPos, "To"+t+"["+variant+"]: "+res.undec)
				case res.viol != "":
					c.violate("K1", key, fnPos, "To"+t+"["+variant+"]: "+res.viol)
				default:
					c.ok("K1", key, fnPos, fmt.Sprintf("%d cells", res.cells))
				}
				// NaN (information only)
				if basicOf(w.Params[0].Type()).Info()&types.IsFloat != 0 && nanInfo < 4 {
					o := c.c10Eval(z, w, c10Point{isF: true, f: math.NaN()})
					if o.result != nil {
						nanInfo++
						c.info("K1", key+"/NaN", fnPos, "NaN → "+o.result.String()+" (the statement defines no result for NaN)")
					}
				}
			}
		}
	}
	c.Extra["cells"] = cells
	c.Extra["point_evaluations"] = evals
	c.Extra["int_bits"] = z.intBits
	_ = os.Stderr
}

type c10Decision struct {
	undec, viol string
	cells       int
}

func (c *Ctx) c10Decide(z c10Sizes, w *ssa.Function, target types.Type, pts []c10Point, cells, evals *int) c10Decision {
	var d c10Decision
	check := func(p c10Point, o c10Outcome) bool {
		*evals++
		if o.undec != "" {
			d.undec = "at v=" + p.String() + ": " + o.undec
			return false
		}
		if o.viol != "" {
			d.viol = "at v=" + p.String() + ": " + o.viol
			return false
		}
		want := z.specResult(p, target)
		if o.result.Cmp(want) != 0 {
			d.viol = fmt.Sprintf("v=%s returns %s, the saturating conversion is %s [branches: %s]", p.String(), o.result, want, o.trace)
			return false
		}
		return true
	}
	var decide func(a, b c10Point, oa, ob c10Outcome, depth int) bool
	decide = func(a, b c10Point, oa, ob c10Outcome, depth int) bool {
		if oa.trace == ob.trace && oa.dep == ob.dep {
			d.cells++
			*cells++
			return true
		}
		m, ok := c10Mid(a, b, w.Params[0].Type())
		if !ok || depth > 80 {
			// adjacent values with different traces: both already checked individually
			d.cells += 2
			*cells += 2
			return true
		}
		om := c.c10Eval(z, w, m)
		if !check(m, om) {
			return false
		}
		return decide(a, m, oa, om, depth+1) && decide(m, b, om, ob, depth+1)
	}
	var prev c10Point
	var oprev c10Outcome
	for i, p := range pts {
		o := c.c10Eval(z, w, p)
		if !check(p, o) {
			return d
		}
		if i > 0 {
			if !decide(prev, p, oprev, o, 0) {
				return d
			}
		}
		prev, oprev = p, o
	}
	return d
}

// c10Mid: a value strictly between a and b in the order of the source type.
func c10Mid(a, b c10Point, st types.Type) (c10Point, bool) {
	if !a.isF {
		diff := new(big.Int).Sub(b.i, a.i)
		if diff.Cmp(big.NewInt(1)) <= 0 {
			return c10Point{}, false
		}
		return c10Point{i: new(big.Int).Add(a.i, new(big.Int).Rsh(diff, 1))}, true
	}
	if basicOf(st).Kind() == types.Float32 {
		ka, kb := f32key(float32(a.f)), f32key(float32(b.f))
		if kb-ka <= 1 {
			return c10Point{}, false
		}
		return c10Point{isF: true, f: float64(from32Key(ka + (kb-ka)/2))}, true
	}
	ka, kb := fkey(a.f), fkey(b.f)
	if kb-ka <= 1 {
		return c10Point{}, false
	}
	return c10Point{isF: true, f: fromKey(ka + (kb-ka)/2)}, true
}

// c10Points: ordered initial breakpoints of the source type.
func c10Points(z c10Sizes, st types.Type) []c10Point {
	_, _, isFloat, _ := z.bitsSigned(st)
	// integer constants of interest: 0, ±1 and every range boundary of every integer type, ±1
	var ks []*big.Int
	add := func(k *big.Int) {
		for _, d := range []int64{-2, -1, 0, 1, 2} {
			ks = append(ks, new(big.Int).Add(k, big.NewInt(d)))
		}
	}
	add(big.NewInt(0))
	for _, bits := range []uint{7, 8, 15, 16, 31, 32, 63, 64} {
		p := new(big.Int).Lsh(big.NewInt(1), bits)
		add(p)
		add(new(big.Int).Neg(p))
	}
	if !isFloat {
		lo, hi := z.rangeOf(st)
		set := map[string]*big.Int{lo.String(): lo, hi.String(): hi}
		for _, k := range ks {
			if k.Cmp(lo) >= 0 && k.Cmp(hi) <= 0 {
				set[k.String()] = k
			}
		}
		var out []c10Point
		for _, k := range set {
			out = append(out, c10Point{i: k})
		}
		sort.Slice(out, func(i, j int) bool { return out[i].i.Cmp(out[j].i) < 0 })
		return out
	}
	is32 := basicOf(st).Kind() == types.Float32
	fs := map[uint64]float64{}
	addF := func(f float64) {
		if is32 {
			f = float64(float32(f))
		}
		if !math.IsNaN(f) {
			if f == 0 {
				f = 0 // +0
			}
			fs[fkey(f)] = f
		}
	}
	neigh := func(f float64) {
		addF(f)
		if is32 {
			g := float32(f)
			addF(float64(math.Nextafter32(g, float32(math.Inf(1)))))
			addF(float64(math.Nextafter32(g, float32(math.Inf(-1)))))
		} else {
			addF(math.Nextafter(f, math.Inf(1)))
			addF(math.Nextafter(f, math.Inf(-1)))
		}
	}
	for _, k := range ks {
		dn, _ := new(big.Float).SetPrec(200).SetInt(k).Float64()
		neigh(dn)
		neigh(dn + 0.5)
		neigh(dn - 0.5)
	}
	neigh(math.Inf(1))
	neigh(math.Inf(-1))
	if is32 {
		neigh(math.MaxFloat32)
		neigh(-math.MaxFloat32)
		neigh(float64(math.SmallestNonzeroFloat32))
		neigh(-float64(math.SmallestNonzeroFloat32))
	} else {
		neigh(math.MaxFloat64)
		neigh(-math.MaxFloat64)
		neigh(math.SmallestNonzeroFloat64)
		neigh(-math.SmallestNonzeroFloat64)
	}
	var keys []uint64
	for k := range fs {
		keys = append(keys, k)
	}
	sort.Slice(keys, func(i, j int) bool { return keys[i] < keys[j] })
	var out []c10Point
	for _, k := range keys {
		out = append(out, c10Point{isF: true, f: fs[k]})
	}
	return out
}
