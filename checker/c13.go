package main

import (
	"go/token"
	"go/types"
	"sort"
	"strconv"
	"strings"

	"golang.org/x/tools/go/ssa"
)

func init() {
	register(&propCheck{
		id:          "C13",
		level:       "other",
		explanation: "Static locking discipline of packages logs and logs/logrimp — the discipline whose violation is the data race and the lost message: (L1) in every structure that carries a mutex, each field that one of the concurrent entry points (the methods of Loggers, IMultipleLoggers, WriterWithSource, io.Writer, logr.LogSink) writes is written only under the write lock and read under at least the read lock, unexported helpers inheriting the locks all their callers hold; (L2) a structure without a mutex has no field written by a concurrent entry point unless the field's type synchronises itself; (L3) a writer handed to more than one log.New (independent log.Logger mutexes) is of a type whose Write is covered by L1; (L4) composite loggers/writers forward the caller's arguments to the same-named method of every member in a loop without early exit; (L5) every construction of the ring-buffered writer passes a non-nil dropped-messages logger and the drop callback reports the count through it; (L6) Log and LogError of the generic logger and of the Loggers→io.Writer adapters go to their own stream. Decided on SSA with a must-lockset analysis; nothing is executed. Not decided: delivery counts under real schedules, third-party loggers behind the adapters, atomicity of os.Stdout writes, the diode's own accounting.",
		run:         runC13,
		assumptions: []string{
			"log.Logger serialises its own Output calls (standard library contract) but two log.Logger values do not serialise with each other",
			"third-party sinks (zerolog, logrus, hclog, zap, slog) are goroutine-safe as documented",
		},
	})
}

var c13Pkgs = []string{"logs", "logs/logrimp"}

// method names of the interfaces through which loggers are used concurrently
var c13Entry = map[string]bool{
	"Close": true, "Check": true, "SetLogSource": true, "SetLoggerSource": true, "Log": true, "LogError": true,
	"AppendLogger": true, "Append": true, "Write": true, "SetSource": true,
	"Init": true, "Enabled": true, "Info": true, "Error": true, "WithValues": true, "WithName": true, "Output": true,
}

func isMutexType(t types.Type) bool {
	s := t.String()
	return s == "sync.Mutex" || s == "sync.RWMutex" || s == "github.com/sasha-s/go-deadlock.Mutex" || s == "github.com/sasha-s/go-deadlock.RWMutex"
}

func isSelfSynchronised(t types.Type) bool {
	s := t.String()
	s = strings.TrimPrefix(s, "*")
	if strings.HasPrefix(s, "sync.") || strings.HasPrefix(s, "sync/atomic.") || strings.HasPrefix(s, "go.uber.org/atomic.") {
		return true
	}
	if _, ok := t.Underlying().(*types.Chan); ok {
		return true
	}
	return false
}

type fieldAccess struct {
	field string
	write bool
	in    ssa.Instruction
	fn    *ssa.Function
	what  string
}

var readerMethods = map[string]bool{"String": true, "Len": true, "Cap": true, "Load": true}

// accessesOf lists the accesses of fields of struct type tn (through a pointer
// to it that is the function's receiver or any other value of that type) in f.
func accessesOf(f *ssa.Function, tn *types.Named) []fieldAccess {
	var out []fieldAccess
	st := tn.Underlying().(*types.Struct)
	withAnon(f, func(g *ssa.Function) {
		allInstrs(g, func(in ssa.Instruction) {
			fa, ok := in.(*ssa.FieldAddr)
			if !ok {
				return
			}
			pt, ok := fa.X.Type().Underlying().(*types.Pointer)
			if !ok || !types.Identical(pt.Elem(), tn) {
				return
			}
			// fresh object under construction
			if al, ok := fa.X.(*ssa.Alloc); ok && al.Parent() == g {
				return
			}
			name := st.Field(fa.Field).Name()
			for _, r := range *fa.Referrers() {
				switch x := r.(type) {
				case *ssa.Store:
					if x.Addr == ssa.Value(fa) {
						out = append(out, fieldAccess{name, true, x, g, "assignment"})
					}
				case *ssa.UnOp:
					if x.Op == token.MUL {
						out = append(out, fieldAccess{name, false, x, g, "read"})
					}
				case *ssa.Call:
					// method with pointer receiver on the field itself
					if len(x.Call.Args) > 0 && x.Call.Args[0] == ssa.Value(fa) && !x.Call.IsInvoke() {
						if callee := staticCallee(&x.Call); callee != nil {
							// only the standard buffer types are known to mutate in place and to be
							// unsynchronised; module types are analysed on their own, third-party
							// sinks are assumed goroutine-safe as documented
							cp := ""
							if callee.Pkg != nil {
								cp = callee.Pkg.Pkg.Path()
							}
							w := (cp == "strings" || cp == "bytes" || cp == "bufio") && !readerMethods[callee.Name()]
							if strings.HasPrefix(cp, modPath) {
								continue
							}
							out = append(out, fieldAccess{name, w, x, g, "call of " + callee.Name() + "()"})
						}
					}
				case *ssa.FieldAddr, *ssa.IndexAddr:
					// nested access: treat as read of the outer field (writes to nested parts are rare here)
					out = append(out, fieldAccess{name, false, x.(ssa.Instruction), g, "nested access"})
				}
			}
		})
	})
	return out
}

func runC13(c *Ctx) {
	c.assertedFieldsHoldWhatIsAsserted()
	c.rule("L1", "mutex-bearing structure: every field written by a concurrent entry point is written under the write lock and read under at least the read lock (helpers inherit what all callers hold)", 14)
	c.rule("L2", "structure without a mutex: no field is written by a concurrent entry point unless its type synchronises itself", 8)
	c.rule("L3", "an io.Writer handed to more than one log.New has a Write that mutates its sink only under an exclusive lock", 2)
	c.rule("L4", "composite loggers/writers call the same-named method of every member with the caller's arguments, in a loop without early exit", 3)
	c.rule("L5", "constructions of the ring-buffered writer pass a non-nil dropped-messages logger; the drop callback reports the count through it", 3)
	c.rule("L6", "Log/LogError and the Loggers→io.Writer adapters write to their own stream", 4)

	for _, rel := range c13Pkgs {
		sp := c.pkg(rel)
		if sp == nil {
			continue
		}
		var names []string
		for n, m := range sp.Members {
			if _, ok := m.(*ssa.Type); ok {
				names = append(names, n)
			}
		}
		sort.Strings(names)
		for _, n := range names {
			tn, ok := sp.Members[n].(*ssa.Type).Type().(*types.Named)
			if !ok {
				continue
			}
			if _, ok := tn.Underlying().(*types.Struct); !ok {
				continue
			}
			c.c13Type(rel, tn)
		}
	}
	c.c13SharedSinks()
	c.c13Composite()
	c.c13Drops()
	c.c13Streams()
	c.c13Formats()
	c.c13MemberLists()
	c.c13WholePayload()
	c.c13NoReacquire()
	c.c13GlobalsSetOnce()
	c.c13SharedListsCopied()
	c.c13UpdatesAreAtomic()
	c.c13OperandsLeftAlone()
	c.c13QueueDrainedBeforeTheSinkCloses()
	c.c13OnlyTheLoneLineBreakIsSkipped()
	c.c13EveryStreamIsClosed()
}

// c13Formats: "delivered intact". A message that travels through the format-string position of a printf-like
// function is rewritten whenever it contains a '%': the only format strings admitted in the logging packages are
// constants (or the format parameter of a function that is itself printf-like, forwarded unchanged).
func (c *Ctx) c13Formats() {
	c.rule("L7", "every printf-like call in the logging packages has a constant format string: message text only ever travels as an operand, never as the format", 8)
	printfLike := func(sig *types.Signature) int {
		ps := sig.Params()
		if !sig.Variadic() || ps.Len() < 2 {
			return -1
		}
		fp := ps.At(ps.Len() - 2)
		b, ok := fp.Type().Underlying().(*types.Basic)
		if !ok || b.Kind() != types.String || fp.Name() != "format" {
			return -1
		}
		sl, ok := ps.At(ps.Len() - 1).Type().(*types.Slice)
		if !ok {
			return -1
		}
		if it, ok := sl.Elem().Underlying().(*types.Interface); !ok || it.NumMethods() != 0 {
			return -1
		}
		return ps.Len() - 2
	}
	for _, rel := range c13Pkgs {
		for _, f := range c.srcFuncs(rel) {
			n := 0
			allInstrs(f, func(in ssa.Instruction) {
				cc, ok := in.(ssa.CallInstruction)
				if !ok {
					return
				}
				com := cc.Common()
				idx := printfLike(com.Signature())
				if idx < 0 {
					return
				}
				args := com.Args
				if !com.IsInvoke() && com.Signature().Recv() != nil {
					args = args[1:]
				}
				if idx >= len(args) {
					return
				}
				n++
				key := fname(outermost(f)) + "/format"
				if f != outermost(f) {
					key = fname(outermost(f)) + "/closure/format"
				}
				if n > 1 {
					key += "#" + strconv.Itoa(n)
				}
				c.FuncsSeen[fname(outermost(f))] = true
				fa := args[idx]
				if _, isConst := fa.(*ssa.Const); isConst {
					c.ok("L7", key, c.ipos(in), "constant format")
					return
				}
				if p, isParam := fa.(*ssa.Parameter); isParam && p.Parent() == f {
					if j := printfLike(f.Signature); j >= 0 {
						off := 0
						if f.Signature.Recv() != nil {
							off = 1
						}
						if f.Params[j+off] == p {
							c.ok("L7", key, c.ipos(in), "forwards the format parameter of a printf-like function unchanged")
							return
						}
					}
				}
				c.violate("L7", key, c.ipos(in), "the format string of "+calleeFull(com)+" is computed at run time ("+fa.String()+"): message text placed in the format position is rewritten wherever it contains a '%' (\"100% done\" reaches the sink as \"100%!d(MISSING)one\") — the message is not delivered intact")
			})
		}
	}
}

func (c *Ctx) methodsOf(rel string, tn *types.Named) []*ssa.Function {
	var out []*ssa.Function
	for _, f := range c.srcFuncs(rel) {
		if f.Parent() != nil || f.Signature.Recv() == nil {
			continue
		}
		rt := f.Signature.Recv().Type()
		if p, ok := rt.(*types.Pointer); ok {
			rt = p.Elem()
		}
		if types.Identical(rt, tn) {
			out = append(out, f)
		}
	}
	return out
}

func (c *Ctx) c13Type(rel string, tn *types.Named) {
	st := tn.Underlying().(*types.Struct)
	mutex := ""
	for i := 0; i < st.NumFields(); i++ {
		if isMutexType(st.Field(i).Type()) {
			mutex = st.Field(i).Name()
		}
	}
	methods := c.methodsOf(rel, tn)
	if len(methods) == 0 {
		return
	}
	byName := map[string]*ssa.Function{}
	for _, m := range methods {
		byName[m.Name()] = m
		c.FuncsSeen[fname(m)] = true
	}
	// embedded structs of the same package contribute their methods' accesses to the outer type's lock
	// (MultipleLoggerWithLoggerSource embeds MultipleLogger): handled by analysing the embedded type itself
	// and, for the outer type, accesses through the promoted path.
	acc := map[*ssa.Function][]fieldAccess{}
	for _, m := range methods {
		acc[m] = accessesOf(m, tn)
	}
	// entry points and helpers reachable from them (within the type)
	reach := map[*ssa.Function]bool{}
	var visit func(m *ssa.Function)
	visit = func(m *ssa.Function) {
		if reach[m] {
			return
		}
		reach[m] = true
		withAnon(m, func(g *ssa.Function) {
			allInstrs(g, func(in ssa.Instruction) {
				if cc := callCommon(in); cc != nil {
					if callee := staticCallee(cc); callee != nil && byName[callee.Name()] == callee {
						visit(callee)
					}
				}
			})
		})
	}
	for _, m := range methods {
		if c13Entry[m.Name()] {
			visit(m)
		}
	}
	guarded := map[string]fieldAccess{}
	for m := range reach {
		for _, a := range acc[m] {
			if !a.write || a.field == mutex {
				continue
			}
			fld := fieldByName(st, a.field)
			if fld == nil || isSelfSynchronised(fld.Type()) || isMutexType(fld.Type()) {
				continue
			}
			if _, ok := guarded[a.field]; !ok {
				guarded[a.field] = a
			}
		}
	}
	// the code's own declaration of intent: a field that some method writes and that is
	// accessed under the mutex somewhere is lock-protected everywhere
	if mutex != "" {
		writtenBy := map[string]fieldAccess{}
		for _, m := range methods {
			for _, a := range acc[m] {
				if a.write {
					if _, ok := writtenBy[a.field]; !ok {
						writtenBy[a.field] = a
					}
				}
			}
		}
		for _, m := range methods {
			var ls *lockset
			for _, a := range acc[m] {
				w, isWritten := writtenBy[a.field]
				if !isWritten || a.fn != m {
					continue
				}
				fld := fieldByName(st, a.field)
				if fld == nil || isSelfSynchronised(fld.Type()) || isMutexType(fld.Type()) {
					continue
				}
				if ls == nil {
					ls = computeLockset(m)
				}
				if ls.at(a.in, mutex) > lockNone {
					if _, ok := guarded[a.field]; !ok {
						guarded[a.field] = w
					}
				}
			}
		}
	}
	tname := shortPkg(tn.Obj().Pkg().Path()) + "." + tn.Obj().Name()
	if mutex == "" {
		var fs []string
		for f := range guarded {
			fs = append(fs, f)
		}
		sort.Strings(fs)
		if len(fs) == 0 {
			c.ok("L2", tname, c.pos(tn.Obj().Pos()), "no field written by a concurrent entry point")
		}
		for _, f := range fs {
			a := guarded[f]
			c.violate("L2", tname+"."+f, c.ipos(a.in), "field "+f+" of "+tname+" is written ("+a.what+" in "+a.fn.Name()+") by a method callers may run concurrently, and the structure has no lock: concurrent "+a.fn.Name()+" and readers race on it")
		}
		return
	}
	// entry locksets for unexported helpers: intersection over call sites inside the package
	entry := map[*ssa.Function]map[string]lockState{}
	for _, m := range methods {
		if m.Object() != nil && m.Object().Exported() {
			continue
		}
		first := true
		cur := lockState(lockW)
		for _, caller := range c.srcFuncs(rel) {
			var ls *lockset
			withAnon(caller, func(g *ssa.Function) {
				allInstrs(g, func(in ssa.Instruction) {
					cc := callCommon(in)
					if cc == nil || staticCallee(cc) != m {
						return
					}
					if _, isDefer := in.(*ssa.Defer); isDefer {
						cur, first = lockNone, false
						return
					}
					if ls == nil || ls.f != g {
						ls = computeLockset(g)
					}
					h := ls.at(in, mutex)
					if first || h < cur {
						cur = h
					}
					first = false
				})
			})
		}
		if !first && cur > lockNone {
			entry[m] = map[string]lockState{mutex: cur}
		}
	}
	var fields []string
	for f := range guarded {
		fields = append(fields, f)
	}
	sort.Strings(fields)
	if len(fields) == 0 {
		c.ok("L1", tname, c.pos(tn.Obj().Pos()), "mutex present; no field written by a concurrent entry point")
	}
	for _, m := range methods {
		sets := map[*ssa.Function]*lockset{}
		for _, a := range acc[m] {
			if _, ok := guarded[a.field]; !ok {
				continue
			}
			ls := sets[a.fn]
			if ls == nil {
				if a.fn == m {
					ls = computeLocksetFrom(m, entry[m])
				} else {
					// inside a literal: state at its creation site
					site := anchorInOuterOf(a.in, m)
					e := map[string]lockState{}
					if site != nil {
						e[mutex] = computeLocksetFrom(m, entry[m]).at(site, mutex)
					}
					ls = computeLocksetFrom(a.fn, e)
				}
				sets[a.fn] = ls
			}
			held := ls.at(a.in, mutex)
			key := tname + "." + a.field + "/" + m.Name()
			if a.write {
				c.check(held == lockW, "L1", key+":write", c.ipos(a.in), a.what+" under "+mutex+".Lock()",
					a.what+" of shared field "+a.field+" while holding "+held.String()+" of "+mutex+": concurrent callers corrupt or lose data")
			} else {
				c.check(held >= lockR, "L1", key+":read", c.ipos(a.in), "read under "+held.String(),
					"shared field "+a.field+" read without holding "+mutex+" while "+guarded[a.field].fn.Name()+" writes it")
			}
		}
	}
}

func fieldByName(st *types.Struct, n string) *types.Var {
	for i := 0; i < st.NumFields(); i++ {
		if st.Field(i).Name() == n {
			return st.Field(i)
		}
	}
	return nil
}

// L3
func (c *Ctx) c13SharedSinks() {
	for _, rel := range c13Pkgs {
		for _, f := range c.srcFuncs(rel) {
			var news []*ssa.Call
			allInstrs(f, func(in ssa.Instruction) {
				if cl, ok := in.(*ssa.Call); ok && calleeFull(&cl.Call) == "log.New" {
					news = append(news, cl)
				}
			})
			for i := 0; i < len(news); i++ {
				for j := i + 1; j < len(news); j++ {
					a, b := stripConv(news[i].Call.Args[0]), stripConv(news[j].Call.Args[0])
					if !sameObject(a, b) && !sameFieldAddr(a, b) {
						continue
					}
					key := fname(f) + "/shared-writer"
					pt, ok := a.Type().Underlying().(*types.Pointer)
					var tn *types.Named
					if ok {
						tn, _ = types.Unalias(pt.Elem()).(*types.Named)
					}
					if tn == nil || tn.Obj().Pkg() == nil || !strings.HasPrefix(tn.Obj().Pkg().Path(), modPath) {
						c.violate("L3", key, c.ipos(news[j]), "two log.Logger values share a writer of type "+a.Type().String()+" whose Write this repository does not lock")
						continue
					}
					st, _ := tn.Underlying().(*types.Struct)
					hasMu := false
					if st != nil {
						for k := 0; k < st.NumFields(); k++ {
							if isMutexType(st.Field(k).Type()) {
								hasMu = true
							}
						}
					}
					c.check(hasMu, "L3", key, c.ipos(news[j]), "shared writer "+tn.Obj().Name()+" has its own mutex (its Write is checked by L1)",
						"the output and error log.Logger share a writer of type "+tn.Obj().Name()+" that has no lock: their two independent mutexes do not exclude each other")
				}
			}
		}
	}
}

func sameFieldAddr(a, b ssa.Value) bool {
	fa, ok1 := a.(*ssa.FieldAddr)
	fb, ok2 := b.(*ssa.FieldAddr)
	return ok1 && ok2 && fa.Field == fb.Field && sameObject(fa.X, fb.X)
}

// L4
func (c *Ctx) c13Composite() { c.compositeForwards("L4", true) }

// compositeForwards: the composite logger (and, for C13, the composite writer) forwards each call to the same-named method
// of every member. C18 uses it as M10: Output* combines the caller's loggers with a string logger in a composite.
func (c *Ctx) compositeForwards(rule string, writers bool) {
	specs := []struct{ typ, m string }{{"(*MultipleLogger).Log", "Log"}, {"(*MultipleLogger).LogError", "LogError"}}
	if writers {
		specs = append(specs, struct{ typ, m string }{"(*MultipleWritersWithSource).Write", "Write"})
	}
	for _, spec := range specs {
		f := c.fn("logs", spec.typ)
		if f == nil {
			continue
		}
		var member *ssa.Call
		allInstrs(f, func(in ssa.Instruction) {
			if cl, ok := in.(*ssa.Call); ok && cl.Call.IsInvoke() && cl.Call.Method.Name() == spec.m && inLoop(cl) {
				member = cl
			}
		})
		key := fname(f)
		if member == nil {
			c.violate(rule, key, c.pos(f.Pos()), "no call of the members' "+spec.m+" inside a loop: messages are not delivered to every member")
			continue
		}
		argOK := len(member.Call.Args) == 1 && paramIndex(f, member.Call.Args[0]) >= 0
		early := loopHasEarlyExit(f)
		// the loop ranges over the whole member list: index phi from -1/0 step 1 compared with len of the slice
		c.check(argOK && !early, rule, key, c.ipos(member), "every member receives the caller's arguments; no early exit",
			map[bool]string{true: "the loop over the members can exit before the last member", false: "the members do not receive the caller's arguments unchanged"}[argOK])
	}
}

// L5
func (c *Ctx) c13Drops() {
	ctor := map[string]int{
		modPath + "/logs.NewDiodeWriterForSlowWriter": 3,
		modPath + "/logs.NewAsynchronousLoggers":      6,
		modPath + "/logs.NewJSONLoggerForSlowWriter":  5,
	}
	for _, sp := range c.SSAPkgs {
		if !strings.HasPrefix(sp.Pkg.Path(), modPath) {
			continue
		}
		for _, f := range c.srcFuncs(shortPkg(sp.Pkg.Path())) {
			allInstrs(f, func(in ssa.Instruction) {
				cl, ok := in.(*ssa.Call)
				if !ok {
					return
				}
				idx, ok := ctor[calleeFull(&cl.Call)]
				if !ok {
					return
				}
				arg := cl.Call.Args[idx]
				key := fname(f) + "/dropped-logger"
				if isNilConst(stripConv(arg)) {
					c.violate("L5", key, c.ipos(cl), "nil dropped-messages logger passed to "+short(calleeFull(&cl.Call))+": the ring buffer drops messages without reporting how many")
				} else {
					c.ok("L5", key, c.ipos(cl), "dropped-messages logger supplied")
				}
			})
		}
	}
	// the callback itself
	f := c.fn("logs", "NewDiodeWriterForSlowWriter")
	if f == nil {
		return
	}
	var nw *ssa.Call
	allInstrs(f, func(in ssa.Instruction) {
		if cl, ok := in.(*ssa.Call); ok && strings.HasSuffix(calleeFull(&cl.Call), "zerolog/diode.NewWriter") {
			nw = cl
		}
	})
	good := false
	detached := ""
	if nw != nil && len(nw.Call.Args) == 4 {
		if mc, ok := stripConv(nw.Call.Args[3]).(*ssa.MakeClosure); ok {
			cb := mc.Fn.(*ssa.Function)
			withAnon(cb, func(g *ssa.Function) {
				allInstrs(g, func(in ssa.Instruction) {
					if gi, ok := in.(*ssa.Go); ok {
						detached = c.ipos(gi)
					}
				})
			})
			allInstrs(cb, func(in ssa.Instruction) {
				cl, ok := in.(*ssa.Call)
				if !ok || !cl.Call.IsInvoke() || cl.Call.Method.Name() != "LogError" {
					return
				}
				// receiver is the dropped logger parameter; argument derives from the callback's count
				recv := resolveValue(cl.Call.Value)
				p, isP := recv.(*ssa.Parameter)
				if !isP || p.Parent() != f {
					return
				}
				for _, l := range sources(cl.Call.Args[0], deriveOpts{through: func(string) bool { return true }}) {
					if l == ssa.Value(cb.Params[0]) {
						good = true
					}
				}
			})
		}
	}
	pos := c.pos(f.Pos())
	if nw != nil {
		pos = c.ipos(nw)
	}
	why := "the ring buffer's drop callback does not report the number of dropped messages through the supplied logger"
	if detached != "" {
		why = "the ring buffer's drop callback hands the report to a goroutine of its own (" + detached + ") instead of making it: the callback runs on the goroutine that drains the ring, which Close() waits for — a report made there has been made when Close() returns, a detached one may still be pending when the program closes the report's destination or exits, and the messages are then dropped without any count"
	}
	c.check(good && detached == "", "L5", fname(f)+"/callback", pos, "the drop callback reports the count through the dropped-messages logger, on the draining goroutine", why)
	// the slow writer handed to the diode is the caller's
	if nw != nil {
		c.check(paramIndex(f, nw.Call.Args[0]) == 0, "L5", fname(f)+"/sink", c.ipos(nw), "ring buffer drains into the caller's writer", "the ring buffer does not drain into the writer supplied by the caller")
	}
}

// L6
func (c *Ctx) c13Streams() {
	type spec struct{ fn, field, callee string }
	for _, s := range []spec{
		{"(*GenericLoggers).Log", "Output", "Println"},
		{"(*GenericLoggers).LogError", "Error", "Println"},
	} {
		f := c.fn("logs", s.fn)
		if f == nil {
			continue
		}
		good := false
		allInstrs(f, func(in ssa.Instruction) {
			cl, ok := in.(*ssa.Call)
			if !ok || !strings.HasSuffix(calleeFull(&cl.Call), "log.Logger)."+s.callee) {
				return
			}
			if _, ok := fieldLoad(cl.Call.Args[0], "GenericLoggers", s.field); ok && paramIndex(f, cl.Call.Args[1]) >= 0 {
				good = true
			}
		})
		c.check(good, "L6", fname(f), c.pos(f.Pos()), "writes the caller's arguments to its own stream ("+s.field+")", "does not print the caller's arguments through the "+s.field+" logger")
	}
	for _, s := range []spec{
		{"(*infoWriter).Write", "", "Log"},
		{"(*errWriter).Write", "", "LogError"},
		{"(*quietLogger).LogError", "", "LogError"},
	} {
		f := c.fn("logs", s.fn)
		if f == nil {
			continue
		}
		good := false
		allInstrs(f, func(in ssa.Instruction) {
			if cl, ok := in.(*ssa.Call); ok && cl.Call.IsInvoke() && cl.Call.Method.Name() == s.callee {
				for _, l := range sources(cl.Call.Args[0], deriveOpts{through: func(string) bool { return true }}) {
					if paramIndex(f, l) >= 0 {
						good = true
					}
				}
			}
		})
		c.check(good, "L6", fname(f), c.pos(f.Pos()), "forwards to "+s.callee, "does not forward its input to the underlying "+s.callee)
	}
}

// c13MemberLists (L8): "composite loggers deliver every message to every member". The member list belongs to the
// composite: it is only ever changed under the composite's lock (L1). A constructor or setter that stores the
// caller's slice itself shares the backing array with the caller, whose later append overwrites a member behind
// the lock's back (and races with Log). What is stored must be a fresh slice.
func (c *Ctx) c13MemberLists() {
	c.rule("L8", "a slice stored into a field of a logger structure is never the caller's own slice (parameter or variadic argument): members are copied", 1)
	n := 0
	for _, rel := range c13Pkgs {
		for _, f := range c.srcFuncs(rel) {
			allInstrs(f, func(in ssa.Instruction) {
				st, ok := in.(*ssa.Store)
				if !ok {
					return
				}
				fa, ok := st.Addr.(*ssa.FieldAddr)
				if !ok {
					return
				}
				if _, isSlice := st.Val.Type().Underlying().(*types.Slice); !isSlice {
					return
				}
				so := structOf(fa.X.Type())
				if so == nil {
					return
				}
				n++
				key := fname(outermost(f)) + "/" + so.Field(fa.Field).Name()
				v := st.Val
				for {
					if sl, ok := v.(*ssa.Slice); ok {
						v = sl.X
						continue
					}
					break
				}
				v = resolveValue(v)
				if p, isParam := v.(*ssa.Parameter); isParam {
					c.violate("L8", key, c.ipos(st), "the slice stored in field "+so.Field(fa.Field).Name()+" is the caller's own ("+p.Name()+"): it shares its backing array with the caller, whose next append replaces a member of the composite without its lock — that member receives nothing any more, another logger receives its messages")
					return
				}
				c.ok("L8", key, c.ipos(st), "a slice of the structure's own")
			})
		}
	}
	c.Extra["slice_field_stores"] = n
}

// c13WholePayload (L9): "each message is delivered to the sink exactly once and intact". A message reaches a writer of
// this package as one Write call; the writers hand it on. Whoever hands on a part of the payload (p[:k], p[k:]) turns one
// message into several entries of the sink: a ring buffer drops and reports them one by one, another goroutine's message
// lands between the pieces. The payload is passed on whole.
func (c *Ctx) c13WholePayload() {
	c.rule("L9", "a Write method of the logging packages never hands on a part of its payload: no bounded sub-slice of the parameter is taken", 7)
	for _, rel := range c13Pkgs {
		for _, f := range c.srcFuncs(rel) {
			if f.Name() != "Write" || f.Signature.Recv() == nil || len(f.Params) != 2 {
				continue
			}
			if sl, ok := f.Params[1].Type().Underlying().(*types.Slice); !ok || !types.Identical(sl.Elem(), types.Typ[types.Byte]) {
				continue
			}
			c.FuncsSeen[fname(f)] = true
			bad := ""
			fns := append([]*ssa.Function{f}, f.AnonFuncs...)
			for _, g := range fns {
				allInstrs(g, func(in ssa.Instruction) {
					sl, ok := in.(*ssa.Slice)
					if !ok || (sl.Low == nil && sl.High == nil) {
						return
					}
					for _, l := range sources(sl.X, deriveOpts{through: func(string) bool { return false }}) {
						if resolveValue(l) == ssa.Value(f.Params[1]) {
							bad = c.ipos(sl)
						}
					}
				})
			}
			c.check(bad == "", "L9", fname(f), c.pos(f.Pos()), "the payload is handed on whole",
				"a part of the payload is taken at "+bad+": one message becomes several writes to the sink — each piece is a message of its own for the ring buffer (dropped and counted separately) and other goroutines' messages land between the pieces")
		}
	}
}

// c13NoReacquire (L10): "every message is delivered" needs the logger to stay alive. sync.RWMutex is not reentrant: a
// goroutine that holds the read lock and asks for it again blocks for ever as soon as a writer has queued up in between
// (and a second Lock on a held mutex blocks at once). No function of the logging packages calls, while it holds a mutex of
// its receiver, a method that acquires the same mutex.
func (c *Ctx) c13NoReacquire() {
	c.rule("L10", "no method is called on the receiver (or one of its embedded parts) while a mutex is held that the method acquires itself: sync mutexes are not reentrant and a queued writer turns a nested read lock into a deadlock", 10)
	memo := map[*ssa.Function]map[string]bool{}
	var acq func(g *ssa.Function, depth int) map[string]bool
	acq = func(g *ssa.Function, depth int) map[string]bool {
		if m, ok := memo[g]; ok {
			return m
		}
		out := map[string]bool{}
		memo[g] = out
		if depth > 6 || len(g.Blocks) == 0 || g.Signature.Recv() == nil || len(g.Params) == 0 {
			return out
		}
		recv := g.Params[0]
		allInstrs(g, func(in ssa.Instruction) {
			cc := callCommon(in)
			if cc == nil {
				return
			}
			if _, isGo := in.(*ssa.Go); isGo {
				return
			}
			if _, op, ok := mutexOp(cc); ok {
				if op == "Lock" || op == "RLock" {
					if root, path := c13RootAndPath(cc.Args[0]); root == ssa.Value(recv) {
						out[path] = true
					}
				}
				return
			}
			h := staticCallee(cc)
			if h == nil || h.Signature.Recv() == nil || len(cc.Args) == 0 {
				return
			}
			root, path := c13RootAndPath(cc.Args[0])
			if root != ssa.Value(recv) {
				return
			}
			for k := range acq(h, depth+1) {
				out[c13Join(path, k)] = true
			}
		})
		return out
	}
	n := 0
	for _, rel := range c13Pkgs {
		for _, f := range c.srcFuncs(rel) {
			if f.Signature.Recv() == nil || len(f.Params) == 0 || len(f.Blocks) == 0 {
				continue
			}
			var ls *lockset
			allInstrs(f, func(in ssa.Instruction) {
				cl, ok := in.(*ssa.Call)
				if !ok {
					return
				}
				if _, _, isM := mutexOp(&cl.Call); isM {
					return
				}
				h := staticCallee(&cl.Call)
				if h == nil || h.Signature.Recv() == nil || len(cl.Call.Args) == 0 {
					return
				}
				root, path := c13RootAndPath(cl.Call.Args[0])
				if root != ssa.Value(f.Params[0]) {
					return
				}
				keys := acq(h, 0)
				if len(keys) == 0 {
					return
				}
				if ls == nil {
					ls = computeLockset(f)
				}
				n++
				bad := ""
				for k := range keys {
					full := c13Join(path, k)
					if st := ls.at(cl, full); st != lockNone {
						bad = "calls " + h.Name() + "(), which acquires " + full + ", while " + full + " is held (" + st.String() + "): the mutex is not reentrant — with a writer waiting in between (or for a plain Lock, at once) the goroutine blocks for ever and every later message of this logger is lost"
					}
				}
				c.check(bad == "", "L10", fname(f)+"/calls:"+h.Name(), c.ipos(cl), "callee's mutex not held at the call", bad)
			})
		}
	}
	c.Extra["calls_of_locking_methods"] = n
}

// c13RootAndPath: v is the address of (a field of a field of …) root; the path names the fields.
func c13RootAndPath(v ssa.Value) (ssa.Value, string) {
	var parts []string
	for {
		switch x := v.(type) {
		case *ssa.FieldAddr:
			if st := structOf(x.X.Type()); st != nil {
				parts = append([]string{st.Field(x.Field).Name()}, parts...)
			}
			v = x.X
			continue
		case *ssa.UnOp:
			if x.Op == token.MUL {
				if fa, ok := x.X.(*ssa.FieldAddr); ok { // pointer field: the object it designates is named by the field
					v = fa
					continue
				}
			}
		}
		break
	}
	return v, strings.Join(parts, ".")
}

func c13Join(a, b string) string {
	if a == "" {
		return b
	}
	if b == "" {
		return a
	}
	return a + "." + b
}

// c13GlobalsSetOnce (L11): "no data race occurs … producers mixing Log, LogError, SetLogSource and Append". A logger that is
// appended to a composite is created while the others log: whatever a constructor (or any other function of the logging
// packages) writes must belong to the logger being built. A package-level variable — of these packages or, worse, a
// setting of the logging library underneath, which every logger reads as it logs — is written only by package
// initialisation or inside a sync.Once.
func (c *Ctx) c13GlobalsSetOnce() {
	c.rule("L11", "package-level variables (own or of another package) are written only by package initialisation or inside the function handed to a sync.Once: creating a logger never writes what other loggers read", 1)
	n := 0
	for _, rel := range c13Pkgs {
		for _, f := range c.srcFuncs(rel) {
			allInstrs(f, func(in ssa.Instruction) {
				st, ok := in.(*ssa.Store)
				if !ok {
					return
				}
				g := c13GlobalRoot(st.Addr)
				if g == nil {
					return
				}
				n++
				key := fname(outermost(f)) + "/writes:" + g.Pkg.Pkg.Name() + "." + g.Name()
				switch {
				case f.Name() == "init" || strings.HasPrefix(f.Name(), "init#") || (f.Parent() == nil && f.Synthetic != ""):
					c.ok("L11", key, c.ipos(st), "package initialisation")
				case c13OnlyRunByOnce(f):
					c.ok("L11", key, c.ipos(st), "inside the function handed to a sync.Once")
				default:
					c.violate("L11", key, c.ipos(st), "package-level variable "+g.Pkg.Pkg.Name()+"."+g.Name()+" is written by "+fname(outermost(f))+", which runs whenever it is called (creating a logger, say): loggers that are logging at that moment read it — a data race, under which a message can be emitted with the wrong field names")
				}
			})
		}
	}
	if n == 0 {
		c.info("L11", "logs/no-write-to-a-package-level-variable", "-", "no function of the logging packages writes a package-level variable")
	}
	c.Extra["package_level_writes"] = n
}

func c13GlobalRoot(v ssa.Value) *ssa.Global {
	for {
		switch x := v.(type) {
		case *ssa.Global:
			return x
		case *ssa.FieldAddr:
			v = x.X
		case *ssa.IndexAddr:
			v = x.X
		default:
			return nil
		}
	}
}

// c13OnlyRunByOnce: f is a function literal whose only use is as the argument of (*sync.Once).Do.
func c13OnlyRunByOnce(f *ssa.Function) bool {
	if f.Parent() == nil {
		return false
	}
	used, once := 0, 0
	allInstrs(f.Parent(), func(in ssa.Instruction) {
		var ops []*ssa.Value
		for _, o := range in.Operands(ops) {
			if *o == nil {
				continue
			}
			v := *o
			if mc, ok := v.(*ssa.MakeClosure); ok {
				v = mc.Fn
			}
			if v != ssa.Value(f) {
				continue
			}
			if _, isMC := in.(*ssa.MakeClosure); isMC {
				continue // counted where the closure value is used
			}
			used++
			if cc := callCommon(in); cc != nil && calleeFull(cc) == "(*sync.Once).Do" {
				once++
			}
		}
	})
	return used > 0 && used == once
}

// c13SharedListsCopied (L12): a slice read back from shared storage (the sync.Map of values a logr sink hands on to the sinks
// derived from it) is never appended to in place: append writes into the spare capacity of the backing array that every
// holder of the list shares — two sinks derived concurrently from one parent write the same slot.
func (c *Ctx) c13SharedListsCopied() {
	c.rule("L12", "a slice obtained from shared storage (a sync.Map value) is copied before it is appended to", 1)
	n := 0
	for _, rel := range c13Pkgs {
		for _, f := range c.srcFuncs(rel) {
			allInstrs(f, func(in ssa.Instruction) {
				cl, ok := in.(*ssa.Call)
				if !ok || calleeFull(&cl.Call) != "builtin.append" || len(cl.Call.Args) == 0 {
					return
				}
				shared := ""
				any := false
				var leaves []ssa.Value
				var expand func(v ssa.Value, depth int)
				expand = func(v ssa.Value, depth int) {
					for _, l := range sources(v, deriveOpts{}) {
						// v, ok := x.([]string): the value comes from what was asserted
						if ex, isEx := l.(*ssa.Extract); isEx && depth < 4 {
							if ta, isTA := ex.Tuple.(*ssa.TypeAssert); isTA {
								expand(ta.X, depth+1)
								continue
							}
						}
						leaves = append(leaves, l)
					}
				}
				expand(cl.Call.Args[0], 0)
				for _, l := range leaves {
					var src *ssa.Call
					switch x := l.(type) {
					case *ssa.Extract:
						src, _ = x.Tuple.(*ssa.Call)
					case *ssa.Call:
						src = x
					case *ssa.Parameter:
						// the value parameter of a sync.Map Range callback
						if x.Parent().Parent() != nil && c13OnlyArgOf(x.Parent(), "(*sync.Map).Range") {
							shared = "sync.Map.Range"
						}
					}
					if src != nil {
						any = true
						switch calleeFull(&src.Call) {
						case "(*sync.Map).Load", "(*sync.Map).LoadOrStore", "(*sync.Map).LoadAndDelete", "(*sync.Map).Swap":
							shared = calleeFull(&src.Call)
						}
					}
				}
				// instances: the appends of functions that read a sync.Map, whatever their operand
				readsMap := false
				allInstrs(outermost(f), func(i2 ssa.Instruction) {
					if cc := callCommon(i2); cc != nil && strings.HasPrefix(calleeFull(cc), "(*sync.Map).Load") {
						readsMap = true
					}
				})
				if !any && shared == "" && !readsMap {
					return
				}
				n++
				c.check(shared == "", "L12", fname(outermost(f))+"/append", c.ipos(cl), "the slice appended to is not one read back from shared storage",
					"the slice appended to was obtained from "+shared+": it shares its backing array with every other holder of that value (the sink it was transferred from, the sinks derived from it); appending in place writes into the common spare capacity — a data race between sinks derived concurrently, one of which can end up with the other's element")
			})
		}
	}
	if n == 0 {
		c.info("L12", "logs/no-append-to-a-stored-list", "-", "no append whose operand comes from a call")
	}
	c.Extra["appends_to_obtained_lists"] = n
}

func c13OnlyArgOf(f *ssa.Function, callee string) bool {
	if f.Parent() == nil {
		return false
	}
	found := false
	allInstrs(f.Parent(), func(in ssa.Instruction) {
		if cc := callCommon(in); cc != nil && calleeFull(cc) == callee {
			for _, a := range cc.Args {
				if mc, ok := a.(*ssa.MakeClosure); ok && mc.Fn == ssa.Value(f) {
					found = true
				}
				if a == ssa.Value(f) {
					found = true
				}
			}
		}
	})
	return found
}

// c13UpdatesAreAtomic (L13): "composite loggers deliver every message to every member". A field that is rewritten from its own
// previous value under the write lock (append to the list of members) must read that value under the same hold of the
// lock. A snapshot taken before — directly, or through a getter that takes and releases the read lock — is stale by the time
// the write lock is obtained: two concurrent updates start from the same list and the later store drops the other's
// member, without any data race for the detector to see.
func (c *Ctx) c13UpdatesAreAtomic() {
	c.rule("L13", "a guarded field rewritten from its own previous value under the write lock reads that value under the same hold of the lock (no snapshot taken before the lock, directly or through a getter)", 2)
	n := 0
	for _, rel := range c13Pkgs {
		for _, f := range c.srcFuncs(rel) {
			if f.Signature.Recv() == nil || len(f.Params) == 0 || len(f.Blocks) == 0 || f.Parent() != nil {
				continue
			}
			recv := f.Params[0]
			var ls *lockset
			allInstrs(f, func(in ssa.Instruction) {
				st, ok := in.(*ssa.Store)
				if !ok {
					return
				}
				fa, ok := st.Addr.(*ssa.FieldAddr)
				if !ok || fa.X != ssa.Value(recv) {
					return
				}
				if ls == nil {
					ls = computeLockset(f)
				}
				key, held := ls.anyHeld(st)
				if held != lockW {
					return
				}
				so := structOf(fa.X.Type())
				fieldName := so.Field(fa.Field).Name()
				// what the stored value is made of
				isOwnField := func(v ssa.Value) (ssa.Instruction, bool) {
					u, ok := v.(*ssa.UnOp)
					if !ok || u.Op != token.MUL {
						return nil, false
					}
					ofa, ok := u.X.(*ssa.FieldAddr)
					if !ok || ofa.Field != fa.Field || ofa.X != ssa.Value(recv) {
						return nil, false
					}
					return u, true
				}
				var stale ssa.Instruction
				fromSelf := false
				for _, l := range sources(st.Val, deriveOpts{through: func(n string) bool { return n == "builtin.append" || n == "slices.Clone" || n == "slices.Concat" }}) {
					if ld, ok := isOwnField(l); ok {
						fromSelf = true
						if ls.at(ld, key) != lockW {
							stale = ld
						}
						continue
					}
					// a getter of the same field called on the receiver
					if cl, ok := l.(*ssa.Call); ok {
						g := staticCallee(&cl.Call)
						if g == nil || len(g.Blocks) == 0 || len(cl.Call.Args) == 0 || cl.Call.Args[0] != ssa.Value(recv) {
							continue
						}
						returnsField := false
						allInstrs(g, func(j ssa.Instruction) {
							if r, ok := j.(*ssa.Return); ok && len(r.Results) == 1 {
								for _, rl := range sources(r.Results[0], deriveOpts{}) {
									if u, ok := rl.(*ssa.UnOp); ok && u.Op == token.MUL {
										if gfa, ok := u.X.(*ssa.FieldAddr); ok && gfa.Field == fa.Field && gfa.X == ssa.Value(g.Params[0]) {
											returnsField = true
										}
									}
								}
							}
						})
						if returnsField {
							fromSelf = true
							if ls.at(cl, key) != lockW {
								stale = cl
							}
						}
					}
				}
				if !fromSelf {
					return
				}
				n++
				c.check(stale == nil, "L13", fname(f)+"/"+fieldName+":read-modify-write", c.ipos(st), "the previous value is read under the same hold of the write lock",
					"field "+fieldName+" is rewritten under the write lock from a value of the same field read at "+c.iposOr(stale)+", before the lock was taken: two concurrent updates start from the same snapshot and the later store discards what the other added — a member appended by one goroutine silently vanishes from the composite and receives no message any more (no data race is involved, the race detector stays quiet)")
			})
		}
	}
	c.Extra["read_modify_write_updates"] = n
}

// c13OperandsLeftAlone (L14): "each message is delivered … intact" — also to the members of a composite that are served after
// this one, and to the other goroutines that log the same operands. The slice a Log/LogError (or any function of the logging
// packages) receives — a variadic parameter filled with `args...` is the caller's own backing array — is read, never
// rewritten: no element store, no in-place slices/sort operation on it.
func (c *Ctx) c13OperandsLeftAlone() {
	c.rule("L14", "a function of the logging packages never rewrites a slice it received as a parameter (no element store, no slices.DeleteFunc/Delete/Compact/Insert/Replace/Reverse/Sort*, no sort.* on it): operands are shared with the caller and the other members", 30)
	inPlace := map[string]bool{
		"slices.DeleteFunc": true, "slices.Delete": true, "slices.Compact": true, "slices.CompactFunc": true, "slices.Insert": true,
		"slices.Replace": true, "slices.Reverse": true, "slices.Sort": true, "slices.SortFunc": true, "slices.SortStableFunc": true,
		"sort.Slice": true, "sort.SliceStable": true, "sort.Strings": true, "sort.Sort": true, "sort.Stable": true,
	}
	for _, rel := range c13Pkgs {
		for _, f := range c.srcFuncs(rel) {
			if f.Parent() != nil {
				continue
			}
			for _, prm := range f.Params {
				if _, isSlice := prm.Type().Underlying().(*types.Slice); !isSlice {
					continue
				}
				bad := ""
				withAnon(f, func(g *ssa.Function) {
					allInstrs(g, func(in ssa.Instruction) {
						switch x := in.(type) {
						case *ssa.Store:
							if ia, ok := x.Addr.(*ssa.IndexAddr); ok && resolveValue(ia.X) == ssa.Value(prm) {
								bad = "an element is stored at " + c.ipos(in)
							}
						case *ssa.Call:
							n := calleeFull(&x.Call)
							// generic instantiations print as slices.DeleteFunc[...]
							if i := strings.Index(n, "["); i > 0 {
								n = n[:i]
							}
							if inPlace[n] && len(x.Call.Args) > 0 {
								a := x.Call.Args[0]
								if mi, ok := a.(*ssa.MakeInterface); ok {
									a = mi.X
								}
								if resolveValue(stripConv(a)) == ssa.Value(prm) {
									bad = short(n) + " rewrites it in place at " + c.ipos(in)
								}
							}
						}
					})
				})
				c.check(bad == "", "L14", fname(f)+"/operands:"+prm.Name(), c.pos(f.Pos()), "the slice received is only read",
					"the slice "+prm.Name()+" belongs to the caller ("+bad+"): a composite hands the same operands to its next member, which receives another message than the one logged (`step 3: <nil> gave up` arrives as `step 3: gave up <nil>`), and goroutines logging the same operands race")
			}
		}
	}
}

// c13QueueDrainedBeforeTheSinkCloses (L15): "the ring-buffered asynchronous logger drops messages only when it also reports
// how many it dropped". Closing the diode is what hands the messages still in the ring to the slow writer: a Close method
// which closes the slow writer first delivers them to a closed sink — lost, and not reported. Decided on the Close method
// of every structure of package logs that holds both a queueing writer (a field closed through an io.Closer assertion) and
// the writer it feeds: the close of the fed writer is not followed, on any path, by the close of the queue.
func (c *Ctx) c13QueueDrainedBeforeTheSinkCloses() {
	c.rule("L15", "closing the ring-buffered writer closes the diode (which hands what is still queued to the slow writer) before it closes the slow writer, never after", 1)
	f := c.fnOpt("logs", "(*DiodeWriter).Close")
	if f == nil {
		c.info("L15", "logs.(*DiodeWriter).Close/absent", "-", "the ring-buffered writer has no Close method of its own any more")
		return
	}
	c.FuncsSeen[fname(f)] = true
	var sinkCloses, queueCloses []*ssa.Call
	allInstrs(f, func(in ssa.Instruction) {
		cl, ok := in.(*ssa.Call)
		if !ok || !cl.Call.IsInvoke() || cl.Call.Method.Name() != "Close" {
			return
		}
		recv := cl.Call.Value
		for k := 0; k < 6; k++ { // v, ok := x.(io.Closer); v.Close()
			switch x := recv.(type) {
			case *ssa.Extract:
				recv = x.Tuple
				continue
			case *ssa.TypeAssert:
				recv = x.X
				continue
			case *ssa.ChangeInterface:
				recv = x.X
				continue
			case *ssa.MakeInterface:
				recv = x.X
				continue
			}
			break
		}
		for _, l := range append(sources(recv, deriveOpts{}), recv) {
			if _, ok := fieldLoad(l, "DiodeWriter", "slowWriter"); ok {
				sinkCloses = append(sinkCloses, cl)
				return
			}
			if _, ok := fieldLoad(l, "DiodeWriter", "diodeWriter"); ok {
				queueCloses = append(queueCloses, cl)
				return
			}
		}
	})
	key := fname(f) + "/queue-closed-first"
	if len(queueCloses) == 0 {
		c.violate("L15", key, c.pos(f.Pos()), "the diode is never closed: what is queued when the writer is closed is never handed to the slow writer, and its polling goroutine is left behind")
		return
	}
	bad := ""
	for _, s := range sinkCloses {
		for _, q := range queueCloses {
			if pathAvoiding(s, func(ssa.Instruction) bool { return false }, func(i ssa.Instruction) bool { return i == ssa.Instruction(q) }) != nil {
				bad = c.ipos(s) + " then " + c.ipos(q)
			}
		}
	}
	c.check(bad == "", "L15", key, c.ipos(queueCloses[0]), "no path closes the slow writer and then the diode",
		"the slow writer is closed before the diode ("+bad+"): closing the diode hands the messages still in the ring to a writer which is already closed — 100 messages logged before Close() are all lost and none is reported as dropped")
}

// c13OnlyTheLoneLineBreakIsSkipped (L16): "each message is delivered to the sink exactly once … never lost". Some loggers skip
// a message that consists of a line break and nothing else (an artefact of writers that end every line). That is the one
// message they may skip: the return that hands nothing on lies where the message was found to have exactly one operand.
// `len(message) > 0 && message[0] == "\n"` — which reads like an index guard — skips every message that merely starts with
// a line-break operand. Decided for the Log / LogError methods of the logging packages: a return reachable from the entry
// without any call that could deliver the message is dominated by the true edge of `len(operands) == 1`, in the method itself
// or in the predicate of the package it asks.
func (c *Ctx) c13OnlyTheLoneLineBreakIsSkipped() {
	c.rule("L16", "a Log / LogError method returns without handing the message on only where the message has exactly one operand (`len(operands) == 1`: the lone line break): a message is not skipped for the way it begins", 2)
	isLenEq1 := func(g *ssa.Function) func(v ssa.Value) bool {
		return func(v ssa.Value) bool {
			b, ok := v.(*ssa.BinOp)
			if !ok || b.Op != token.EQL {
				return false
			}
			isLen := func(x ssa.Value) bool {
				cl, ok := x.(*ssa.Call)
				if !ok {
					return false
				}
				bi, isB := cl.Call.Value.(*ssa.Builtin)
				if !isB || bi.Name() != "len" || len(cl.Call.Args) != 1 {
					return false
				}
				_, isP := resolveValue(cl.Call.Args[0]).(*ssa.Parameter)
				return isP
			}
			isOne := func(x ssa.Value) bool { n, ok := constInt(x); return ok && n == 1 }
			return (isLen(b.X) && isOne(b.Y)) || (isLen(b.Y) && isOne(b.X))
		}
	}
	n := 0
	for _, rel := range c13Pkgs {
		for _, f := range c.srcFuncs(rel) {
			if f.Parent() != nil || f.Blocks == nil || f.Signature.Recv() == nil || (f.Name() != "Log" && f.Name() != "LogError") {
				continue
			}
			if !f.Signature.Variadic() {
				continue
			}
			// predicates of the package asked about the message
			isPredicateCall := func(in ssa.Instruction) (*ssa.Function, bool) {
				cl, ok := in.(*ssa.Call)
				if !ok {
					return nil, false
				}
				g := staticCallee(&cl.Call)
				if g == nil || !inModule(g) || g.Blocks == nil {
					return nil, false
				}
				res := g.Signature.Results()
				return g, res.Len() == 1 && res.At(0).Type().String() == "bool"
			}
			delivers := func(in ssa.Instruction) bool {
				cl, ok := in.(*ssa.Call)
				if !ok {
					return false
				}
				if _, isB := cl.Call.Value.(*ssa.Builtin); isB {
					return false
				}
				if _, isPred := isPredicateCall(in); isPred {
					return false
				}
				// a getter of the logger itself (no argument besides the receiver) hands nothing on
				if g := staticCallee(&cl.Call); g != nil && inModule(g) && g.Signature.Recv() != nil && g.Signature.Params().Len() == 0 && g.Signature.Results().Len() > 0 {
					return false
				}
				return true
			}
			var skips []*ssa.Return
			allInstrs(f, func(in ssa.Instruction) {
				r, ok := in.(*ssa.Return)
				if !ok {
					return
				}
				if hit := pathPruned(f, nil, delivers, func(i ssa.Instruction) bool { return i == ssa.Instruction(r) }, nil); hit != nil {
					skips = append(skips, r)
				}
			})
			deliversAtAll := false
			allInstrs(f, func(in ssa.Instruction) {
				if delivers(in) {
					deliversAtAll = true
				}
			})
			if len(skips) == 0 || !deliversAtAll {
				continue // nothing is skipped — or nothing is ever delivered on this stream, by design (the quiet and the no-op loggers)
			}
			n++
			bad := ""
			for _, r := range skips {
				if onBoolSide(r, true, isLenEq1(f)) {
					continue
				}
				// through a predicate of the package
				viaPredicate := false
				onBoolSide(r, true, func(v ssa.Value) bool {
					cl, ok := v.(*ssa.Call)
					if !ok {
						return false
					}
					g, isPred := isPredicateCall(cl)
					if !isPred {
						return false
					}
					// every way the predicate answers true goes over len(param) == 1
					allTrue := true
					allInstrs(g, func(i2 ssa.Instruction) {
						rr, ok := i2.(*ssa.Return)
						if !ok {
							return
						}
						for _, l := range sources(rr.Results[0], deriveOpts{}) {
							if b, isB := constBool(l); isB && !b {
								continue
							}
							// a non-constant (or true) answer: its block must lie beyond len == 1
							if li, isI := l.(ssa.Instruction); isI {
								if !onBoolSide(li, true, isLenEq1(g)) {
									allTrue = false
								}
							} else if !onBoolSide(rr, true, isLenEq1(g)) {
								allTrue = false
							}
						}
					})
					if allTrue {
						viaPredicate = true
					}
					return allTrue
				})
				if !viaPredicate {
					bad = c.ipos(r)
				}
			}
			c.FuncsSeen[fname(f)] = true
			c.check(bad == "", "L16", fname(f)+"/only-the-lone-line-break", c.pos(f.Pos()), "the return that hands nothing on lies where the message has exactly one operand",
				"the return at "+bad+" hands nothing on and is not confined to messages of exactly one operand (the lone line break, the only message a logger may skip): every message that takes this path is dropped silently, and in a composite only by this member — a message of several operands whose first is a line break, Log(\"\\n\", \"text\"), if the test looks at how the message begins; every output message, if the test is a remembered answer (\"the sink does not take information messages\") that is no longer true once the verbosity of the underlying library was raised")
		}
	}
	if n == 0 {
		c.info("L16", "logs/no-skipping-logger", "-", "no Log / LogError method returns without handing its message on")
	}
}

// c13EveryStreamIsClosed (L17): "the ring-buffered asynchronous logger drops messages only when it also reports how many".
// Closing a ring-buffered writer is what hands the messages still queued to its sink. A logger that keeps one such writer
// per stream (fields of one type: the output and the error writer) closes every one of them on every path of its Close —
// a failure to close one stream (a sink that complains about a second close) is no reason to leave the other's queue where
// it is: those messages are neither delivered nor reported, and the polling goroutine stays behind.
func (c *Ctx) c13EveryStreamIsClosed() {
	c.rule("L17", "a Close method of the logging packages that closes several members of one type (the writers of the output and of the error stream) closes each of them on every path to every return: the failure of one close does not skip the next", 1)
	for _, rel := range []string{"logs", "logs/logrimp"} {
		for _, f := range c.srcFuncs(rel) {
			if f.Name() != "Close" || f.Signature.Recv() == nil || f.Blocks == nil {
				continue
			}
			// invoke Close on fields of the receiver, grouped by the field's type
			type site struct {
				call  *ssa.Call
				field string
			}
			byType := map[string][]site{}
			allInstrs(f, func(in ssa.Instruction) {
				cl, ok := in.(*ssa.Call)
				if !ok || !cl.Call.IsInvoke() || cl.Call.Method.Name() != "Close" {
					return
				}
				u, ok := cl.Call.Value.(*ssa.UnOp)
				if !ok {
					return
				}
				fa, ok := u.X.(*ssa.FieldAddr)
				if !ok || len(f.Params) == 0 || resolveValue(fa.X) != ssa.Value(f.Params[0]) {
					return
				}
				so := structOf(fa.X.Type())
				if so == nil {
					return
				}
				t := so.Field(fa.Field).Type().String()
				byType[t] = append(byType[t], site{cl, so.Field(fa.Field).Name()})
			})
			for _, sites := range byType {
				fields := map[string]bool{}
				for _, s := range sites {
					fields[s.field] = true
				}
				if len(fields) < 2 {
					continue
				}
				c.FuncsSeen[fname(f)] = true
				bad := ""
				for _, s := range sites {
					s := s
					// every path from the entry to a return passes a close of this field
					esc := pathPruned(f, nil, func(i ssa.Instruction) bool {
						cl, ok := i.(*ssa.Call)
						if !ok {
							return false
						}
						for _, o := range sites {
							if o.field == s.field && o.call == cl {
								return true
							}
						}
						return false
					}, func(i ssa.Instruction) bool { _, isRet := i.(*ssa.Return); return isRet }, nil)
					if esc != nil {
						bad = "the return at " + c.ipos(esc) + " can be reached without " + s.field + ".Close()"
					}
				}
				c.check(bad == "", "L17", fname(f)+"/every-stream-is-closed", c.pos(f.Pos()), "every member of the same kind is closed on every path",
					bad+": when closing one stream fails (a sink that complains about being closed twice, a flush that fails) the ring of the other stream is never closed, and closing is what hands the queued messages to the sink — they are neither delivered nor reported as dropped, and its polling goroutine is left behind")
			}
		}
	}
}
