package main

import (
	"go/token"
	"go/types"
	"strconv"
	"strings"

	"golang.org/x/tools/go/ssa"
)

func init() {
	register(&propCheck{
		id:          "C02",
		level:       "other",
		explanation: "The two structural halves of the zip-slip defence, decided on SSA for every path of the extraction code: (X1) sanitise-before-sink — every path argument of a mutating filesystem call in the call graph of (*VFS).unzip (MkDir, OpenFile for writing, Chtimes, Rm, the destination of the nested unzip, the keys of the directory time-stamp map) belongs to the least set D containing the caller's destination after filepath.Clean, result #0 of sanitiseZipExtractPath on its err==nil side, filepath.Dir(d), Join(Dir(d), FilepathStem(d)), determineUnzippedFilepath(d) for d in D provided X4 holds, and parameters of unexported callees all of whose call sites pass members of D; anything else reaching a sink (typically something derived from zip.File.Name) is reported with the offending value; (X2) the sanitiser accepts only contained paths — every non-error return of sanitiseZipExtractPath lies on the true side of a containment predicate on p = filepath.Join(destination, name): p == destination or strings.HasPrefix(p, destination + separator), and returns that p; (X4) the transcoder applied after sanitisation keeps a path in its directory — it returns its argument, or the argument's directory joined with the converted last element, that element having been tested to be a single path element other than '..'; (X3) its refusal carries the 'suspected malicious intent' kind and unzip hands that error back unchanged. Nothing is executed. Not decided: that Join+HasPrefix implies containment for every byte string (assumed: filepath.Join cleans), symlinks already present in the destination, whether charset transcoding can introduce separators (assumption recorded).",
		run:         runC02,
		assumptions: []string{
			"filepath.Join returns a cleaned path, so a cleaned path with prefix destination+separator is inside destination",
			"no symbolic link inside the destination points outside it before the extraction starts",
		},
	})
}

var fsMutators = map[string]bool{
	"MkDir": true, "MkDirAll": true, "OpenFile": true, "CreateFile": true, "Chtimes": true, "Chmod": true, "Chown": true,
	"Rm": true, "RemoveWithContext": true, "RemoveWithContextAndExclusionPatterns": true, "RemoveWithPrivileges": true,
	"CleanDir": true, "CleanDirWithContext": true, "CleanDirWithContextAndExclusionPatterns": true,
	"WriteFile": true, "WriteFileWithContext": true, "WriteToFile": true, "Touch": true,
	"Move": true, "MoveWithContext": true, "Copy": true, "CopyWithContext": true, "CopyToFile": true, "CopyToDirectory": true,
	"Symlink": true, "Link": true, "ChmodRecursively": true, "ChangeOwnership": true,
}

// fsMethodCall: call of a method named in set on a *VFS / FS / ICloseableFS
// receiver; returns the method name and the argument list without receiver.
func fsMethodCall(in ssa.Instruction) (name string, args []ssa.Value, ok bool) {
	cl, isCall := in.(*ssa.Call)
	if !isCall {
		return "", nil, false
	}
	if cl.Call.IsInvoke() {
		t := cl.Call.Value.Type().String()
		if strings.HasSuffix(t, "filesystem.FS") || strings.HasSuffix(t, "filesystem.ICloseableFS") {
			return cl.Call.Method.Name(), cl.Call.Args, true
		}
		return "", nil, false
	}
	f := staticCallee(&cl.Call)
	if f == nil || f.Signature.Recv() == nil || !isVFSPtr(f.Signature.Recv().Type()) {
		return "", nil, false
	}
	return f.Name(), cl.Call.Args[1:], true
}

type c02State struct {
	c        *Ctx
	sanitise *ssa.Function
	determ   *ssa.Function
	unzip    *ssa.Function
	determOK bool
	memo     map[ssa.Value]int // 1 in D, 2 not, 3 in progress
	why      map[ssa.Value]string
}

const sanitiseName = modPath + "/filesystem.sanitiseZipExtractPath"

// inD decides membership of v (a path value) in D at instruction `at`.
func (s *c02State) inD(v ssa.Value, at ssa.Instruction) bool {
	if st, ok := s.memo[v]; ok {
		return st == 1 || st == 3 // optimistic on cycles (phi loops)
	}
	s.memo[v] = 3
	res := s.inD0(v, at)
	if res {
		s.memo[v] = 1
	} else {
		s.memo[v] = 2
		if _, ok := s.why[v]; !ok {
			s.why[v] = v.String()
		}
	}
	return res
}

func (s *c02State) inD0(v ssa.Value, at ssa.Instruction) bool {
	switch x := v.(type) {
	case *ssa.Parameter:
		return s.paramInD(x)
	case *ssa.FreeVar:
		return s.inD(resolveFreeVar(x), at)
	case *ssa.Phi:
		for _, e := range x.Edges {
			if !s.inD(e, at) {
				return false
			}
		}
		return true
	case *ssa.ChangeType:
		return s.inD(x.X, at)
	case *ssa.Extract:
		cl, ok := x.Tuple.(*ssa.Call)
		if !ok {
			// range over the directory map: keys
			if nx, ok := x.Tuple.(*ssa.Next); ok && x.Index == 1 {
				if rg, ok := nx.Iter.(*ssa.Range); ok {
					return s.mapKeysInD(rg.X)
				}
			}
			return false
		}
		g := staticCallee(&cl.Call)
		if g == s.sanitise && x.Index == 0 {
			// on the nil side of its error at the use, and called with a destination in D
			errs := errResultsOf(cl)
			if len(errs) == 0 || at == nil || !onNilSide(errs[0], at) {
				s.why[v] = "result of sanitiseZipExtractPath used without its error having been found nil"
				return false
			}
			return s.inD(cl.Call.Args[2], cl)
		}
		if g == s.determ && x.Index == 0 {
			if !s.determOK {
				s.why[v] = "determineUnzippedFilepath does not keep its argument inside the directory it names (X4)"
				return false
			}
			return s.inD(cl.Call.Args[0], cl)
		}
		return false
	case *ssa.Call:
		cn := calleeFull(&x.Call)
		switch cn {
		case "path/filepath.Clean", "path/filepath.Dir":
			return s.inD(x.Call.Args[0], x)
		case "path/filepath.Join":
			el := variadicElems(x.Call.Args[0])
			if len(el) < 1 || !s.inD(el[0], x) {
				return false
			}
			for _, e := range el[1:] {
				// further elements must be single components taken from members of D
				cl, ok := e.(*ssa.Call)
				if !ok {
					return false
				}
				n := calleeFull(&cl.Call)
				if (n == modPath+"/filesystem.FilepathStem" || n == "path/filepath.Base") && s.inD(cl.Call.Args[0], cl) {
					continue
				}
				return false
			}
			return true
		}
		return false
	case *ssa.UnOp:
		if x.Op == token.MUL {
			if a, ok := resolveFreeVar(x.X).(*ssa.Alloc); ok {
				var st []ssa.Value
				if al, ok := x.X.(*ssa.Alloc); ok {
					st, _ = reachingStores(x, al)
				} else {
					st = storesToDeep(a)
				}
				if len(st) == 0 {
					return false
				}
				for _, e := range st {
					if !s.inD(e, at) {
						return false
					}
				}
				return true
			}
		}
		return false
	}
	return false
}

// paramInD: trusted when it is the destination of an exported entry point;
// for unexported functions all call sites must pass members of D.
func (s *c02State) paramInD(p *ssa.Parameter) bool {
	f := p.Parent()
	if f.Parent() != nil {
		return false
	}
	idx := -1
	for i, q := range f.Params {
		if q == p {
			idx = i
		}
	}
	exported := f.Object() != nil && f.Object().Exported()
	if exported {
		return p.Name() == "destination" || p.Name() == "dest"
	}
	sites := 0
	ok := true
	for _, g := range s.c.srcFuncs(fsPkgRel) {
		allInstrs(g, func(in ssa.Instruction) {
			cc := callCommon(in)
			if cc == nil || staticCallee(cc) != f {
				return
			}
			sites++
			if outermost(g).Object() != nil && outermost(g).Object().Exported() && outermost(g) == g {
				// exported wrapper passing its own destination parameter through
				if q, isP := cc.Args[idx].(*ssa.Parameter); isP && (q.Name() == "destination" || q.Name() == "dest") {
					return
				}
			}
			if !s.inD(cc.Args[idx], in) {
				ok = false
				s.why[p] = "call at " + s.c.ipos(in) + " passes " + cc.Args[idx].String() + " (" + s.why[cc.Args[idx]] + ")"
			}
		})
	}
	return ok && sites > 0
}

// mapKeysInD: m is a map parameter (or local map); every MapUpdate on the maps
// that flow into it has a key in D.
func (s *c02State) mapKeysInD(m ssa.Value) bool {
	maps := []ssa.Value{m}
	if p, ok := m.(*ssa.Parameter); ok {
		f := p.Parent()
		idx := -1
		for i, q := range f.Params {
			if q == p {
				idx = i
			}
		}
		maps = nil
		for _, g := range s.c.srcFuncs(fsPkgRel) {
			allInstrs(g, func(in ssa.Instruction) {
				if cc := callCommon(in); cc != nil && staticCallee(cc) == f {
					maps = append(maps, cc.Args[idx])
				}
			})
		}
		if len(maps) == 0 {
			return false
		}
	}
	for _, mv := range maps {
		mk, ok := mv.(*ssa.MakeMap)
		if !ok {
			return false
		}
		for _, r := range *mk.Referrers() {
			if mu, ok := r.(*ssa.MapUpdate); ok {
				if !s.inD(mu.Key, mu) {
					s.why[m] = "map key at " + s.c.ipos(mu) + " not sanitised"
					return false
				}
			}
		}
	}
	return true
}

// checkTranscoder (X4). Transcoding runs after sanitisation, on a member of D. It may only replace the last
// element of the path, by something that is itself a single element: converting the whole path re-encodes the
// destination too (a destination "josé" becomes "josÃ©": the file is created next to the destination, not in it),
// and a converted name that is not re-examined can become ".." or contain a separator.
func (s *c02State) checkTranscoder() {
	c, f := s.c, s.determ
	c.FuncsSeen[fname(f)] = true
	key := fname(f) + "/stays-in-directory"
	p := f.Params[0]
	bad, pos := "", c.pos(f.Pos())
	n := 0
	allInstrs(f, func(in ssa.Instruction) {
		r, ok := in.(*ssa.Return)
		if !ok || isErrorExit(f, r) || bad != "" {
			return
		}
		n++
		v := resolveValue(r.Results[0])
		if v == ssa.Value(p) {
			return
		}
		pos = c.ipos(r)
		cl, isCall := v.(*ssa.Call)
		if !isCall || calleeFull(&cl.Call) != "path/filepath.Join" {
			what := v.String()
			if ex, isEx := v.(*ssa.Extract); isEx {
				if tc, isTC := ex.Tuple.(*ssa.Call); isTC {
					what = "the result of " + calleeFull(&tc.Call)
				}
			} else if isCall {
				what = "the result of " + calleeFull(&cl.Call)
			}
			bad = "the path returned is " + what + " applied to the whole path, destination included: the destination prefix established by the sanitiser is not preserved (a destination with non-ASCII characters is re-encoded and the file lands outside it)"
			return
		}
		el := variadicElems(cl.Call.Args[0])
		if len(el) != 2 {
			bad = "the path returned is a Join of " + strconv.Itoa(len(el)) + " elements"
			return
		}
		dirOK := false
		switch d := resolveValue(el[0]).(type) {
		case *ssa.Extract:
			if tc, isTC := d.Tuple.(*ssa.Call); isTC && d.Index == 0 && calleeFull(&tc.Call) == "path/filepath.Split" && resolveValue(tc.Call.Args[0]) == ssa.Value(p) {
				dirOK = true
			}
		case *ssa.Call:
			if calleeFull(&d.Call) == "path/filepath.Dir" && resolveValue(d.Call.Args[0]) == ssa.Value(p) {
				dirOK = true
			}
		}
		if !dirOK {
			bad = "the first element of the path returned is not the directory of the argument"
			return
		}
		e := el[1]
		same := func(a ssa.Value) bool { return a == e || sameValue(a, e) || resolveValue(a) == resolveValue(e) }
		isBaseOfE := func(a ssa.Value) bool {
			bc, ok := a.(*ssa.Call)
			return ok && calleeFull(&bc.Call) == "path/filepath.Base" && same(bc.Call.Args[0])
		}
		elementTest := func(op token.Token) func(ssa.Value) bool {
			return func(v ssa.Value) bool {
				b, ok := v.(*ssa.BinOp)
				return ok && b.Op == op && ((same(b.X) && isBaseOfE(b.Y)) || (same(b.Y) && isBaseOfE(b.X)))
			}
		}
		dotdot := func(v ssa.Value) bool {
			b, ok := v.(*ssa.BinOp)
			if !ok || b.Op != token.EQL {
				return false
			}
			sx, okx := constString(b.X)
			sy, oky := constString(b.Y)
			return (same(b.X) && oky && sy == "..") || (same(b.Y) && okx && sx == "..")
		}
		single := onBoolSide(r, false, elementTest(token.NEQ)) || onBoolSide(r, true, elementTest(token.EQL))
		if !single {
			bad = "the converted name joined to the directory has not been found equal to its own filepath.Base: conversion can yield a name with a separator in it"
			return
		}
		if !onBoolSide(r, false, dotdot) {
			bad = "the converted name joined to the directory can be \"..\" (no test excludes it): the path then resolves to the parent of the sanitised directory"
			return
		}
	})
	if n == 0 {
		bad = "no successful return found"
	}
	s.determOK = bad == ""
	c.check(bad == "", "X4", key, pos, "returns its argument, or its directory joined with a converted name tested to be a single element other than \"..\"", bad)
}

func runC02(c *Ctx) {
	c.everyEntryIsSanitised()
	c.rule("X1", "every path argument of a mutating filesystem call in the extraction call graph belongs to D (derived from the sanitiser's accepted result or the caller's cleaned destination)", 6)
	c.rule("X2", "every accepting return of sanitiseZipExtractPath is on the true side of a containment predicate over filepath.Join(destination, name) and returns that joined path; a directory derived from the stem of an accepted path cannot be a parent reference", 2)
	c.rule("X4", "the transcoder of non-UTF-8 names keeps a sanitised path in its directory: it returns its argument, or Join(directory of the argument, converted name) where the converted name was found to be a single path element (equal to its own filepath.Base, not \"..\")", 1)
	c.contextConverterGoesByIdentity("X7", "the refusal of an escaping entry of a nested archive is re-wrapped with commonerrors.Newf, which starts with this call; its description contains the entry's name and the destination: a nested entry `../../context canceled/evil.txt` is then refused as 'cancelled' instead of 'suspected malicious intent'")
	c.rule("X3", "the sanitiser refuses with the ErrMalicious kind; unzip returns the sanitiser's error unchanged", 2)

	st := &c02State{c: c, memo: map[ssa.Value]int{}, why: map[ssa.Value]string{}}
	st.sanitise = c.fn(fsPkgRel, "sanitiseZipExtractPath")
	st.determ = c.fn(fsPkgRel, "determineUnzippedFilepath")
	st.unzip = c.fn(fsPkgRel, "(*VFS).unzip")
	if st.sanitise == nil || st.determ == nil || st.unzip == nil {
		return
	}
	st.checkTranscoder()
	// X8: the guard X6 lets a *directory* entry designate the destination. Whether an entry is a directory is asked of the entry
	// once and for all — zip.FileHeader.FileInfo().IsDir(), which goes by the trailing slash *and* by the directory bit of the
	// mode: the extraction of a file (unzipZippedFile) lies on the false side of that very question. Decided by another
	// predicate (the trailing slash alone), an entry named `.` with the directory bit set passes the guard as a directory and
	// is then written as a file in the place of the destination.
	c.rule("X8", "in unzip an entry is extracted as a file (unzipZippedFile) only on the false side of FileInfo().IsDir() of that entry: the question the destination guard asks is the question that decides", 1)
	{
		unz := st.unzip
		isIsDir := func(v ssa.Value) bool {
			cl, ok := v.(*ssa.Call)
			if !ok || !cl.Call.IsInvoke() || cl.Call.Method.Name() != "IsDir" {
				return false
			}
			for _, l := range sources(cl.Call.Value, deriveOpts{}) {
				if k, ok := l.(*ssa.Call); ok && strings.HasSuffix(calleeFull(&k.Call), "zip.FileHeader).FileInfo") {
					return true
				}
			}
			return false
		}
		bad := ""
		n := 0
		allInstrs(unz, func(in ssa.Instruction) {
			cl, ok := in.(*ssa.Call)
			if !ok {
				return
			}
			if g := staticCallee(&cl.Call); g != nil && g.Name() == "unzipZippedFile" {
				n++
				if !onBoolSide(cl, false, isIsDir) {
					bad = c.ipos(cl)
				}
			}
		})
		c.check(n > 0 && bad == "", "X8", fname(unz)+"/file-or-directory-asked-once", c.pos(unz.Pos()), "a file is extracted only where FileInfo().IsDir() answered false",
			"the entry extracted as a file at "+bad+" was not found not to be a directory by FileInfo().IsDir() (another predicate — the trailing slash of the name — decides): an entry named `.` or `a/..` whose mode carries the directory bit, as archivers write it, passes the destination guard as a directory and is then written as a file in the place of the destination; in recursive mode, at a destination named like an archive, its content is extracted next to the destination and the call returns nil")
	}
	// X6: a *file* entry whose name resolves to the destination itself is refused before anything is written: where the
	// sanitised path was found equal to the destination an error exit is taken (for the entries that are not directories),
	// and that test comes before the file is extracted (the defect F90 of the pinned sources, repaired).
	c.rule("X6", "unzip compares the sanitised path of an entry with its destination and has an error exit on the equal side, ahead of every extraction of a file entry: a file is never written in the place of the destination", 1)
	{
		unz := st.unzip
		dest := paramIndexByName(unz, "destination")
		fromDest := func(v ssa.Value) bool {
			n := 0
			for _, l := range sources(v, deriveOpts{through: func(n string) bool { return strings.HasSuffix(n, "filepath.Clean") }}) {
				n++
				if dest < 0 || l != ssa.Value(unz.Params[dest]) {
					return false
				}
			}
			return n > 0
		}
		fromSanitiser := func(v ssa.Value) bool {
			for _, l := range sources(v, deriveOpts{}) {
				if ex, ok := l.(*ssa.Extract); ok && ex.Index == 0 {
					if cl, ok := ex.Tuple.(*ssa.Call); ok && staticCallee(&cl.Call) == st.sanitise {
						return true
					}
				}
			}
			return false
		}
		var gate *ssa.BasicBlock
		gateEq := 0
		for _, b := range unz.Blocks {
			ifi, ok := b.Instrs[len(b.Instrs)-1].(*ssa.If)
			if !ok {
				continue
			}
			bo, ok := ifi.Cond.(*ssa.BinOp)
			if !ok || (bo.Op != token.EQL && bo.Op != token.NEQ) {
				continue
			}
			if !((fromSanitiser(bo.X) && fromDest(bo.Y)) || (fromSanitiser(bo.Y) && fromDest(bo.X))) {
				continue
			}
			eq := 0
			if bo.Op == token.NEQ {
				eq = 1
			}
			// an error exit on the equal side
			refuses := false
			allInstrs(unz, func(in ssa.Instruction) {
				if r, ok := in.(*ssa.Return); ok && isErrorExit(unz, r) && edgeDominates(b, eq, r.Block()) {
					refuses = true
				}
			})
			if refuses {
				gate, gateEq = b, eq
			}
		}
		_ = gateEq
		key := fname(unz) + "/no-file-in-the-place-of-the-destination"
		if gate == nil {
			c.violate("X6", key, c.pos(unz.Pos()), "unzip no longer refuses an entry whose sanitised path is the destination itself: the sanitiser accepts such a name (\".\", \"a/..\"), and a file entry of that name is written in the place of the destination — on the in-memory backend onto the directory node, on the OS backend over a destination that is an existing file; content that is an archive, at a destination named like one, is then extracted next to it")
		} else {
			bad := ""
			allInstrs(unz, func(in ssa.Instruction) {
				cl, ok := in.(*ssa.Call)
				if !ok {
					return
				}
				if g := staticCallee(&cl.Call); g != nil && g.Name() == "unzipZippedFile" && !gate.Dominates(cl.Block()) {
					bad = c.ipos(cl)
				}
			})
			c.check(bad == "", "X6", key, c.ipos(gate.Instrs[len(gate.Instrs)-1]), "the comparison with the destination (and its error exit) comes before every extraction of a file entry",
				"the file entry extracted at "+bad+" is not preceded by the comparison of its path with the destination: a file can be written in the place of the destination")
		}
	}
	// extraction call graph: unzip + unexported package functions it reaches
	reach := c.reachable([]*ssa.Function{st.unzip}, false, func(g *ssa.Function) bool {
		if !inPkg(fsPkgRel)(g) {
			return false
		}
		o := outermost(g)
		return o.Object() == nil || !o.Object().Exported()
	})
	var fns []*ssa.Function
	for g := range reach {
		fns = append(fns, g)
	}
	sortFuncs(fns)
	for _, g := range fns {
		c.FuncsSeen[fname(g)] = true
		allInstrs(g, func(in ssa.Instruction) {
			name, args, ok := fsMethodCall(in)
			if !ok || !fsMutators[name] {
				return
			}
			// path arguments: string-typed arguments (flags/perm are ints; contexts skipped)
			if name == "OpenFile" {
				if flag, isC := constInt(args[1]); isC && flag&0x3 == 0 && flag&0x40 == 0 && flag&0x200 == 0 {
					return // read-only open
				}
			}
			for i, a := range args {
				if b, ok := a.Type().Underlying().(*types.Basic); !ok || b.Kind() != types.String {
					continue
				}
				if name == "WriteFile" && i > 0 {
					continue
				}
				key := fname(outermost(g)) + "/" + name
				if st.inD(a, in) {
					c.ok("X1", key, c.ipos(in), "path derives from the sanitised entry path / the cleaned destination")
				} else {
					why := st.why[a]
					c.violate("X1", key, c.ipos(in), "the path handed to "+name+" is not derived from the sanitiser's accepted result or the cleaned destination ("+why+"): an entry name with parent references or an absolute name can escape the destination")
				}
			}
		})
	}

	// ---- X2 -----------------------------------------------------------------
	san := st.sanitise
	c.FuncsSeen[fname(san)] = true
	destP, nameP := san.Params[2], san.Params[1]
	isJoined := func(v ssa.Value) bool {
		cl, ok := resolveValue(v).(*ssa.Call)
		if !ok || calleeFull(&cl.Call) != "path/filepath.Join" {
			return false
		}
		el := variadicElems(cl.Call.Args[0])
		return len(el) == 2 && el[0] == ssa.Value(destP) && el[1] == ssa.Value(nameP)
	}
	var part func(v ssa.Value) (hasDest, hasSep, ok bool)
	part = func(v ssa.Value) (bool, bool, bool) {
		v = resolveValue(v)
		if v == ssa.Value(destP) {
			return true, false, true
		}
		if s, isC := constString(v); isC && (s == "/" || s == "\\") {
			return false, true, true
		}
		if cv, isCv := v.(*ssa.Convert); isCv && isSeparatorValue(cv.X) {
			return false, true, true
		}
		if isSeparatorValue(v) {
			return false, true, true
		}
		switch x := v.(type) {
		case *ssa.BinOp:
			if x.Op == token.ADD {
				d1, s1, o1 := part(x.X)
				d2, s2, o2 := part(x.Y)
				// destination first, separator last
				return d1 || d2, s1 || s2, o1 && o2 && !s1 && !d2
			}
		case *ssa.Call:
			if calleeFull(&x.Call) == "fmt.Sprintf" {
				format, isC := constString(x.Call.Args[0])
				el := variadicElems(x.Call.Args[1])
				if !isC {
					return false, false, false
				}
				switch {
				case (format == "%v%v" || format == "%s%s" || format == "%v%s" || format == "%s%v" || format == "%v%c" || format == "%s%c") && len(el) == 2:
					d1, _, o1 := part(el[0])
					_, s2, o2 := part(el[1])
					// a separator handed over as a rune prints as its number with %v and %s ("dest47"): only %c prints the character
					if bt, isB := resolveValue(el[1]).Type().Underlying().(*types.Basic); isB && bt.Info()&types.IsInteger != 0 && !strings.HasSuffix(format, "%c") {
						return d1, false, false
					}
					return d1, s2, o1 && o2 && d1 && s2
				case (format == "%v/" || format == "%s/") && len(el) == 1:
					d1, _, o1 := part(el[0])
					return d1, true, o1 && d1
				}
			}
		}
		return false, false, false
	}
	isDestPlusSep := func(v ssa.Value) bool {
		d, sp, ok := part(v)
		return d && sp && ok
	}
	containment := func(v ssa.Value) bool {
		switch x := v.(type) {
		case *ssa.BinOp:
			if x.Op == token.EQL && ((isJoined(x.X) && x.Y == ssa.Value(destP)) || (isJoined(x.Y) && x.X == ssa.Value(destP))) {
				return true
			}
		case *ssa.Call:
			cn := calleeFull(&x.Call)
			if cn == "strings.HasPrefix" && isJoined(x.Call.Args[0]) && isDestPlusSep(x.Call.Args[1]) {
				return true
			}
			if cn == "path/filepath.IsLocal" && x.Call.Args[0] == ssa.Value(nameP) {
				return true
			}
		}
		return false
	}
	// the same containment stated on the relative path: rel, err := filepath.Rel(destination, joined); accepted where
	// err == nil, rel != ".." and rel does not start with "../" (or ".." + separator)
	relContainment := func(r *ssa.Return) bool {
		var relCall *ssa.Call
		allInstrs(san, func(in ssa.Instruction) {
			if cl, ok := in.(*ssa.Call); ok && calleeFull(&cl.Call) == "path/filepath.Rel" && cl.Call.Args[0] == ssa.Value(destP) && isJoined(cl.Call.Args[1]) {
				relCall = cl
			}
		})
		if relCall == nil {
			return false
		}
		var rel, relErr ssa.Value
		for _, rr := range *relCall.Referrers() {
			if ex, ok := rr.(*ssa.Extract); ok {
				if ex.Index == 0 {
					rel = ex
				} else {
					relErr = ex
				}
			}
		}
		if rel == nil || relErr == nil || !onNilSide(relErr, r) {
			return false
		}
		isDotDot := func(v ssa.Value) bool { cs, ok := constString(v); return ok && cs == ".." }
		notParent := onBoolSide(r, true, func(v ssa.Value) bool {
			b, ok := v.(*ssa.BinOp)
			return ok && b.Op == token.NEQ && ((b.X == rel && isDotDot(b.Y)) || (b.Y == rel && isDotDot(b.X)))
		}) || onBoolSide(r, false, func(v ssa.Value) bool {
			b, ok := v.(*ssa.BinOp)
			return ok && b.Op == token.EQL && ((b.X == rel && isDotDot(b.Y)) || (b.Y == rel && isDotDot(b.X)))
		})
		noPrefix := onBoolSide(r, false, func(v ssa.Value) bool {
			cl, ok := v.(*ssa.Call)
			if !ok || calleeFull(&cl.Call) != "strings.HasPrefix" || cl.Call.Args[0] != rel {
				return false
			}
			if cs, ok := constString(cl.Call.Args[1]); ok && (cs == "../" || cs == "..\\") {
				return true
			}
			// ".." + separator built with Sprintf / concatenation
			for _, l := range sources(cl.Call.Args[1], deriveOpts{through: func(string) bool { return true }}) {
				if cs, ok := constString(l); ok && strings.HasPrefix(cs, "..") {
					return true
				}
			}
			return false
		})
		return notParent && noPrefix
	}
	accepts := 0
	allInstrs(san, func(in ssa.Instruction) {
		r, ok := in.(*ssa.Return)
		if !ok || isErrorExit(san, r) {
			return
		}
		accepts++
		key := fname(san) + "/accept"
		guarded := onBoolSide(r, true, containment) || relContainment(r)
		retJoined := isJoined(r.Results[0])
		switch {
		case !guarded:
			c.violate("X2", key, c.ipos(r), "this accepting return is not guarded by a containment test (joined path == destination, or HasPrefix(joined path, destination+separator)): a path outside the destination is accepted")
		case !retJoined:
			c.violate("X2", key, c.ipos(r), "the path returned is not the joined path that was tested")
		default:
			c.ok("X2", key, c.ipos(r), "accept guarded by a containment predicate on Join(destination, name)")
		}
	})
	// X2b: the nested destination is Join(Dir(d), FilepathStem(d)); the stem of an accepted path must not be "..":
	// every accepting return other than `p == destination` must also be on the false side of strings.Contains(p, "..")
	usesStem := false
	for _, g := range fns {
		allInstrs(g, func(in ssa.Instruction) {
			if cl, ok := in.(*ssa.Call); ok && (strings.HasSuffix(calleeFull(&cl.Call), "filesystem.FilepathStem") || calleeFull(&cl.Call) == "path/filepath.Base") {
				usesStem = true
			}
		})
	}
	if usesStem {
		noDots := func(v ssa.Value) bool {
			cl, ok := v.(*ssa.Call)
			if !ok || calleeFull(&cl.Call) != "strings.Contains" {
				return false
			}
			s2, isC := constString(cl.Call.Args[1])
			return isC && s2 == ".." && (isJoined(cl.Call.Args[0]) || cl.Call.Args[0] == ssa.Value(nameP))
		}
		isEq := func(v ssa.Value) bool {
			b, ok := v.(*ssa.BinOp)
			return ok && b.Op == token.EQL && (isJoined(b.X) || isJoined(b.Y))
		}
		// (0) whatever the form, an accepted path has no ".." element: Join cleans, but a relative destination made of
		// parent references only ("..", "../..") is a textual prefix of paths that climb further up ("../../x" starts
		// with "../"), so the prefix test alone is not a containment test for such destinations
		elementGuard := func(v ssa.Value) bool {
			if noDots(v) {
				return true
			}
			cl, ok := v.(*ssa.Call)
			if !ok {
				return false
			}
			g := staticCallee(&cl.Call)
			if g == nil || g.Blocks == nil || !inPkg(fsPkgRel)(g) {
				return false
			}
			onJoined := false
			for _, a := range cl.Call.Args {
				if isJoined(a) {
					onJoined = true
				}
			}
			if !onJoined {
				return false
			}
			// the predicate compares something with ".." and answers a boolean
			cmp := false
			allInstrs(g, func(j ssa.Instruction) {
				if b, ok := j.(*ssa.BinOp); ok && b.Op == token.EQL {
					for _, o := range []ssa.Value{b.X, b.Y} {
						if cs, ok := constString(o); ok && cs == ".." {
							cmp = true
						}
					}
				}
			})
			return cmp
		}
		unguarded := ""
		allInstrs(san, func(in ssa.Instruction) {
			r, ok := in.(*ssa.Return)
			if !ok || isErrorExit(san, r) || onBoolSide(r, true, isEq) || relContainment(r) {
				return
			}
			if !onBoolSide(r, false, elementGuard) {
				unguarded = c.ipos(r)
			}
		})
		c.check(unguarded == "", "X2", fname(san)+"/no-parent-element", c.pos(san.Pos()), "accepted paths have no \"..\" element (or are accepted on their path relative to the destination)",
			"the accepting return at "+unguarded+" rests on the textual prefix test alone: for a relative destination made of parent references only (\"..\", \"../..\") the joined path of an entry that climbs further up (\"../escaped.txt\" gives \"../../escaped.txt\") still starts with destination + separator — the entry is created outside the destination and no error is returned")
		// (a) the sanitiser refuses every path with ".." anywhere in it
		substringForm := true
		allInstrs(san, func(in ssa.Instruction) {
			r, ok := in.(*ssa.Return)
			if !ok || isErrorExit(san, r) {
				return
			}
			if onBoolSide(r, true, isEq) {
				return
			}
			if !onBoolSide(r, false, noDots) {
				substringForm = false
			}
		})
		// (b) or every directory derived from the stem of an accepted path tests that stem against ".." first
		bad := ""
		if !substringForm {
			for _, g := range fns {
				if g == st.determ {
					continue // covered by X4
				}
				allInstrs(g, func(in ssa.Instruction) {
					jc, ok := in.(*ssa.Call)
					if !ok || calleeFull(&jc.Call) != "path/filepath.Join" {
						return
					}
					for _, e := range variadicElems(jc.Call.Args[0])[1:] {
						sv := resolveValue(e)
						sc, isCall := sv.(*ssa.Call)
						if !isCall || !(strings.HasSuffix(calleeFull(&sc.Call), "filesystem.FilepathStem") || calleeFull(&sc.Call) == "path/filepath.Base") {
							continue
						}
						tested := onBoolSide(jc, false, func(v ssa.Value) bool {
							b, ok := v.(*ssa.BinOp)
							if !ok || b.Op != token.EQL {
								return false
							}
							x, y := resolveValue(b.X), resolveValue(b.Y)
							cs, okc := constString(y)
							if okc && cs == ".." && x == sv {
								return true
							}
							cs, okc = constString(x)
							return okc && cs == ".." && y == sv
						})
						if !tested {
							bad = c.ipos(jc)
						}
					}
				})
			}
		}
		c.check(bad == "", "X2", fname(san)+"/no-parent-component", c.pos(san.Pos()), "the stem used for a nested archive's destination cannot be a parent reference (refused by the sanitiser, or tested where the directory is derived)",
			"the directory derived at "+bad+" joins the stem of an accepted path (FilepathStem/Base) without having tested it against \"..\", while the sanitiser admits names such as `...zip` whose stem is \"..\": the nested archive is then extracted into the parent of the directory it is in — outside the destination")
	}
	if accepts == 0 {
		c.violate("X2", fname(san)+"/accept", c.pos(san.Pos()), "the sanitiser accepts nothing or is no longer recognisable")
	}

	// ---- X3 -----------------------------------------------------------------
	mal := false
	allInstrs(san, func(in ssa.Instruction) {
		r, ok := in.(*ssa.Return)
		if !ok || !isErrorExit(san, r) {
			return
		}
		for _, l := range sources(r.Results[1], deriveOpts{}) {
			if cl, ok := l.(*ssa.Call); ok && strings.HasPrefix(calleeFull(&cl.Call), modPath+"/commonerrors.New") {
				if isGlobalLoad(cl.Call.Args[0], "ErrMalicious") {
					mal = true
				}
			}
		}
	})
	c.check(mal, "X3", fname(san)+"/kind", c.pos(san.Pos()), "refusal of kind ErrMalicious", "the sanitiser's refusal no longer carries the 'suspected malicious intent' kind")
	// unzip: every call of the sanitiser is followed, on its non-nil side, by a return of that error
	n := 0
	bad := ""
	allInstrs(st.unzip, func(in ssa.Instruction) {
		cl, ok := in.(*ssa.Call)
		if !ok || staticCallee(&cl.Call) != san {
			return
		}
		n++
		errs := errResultsOf(cl)
		found := false
		for _, b := range st.unzip.Blocks {
			r, ok := b.Instrs[len(b.Instrs)-1].(*ssa.Return)
			if !ok || len(errs) == 0 || !onNonNilSide(errs[0], r) {
				continue
			}
			k := len(r.Results) - 1
			ls := sources(r.Results[k], deriveOpts{})
			if len(ls) == 1 && ls[0] == errs[0] {
				found = true
			}
		}
		if !found {
			bad = c.ipos(cl)
		}
	})
	c.check(n > 0 && bad == "", "X3", fname(st.unzip)+"/propagates", c.pos(st.unzip.Pos()), "the sanitiser's error is returned unchanged", "the sanitiser's refusal at "+bad+" is not returned as is by unzip (ignored or re-wrapped into another kind)")
}

func isSeparatorValue(v ssa.Value) bool {
	v = stripConv(v)
	if cv, ok := v.(*ssa.Convert); ok {
		v = stripConv(cv.X)
	}
	if cl, ok := v.(*ssa.Call); ok {
		if cl.Call.IsInvoke() && cl.Call.Method.Name() == "PathSeparator" {
			return true
		}
		if strings.HasSuffix(calleeFull(&cl.Call), ").PathSeparator") || strings.HasSuffix(calleeFull(&cl.Call), ".PathSeparator") {
			return true
		}
	}
	if k, ok := v.(*ssa.Const); ok && k.Value != nil {
		if n, ok := constInt(k); ok && (n == '/' || n == '\\') {
			return true
		}
	}
	return false
}

func sortFuncs(fs []*ssa.Function) {
	for i := 1; i < len(fs); i++ {
		for j := i; j > 0 && fs[j].Pos() < fs[j-1].Pos(); j-- {
			fs[j], fs[j-1] = fs[j-1], fs[j]
		}
	}
}
