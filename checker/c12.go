package main

import (
	"go/token"
	"go/types"
	"strconv"
	"strings"

	"golang.org/x/tools/go/ssa"
)

func init() {
	register(&propCheck{
		id:          "C12",
		level:       "other",
		explanation: "Static hand-off discipline of package parallelisation, the structural condition that makes the completion instant irrelevant: (T1) every channel send or receive outside a select with an alternative is on a channel made in the same function whose partner is guaranteed — a send needs a buffer at least as large as the number of senders, a receive needs a goroutine started by the function that sends on every path, or (context channels) a preceding call of that context's cancel function; a send on an unbuffered channel whose only receiver is caller-supplied code is a violation; (T2) in each runner's select the timeout case triggers the action's stop signal before it waits for the action, and returns the timeout kind; (T3) every cancel function created is called on every exit or registered in a cancel store, and every store created locally is cancelled on every exit; (T4) the cancel store's slice is appended under the write lock, read under at least the read lock, and Cancel's loop visits every element; (T5) Parallelise starts exactly one goroutine per index below the length, each calls the action exactly once and then sends, and the collecting loop is bounded by the same length. Decided on SSA; nothing is executed or scheduled. Not decided: timing, that the action looks at its signal, goroutine counts at run time.",
		run:         runC12,
		assumptions: []string{
			"caller-supplied actions eventually return once their stop signal has been triggered",
			"goroutines started by a runner are scheduled eventually",
		},
	})
}

const parPkg = "parallelisation"

func runC12(c *Ctx) {
	c.paralleliseReturnsTheInvocationsError()
	c.rule("T1", "standalone channel operations have a guaranteed partner (buffered send sized to its senders; receive from a goroutine that always sends, or from Done() of a context whose cancel was just called)", 6)
	c.rule("T2", "in a runner's select the timeout/cancel case triggers the action's stop signal before waiting for the action and yields the timeout kind; the completion case yields the action's own result", 4)
	c.rule("T3", "every cancel function from context.With* is called on every exit or registered in a CancelFunctionStore; every store created in a function is cancelled on every exit", 5)
	c.rule("T4", "CancelFunctionStore.cancelFunctions is appended under mu.Lock and read under at least mu.RLock; Cancel's loop has no early exit", 4)
	c.rule("T11", "after a runner's select, whether the result channel is received from once more is decided by the case the select took (its index, a flag set in the completion case), never by a property of the error: the channel carries one value", 1)
	c.rule("T7", "the runners report the end of a context by its Err() (converted): context.Cause is not used in package parallelisation or in commonerrors", 0)
	c.rule("T6", "Parallelise: the value handed to reflect.Append is not the bare reflect.ValueOf of a result that may be nil: its validity is tested (nil results are results too)", 1)
	c.rule("T8", "Parallelise: each goroutine is handed its argument by value — the element is read from the caller's list before the goroutine is started, not whenever it gets to run (the function returns at the first error, before every goroutine has run)", 1)
	c.rule("T5", "Parallelise: one goroutine per index < length, each calls the action exactly once before its single send; the result loop is bounded by the same length", 3)

	for _, f := range c.srcFuncs(parPkg) {
		c.FuncsSeen[fname(f)] = true
		if f.Parent() == nil {
			c.c12Channels(f)
			c.c12Cancels(f)
			c.c12Select(f)
		}
	}
	c.c12Store()
	c.c12Parallelise()
	c.c12StoreKeepsItsOwnArray()
	c.c12StoreHandedOverStopsEverything()
	c.c12NilResults()
	c.noContextCause("T7", []string{"parallelisation", "commonerrors"})
}

// chanOrigin follows a channel value to its MakeChan (through closure
// bindings and go-call arguments). Returns nil when it is not local.
func chanOrigin(v ssa.Value) *ssa.MakeChan {
	seen := map[ssa.Value]bool{}
	for v != nil && !seen[v] {
		seen[v] = true
		v = resolveFreeVar(stripConv(v))
		switch x := v.(type) {
		case *ssa.MakeChan:
			return x
		case *ssa.Parameter:
			// parameter of an anonymous function started with go/called directly: map to the argument
			g := x.Parent()
			if g.Parent() == nil {
				return nil
			}
			idx := -1
			for i, p := range g.Params {
				if p == x {
					idx = i
				}
			}
			var arg ssa.Value
			allInstrs(g.Parent(), func(in ssa.Instruction) {
				if cc := callCommon(in); cc != nil && staticCallee(cc) == g && idx < len(cc.Args) {
					arg = cc.Args[idx]
				}
			})
			v = arg
		case *ssa.UnOp:
			if x.Op == token.MUL {
				if a, ok := resolveFreeVar(x.X).(*ssa.Alloc); ok {
					st := storesToDeep(a)
					if len(st) == 1 {
						v = st[0]
						continue
					}
				}
			}
			return nil
		case *ssa.Phi:
			return nil
		default:
			return nil
		}
	}
	return nil
}

// inLoop reports whether instruction in lies on a cycle of its function's CFG.
func inLoop(in ssa.Instruction) bool {
	b := in.Block()
	seen := map[*ssa.BasicBlock]bool{}
	var walk func(x *ssa.BasicBlock) bool
	walk = func(x *ssa.BasicBlock) bool {
		for _, s := range x.Succs {
			if s == b {
				return true
			}
			if !seen[s] {
				seen[s] = true
				if walk(s) {
					return true
				}
			}
		}
		return false
	}
	return walk(b)
}

// loopBound: if `in` is in a counted loop `for i := 0; i < N; i++`, return N.
func loopBound(in ssa.Instruction) ssa.Value {
	f := in.Parent()
	for _, b := range f.Blocks {
		ifi, ok := b.Instrs[len(b.Instrs)-1].(*ssa.If)
		if !ok {
			continue
		}
		cmp, ok := ifi.Cond.(*ssa.BinOp)
		if !ok || cmp.Op != token.LSS {
			continue
		}
		phi, isPhi := cmp.X.(*ssa.Phi)
		if !isPhi {
			continue
		}
		// counter starts at 0 and steps by +1
		zeroStart, stepOne := false, false
		for _, e := range phi.Edges {
			if n, ok := constInt(e); ok && n == 0 {
				zeroStart = true
			}
			if add, ok := e.(*ssa.BinOp); ok && add.Op == token.ADD && add.X == ssa.Value(phi) {
				if n, ok := constInt(add.Y); ok && n == 1 {
					stepOne = true
				}
			}
		}
		if !zeroStart || !stepOne || len(phi.Edges) != 2 {
			continue
		}
		// in must be inside the loop: reachable from true successor and reaching b again
		if b.Succs[0].Dominates(in.Block()) && inLoop(in) && b.Dominates(in.Block()) {
			return cmp.Y
		}
	}
	return nil
}

func (c *Ctx) c12Channels(outer *ssa.Function) {
	withAnon(outer, func(f *ssa.Function) {
		allInstrs(f, func(in ssa.Instruction) {
			switch x := in.(type) {
			case *ssa.Send:
				c.c12Send(outer, f, x)
			case *ssa.UnOp:
				if x.Op == token.ARROW {
					c.c12Recv(outer, f, x)
				}
			}
		})
	})
}

// goSites: `go` statements in outer (any nesting) whose body is g.
func goSites(outer, g *ssa.Function) []*ssa.Go {
	var out []*ssa.Go
	withAnon(outer, func(f *ssa.Function) {
		allInstrs(f, func(in ssa.Instruction) {
			if gi, ok := in.(*ssa.Go); ok && staticCallee(&gi.Call) == g {
				out = append(out, gi)
			}
		})
	})
	return out
}

func (c *Ctx) c12Send(outer, f *ssa.Function, s *ssa.Send) {
	key := fname(outer) + "/send"
	mk := chanOrigin(s.Chan)
	if mk == nil {
		c.violate("T1", key, c.ipos(s), "blocking send on a channel that is not created by this function: no partner is guaranteed")
		return
	}
	// who receives? if the channel is handed to caller-supplied code, capacity must cover every send
	capConst, isConst := constInt(mk.Size)
	senders := "1"
	needVal := ssa.Value(nil)
	need := int64(1)
	if inLoop(s) {
		c.violate("T1", key, c.ipos(s), "send inside a loop: the number of sends is not bounded by the channel's capacity")
		return
	}
	if f != outer {
		// send from a goroutine body: count the goroutines
		gs := goSites(outer, f)
		if len(gs) == 0 {
			c.undecided("T1", key, c.ipos(s), "sending function literal is not started by a go statement of "+fname(outer))
			return
		}
		need = 0
		for _, g := range gs {
			if inLoop(g) {
				needVal = loopBound(g)
				senders = "loop bound"
			} else {
				need++
			}
		}
	}
	if needVal != nil {
		if mk.Size == needVal {
			c.ok("T1", key, c.ipos(s), "buffer sized by the same value that bounds the spawning loop")
		} else {
			c.violate("T1", key, c.ipos(s), "the channel's capacity is not the bound of the loop that starts the senders: a sender can block forever once the collector has returned early")
		}
		return
	}
	if isConst && capConst >= need {
		c.ok("T1", key, c.ipos(s), "buffered: capacity "+itoa(capConst)+" ≥ "+senders+" sender(s)")
		return
	}
	// unbuffered / too small: acceptable only if a receiver in this function is guaranteed — never the case for code we do not control
	c.violate("T1", key, c.ipos(s), "send on a channel of capacity "+itoa(capConst)+" made at "+c.ipos(mk)+" with "+itoa(need)+" sender(s): when the receiving side (caller-supplied action) has already returned, nobody receives and the runner blocks forever")
}

func itoa(n int64) string {
	if n == 0 {
		return "0"
	}
	neg := n < 0
	if neg {
		n = -n
	}
	s := ""
	for n > 0 {
		s = string(rune('0'+n%10)) + s
		n /= 10
	}
	if neg {
		s = "-" + s
	}
	return s
}

func (c *Ctx) c12Recv(outer, f *ssa.Function, r *ssa.UnOp) {
	key := fname(outer) + "/recv"
	// (a) Done() channel of a context
	if call, ok := stripConv(r.X).(*ssa.Call); ok && call.Call.IsInvoke() && call.Call.Method.Name() == "Done" {
		ctxv := stripConv(call.Call.Value)
		ex, ok := ctxv.(*ssa.Extract)
		if ok {
			if mkc, ok := ex.Tuple.(*ssa.Call); ok && strings.HasPrefix(calleeFull(&mkc.Call), "context.With") {
				// a call of extract #1 of the same tuple must dominate
				good := false
				allInstrs(f, func(in ssa.Instruction) {
					cl, ok := in.(*ssa.Call)
					if !ok {
						return
					}
					if ex2, ok := cl.Call.Value.(*ssa.Extract); ok && ex2.Tuple == ex.Tuple && ex2.Index == 1 && dominates(cl, r) {
						good = true
					}
				})
				c.check(good, "T1", key+":done", c.ipos(r), "waits for Done() right after calling that context's cancel function",
					"blocking wait on ctx.Done() not preceded by the call of that context's cancel function")
				return
			}
		}
		c.violate("T1", key+":done", c.ipos(r), "blocking wait on the Done() channel of a context this function does not cancel itself")
		return
	}
	mk := chanOrigin(r.X)
	if mk == nil {
		// receiving from a foreign channel outside a select
		c.violate("T1", key, c.ipos(r), "blocking receive on a channel not created by this function")
		return
	}
	// (b) local result channel: some goroutine started here sends on every path
	good := false
	withAnon(outer, func(g *ssa.Function) {
		if g == outer || len(goSites(outer, g)) == 0 {
			return
		}
		var snd *ssa.Send
		allInstrs(g, func(in ssa.Instruction) {
			if s, ok := in.(*ssa.Send); ok && chanOrigin(s.Chan) == mk {
				snd = s
			}
		})
		if snd == nil {
			return
		}
		esc := pathFromEntryAvoiding(g, func(in ssa.Instruction) bool { return in == ssa.Instruction(snd) }, isReturn)
		if esc == nil {
			good = true
		}
	})
	c.check(good, "T1", key, c.ipos(r), "a goroutine started by this function sends on every path", "blocking receive with no goroutine of this function guaranteed to send")
}

// ---------------------------------------------------------------------------

func (c *Ctx) c12Cancels(f *ssa.Function) {
	allInstrs(f, func(in ssa.Instruction) {
		call, ok := in.(*ssa.Call)
		if !ok {
			return
		}
		n := calleeFull(&call.Call)
		switch {
		case n == "context.WithCancel" || n == "context.WithTimeout" || n == "context.WithDeadline":
			var cancel *ssa.Extract
			for _, r := range *call.Referrers() {
				if ex, ok := r.(*ssa.Extract); ok && ex.Index == 1 {
					cancel = ex
				}
			}
			key := fname(f) + "/cancel-of:" + strings.TrimPrefix(n, "context.")
			if cancel == nil {
				c.violate("T3", key, c.ipos(call), "cancel function discarded")
				return
			}
			registered := false
			for _, r := range *cancel.Referrers() {
				// stored into a variadic pack passed to RegisterCancelFunction
				if st, ok := r.(*ssa.Store); ok {
					if ia, ok := st.Addr.(*ssa.IndexAddr); ok {
						for _, rr := range *ia.X.Referrers() {
							if sl, ok := rr.(*ssa.Slice); ok {
								for _, r3 := range *sl.Referrers() {
									if cl, ok := r3.(*ssa.Call); ok && strings.HasSuffix(calleeFull(&cl.Call), "CancelFunctionStore).RegisterCancelFunction") && dominates(call, cl) {
										// registration must happen on every path: it dominates all returns reachable
										if pathAvoiding(call, func(i ssa.Instruction) bool { return i == ssa.Instruction(cl) }, isReturn) == nil {
											registered = true
										}
									}
								}
							}
						}
					}
				}
			}
			isCancelCall := func(i ssa.Instruction) bool {
				cc := callCommon(i)
				if cc == nil {
					return false
				}
				if _, isGo := i.(*ssa.Go); isGo {
					return false
				}
				return cc.Value == ssa.Value(cancel)
			}
			called := pathAvoiding(call, isCancelCall, isReturn) == nil
			c.check(registered || called, "T3", key, c.ipos(call), map[bool]string{true: "registered in a cancel store on every path", false: "called (or deferred) on every path to exit"}[registered],
				"the cancel function is neither called on every exit path nor registered in a cancel store: the context handed to the action is not triggered on some exit")
		case strings.HasSuffix(n, "parallelisation.NewCancelFunctionsStore"):
			key := fname(f) + "/store"
			isStoreCancel := func(i ssa.Instruction) bool {
				cc := callCommon(i)
				if cc == nil {
					return false
				}
				if _, isGo := i.(*ssa.Go); isGo {
					return false
				}
				return strings.HasSuffix(calleeFull(cc), "CancelFunctionStore).Cancel") && len(cc.Args) > 0 && stripConv(cc.Args[0]) == ssa.Value(call)
			}
			// returned to the caller? then it is the caller's
			escapes := false
			allInstrs(f, func(i ssa.Instruction) {
				if r, ok := i.(*ssa.Return); ok {
					for _, v := range r.Results {
						if stripConv(v) == ssa.Value(call) {
							escapes = true
						}
					}
				}
				if st, ok := i.(*ssa.Store); ok && stripConv(st.Val) == ssa.Value(call) {
					if _, isField := st.Addr.(*ssa.FieldAddr); isField {
						escapes = true
					}
				}
			})
			if escapes {
				c.ok("T3", key, c.ipos(call), "store handed to the caller / kept in a structure")
				return
			}
			esc := pathAvoiding(call, isStoreCancel, isReturn)
			c.check(esc == nil, "T3", key, c.ipos(call), "store.Cancel() on every exit", "locally created cancel store is not cancelled on the exit at "+c.iposOr(esc))
		}
	})
}

func (c *Ctx) iposOr(in ssa.Instruction) string {
	if in == nil {
		return "-"
	}
	return c.ipos(in)
}

// ---------------------------------------------------------------------------

// selectCase returns the block executed when select `sel` picks state k.
func selectCase(sel *ssa.Select, k int) *ssa.BasicBlock {
	var idx *ssa.Extract
	for _, r := range *sel.Referrers() {
		if ex, ok := r.(*ssa.Extract); ok && ex.Index == 0 {
			idx = ex
		}
	}
	if idx == nil {
		return nil
	}
	for _, r := range *idx.Referrers() {
		b, ok := r.(*ssa.BinOp)
		if !ok || b.Op != token.EQL {
			continue
		}
		n, ok := constInt(b.Y)
		if !ok || int(n) != k {
			continue
		}
		for _, rr := range *b.Referrers() {
			if ifi, ok := rr.(*ssa.If); ok {
				return ifi.Block().Succs[0]
			}
		}
	}
	return nil
}

func (c *Ctx) c12Select(f *ssa.Function) {
	if !strings.HasPrefix(f.Name(), "RunActionWithTimeout") {
		return
	}
	allInstrs(f, func(in ssa.Instruction) {
		sel, ok := in.(*ssa.Select)
		if !ok {
			return
		}
		// classify states
		timeoutIdx, doneIdx := -1, -1
		var resultChan *ssa.MakeChan
		var waitedCtx ssa.Value // the context whose Done channel the timeout case waits on, nil for a plain timer
		for i, st := range sel.States {
			if st.Dir != types.RecvOnly {
				continue
			}
			src := stripConv(st.Chan)
			if call, ok := src.(*ssa.Call); ok {
				n := calleeFull(&call.Call)
				if n == "time.After" || (call.Call.IsInvoke() && call.Call.Method.Name() == "Done") {
					timeoutIdx = i
					if n != "time.After" {
						waitedCtx = call.Call.Value
					}
					continue
				}
			}
			if mk := chanOrigin(st.Chan); mk != nil {
				doneIdx = i
				resultChan = mk
			}
		}
		key := fname(f) + "/select"
		if timeoutIdx < 0 || doneIdx < 0 {
			c.violate("T2", key, c.ipos(sel), "the runner's select no longer has both a completion case (result channel) and a timeout case")
			return
		}
		tb := selectCase(sel, timeoutIdx)
		if tb == nil {
			c.undecided("T2", key, c.ipos(sel), "cannot locate the timeout case")
			return
		}
		// T11: the result channel carries one value. After the select, whether the runner still has to receive it is a
		// matter of which case the select took — the index, or a flag set in the completion case — not of what the error
		// looks like: an action that finished in time with an error of the 'timeout' kind (a nested runner, a deadline of
		// its own) has had its only value consumed by the select, and a second receive blocks for ever.
		{
			n := 0
			allInstrs(f, func(j ssa.Instruction) {
				r, ok := j.(*ssa.UnOp)
				if !ok || r.Op != token.ARROW || chanOrigin(r.X) != resultChan || !sel.Block().Dominates(r.Block()) || r.Block() == sel.Block() {
					return
				}
				if cb := selectCase(sel, timeoutIdx); cb != nil && cb.Dominates(r.Block()) {
					return // inside the timeout case: the select itself says the value is still to come
				}
				k := key + ":wait-decided-by-the-case-taken"
				if n > 0 {
					k += "#" + strconv.Itoa(n)
				}
				n++
				guards := 0
				bad := ""
				for _, b := range f.Blocks {
					ifi, ok := b.Instrs[len(b.Instrs)-1].(*ssa.If)
					if !ok || !sel.Block().Dominates(b) {
						continue
					}
					if !edgeDominates(b, 0, r.Block()) && !edgeDominates(b, 1, r.Block()) {
						continue
					}
					guards++
					for _, l := range sources(ifi.Cond, deriveOpts{through: func(string) bool { return true }}) {
						if isErrorType(l.Type()) {
							bad = c.ipos(ifi)
						}
						if ex, ok := l.(*ssa.Extract); ok && ex.Tuple == ssa.Value(sel) && ex.Index >= 2 {
							bad = c.ipos(ifi) // a value received by the select
						}
					}
				}
				switch {
				case guards == 0:
					c.violate("T11", k, c.ipos(r), "the result channel is received from once more after the select on every path: when the completion case was taken its only value is gone, and the runner blocks for ever")
				case bad != "":
					c.violate("T11", k, bad, "whether the runner waits for the action once more (the receive at "+c.ipos(r)+") is decided by what the error looks like: an action that finishes before the deadline with an error of the 'timeout' kind — a nested runner that timed out, a deadline of its own — has had its only value taken by the select, and the second receive never returns: the runner blocks for ever although the action is over")
				default:
					c.ok("T11", k, c.ipos(r), "the wait after the select is decided by a flag or by the case taken, not by the error")
				}
			})
		}
		// the stop signal: a send on a local channel passed to the action, or a call of the cancel function
		// whose context is passed to the action goroutine
		isSignal := func(i ssa.Instruction) bool {
			if s, ok := i.(*ssa.Send); ok {
				return chanOrigin(s.Chan) != nil && chanOrigin(s.Chan) != resultChan
			}
			if cl, ok := i.(*ssa.Call); ok {
				if ex, ok := cl.Call.Value.(*ssa.Extract); ok && ex.Index == 1 {
					if mk, ok := ex.Tuple.(*ssa.Call); ok && calleeFull(&mk.Call) == "context.WithCancel" {
						return true
					}
				}
			}
			return false
		}
		isWait := func(i ssa.Instruction) bool {
			u, ok := i.(*ssa.UnOp)
			return ok && u.Op == token.ARROW && chanOrigin(u.X) == resultChan
		}
		// from the head of the timeout case: a wait on the result channel or a return must not be reached before the signal
		first := tb.Instrs[0]
		var hit ssa.Instruction
		if isSignal(first) {
			hit = nil
		} else if isWait(first) || isReturn(first) {
			hit = first
		} else {
			hit = pathAvoiding(first, isSignal, func(i ssa.Instruction) bool { return isWait(i) || isReturn(i) })
		}
		c.check(hit == nil, "T2", key+":signal", c.ipos(tb.Instrs[0]), "timeout case triggers the stop signal before waiting/returning",
			"on timeout the runner reaches "+c.iposOr(hit)+" without having triggered the action's stop signal")
		// timeout kind returned: every return reachable from the timeout case carries a timeout/context error, never only nil
		k := f.Signature.Results().Len() - 1
		bad := ""
		seenRet := false
		visitReturnsFrom(tb, func(r *ssa.Return) {
			seenRet = true
			okKind := false
			for _, l := range sources(r.Results[k], deriveOpts{}) {
				if u, ok := l.(*ssa.UnOp); ok {
					// a constant kind is right for a timer; a context ends by cancellation as well as by its deadline and
					// only the context can say which
					if g, ok := u.X.(*ssa.Global); ok && g.Name() == "ErrTimeout" && waitedCtx == nil {
						okKind = true
					}
				}
				if cl, ok := l.(*ssa.Call); ok && strings.HasSuffix(calleeFull(&cl.Call), "DetermineContextError") {
					if waitedCtx == nil {
						okKind = true
					}
					for _, a := range cl.Call.Args {
						if waitedCtx != nil && sameValue(a, waitedCtx) {
							okKind = true
						}
					}
				}
				if cl, ok := l.(*ssa.Call); ok && cl.Call.IsInvoke() && cl.Call.Method.Name() == "Err" && waitedCtx != nil && sameValue(cl.Call.Value, waitedCtx) {
					okKind = true
				}
			}
			if !okKind {
				bad = c.ipos(r)
			}
		})
		c.check(seenRet && bad == "", "T2", key+":kind", c.ipos(tb.Instrs[0]), "timeout case yields ErrTimeout (timer) / the error of the context it waited on", "return at "+bad+" after a timeout does not yield the kind of what ended the wait (for a context: its own error, 'timeout' or 'cancelled'; a constant mislabels one of the two)")
		// completion case: the result returned can be the received value
		cb := selectCase(sel, doneIdx)
		if cb != nil {
			okRes := false
			visitReturnsFrom(cb, func(r *ssa.Return) {
				for _, l := range sources(r.Results[k], deriveOpts{}) {
					if ex, ok := l.(*ssa.Extract); ok && ex.Tuple == ssa.Value(sel) && ex.Index >= 2 {
						okRes = true
					}
				}
			})
			c.check(okRes, "T2", key+":result", c.ipos(cb.Instrs[0]), "completion case returns the action's own result", "the value received from the action is not what the completion case returns")
		}
	})
}

func visitReturnsFrom(b *ssa.BasicBlock, fn func(*ssa.Return)) {
	seen := map[*ssa.BasicBlock]bool{b: true}
	var walk func(x *ssa.BasicBlock)
	walk = func(x *ssa.BasicBlock) {
		if r, ok := x.Instrs[len(x.Instrs)-1].(*ssa.Return); ok {
			fn(r)
		}
		for _, s := range x.Succs {
			if !seen[s] {
				seen[s] = true
				walk(s)
			}
		}
	}
	walk(b)
}

// ---------------------------------------------------------------------------

func (c *Ctx) c12Store() {
	n := 0
	for _, f := range c.srcFuncs(parPkg) {
		if f.Signature.Recv() == nil || !strings.Contains(f.Signature.Recv().Type().String(), "CancelFunctionStore") {
			continue
		}
		ls := computeLockset(f)
		allInstrs(f, func(in ssa.Instruction) {
			var fa *ssa.FieldAddr
			write := false
			switch x := in.(type) {
			case *ssa.Store:
				fa, _ = x.Addr.(*ssa.FieldAddr)
				write = true
			case *ssa.UnOp:
				if x.Op == token.MUL {
					fa, _ = x.X.(*ssa.FieldAddr)
				}
			}
			if fa == nil {
				return
			}
			if _, ok := fieldAddrOf(fa, "CancelFunctionStore", "cancelFunctions"); !ok {
				return
			}
			n++
			held := ls.at(in, "mu")
			key := fname(f) + "/cancelFunctions"
			if write {
				c.check(held == lockW, "T4", key+":write", c.ipos(in), "appended under mu.Lock()", "cancelFunctions written while holding "+held.String()+": a concurrent Cancel/Register can lose a registration")
			} else {
				c.check(held >= lockR, "T4", key+":read", c.ipos(in), "read under "+held.String(), "cancelFunctions read without holding mu")
			}
		})
	}
	if n == 0 {
		c.fatalf("C12/T4: no access of CancelFunctionStore.cancelFunctions found")
	}
	if f := c.fn(parPkg, "(*CancelFunctionStore).Cancel"); f != nil {
		// one loop, exits only from its header; body calls the element
		callsElem := false
		allInstrs(f, func(in ssa.Instruction) {
			if cl, ok := in.(*ssa.Call); ok && !cl.Call.IsInvoke() {
				if _, isFn := cl.Call.Value.(*ssa.Function); !isFn {
					if _, isB := cl.Call.Value.(*ssa.Builtin); !isB && inLoop(cl) {
						callsElem = true
					}
				}
			}
		})
		early := loopHasEarlyExit(f)
		c.check(callsElem && !early, "T4", fname(f)+"/loop", c.pos(f.Pos()), "every registered function is called, no early exit",
			"Cancel's loop can stop before the last registered function (or no longer calls them)")
	}
}

// loopHasEarlyExit: some loop of f has an exit edge from a block other than
// its header.
func loopHasEarlyExit(f *ssa.Function) bool {
	for _, h := range f.Blocks {
		// natural loop of header h: union over all its back edges
		body := map[*ssa.BasicBlock]bool{}
		var stack []*ssa.BasicBlock
		for _, p := range h.Preds {
			if h.Dominates(p) && !body[p] && p != h {
				body[p] = true
				stack = append(stack, p)
			}
			if p == h {
				body[h] = true
			}
		}
		if len(stack) == 0 && !body[h] {
			continue
		}
		body[h] = true
		for len(stack) > 0 {
			x := stack[len(stack)-1]
			stack = stack[:len(stack)-1]
			for _, q := range x.Preds {
				if !body[q] {
					body[q] = true
					stack = append(stack, q)
				}
			}
		}
		for b := range body {
			if b == h {
				continue
			}
			for _, s := range b.Succs {
				if !body[s] {
					// exits into panics (bounds checks) do not count
					if _, isPanic := s.Instrs[len(s.Instrs)-1].(*ssa.Panic); isPanic {
						continue
					}
					return true
				}
			}
		}
	}
	return false
}

func (c *Ctx) c12Parallelise() {
	f := c.fn(parPkg, "Parallelise")
	if f == nil {
		return
	}
	var gos []*ssa.Go
	allInstrs(f, func(in ssa.Instruction) {
		if g, ok := in.(*ssa.Go); ok {
			gos = append(gos, g)
		}
	})
	if len(gos) != 1 {
		c.violate("T5", fname(f)+"/spawn", c.pos(f.Pos()), "expected exactly one go statement in Parallelise")
		return
	}
	g := gos[0]
	bound := loopBound(g)
	var lenCall ssa.Value
	allInstrs(f, func(in ssa.Instruction) {
		if cl, ok := in.(*ssa.Call); ok && calleeFull(&cl.Call) == "(reflect.Value).Len" {
			lenCall = cl
		}
	})
	// argument is Index(i) with i the loop counter
	idxOK, eager := false, false
	for _, a := range g.Call.Args {
		cl, ok := a.(*ssa.Call)
		if ok && calleeFull(&cl.Call) == "(reflect.Value).Interface" && len(cl.Call.Args) > 0 {
			// the element is read here, in Parallelise, before the goroutine starts
			if inner, ok := cl.Call.Args[0].(*ssa.Call); ok {
				cl, eager = inner, true
			}
		}
		if ok && calleeFull(&cl.Call) == "(reflect.Value).Index" {
			if _, isPhi := cl.Call.Args[1].(*ssa.Phi); isPhi {
				idxOK = true
			}
		}
	}
	c.check(bound != nil && bound == lenCall && idxOK, "T5", fname(f)+"/spawn", c.ipos(g), "one goroutine per index below the argument list's length",
		"the spawning loop does not start one goroutine per element (bound or index changed)")
	// T8: "invokes the action exactly once per argument": per argument of the list Parallelise was called with. The
	// function returns at the first error, possibly before every goroutine got to run; a goroutine that is handed a
	// reflect.Value into the caller's list reads the element whenever it runs — after the caller got its slice back.
	c.check(eager, "T8", fname(f)+"/argument-read-before-the-goroutine-starts", c.ipos(g), "the element is converted (Interface()) by Parallelise itself, in the go statement's arguments",
		"the goroutine receives a reflect.Value that refers to the caller's list and reads the element when it gets to run: Parallelise returns at the first error, the caller reuses its slice, and the goroutines which start later invoke the action with values that were never in the list (199 of 200 invocations on one processor)")
	// body: exactly one call of the action parameter on every path, dominating the send
	body := staticCallee(&g.Call)
	if body != nil {
		calls := 0
		var actCall ssa.Instruction
		withAnon(body, func(h *ssa.Function) {
			allInstrs(h, func(in ssa.Instruction) {
				cl, ok := in.(*ssa.Call)
				if !ok || cl.Call.IsInvoke() {
					return
				}
				v := resolveValue(cl.Call.Value)
				if p, ok := v.(*ssa.Parameter); ok && p.Parent() == body {
					if _, isSig := p.Type().Underlying().(*types.Signature); isSig {
						calls++
						actCall = anchorInOuterOf(cl, body)
						if inLoop(cl) {
							calls += 100
						}
					}
				}
			})
		})
		var snd *ssa.Send
		allInstrs(body, func(in ssa.Instruction) {
			if s, ok := in.(*ssa.Send); ok {
				snd = s
			}
		})
		good := calls == 1 && snd != nil && actCall != nil && dominates(actCall, snd)
		c.check(good, "T5", fname(f)+"/once", c.ipos(g), "the action is called exactly once per goroutine, before the single send", "the goroutine body does not call the action exactly once before sending its result")
	}
	// result loop bounded by the same length
	var recv *ssa.UnOp
	allInstrs(f, func(in ssa.Instruction) {
		if u, ok := in.(*ssa.UnOp); ok && u.Op == token.ARROW {
			recv = u
		}
	})
	good := recv != nil && loopBound(recv) == lenCall && lenCall != nil
	pos := c.pos(f.Pos())
	if recv != nil {
		pos = c.ipos(recv)
	}
	c.check(good, "T5", fname(f)+"/collect", pos, "collecting loop bounded by the same length", "the collecting loop is not bounded by the number of goroutines started: results are lost or the call blocks")
}

// anchorInOuterOf maps an instruction in a nested literal of `top` to the
// instruction of `top` that contains/creates it.
func anchorInOuterOf(in ssa.Instruction, top *ssa.Function) ssa.Instruction {
	for in != nil && in.Parent() != top {
		g := in.Parent()
		if g.Parent() == nil {
			return nil
		}
		var site ssa.Instruction
		allInstrs(g.Parent(), func(j ssa.Instruction) {
			if mc, ok := j.(*ssa.MakeClosure); ok && mc.Fn == ssa.Value(g) {
				site = mc
			}
			if cc := callCommon(j); cc != nil && cc.Value == ssa.Value(g) {
				site = j
			}
		})
		in = site
	}
	return in
}

// c12NilResults (T6): "returns all results (as a multiset) or an error that some invocation returned". reflect.ValueOf(nil)
// is the zero Value, and reflect.Append panics on it: an action that returns (nil, nil) must not take the collection of
// the results down. Decided: the element handed to reflect.Append is merged with a reflect.Zero/New value on the side
// where IsValid() answered false (or is never the bare ValueOf of the item).
func (c *Ctx) c12NilResults() {
	f := c.fn("parallelisation", "Parallelise")
	if f == nil {
		return
	}
	key := fname(f) + "/nil-results"
	n := 0
	allInstrs(f, func(in ssa.Instruction) {
		cl, ok := in.(*ssa.Call)
		if !ok || calleeFull(&cl.Call) != "reflect.Append" {
			return
		}
		n++
		good := true
		for _, e := range variadicElems(cl.Call.Args[1]) {
			v := resolveValue(e)
			switch x := v.(type) {
			case *ssa.Call:
				if calleeFull(&x.Call) == "reflect.ValueOf" {
					good = false // bare
				}
			case *ssa.Phi:
				hasFallback := false
				for _, ed := range x.Edges {
					if ec, isCall := resolveValue(ed).(*ssa.Call); isCall {
						switch calleeFull(&ec.Call) {
						case "reflect.Zero", "reflect.New":
							hasFallback = true
						}
					}
				}
				// the fallback edge is taken where IsValid() answered false
				tested := false
				allInstrs(f, func(j ssa.Instruction) {
					if jc, isCall := j.(*ssa.Call); isCall && calleeFull(&jc.Call) == "(reflect.Value).IsValid" {
						tested = true
					}
				})
				good = hasFallback && tested
			}
		}
		c.check(good, "T6", key, c.ipos(cl), "a result that is nil is appended as the zero value of the element type",
			"the result of the action goes to reflect.Append as the bare reflect.ValueOf(item): for an action that returns (nil, nil) that is the zero Value and the collection of the results panics instead of returning them all")
	})
	if n == 0 {
		c.ok("T6", key, c.pos(f.Pos()), "results are not collected through reflect.Append")
	}
	// second obligation: "returns all results (as a multiset)". A result is replaced by the zero value of the element type
	// only where it is no value at all (IsValid() false): any wider condition (IsZero, IsNil) rewrites genuine results —
	// 0, "", false returned into a slice of interfaces come back as nil.
	{
		var zeros []*ssa.Call
		allInstrs(f, func(in ssa.Instruction) {
			if cl, ok := in.(*ssa.Call); ok {
				switch calleeFull(&cl.Call) {
				case "reflect.Zero", "reflect.New":
					zeros = append(zeros, cl)
				}
			}
		})
		invalidEdge := func(b *ssa.BasicBlock, k int) bool {
			ifi, ok := b.Instrs[len(b.Instrs)-1].(*ssa.If)
			if !ok {
				return false
			}
			v, ts := boolTest(ifi)
			cl, isCall := v.(*ssa.Call)
			return isCall && calleeFull(&cl.Call) == "(reflect.Value).IsValid" && k == 1-ts
		}
		bad := ""
		for _, z := range zeros {
			if hit := pathPruned(f, nil, func(ssa.Instruction) bool { return false }, func(in ssa.Instruction) bool { return in == ssa.Instruction(z) }, invalidEdge); hit != nil {
				bad = c.ipos(z)
			}
		}
		if len(zeros) > 0 {
			c.check(bad == "", "T6", key+":only-for-no-value", c.pos(f.Pos()), "a result is replaced by the zero value only where IsValid() answered false",
				"the substitution at "+bad+" can be reached without IsValid() having answered false: results that are values (a zero integer, an empty string, a typed nil) are rewritten, and the multiset returned is no longer the multiset of what the invocations returned")
		}
	}
}

// c12StoreKeepsItsOwnArray (T9): "every cancel function registered in a cancel store is invoked by any Cancel that begins
// after its registration". The store's list must be the store's own: a list built by appending onto the slice the caller
// handed over (`append(cancel, s.cancelFunctions...)`) lives in the caller's array whenever that has spare capacity — the
// caller's next append overwrites a function registered earlier, and the same list registered in two stores makes each
// call the other's functions. Decided for package parallelisation: no append whose first operand is a slice parameter,
// and no slice parameter stored into a field as it is.
func (c *Ctx) c12StoreKeepsItsOwnArray() {
	c.rule("T9", "no function of package parallelisation appends onto a slice it received as a parameter, or keeps such a slice in a field as it is: what a store holds lives in the store's own array", 1)
	n := 0
	for _, f := range c.srcFuncs(parPkg) {
		if f.Blocks == nil {
			continue
		}
		for _, prm := range f.Params {
			if _, isSlice := prm.Type().Underlying().(*types.Slice); !isSlice {
				continue
			}
			n++
			bad := ""
			withAnon(f, func(g *ssa.Function) {
				allInstrs(g, func(in ssa.Instruction) {
					switch x := in.(type) {
					case *ssa.Call:
						if calleeFull(&x.Call) == "builtin.append" && len(x.Call.Args) > 0 && resolveValue(x.Call.Args[0]) == ssa.Value(prm) {
							bad = "append onto it at " + c.ipos(in)
						}
					case *ssa.Store:
						if _, isField := x.Addr.(*ssa.FieldAddr); isField && resolveValue(x.Val) == ssa.Value(prm) {
							bad = "kept in a field at " + c.ipos(in)
						}
					}
				})
			})
			c.FuncsSeen[fname(f)] = true
			c.check(bad == "", "T9", fname(f)+"/own-array:"+prm.Name(), c.pos(f.Pos()), "the slice received is only read (its elements are copied where they are kept)",
				"the slice "+prm.Name()+" received from the caller becomes the backing array of what the function keeps ("+bad+"): registered with `list...` on a slice with spare capacity, the functions registered earlier are written into the caller's array — the caller's next append replaces one of them, a later Cancel never invokes it (and invokes one that was never registered)")
		}
	}
	if n == 0 {
		c.info("T9", parPkg+"/no-slice-parameters", "-", "no function of the package receives a slice")
	}
}

// c12StoreHandedOverStopsEverything (T10): "otherwise the 'timeout' (or 'cancelled') kind once the action has observed its stop
// signal". A runner that is handed a cancel store gives its caller the means to stop the run: cancelling the store must end
// everything the runner waits on — the action's context and the timeout context alike. A cancel function that is merely
// deferred is called when the runner returns, which is too late: with the timeout context left out of the store, a Cancel()
// during the run stops the action, and the runner — still waiting on a context nobody cancelled — reports the action's nil,
// a raw context error, or 'timeout' for a run cancelled long before the deadline. Decided for every function of package
// parallelisation with a *CancelFunctionStore parameter: each cancel function it obtains from context.With* is registered
// in that store.
func (c *Ctx) c12StoreHandedOverStopsEverything() {
	c.rule("T10", "a runner that is handed a cancel store registers in it every cancel function it creates (context.WithTimeout / WithCancel / WithDeadline): cancelling the store ends everything the runner waits on", 2)
	n := 0
	for _, f := range c.srcFuncs(parPkg) {
		if f.Parent() != nil || f.Blocks == nil {
			continue
		}
		var store *ssa.Parameter
		for _, p := range f.Params {
			if strings.HasSuffix(p.Type().String(), "parallelisation.CancelFunctionStore") {
				store = p
			}
		}
		if store == nil || f.Signature.Recv() != nil {
			continue
		}
		allInstrs(f, func(in ssa.Instruction) {
			cl, ok := in.(*ssa.Call)
			if !ok {
				return
			}
			switch calleeFull(&cl.Call) {
			case "context.WithTimeout", "context.WithCancel", "context.WithDeadline", "context.WithTimeoutCause", "context.WithCancelCause", "context.WithDeadlineCause":
			default:
				return
			}
			var cancel ssa.Value
			for _, r := range *cl.Referrers() {
				if ex, ok := r.(*ssa.Extract); ok && ex.Index == 1 {
					cancel = ex
				}
			}
			n++
			registered := false
			if cancel != nil {
				allInstrs(f, func(i2 ssa.Instruction) {
					rc, ok := i2.(*ssa.Call)
					if !ok || !strings.HasSuffix(calleeFull(&rc.Call), "CancelFunctionStore).RegisterCancelFunction") || len(rc.Call.Args) < 2 {
						return
					}
					if resolveValue(rc.Call.Args[0]) != ssa.Value(store) {
						return
					}
					for _, el := range variadicElems(rc.Call.Args[1]) {
						for _, l := range append(sources(el, deriveOpts{}), resolveValue(el)) {
							if l == cancel || sameValue(l, cancel) {
								registered = true
							}
							if ex, isEx := l.(*ssa.Extract); isEx && ex.Tuple == ssa.Value(cl) && ex.Index == 1 {
								registered = true
							}
						}
					}
				})
			}
			key := fname(f) + "/registered:" + short(calleeFull(&cl.Call))
			if n > 1 {
				key += "#" + strconv.Itoa(n-1)
			}
			c.FuncsSeen[fname(f)] = true
			c.check(registered, "T10", key, c.ipos(cl), "the cancel function is registered in the store the function was handed",
				"the cancel function of the context made here is not registered in the store handed to "+f.Name()+": cancelling that store during the run no longer ends what the runner waits on — the runner reports the action's own nil for a run that was cancelled, a raw context error instead of the 'cancelled' kind, or 'timeout' for a run cancelled long before the deadline")
		})
	}
	if n == 0 {
		c.info("T10", parPkg+"/no-runner-with-a-store", "-", "no function of the package is handed a cancel store and creates contexts")
	}
}
