package main

import (
	"go/token"
	"go/types"
	"strings"

	"golang.org/x/tools/go/ssa"
)

func init() {
	register(&propCheck{
		id:              "C05",
		level:           "other",
		explanation:     "Static necessary conditions of 'cancelling a subprocess terminates its process tree, promptly' — the facts in the source without which no tree kill can work: (P1) every exec.Cmd created in package subprocess is given its own process group before it is used, and the OS-specific attribute really asks for one (Setpgid / CREATE_NEW_PROCESS_GROUP), per GOOS in the thorough tier; (P2) from Stop and from CleanKillOfCommand the call graph reaches the group kill, and the tree-kill keeps its final unconditional Kill; (P3) the cancellation path does not need a lock that is held for the child's whole lifetime: if the lock held around exec.Cmd.Run/Wait is one that the stop callback of the monitor must take, there must be a lock-free kill path — exec.Cmd.Cancel set to a function from which the group kill is reachable; (P4) isRunning is reset on every exit after it was set, in Execute and in stop; (P5) Stop kills the process tree in its own flow before it waits for the child (a kill that merely races with Wait finds nothing once Wait has reaped a leader that had already exited); (P7) along CleanKillOfCommand / Stop → KillWithChildren → killProcessAndChildren → killGroup every path to a return passes the next link, error exits and nil guards aside; (P6) the monitor goroutine calls the stop callback after the process context ended and always clears its flag; Execute always cancels the monitoring on exit. Decided on SSA with a must-lockset and CHA call graph; no process is started. Not decided: that signals arrive, descendants that left the group, wall-clock bounds, orphans.",
		run:             runC05,
		thoroughConfigs: []string{"darwin/amd64", "windows/amd64"},
		assumptions: []string{
			"SIGKILL to the process group terminates every member; pipes held only by group members are then closed so exec.Cmd.Wait returns",
		},
	})
}

const spPkg = "subprocess"

// typedLockKey: "<Struct>.<field>" for the mutex operated on.
func typedLockKey(v ssa.Value) string {
	for {
		switch x := v.(type) {
		case *ssa.FieldAddr:
			st := x.X.Type()
			if p, ok := st.Underlying().(*types.Pointer); ok {
				st = p.Elem()
			}
			name := ""
			if n, ok := types.Unalias(st).(*types.Named); ok {
				name = n.Obj().Name()
			}
			if s := structOf(x.X.Type()); s != nil {
				return name + "." + s.Field(x.Field).Name()
			}
			return name
		case *ssa.UnOp:
			v = x.X
			continue
		}
		return "?"
	}
}

func runC05(c *Ctx) {
	c.rule("P1", "every exec.Cmd created in package subprocess passes through setGroupAttrToCmd before it is returned; the attribute requests an own process group (Setpgid:true / CREATE_NEW_PROCESS_GROUP)", 2)
	c.rule("P2", "the group kill (proc.killGroup) is reachable from cmdWrapper.Stop and from CleanKillOfCommand; killProcessAndChildren keeps its deferred Kill", 3)
	c.rule("P7", "the kill chain is unconditional: in CleanKillOfCommand, cmdWrapper.Stop, ps.KillWithChildren and killProcessAndChildren every path to a return passes the next link of the chain (… → killGroup), except through the failing side of an error test or the nil side of a nil test", 4)
	c.rule("P8", "the monitor's stop callback can run while Execute is blocked in Run: no lock held across Run/Wait is needed by it (exec.Cmd.Cancel alone does not cover a leader that has already exited)", 1)
	c.rule("P9", "killGroup signals the group of a leader that is already gone: the ESRCH outcome of Getpgid does not end the function before the kill", 1)
	c.rule("P11", "the context under which exec.Cmd.Cancel kills the tree is not given a deadline when the command is built (nor is it the command's own, finished, context): the stop may come at any instant after the spawn", 1)
	c.rule("P10", "the cancellation of the command (exec.Cmd.Cancel) kills the tree first: nothing that signals the group leader alone runs before the tree kill — once the leader is gone and reaped, the tree kill can no longer find its group", 1)
	c.rule("P3", "no lock held across exec.Cmd.Run/Wait is needed by the monitor's stop callback, unless exec.Cmd.Cancel is set to a function that reaches the group kill", 1)
	c.rule("P4", "isRunning.Store(true) is followed by isRunning.Store(false) on every path to exit (Execute); stop() clears the flag on every path after stopping", 2)
	c.rule("P5", "cmdWrapper.Stop kills the process tree (KillWithChildren on the process found from the child's pid) in its own flow before it waits for the command", 1)
	c.rule("P6", "the monitor goroutine calls the stop callback after the process context is done and clears monitoringOn on every path; Execute cancels the monitoring on every exit", 2)

	for _, f := range c.srcFuncs(spPkg) {
		c.FuncsSeen[fname(f)] = true
	}
	c.c05Group()
	c.c05KillReach()
	c.c05LockFree()
	c.c05Flags()
}

func (c *Ctx) c05Group() {
	setGrp := c.fn(spPkg, "setGroupAttrToCmd")
	n := 0
	for _, f := range c.srcFuncs(spPkg) {
		allInstrs(f, func(in ssa.Instruction) {
			cl, ok := in.(*ssa.Call)
			if !ok {
				return
			}
			cn := calleeFull(&cl.Call)
			if cn != "os/exec.Command" && cn != "os/exec.CommandContext" {
				return
			}
			n++
			isSet := func(i ssa.Instruction) bool {
				s, ok := i.(*ssa.Call)
				return ok && staticCallee(&s.Call) == setGrp && len(s.Call.Args) == 1 && resolveValue(s.Call.Args[0]) == ssa.Value(cl)
			}
			esc := pathAvoiding(cl, isSet, isReturn)
			c.check(esc == nil, "P1", fname(f)+"/new-cmd", c.ipos(cl), "setGroupAttrToCmd(cmd) on every path before return",
				"the command created here can be returned without its own process group: the tree cannot be signalled as a whole")
		})
	}
	if n == 0 {
		c.fatalf("C05/P1: no exec.Command* call found in package subprocess")
	}
	if setGrp == nil {
		return
	}
	good := false
	detail := "SysProcAttr is not set to a literal requesting an own process group"
	allInstrs(setGrp, func(in ssa.Instruction) {
		st, ok := in.(*ssa.Store)
		if !ok {
			return
		}
		fa, ok := st.Addr.(*ssa.FieldAddr)
		if !ok {
			return
		}
		so := structOf(fa.X.Type())
		if so == nil {
			return
		}
		name := so.Field(fa.Field).Name()
		switch name {
		case "Setpgid":
			if b, ok := constBool(st.Val); ok && b {
				good = true
			} else {
				detail = "Setpgid is not true"
			}
		case "CreationFlags":
			if v, ok := constInt(st.Val); ok && v&0x200 != 0 {
				good = true
			} else {
				detail = "CreationFlags lacks CREATE_NEW_PROCESS_GROUP"
			}
		}
	})
	// and the literal is what ends up in c.SysProcAttr
	assigned := false
	allInstrs(setGrp, func(in ssa.Instruction) {
		if st, ok := in.(*ssa.Store); ok {
			if fa, ok := st.Addr.(*ssa.FieldAddr); ok {
				if so := structOf(fa.X.Type()); so != nil && so.Field(fa.Field).Name() == "SysProcAttr" && paramIndex(setGrp, fa.X) == 0 {
					assigned = true
				}
			}
		}
	})
	c.check(good && assigned, "P1", fname(setGrp)+"/"+c.goos(), c.pos(setGrp.Pos()), "own process group requested ("+c.goos()+")", detail)
}

func (c *Ctx) goos() string {
	if c.GOOS == "" {
		return "linux"
	}
	return c.GOOS
}

func (c *Ctx) c05KillReach() {
	killGroup := c.fn("proc", "killGroup")
	kpc := c.fn("proc", "killProcessAndChildren")
	if killGroup == nil || kpc == nil {
		return
	}
	for _, name := range []string{"(*cmdWrapper).Stop", "CleanKillOfCommand"} {
		f := c.fn(spPkg, name)
		if f == nil {
			continue
		}
		reach := c.reachable([]*ssa.Function{f}, true, inModule)
		c.check(reach[killGroup], "P2", fname(f)+"/reaches-group-kill", c.pos(f.Pos()), "call graph reaches proc.killGroup", "the group kill is no longer reachable from "+name+": only the direct child can be killed")
	}
	// deferred unconditional Kill in killProcessAndChildren
	has := false
	allInstrs(kpc, func(in ssa.Instruction) {
		d, ok := in.(*ssa.Defer)
		if !ok {
			return
		}
		if g := staticCallee(&d.Call); g != nil {
			allInstrs(g, func(j ssa.Instruction) {
				if cl, ok := j.(*ssa.Call); ok && strings.HasSuffix(calleeFull(&cl.Call), "process.Process).Kill") {
					has = true
				}
			})
		}
	})
	c.check(has, "P2", fname(kpc)+"/final-kill", c.pos(kpc.Pos()), "deferred Kill() of the process itself", "killProcessAndChildren lost its final unconditional Kill(): a process ignoring SIGTERM survives when the group kill is not applicable")
	// killGroup sends SIGKILL to -pgid (posix) — value-level; the structural part: it calls syscall.Kill / taskkill
	sends := false
	why := "killGroup no longer signals the process group"
	allInstrs(killGroup, func(in ssa.Instruction) {
		if cl, ok := in.(*ssa.Call); ok {
			n := calleeFull(&cl.Call)
			if n == "os/exec.CommandContext" {
				sends = true // windows: taskkill /f /t
			}
			if n == "syscall.Kill" {
				// the whole group (negative pid) and a signal that cannot be caught or ignored
				sig, isC := constInt(cl.Call.Args[1])
				neg := false
				if u, ok := cl.Call.Args[0].(*ssa.UnOp); ok && u.Op == token.SUB {
					neg = true
				}
				switch {
				case !isC || sig != 9:
					why = "the process group is sent a signal other than SIGKILL: members that ignore or handle it survive, and once the group leader has died they are no longer found through their parent pid"
				case !neg:
					why = "the signal is not sent to the group (the pid argument is not the negated group id)"
				default:
					sends = true
				}
			}
		}
	})
	c.check(sends, "P2", fname(killGroup)+"/signals", c.pos(killGroup.Pos()), "SIGKILL to the negated group id (taskkill /f /t on windows)", why)
	// P9: a leader that has been reaped cannot be found by Getpgid any more, but its group can still have members
	var getpgid, kill *ssa.Call
	allInstrs(killGroup, func(in ssa.Instruction) {
		if cl, ok := in.(*ssa.Call); ok {
			switch calleeFull(&cl.Call) {
			case "syscall.Getpgid":
				getpgid = cl
			case "syscall.Kill":
				kill = cl
			}
		}
	})
	key9 := fname(killGroup) + "/leader-gone"
	if getpgid == nil || kill == nil {
		c.ok("P9", key9, c.pos(killGroup.Pos()), "no lookup of the group through the leader on this platform")
		return
	}
	// the test for ESRCH on Getpgid's error, whose true side reaches the kill
	good := false
	for _, b := range killGroup.Blocks {
		ifi, ok := b.Instrs[len(b.Instrs)-1].(*ssa.If)
		if !ok {
			continue
		}
		v, ts := boolTest(ifi)
		isESRCH := false
		switch x := v.(type) {
		case *ssa.Call:
			n := calleeFull(&x.Call)
			if strings.HasSuffix(n, "commonerrors.Any") || n == "errors.Is" {
				for _, a := range x.Call.Args {
					for _, e := range append(variadicElems(a), a) {
						if k, ok := constInt(stripConv(e)); ok && k == 3 {
							isESRCH = true
						}
					}
				}
			}
		case *ssa.BinOp:
			for _, o := range []ssa.Value{x.X, x.Y} {
				if k, ok := constInt(stripConv(o)); ok && k == 3 {
					isESRCH = true
				}
			}
		}
		if !isESRCH {
			continue
		}
		reach := pathPruned(killGroup, ifi, isReturn, func(i ssa.Instruction) bool { return i == ssa.Instruction(kill) }, func(bb *ssa.BasicBlock, k int) bool { return bb == b && k != ts })
		if reach != nil {
			good = true
		}
	}
	c.check(good, "P9", key9, c.ipos(getpgid), "when Getpgid answers 'no such process' the group is signalled all the same",
		"when the leader can no longer be found (Getpgid: ESRCH) killGroup returns without signalling the group: a leader that exited and was reaped between the SIGTERM and this call (Execute's Wait reaps it at once) leaves the other members of its group running, holding the pipes Execute waits on")
}

func (c *Ctx) c05LockFree() {
	exec := c.fn(spPkg, "(*Subprocess).Execute")
	stopM := c.fn(spPkg, "(*Subprocess).Stop")
	wrapRun := c.fn(spPkg, "(*cmdWrapper).Run")
	if exec == nil || stopM == nil || wrapRun == nil {
		return
	}
	// blocking functions: those that call (*exec.Cmd).Run / Wait directly
	blocking := map[*ssa.Function]bool{}
	for _, f := range c.srcFuncs(spPkg) {
		allInstrs(f, func(in ssa.Instruction) {
			if cl, ok := in.(*ssa.Call); ok {
				n := calleeFull(&cl.Call)
				if n == "(*os/exec.Cmd).Run" {
					blocking[f] = true
				}
				if n == "(*os/exec.Cmd).Wait" {
					// a Wait that follows the tree kill is bounded (P5); any other Wait lasts as long as the child
					killed := false
					allInstrs(f, func(j ssa.Instruction) {
						if s, ok := j.(*ssa.Call); ok && s.Call.IsInvoke() && s.Call.Method.Name() == "KillWithChildren" && pathAvoiding(s, func(ssa.Instruction) bool { return false }, func(i ssa.Instruction) bool { return i == in }) != nil {
							killed = true
						}
					})
					if !killed {
						blocking[f] = true
					}
				}
			}
		})
	}
	// locks held (typed keys) at call sites of blocking functions, package-wide
	type heldAt struct {
		site ssa.Instruction
		key  string
		st   lockState
	}
	var held []heldAt
	for _, f := range c.srcFuncs(spPkg) {
		if f.Parent() != nil {
			continue
		}
		var ls *lockset
		// map plain key → typed key for this function
		typed := map[string]string{}
		allInstrs(f, func(in ssa.Instruction) {
			if cc := callCommon(in); cc != nil {
				if k, _, ok := mutexOp(cc); ok {
					typed[k] = typedLockKey(cc.Args[0])
				}
			}
		})
		allInstrs(f, func(in ssa.Instruction) {
			cl, ok := in.(*ssa.Call)
			if !ok {
				return
			}
			g := staticCallee(&cl.Call)
			if g == nil || !blocking[g] {
				return
			}
			if ls == nil {
				ls = computeLockset(f)
			}
			for k, tk := range typed {
				if st := ls.at(cl, k); st > lockNone {
					held = append(held, heldAt{cl, tk, st})
				}
			}
		})
	}
	// locks acquired on the stop path of the monitor
	reach := c.reachable([]*ssa.Function{stopM}, false, inPkg(spPkg))
	acq := map[string]ssa.Instruction{}
	for g := range reach {
		allInstrs(g, func(in ssa.Instruction) {
			cl, ok := in.(*ssa.Call)
			if !ok {
				return
			}
			if _, op, ok := mutexOp(&cl.Call); ok && (op == "Lock" || op == "RLock") {
				acq[typedLockKey(cl.Call.Args[0])] = cl
			}
		})
	}
	// is the stop callback really what the monitor is given?
	wired := false
	if rpm := c.fn(spPkg, "(*Subprocess).runProcessMonitoring"); rpm != nil {
		allInstrs(rpm, func(in ssa.Instruction) {
			if cl, ok := in.(*ssa.Call); ok && strings.HasSuffix(calleeFull(&cl.Call), "subprocessMonitoring).RunMonitoring") {
				if mc, ok := stripConv(cl.Call.Args[1]).(*ssa.MakeClosure); ok && strings.HasPrefix(mc.Fn.Name(), "Stop") {
					wired = true
				}
			}
		})
	}
	c.info("P3", "monitor/stop-callback", c.pos(stopM.Pos()), "monitor's stop callback is (*Subprocess).Stop: "+b2s(wired))
	// lock-free kill path: exec.Cmd.Cancel assigned to a function reaching killGroup
	killGroup := c.fn("proc", "killGroup")
	lockFree := false
	var cancelPos ssa.Instruction
	for _, f := range c.srcFuncs(spPkg) {
		allInstrs(f, func(in ssa.Instruction) {
			st, ok := in.(*ssa.Store)
			if !ok {
				return
			}
			fa, ok := st.Addr.(*ssa.FieldAddr)
			if !ok {
				return
			}
			pt, ok := fa.X.Type().Underlying().(*types.Pointer)
			if !ok || pt.Elem().String() != "os/exec.Cmd" {
				return
			}
			if structOf(fa.X.Type()).Field(fa.Field).Name() != "Cancel" {
				return
			}
			var target *ssa.Function
			switch v := stripConv(st.Val).(type) {
			case *ssa.MakeClosure:
				target, _ = v.Fn.(*ssa.Function)
			case *ssa.Function:
				target = v
			}
			if target == nil {
				return
			}
			r := c.reachable([]*ssa.Function{target}, true, inModule)
			// the kill path itself must not take a lock of the conflict set
			if killGroup != nil && r[killGroup] {
				lockFree = true
				cancelPos = st
			}
		})
	}
	conflict := ""
	var site ssa.Instruction
	for _, h := range held {
		if a, ok := acq[h.key]; ok {
			conflict = h.key + " (held " + h.st.String() + " at " + c.ipos(h.site) + ", needed by the stop path at " + c.ipos(a) + ")"
			site = h.site
		}
	}
	key := fname(exec) + "/lock-across-run"
	switch {
	case conflict == "":
		c.ok("P3", key, c.pos(exec.Pos()), "no lock held across the child's lifetime is needed by the stop path")
	case lockFree:
		c.ok("P3", key, c.ipos(cancelPos), "lock conflict on "+conflict+" but exec.Cmd.Cancel kills the process tree without taking it")
	default:
		c.violate("P3", key, c.ipos(site), "the lock "+conflict+" is held for as long as the child tree keeps Run from returning, and the only reaction to the context is exec.CommandContext killing the direct child: descendants holding the output pipes keep Execute blocked and survive; no exec.Cmd.Cancel that kills the group is installed")
	}
	// P8: os/exec calls Cmd.Cancel only while the command has not been waited for. Once the group leader has exited on
	// its own (and Run's Wait has reaped it) nothing invokes the hook any more, and the monitor's stop callback is the
	// only reaction left to a cancellation: it must not need a lock that Execute holds across Run.
	key8 := fname(exec) + "/stop-path-independent-of-the-leader"
	if conflict == "" {
		c.ok("P8", key8, c.pos(exec.Pos()), "the stop path needs no lock held across the child's lifetime")
	} else {
		c.violate("P8", key8, c.ipos(site), "the lock "+conflict+": when the group leader has already exited while members of its group still hold the output pipes, os/exec no longer calls Cmd.Cancel (the command has been waited for), the monitor's stop callback blocks on that lock, the group is not killed and Execute returns only when the members exit by themselves")
	}
}

func (c *Ctx) c05Flags() {
	isFlagStore := func(val bool) func(ssa.Instruction) bool {
		return func(in ssa.Instruction) bool {
			cc := callCommon(in)
			if cc == nil || !strings.HasSuffix(calleeFull(cc), "atomic.Bool).Store") {
				return false
			}
			fa, ok := cc.Args[0].(*ssa.FieldAddr)
			if !ok {
				return false
			}
			if _, ok := fieldAddrOf(fa, "Subprocess", "isRunning"); !ok {
				return false
			}
			b, ok := constBool(cc.Args[1])
			return ok && b == val
		}
	}
	if f := c.fn(spPkg, "(*Subprocess).Execute"); f != nil {
		n := 0
		allInstrs(f, func(in ssa.Instruction) {
			if !isFlagStore(true)(in) {
				return
			}
			n++
			esc := pathAvoiding(in, isFlagStore(false), isReturn)
			c.check(esc == nil, "P4", fname(f)+"/isRunning", c.ipos(in), "cleared on every path to exit", "isRunning stays true on the exit at "+c.iposOr(esc)+": IsOn() keeps reporting a finished process as running")
		})
		if n == 0 {
			c.violate("P4", fname(f)+"/isRunning", c.pos(f.Pos()), "Execute no longer marks the process as running")
		}
		// Execute cancels the monitoring on every exit: a deferred Cancel registered before the monitoring starts
		var def, mon ssa.Instruction
		allInstrs(f, func(in ssa.Instruction) {
			if d, ok := in.(*ssa.Defer); ok {
				n := calleeFull(&d.Call)
				if strings.HasSuffix(n, "Subprocess).Cancel") || strings.HasSuffix(n, "subprocessMonitoring).CancelSubprocess") {
					def = d
				}
			}
			if cl, ok := in.(*ssa.Call); ok && strings.HasSuffix(calleeFull(&cl.Call), "Subprocess).runProcessMonitoring") {
				mon = cl
			}
		})
		c.check(def != nil && mon != nil && dominates(def, mon), "P6", fname(f)+"/cancel-on-exit", c.pos(f.Pos()), "deferred Cancel() registered before the monitor starts",
			"Execute can leave without cancelling the process monitoring: the monitor goroutine and IsOn() outlive the run")
	}
	if f := c.fn(spPkg, "(*Subprocess).stop"); f != nil {
		var stopCall ssa.Instruction
		allInstrs(f, func(in ssa.Instruction) {
			if cl, ok := in.(*ssa.Call); ok && strings.HasSuffix(calleeFull(&cl.Call), "cmdWrapper).Stop") {
				stopCall = cl
			}
		})
		if stopCall == nil {
			c.violate("P4", fname(f)+"/isRunning", c.pos(f.Pos()), "stop() no longer stops the command")
		} else {
			esc := pathAvoiding(stopCall, isFlagStore(false), isReturn)
			c.check(esc == nil, "P4", fname(f)+"/isRunning", c.ipos(stopCall), "cleared after the command was stopped", "isRunning is not cleared on the exit at "+c.iposOr(esc)+" after stopping")
		}
	}
	// P5: the kill must come before Wait, in Stop's own flow. Wait reaps the leader; a leader that has already exited
	// (its group still alive) cannot be found afterwards, so a kill that merely races with Wait (scheduled, go routine)
	// finds nothing, the group survives and Wait stays blocked on the pipes it holds.
	if f := c.fn(spPkg, "(*cmdWrapper).Stop"); f != nil {
		var wait *ssa.Call
		var kill ssa.Instruction
		deferredKill := ""
		allInstrs(f, func(in ssa.Instruction) {
			if cl, ok := in.(*ssa.Call); ok {
				if calleeFull(&cl.Call) == "(*os/exec.Cmd).Wait" {
					wait = cl
				}
				if cl.Call.IsInvoke() && cl.Call.Method.Name() == "KillWithChildren" {
					kill = cl
				}
			}
		})
		withAnon(f, func(g *ssa.Function) {
			if g == f {
				return
			}
			allInstrs(g, func(in ssa.Instruction) {
				if cl, ok := in.(*ssa.Call); ok && cl.Call.IsInvoke() && cl.Call.Method.Name() == "KillWithChildren" {
					deferredKill = c.ipos(cl)
				}
			})
		})
		good := false
		why := "Stop waits for the child without having killed its process tree"
		switch {
		case wait == nil:
			why = "Stop no longer waits for the command"
		case kill == nil && deferredKill != "":
			why = "the kill of the process tree (" + deferredKill + ") runs in a function literal handed to a scheduler or goroutine, concurrently with Wait(): Wait reaps a group leader that has already exited, the literal then cannot find the process any more, the members of its group that are still running are never killed and Stop stays blocked on the pipes they hold"
		case kill != nil:
			// Wait is reachable without the kill only through nil guards / error sides
			esc := pathPruned(f, nil, func(i ssa.Instruction) bool { return i == kill }, func(i ssa.Instruction) bool { return i == ssa.Instruction(wait) }, func(b *ssa.BasicBlock, k int) bool {
				ifi, ok := b.Instrs[len(b.Instrs)-1].(*ssa.If)
				if !ok {
					return false
				}
				x, nilSucc, ok := nilTest(ifi)
				if !ok {
					return false
				}
				if isErrorType(x.Type()) {
					return k == 1-nilSucc
				}
				return k == nilSucc
			})
			// the process killed is found from the child's pid
			fromPid := false
			if kc, ok := kill.(*ssa.Call); ok {
				for _, l := range sources(kc.Call.Value, deriveOpts{}) {
					if ex, ok := l.(*ssa.Extract); ok {
						if fc, ok := ex.Tuple.(*ssa.Call); ok && strings.HasSuffix(calleeFull(&fc.Call), "proc.FindProcess") {
							for _, pl := range sources(fc.Call.Args[1], deriveOpts{}) {
								if _, ok := fieldLoad(pl, "Process", "Pid"); ok {
									fromPid = true
								}
							}
						}
					}
				}
			}
			switch {
			case esc != nil:
				why = "Wait() can be reached without the process tree having been killed, on a path that is neither a nil guard nor the failure to find the process"
			case !fromPid:
				why = "the process whose tree is killed is not the one found from cmd.Process.Pid"
			default:
				good = true
			}
		}
		c.check(good, "P5", fname(f), c.pos(f.Pos()), "KillWithChildren on the process found from the child's pid, in Stop's own flow, before Wait", why)
	}
	c.c05KillOnEveryPath()
	c.c05CancelKillsTheTreeFirst()
	c.c05MarkedRunningBeforeAnythingThatMayBlock()
	c.c05CommandDroppedOnlyWhenNotRunning()
	c.c05SetupHandsItsContextOn()
	// P6 monitor goroutine
	if f := c.fn(spPkg, "(*subprocessMonitoring).runProcessMonitoring"); f != nil {
		var body *ssa.Function
		allInstrs(f, func(in ssa.Instruction) {
			if g, ok := in.(*ssa.Go); ok {
				body = staticCallee(&g.Call)
			}
		})
		good := false
		why := "the monitoring goroutine is gone"
		if body != nil {
			var recv *ssa.UnOp
			var stop *ssa.Call
			allInstrs(body, func(in ssa.Instruction) {
				if u, ok := in.(*ssa.UnOp); ok && u.Op == token.ARROW {
					recv = u
				}
				if cl, ok := in.(*ssa.Call); ok && !cl.Call.IsInvoke() && paramIndex(body, cl.Call.Value) >= 0 {
					stop = cl
				}
			})
			isOff := func(in ssa.Instruction) bool {
				cc := callCommon(in)
				if cc == nil || !strings.HasSuffix(calleeFull(cc), "atomic.Bool).Store") {
					return false
				}
				fa, ok := cc.Args[0].(*ssa.FieldAddr)
				if !ok {
					return false
				}
				if _, ok := fieldAddrOf(fa, "subprocessMonitoring", "monitoringOn"); !ok {
					return false
				}
				b, ok := constBool(cc.Args[1])
				return ok && !b
			}
			switch {
			case recv == nil || stop == nil || !dominates(recv, stop):
				why = "the monitor does not call the stop callback after waiting for the process context to end"
			case pathAvoiding(stop, isOff, isReturn) != nil:
				why = "monitoringOn is not cleared on every path after the stop callback: IsOn() stays true"
			default:
				good = true
			}
		}
		c.check(good, "P6", fname(f), c.pos(f.Pos()), "waits for the context, calls stop, clears monitoringOn", why)
	}
}

// c05KillOnEveryPath (P7): reachability of the group kill (P2) says a path exists; the property needs it on every
// path. A shortcut such as "the leader has no children, killing it is enough" leaves the other members of the
// process group (orphans re-parented to init) alive.
func (c *Ctx) c05KillOnEveryPath() {
	type link struct {
		f    *ssa.Function
		next func(cc *ssa.CallCommon) bool
		what string
	}
	invoke := func(m string) func(cc *ssa.CallCommon) bool {
		return func(cc *ssa.CallCommon) bool {
			if cc.IsInvoke() {
				return cc.Method.Name() == m
			}
			g := staticCallee(cc)
			return g != nil && g.Name() == m
		}
	}
	static := func(g *ssa.Function) func(cc *ssa.CallCommon) bool {
		return func(cc *ssa.CallCommon) bool { return staticCallee(cc) == g }
	}
	kpc := c.fn("proc", "killProcessAndChildren")
	killGroup := c.fn("proc", "killGroup")
	links := []link{
		{c.fn(spPkg, "CleanKillOfCommand"), invoke("KillWithChildren"), "KillWithChildren"},
		{c.fn("proc", "(*ps).KillWithChildren"), static(kpc), "killProcessAndChildren"},
		{kpc, static(killGroup), "killGroup"},
	}
	if stop := c.fn(spPkg, "(*cmdWrapper).Stop"); stop != nil {
		links = append(links, link{stop, invoke("KillWithChildren"), "KillWithChildren"})
	}
	for _, l := range links {
		f := l.f
		if f == nil {
			continue
		}
		c.FuncsSeen[fname(outermost(f))] = true
		key := fname(outermost(f)) + "/kill-on-every-path"
		if f != outermost(f) {
			key = fname(outermost(f)) + "/scheduled/kill-on-every-path"
		}
		prune := func(b *ssa.BasicBlock, k int) bool {
			ifi, ok := b.Instrs[len(b.Instrs)-1].(*ssa.If)
			if !ok {
				return false
			}
			x, nilSucc, ok := nilTest(ifi)
			if !ok {
				return false
			}
			if isErrorType(x.Type()) {
				return k == 1-nilSucc
			}
			return k == nilSucc
		}
		isNext := func(i ssa.Instruction) bool {
			cc := callCommon(i)
			if cc == nil {
				return false
			}
			if _, isDefer := i.(*ssa.Defer); isDefer {
				return false
			}
			return l.next(cc)
		}
		has := false
		allInstrs(f, func(i ssa.Instruction) {
			if isNext(i) {
				has = true
			}
		})
		if !has {
			c.violate("P7", key, c.pos(f.Pos()), "no call of "+l.what+" at all")
			continue
		}
		esc := pathPruned(f, nil, isNext, isReturn, prune)
		c.check(esc == nil, "P7", key, c.pos(f.Pos()), "every path to a return passes "+l.what+" (error exits and nil guards aside)",
			"the return at "+c.iposOr(esc)+" is reached without "+l.what+" having been called, on a path that is neither an error exit nor a nil guard: for that case only the process itself is killed and the other members of its process group (orphans whose parent has exited) survive")
	}
}

// c05CancelKillsTheTreeFirst (P10): Execute() sits in cmd.Run(), whose Wait reaps the leader the moment it dies. The tree
// kill starts from the leader (FindProcess(pid) → KillWithChildren → killGroup): whatever kills the leader alone before the
// tree kill (the default os/exec cancellation Process.Kill, a Signal) opens a window in which the leader is reaped, the
// lookup fails with 'not found' or the terminate step with 'process done', and the group kill is never reached — the
// descendants survive and, holding the pipes, keep Execute() blocked.
func (c *Ctx) c05CancelKillsTheTreeFirst() {
	n := 0
	for _, f := range c.srcFuncs(spPkg) {
		allInstrs(f, func(in ssa.Instruction) {
			st, ok := in.(*ssa.Store)
			if !ok {
				return
			}
			fa, ok := st.Addr.(*ssa.FieldAddr)
			if !ok {
				return
			}
			so := structOf(fa.X.Type())
			if so == nil || so.Field(fa.Field).Name() != "Cancel" || !strings.HasSuffix(fa.X.Type().String(), "os/exec.Cmd") {
				return
			}
			mc, isMC := stripConv(st.Val).(*ssa.MakeClosure)
			if !isMC {
				return
			}
			lit, _ := mc.Fn.(*ssa.Function)
			if lit == nil {
				return
			}
			n++
			key := fname(outermost(f)) + "/cancel-kills-the-tree-first"
			var kill *ssa.Call
			allInstrs(lit, func(j ssa.Instruction) {
				if cl, ok := j.(*ssa.Call); ok {
					nme := calleeFull(&cl.Call)
					if strings.HasSuffix(nme, "subprocess.CleanKillOfCommand") || strings.HasSuffix(nme, ".KillWithChildren") || strings.HasSuffix(nme, ".killGroup") {
						kill = cl
					}
				}
			})
			if kill == nil {
				c.violate("P10", key, c.ipos(st), "the cancellation of the command does not kill the process tree")
				return
			}
			bad := ""
			allInstrs(lit, func(j ssa.Instruction) {
				cl, ok := j.(*ssa.Call)
				if !ok || cl == kill {
					return
				}
				nme := calleeFull(&cl.Call)
				if strings.HasPrefix(nme, "context.") || strings.HasPrefix(nme, modPath+"/commonerrors.") || strings.HasPrefix(nme, modPath+"/parallelisation.") {
					return
				}
				// can it run before the tree kill?
				if pathPruned(lit, nil, func(i ssa.Instruction) bool { return i == ssa.Instruction(kill) }, func(i ssa.Instruction) bool { return i == ssa.Instruction(cl) }, nil) != nil {
					what := short(nme)
					if what == "" {
						what = "a call through a function value (the previous Cancel?)"
					}
					bad = what + " at " + c.ipos(cl)
				}
			})
			// P11: "for every instant of the stop relative to the spawn": the context the tree kill runs under was not given
			// a deadline (or a cancel function somebody may already have called) when the command was built — the hook runs at
			// an arbitrary later time and an expired context makes the kill return before it signals anything
			{
				early := ""
				for _, a := range kill.Call.Args {
					if a.Type().String() != "context.Context" {
						continue
					}
					for _, l := range sources(a, deriveOpts{}) {
						r := resolveValue(l)
						ex, isEx := r.(*ssa.Extract)
						if !isEx {
							continue
						}
						mk, isCall := ex.Tuple.(*ssa.Call)
						if !isCall {
							continue
						}
						switch nme := calleeFull(&mk.Call); nme {
						case "context.WithTimeout", "context.WithDeadline", "context.WithTimeoutCause", "context.WithDeadlineCause":
							if mk.Parent() != lit {
								early = short(nme) + " at " + c.ipos(mk)
							}
						}
					}
					// a context derived from the command's own context is done by the time the hook runs
					if ctxDerived(a) {
						withoutCancel := false
						allInstrs(outermost(f), func(i2 ssa.Instruction) {
							if c2, ok := i2.(*ssa.Call); ok && calleeFull(&c2.Call) == "context.WithoutCancel" {
								withoutCancel = true
							}
						})
						if !withoutCancel && early == "" {
							early = "the context of the command itself (done when the hook runs)"
						}
					}
				}
				c.check(early == "", "P11", fname(outermost(f))+"/kill-context-made-when-the-hook-runs", c.ipos(kill), "the tree kill runs under a context that is not timed from the creation of the command",
					"the context handed to the tree kill comes from "+early+", i.e. its clock started when the command was built: a cancellation that arrives later than that finds it expired, the kill returns 'timeout' before it signals anything, only the leader is killed (by os/exec) and the descendants survive, holding the pipes Execute() waits on")
			}
			c.check(bad == "", "P10", key, c.ipos(kill), "the tree kill is the first thing the cancellation does",
				bad+" can run before the tree kill: if it takes the leader down, Execute()'s Wait reaps it at once, the tree kill then fails to find the process (or to terminate it) and never reaches the group kill — the descendants survive and keep Execute() blocked")
		})
	}
	if n == 0 {
		c.violate("P10", "subprocess/cancel-kills-the-tree-first", "", "no exec.Cmd.Cancel is set in package subprocess any more: a cancelled context only kills the direct child")
	}
}

// c05MarkedRunningBeforeAnythingThatMayBlock (P12): "every instant of the stop relative to the spawn". stop() looks at
// IsOn() before it does anything: from the moment the process exists until Start() has stored isRunning=true, a Stop() —
// or the Stop() of the monitoring goroutine after a cancellation — returns at once and kills nothing (after a cancellation
// the leader is then never waited for). That window must not contain calls into caller-supplied code: the messaging object
// writes to the caller's loggers, which may take arbitrarily long. Decided: in Start(), no call on the messaging object can
// be followed by the store of true into isRunning (the calls on the failing paths, which return, are fine).
func (c *Ctx) c05MarkedRunningBeforeAnythingThatMayBlock() {
	c.rule("P12", "Start() marks the subprocess as running before it calls into the messaging object (the caller's loggers): no messaging call lies between the spawn and the mark", 1)
	f := c.fnOpt(spPkg, "(*Subprocess).Start")
	if f == nil {
		return
	}
	c.FuncsSeen[fname(f)] = true
	var marks []ssa.Instruction
	var msgs []*ssa.Call
	var spawn *ssa.Call
	allInstrs(f, func(in ssa.Instruction) {
		cl, ok := in.(*ssa.Call)
		if !ok {
			return
		}
		if calleeFull(&cl.Call) == "(*go.uber.org/atomic.Bool).Store" && len(cl.Call.Args) >= 2 {
			if b, isB := constBool(cl.Call.Args[1]); isB && b {
				if fa, ok := cl.Call.Args[0].(*ssa.FieldAddr); ok {
					if so := structOf(fa.X.Type()); so != nil && so.Field(fa.Field).Name() == "isRunning" {
						marks = append(marks, cl)
					}
				}
			}
			return
		}
		if g := staticCallee(&cl.Call); g != nil && g.Signature.Recv() != nil && strings.Contains(g.Signature.Recv().Type().String(), "subprocessMessaging") {
			msgs = append(msgs, cl)
		}
		if g := staticCallee(&cl.Call); g != nil && g.Name() == "Start" && g.Signature.Recv() != nil && strings.Contains(g.Signature.Recv().Type().String(), "cmdWrapper") {
			spawn = cl
		}
	})
	if spawn != nil {
		// only what can come after the spawn matters: before it there is no process to stop
		var after []*ssa.Call
		for _, m := range msgs {
			if pathAvoiding(spawn, func(ssa.Instruction) bool { return false }, func(i ssa.Instruction) bool { return i == ssa.Instruction(m) }) != nil {
				after = append(after, m)
			}
		}
		msgs = after
	}
	if len(marks) == 0 {
		c.violate("P12", fname(f)+"/marked-running-first", c.pos(f.Pos()), "Start() never marks the subprocess as running: Stop() and the monitoring never act on it")
		return
	}
	bad := ""
	for _, m := range msgs {
		for _, mk := range marks {
			if pathAvoiding(m, func(ssa.Instruction) bool { return false }, func(i ssa.Instruction) bool { return i == mk }) != nil {
				bad = c.ipos(m) + " (" + staticCallee(&m.Call).Name() + ") before " + c.ipos(mk)
			}
		}
	}
	c.check(bad == "", "P12", fname(f)+"/marked-running-first", c.ipos(marks[0]), "no call on the messaging object can be followed by the store of true into isRunning",
		"the process exists but is not yet marked as running while Start() calls into the caller's loggers ("+bad+"): a Stop(), or the monitoring goroutine after a cancellation, arriving while such a logger is busy finds IsOn() false, returns at once and kills nothing — the tree keeps running after Stop() returned, or the leader is never waited for")
}

// c05CommandDroppedOnlyWhenNotRunning (P13): the stop path finds the process tree through the command the subprocess keeps
// (cmdWrapper: the exec.Cmd with its pid). The spawn paths drop that command to build a new one — which is right only
// where the subprocess was found not to be running, under the lock: a second Start() that passed the unlocked look at
// IsOn() together with the first one would otherwise forget the command of the tree the first one has just started, and
// Stop()/Restart() then "stop" a fresh command that was never started while the real tree keeps running.
func (c *Ctx) c05CommandDroppedOnlyWhenNotRunning() {
	c.rule("P13", "on the spawn paths (Start, Execute) the kept command is reset only where IsOn() was found false after the lock was taken: a live tree's command is never forgotten", 2)
	resets := func(g *ssa.Function, depth int) bool { return false }
	var resetsRec func(g *ssa.Function, depth int) bool
	resetsRec = func(g *ssa.Function, depth int) bool {
		if g == nil || g.Blocks == nil || depth > 1 {
			return false
		}
		found := false
		allInstrs(g, func(in ssa.Instruction) {
			if cc := callCommon(in); cc != nil {
				if h := staticCallee(cc); h != nil && h.Name() == "Reset" && h.Signature.Recv() != nil && strings.Contains(h.Signature.Recv().Type().String(), "subprocess.command") {
					found = true
				}
			}
		})
		return found
	}
	resets = resetsRec
	for _, name := range []string{"(*Subprocess).Start", "(*Subprocess).Execute"} {
		f := c.fnOpt(spPkg, name)
		if f == nil {
			continue
		}
		c.FuncsSeen[fname(f)] = true
		var lock ssa.Instruction
		var drops []*ssa.Call
		allInstrs(f, func(in ssa.Instruction) {
			cc := callCommon(in)
			if cc == nil {
				return
			}
			if _, op, ok := mutexOp(cc); ok && op == "Lock" {
				if _, isDefer := in.(*ssa.Defer); !isDefer && lock == nil {
					lock = in
				}
				return
			}
			cl, ok := in.(*ssa.Call)
			if !ok {
				return
			}
			h := staticCallee(cc)
			if h == nil {
				return
			}
			if h.Name() == "Reset" && h.Signature.Recv() != nil && strings.Contains(h.Signature.Recv().Type().String(), "subprocess.command") {
				drops = append(drops, cl)
			} else if inPkg(spPkg)(h) && strings.Contains(fname(h), "Subprocess") && resets(h, 1) {
				drops = append(drops, cl)
			}
		})
		key := fname(f) + "/command-dropped-only-when-not-running"
		if len(drops) == 0 {
			c.ok("P13", key, c.pos(f.Pos()), "the kept command is not reset on this path")
			continue
		}
		isOnUnderLock := func(v ssa.Value) bool {
			cl, ok := v.(*ssa.Call)
			if !ok {
				return false
			}
			h := staticCallee(&cl.Call)
			if h == nil || h.Name() != "IsOn" || !strings.Contains(fname(h), "Subprocess") {
				return false
			}
			return lock == nil || dominates(lock, cl)
		}
		bad := ""
		for _, d := range drops {
			if !onBoolSide(d, false, isOnUnderLock) {
				bad = c.ipos(d)
			}
		}
		c.check(bad == "", "P13", key, c.ipos(drops[0]), "the kept command is reset only where IsOn() answered false under the lock",
			"the kept command is reset at "+bad+" without the subprocess having been found not running under the lock: two Start() calls that both passed the first, unlocked look at IsOn() — the second resets the command of the tree the first has just started and returns as a no-op; from then on Stop() and Restart() build a fresh command that was never started, kill nothing and wait for nothing, and the tree keeps running")
	}
}

// c05SetupHandsItsContextOn (P14): "when a running subprocess is cancelled — by cancelling or timing out its context". The
// context is the one the subprocess was last set up with: setup hands its context parameter to the monitoring on every path
// (a monitoring object kept from an earlier setup keeps that setup's context, and the cancellation of the new one reaches
// neither the command nor the goroutine that stops the tree).
func (c *Ctx) c05SetupHandsItsContextOn() {
	c.rule("P14", "setup hands its context parameter to the monitoring of the subprocess on every path to a successful return: the context a subprocess obeys is the one it was last set up with", 1)
	f := c.fnOpt(spPkg, "(*Subprocess).setup")
	if f == nil {
		return
	}
	c.FuncsSeen[fname(f)] = true
	var ctxP *ssa.Parameter
	for _, p := range f.Params {
		if strings.HasSuffix(p.Type().String(), "context.Context") {
			ctxP = p
		}
	}
	key := fname(f) + "/context-reaches-the-monitoring"
	if ctxP == nil {
		c.violate("P14", key, c.pos(f.Pos()), "setup no longer takes a context")
		return
	}
	hands := func(in ssa.Instruction) bool {
		cl, ok := in.(*ssa.Call)
		if !ok {
			return false
		}
		g := staticCallee(&cl.Call)
		if g == nil || !inPkg(spPkg)(g) {
			return false
		}
		for _, a := range cl.Call.Args {
			if resolveValue(a) == ssa.Value(ctxP) {
				return true
			}
		}
		return false
	}
	any := false
	allInstrs(f, func(in ssa.Instruction) { any = any || hands(in) })
	if !any {
		c.violate("P14", key, c.pos(f.Pos()), "setup hands its context to nothing in the package: the subprocess obeys no context")
		return
	}
	esc := pathPruned(f, nil, hands, func(in ssa.Instruction) bool {
		r, ok := in.(*ssa.Return)
		return ok && !isErrorExit(f, r)
	}, nil)
	c.check(esc == nil, "P14", key, c.pos(f.Pos()), "every path to a successful return hands the context parameter to the monitoring",
		"the return at "+iposOrEmpty(c, esc)+" can be reached without setup having handed its context on (the monitoring is created only the first time, or under a condition): a subprocess set up a second time with another context goes on obeying the first one — cancelling or timing out the context it was given stops nothing, Execute() returns only when the tree ends by itself and IsOn() stays true")
}
