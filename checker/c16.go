package main

import (
	"go/token"
	"go/types"
	"strconv"
	"strings"

	"golang.org/x/tools/go/ssa"
)

func init() {
	register(&propCheck{
		id:          "C16",
		level:       "other",
		explanation: "Static necessary conditions of 'a successful Fetch installs one complete stored version': (Y1) ILock typestate at every client outside the lock's own implementation — a release (explicit or deferred) is never reachable while the lock is not held (with this lock a release without holding deletes the other holder's directory), never twice, and no successful exit leaves the lock held; (Y2) in the lock-based cache every transfer/unpack runs only while the entry lock is held; (Y3) the immutable cache uploads under a name that ends in the '.part' marker and renames only after the verified transfer succeeded; (Y4) every listing of an entry directory by the immutable cache goes through the one function that skips '.part' and '.hash' files; (Y5) TransferFiles reports success only on the equal side of the comparison between the source hash and a freshly recomputed destination hash; (Y6) unpacking reads the verified temporary copy, never the shared file directly. Decided by a path-sensitive typestate dataflow and dominance rules on SSA; nothing is executed. Not decided: crash points, interleavings of several clients, strength of the hash, stale hash side files.",
		run:         runC16,
		assumptions: []string{
			"the entry lock provides mutual exclusion while it is held (C01, C17)",
			"rename within the entry directory is atomic on the backend",
		},
	})
}

const scPkg = "sharedcache"

func runC16(c *Ctx) {
	c.notExistMeansAbsent("Y22")
	c.entryPathJoinsTheKeyItself()
	c.rule("Y1", "ILock typestate: release only while held (explicit or deferred), at most once per acquisition, and no exit while held without a pending release", 2)
	c.rule("Y2", "SharedMutableCacheRepository: TransferFiles / unpackPackageToLocalDestination are called only while the entry lock is held", 2)
	c.rule("Y3", "immutable Store: local archive named by generateCachedPackageName() (ends with the .part marker); the Move to the final name follows the successful TransferFiles and strips the marker from the uploaded name", 3)
	c.rule("Y4", "immutable cache: entry directories are listed only through listCompleteFilesByModTime, which uses an item only where both the .part and the .hash tests are false", 3)
	c.rule("Y5", "TransferFiles returns success only where hash(source) equals a recomputed (forced) hash of the destination", 2)
	c.rule("Y6", "unpackPackageToLocalDestination unzips the verified temporary copy returned by TransferFiles, after it succeeded", 1)
	c.rule("Y8", "getHash hands back the content of the .hash side file only where its length equals the digest length (or does not ignore the outcome of writing it)", 1)
	c.rule("Y11", "immutable cache: the listing is sorted newest first, Fetch takes its element 0 and CleanEntry never removes element 0", 3)
	c.rule("Y13", "Fetch installs the package as it was stored: it is not extracted with limits that apply recursively (nested archives stay archives)", 1)
	c.rule("Y12", "getHash: where the write of the .hash side file fails, the side file is removed (or the failure is returned): a stale, well-formed side file never outlives the file it described", 1)
	c.rule("Y10", "immutable CleanEntry decides what to keep and what to remove on a single listing of the entry directory", 1)
	c.rule("Y9", "Fetch installs exactly one version: the destination is emptied unconditionally (a clean without exclusion patterns) before the package is unpacked into it, in both caches", 3)
	c.rule("Y7", "Fetch/Store report the failure of the work they did: no deferred literal overwrites the error result unconditionally", 4)

	c.c16Typestate()
	c.c16HeartBeatOutlivesTheAcquire()
	// Y20: "a Fetch that reports success installs one complete version previously passed to Store, never a partial tree".
	// Both caches archive the tree with fs.Zip…: the walker of the archiving function writes a header for every entry it is
	// handed before it returns successfully, and copies the whole content of the path it opened (the obligation C07/Z1) —
	// an entry passed over on other grounds (a kind of file the walker decides not to look at: a symbolic link is not
	// 'regular' either) is missing from every version stored from then on.
	c.rule("Y20", "the zip walker Store archives with gives every walked entry a header, under its relative name, with the whole content of the opened path (the obligation C07/Z1)", 5)
	c.ruleAlias = map[string]string{"Z1": "Y20", "Z9": "Y20"}
	c.c07ZipWalker()
	c.ruleAlias = nil
	c.c16Immutable()
	c.c16Transfer()
	c.c16ErrorKept()
	c.c16SideFile()
	c.c16SideFileRefreshed()
	c.c16DestinationEmptied()
	c.c16FailuresTravel()
}

// c16FailuresTravel (Y14): "a Fetch returns a complete package or an error". Everything Fetch and Store do to the local
// copy goes through the filesystem package (copy, hash, unzip, clean): a step which finds its callee failed — a cancelled
// context between two entries of the archive, a file that cannot be written — and returns a nil error hands the caller a
// partial tree as a success. Decided with the same rule as C19/E1 and C09/A14 over every function the two caches can reach.
func (c *Ctx) c16FailuresTravel() {
	c.rule("Y14", "in every function Fetch/Store can reach (sharedcache, filesystem, hashing, safeio), a return that lies wholly on the failing side of a callee's error does not yield a nil error", 150)
	var roots []*ssa.Function
	for _, f := range c.srcFuncs(scPkg) {
		if f.Parent() == nil && (f.Name() == "Fetch" || f.Name() == "Store") {
			roots = append(roots, f)
		}
	}
	within := func(g *ssa.Function) bool {
		return inPkg(scPkg)(g) || inPkg(fsPkgRel)(g) || inPkg("hashing")(g) || inPkg("safeio")(g)
	}
	R := c.reachable(roots, true, within)
	var fns []*ssa.Function
	for f := range R {
		fns = append(fns, f)
	}
	sortFuncs(fns)
	c.rule("Y15", "in every function Fetch/Store can reach an error assigned to a variable is read before the variable is overwritten (the failure of one step — giving the package its final name — is not covered by the success of the next)", 150)
	for _, f := range fns {
		c.errDropRule("Y14", f)
		c.errOverwrittenRule("Y15", f)
	}
	c.Extra["functions_reached_by_fetch_and_store"] = len(fns)
	// Y16: Fetch prepares its destination with CleanDir (and IsEmpty): a destination that cannot be examined is not a
	// clean one — the new version would be unpacked over what is there and the mixed tree reported as a success.
	// Y17: the entry lock of the mutable cache is only as good as the lock implementation's discipline about who may remove
	// the lock directory: a waiter that gives up must not remove the lock of the client that holds it (two Stores then run in
	// the critical section: the package of one, the hash of the other — every later Fetch fails although both reported success)
	c.rule("Y17", "inside the lock implementation only Unlock removes the lock directory and only ReleaseIfStale calls Unlock: a contender that failed to acquire (a time-out) never releases (the obligation C01/R5)", 2)
	c.lockWhoMayRelease("Y17")
	c.rule("Y16", "for the functions Fetch/Store can reach: "+absentOnlyWhenAbsentText, 2)
	c.c04AbsentOnlyWhenAbsent("Y16", func(f *ssa.Function) bool { return R[f] })
}

// c16SideFile (Y8): "a Store that reports success makes its version the one that Fetches return … even if
// individual filesystem operations failed while it ran". getHash records the digest in a side file and ignores
// the outcome of that write; the next reader therefore must not trust the side file blindly: what it read is
// handed back only where its length equals the digest length — or else the write must not be ignored.
func (c *Ctx) c16SideFile() {
	f := c.fn(scPkg, "getHash")
	c.FuncsSeen[fname(f)] = true
	key := fname(f) + "/side-file-validated"
	var read, write *ssa.Call
	allInstrs(f, func(in ssa.Instruction) {
		if cl, ok := in.(*ssa.Call); ok && cl.Call.IsInvoke() {
			switch cl.Call.Method.Name() {
			case "ReadFile":
				read = cl
			case "WriteFile", "WriteToFile", "WriteFileWithContext":
				write = cl
			}
		}
	})
	if read == nil {
		c.ok("Y8", key, c.pos(f.Pos()), "the side file is never read back: the digest is always recomputed")
		return
	}
	writeChecked := false
	if write != nil && write.Referrers() != nil {
		for _, r := range *write.Referrers() {
			if _, isDbg := r.(*ssa.DebugRef); !isDbg {
				writeChecked = true
			}
		}
	}
	fromSide := func(v ssa.Value) bool {
		for _, l := range sources(v, deriveOpts{through: func(n string) bool { return strings.HasPrefix(n, "strings.") || strings.HasPrefix(n, "bytes.") }}) {
			if ex, ok := l.(*ssa.Extract); ok && ex.Tuple == ssa.Value(read) && ex.Index == 0 {
				return true
			}
		}
		return false
	}
	bad := ""
	for _, b := range f.Blocks {
		r, ok := b.Instrs[len(b.Instrs)-1].(*ssa.Return)
		if !ok || len(r.Results) == 0 || !fromSide(r.Results[0]) {
			continue
		}
		// only values that can actually be the side file's content along this return
		guarded := onBoolSide(r, true, func(v ssa.Value) bool {
			if hc, ok := v.(*ssa.Call); ok {
				// a package-local predicate whose result is a comparison of the length of its parameter with a constant
				if g := staticCallee(&hc.Call); g != nil && g.Blocks != nil && len(g.Params) == 1 && len(hc.Call.Args) == 1 && fromSide(hc.Call.Args[0]) {
					isLenTest := false
					allInstrs(g, func(j ssa.Instruction) {
						if b, ok := j.(*ssa.BinOp); ok && b.Op == token.EQL {
							if lc, ok := b.X.(*ssa.Call); ok {
								if bi, isB := lc.Call.Value.(*ssa.Builtin); isB && bi.Name() == "len" && lc.Call.Args[0] == ssa.Value(g.Params[0]) {
									if k, isC := constInt(b.Y); isC && k > 0 {
										isLenTest = true
									}
								}
							}
						}
					})
					return isLenTest
				}
				return false
			}
			cmp, ok := v.(*ssa.BinOp)
			if !ok || cmp.Op != token.EQL {
				return false
			}
			k, isC := constInt(cmp.Y)
			ln, isLen := cmp.X.(*ssa.Call)
			if !isC || k <= 0 || !isLen {
				return false
			}
			if bi, isB := ln.Call.Value.(*ssa.Builtin); !isB || bi.Name() != "len" {
				return false
			}
			return fromSide(ln.Call.Args[0])
		})
		if !guarded {
			// a merge point: accept when every edge carrying side-file content is guarded
			if phi, isPhi := r.Results[0].(*ssa.Phi); isPhi && phi.Block() == b {
				all := true
				for i, e := range phi.Edges {
					if !fromSide(e) {
						continue
					}
					pb := b.Preds[i]
					okEdge := false
					if len(pb.Instrs) > 0 {
						okEdge = onBoolSide(pb.Instrs[len(pb.Instrs)-1], true, func(v ssa.Value) bool {
							cmp, ok := v.(*ssa.BinOp)
							if !ok || cmp.Op != token.EQL {
								return false
							}
							k, isC := constInt(cmp.Y)
							ln, isLen := cmp.X.(*ssa.Call)
							if !isC || k <= 0 || !isLen {
								return false
							}
							bi, isB := ln.Call.Value.(*ssa.Builtin)
							return isB && bi.Name() == "len" && fromSide(ln.Call.Args[0])
						})
					}
					if !okEdge {
						all = false
					}
				}
				guarded = all
			}
		}
		if !guarded {
			bad = c.ipos(r)
		}
	}
	switch {
	case bad == "":
		c.ok("Y8", key, c.ipos(read), "content of the side file is handed back only where its length equals the digest length")
	case writeChecked:
		c.ok("Y8", key, c.ipos(read), "the side file is trusted as read, and the outcome of writing it is not ignored")
	default:
		c.violate("Y8", key, bad, "the content of the .hash side file is returned without its length having been compared with the digest length, while the write of that file ignores its outcome ("+c.iposOr(write)+"): a short or failed write during a Store that reports success leaves a truncated digest which every later Fetch then trusts and fails on (hash mismatch) until the next Store")
	}
}

// Y7: the error of the work done by Fetch/Store reaches the caller: no deferred
// literal overwrites the function's error result unconditionally.
func (c *Ctx) c16ErrorKept() {
	for _, f := range c.srcFuncs(scPkg) {
		if f.Parent() != nil || f.Signature.Results().Len() == 0 {
			continue
		}
		res := f.Signature.Results()
		if !isErrorType(res.At(res.Len() - 1).Type()) {
			continue
		}
		n := 0
		bad := ""
		allInstrs(f, func(in ssa.Instruction) {
			d, ok := in.(*ssa.Defer)
			if !ok {
				return
			}
			mc, ok := d.Call.Value.(*ssa.MakeClosure)
			if !ok {
				return
			}
			lit := mc.Fn.(*ssa.Function)
			for i, b := range mc.Bindings {
				al, ok := b.(*ssa.Alloc)
				if !ok || !isErrorType(al.Type().(*types.Pointer).Elem()) || i >= len(lit.FreeVars) {
					continue
				}
				// is this cell what the function returns as its error?
				isResult := false
				allInstrs(f, func(j ssa.Instruction) {
					if r, ok := j.(*ssa.Return); ok && len(r.Results) > 0 {
						if u, ok := r.Results[len(r.Results)-1].(*ssa.UnOp); ok && u.X == ssa.Value(al) {
							isResult = true
						}
					}
				})
				if !isResult {
					continue
				}
				fv := lit.FreeVars[i]
				for _, r := range *fv.Referrers() {
					st, ok := r.(*ssa.Store)
					if !ok || st.Addr != ssa.Value(fv) {
						continue
					}
					n++
					// accepted: the store happens only where the current error was found nil
					guarded := false
					for _, bb := range lit.Blocks {
						ifi, ok := bb.Instrs[len(bb.Instrs)-1].(*ssa.If)
						if !ok {
							continue
						}
						x, nilSucc, ok := nilTest(ifi)
						if !ok {
							continue
						}
						if u, ok := x.(*ssa.UnOp); ok && u.X == ssa.Value(fv) && edgeDominates(bb, nilSucc, st.Block()) {
							guarded = true
						}
					}
					if !guarded {
						bad = c.ipos(st)
					}
				}
			}
		})
		if n == 0 && f.Name() != "Fetch" && f.Name() != "Store" {
			continue
		}
		c.FuncsSeen[fname(f)] = true
		c.check(bad == "", "Y7", fname(f), c.pos(f.Pos()), "no deferred literal overwrites the error result", "the deferred literal at "+bad+" overwrites the function's error result unconditionally: when the transfer under the lock fails and the release succeeds the caller is told the operation succeeded although nothing complete was installed")
	}
}

// ---------------------------------------------------------------------------
// typestate engine

const (
	tsFree = 1 << iota
	tsHeld
)

// a state element: lock state (free/held) × number of deferred releases (0,1,2)
type tsElem struct {
	st int
	d  int
}
type tsSet map[tsElem]bool

func (s tsSet) clone() tsSet {
	o := tsSet{}
	for k := range s {
		o[k] = true
	}
	return o
}
func (s tsSet) addAll(o tsSet) bool {
	ch := false
	for k := range o {
		if !s[k] {
			s[k] = true
			ch = true
		}
	}
	return ch
}

var lockAcquire = map[string]bool{"Lock": true, "TryLock": true, "LockWithTimeout": true}

func isILockRecv(v ssa.Value) bool {
	t := v.Type()
	if n, ok := types.Unalias(t).(*types.Named); ok && n.Obj().Name() == "ILock" && n.Obj().Pkg() != nil && strings.HasSuffix(n.Obj().Pkg().Path(), "/filesystem") {
		return true
	}
	if p, ok := t.(*types.Pointer); ok {
		if n, ok := types.Unalias(p.Elem()).(*types.Named); ok && n.Obj().Name() == "RemoteLockFile" {
			return true
		}
	}
	return false
}

// lockRoot identifies the lock object a receiver denotes.
func lockRoot(v ssa.Value) ssa.Value {
	v = resolveFreeVar(stripConv(v))
	if u, ok := v.(*ssa.UnOp); ok && u.Op == token.MUL {
		return resolveFreeVar(u.X)
	}
	return v
}

type lockEvent struct {
	in      ssa.Instruction
	kind    string // acquire | release
	root    ssa.Value
	errVals []ssa.Value
}

func lockEventOf(in ssa.Instruction) *lockEvent {
	cl, ok := in.(*ssa.Call)
	if !ok {
		return nil
	}
	var recv ssa.Value
	var name string
	if cl.Call.IsInvoke() {
		recv, name = cl.Call.Value, cl.Call.Method.Name()
	} else if f := staticCallee(&cl.Call); f != nil && f.Signature.Recv() != nil && len(cl.Call.Args) > 0 {
		recv, name = cl.Call.Args[0], f.Name()
	} else {
		if g := staticCallee(&cl.Call); g != nil {
			if pi := acquireWrapperParam(g); pi >= 0 && pi < len(cl.Call.Args) {
				return &lockEvent{in: in, kind: "acquire", root: lockRoot(cl.Call.Args[pi]), errVals: errResultsOf(cl)}
			}
		}
		return nil
	}
	if !isILockRecv(recv) {
		// a wrapper of the package that acquires the lock it is handed and returns with it held stands for the acquire
		if g := staticCallee(&cl.Call); g != nil {
			if pi := acquireWrapperParam(g); pi >= 0 && pi < len(cl.Call.Args) {
				return &lockEvent{in: in, kind: "acquire", root: lockRoot(cl.Call.Args[pi]), errVals: errResultsOf(cl)}
			}
		}
		return nil
	}
	switch {
	case lockAcquire[name]:
		return &lockEvent{in: in, kind: "acquire", root: lockRoot(recv), errVals: errResultsOf(cl)}
	case name == "Unlock":
		return &lockEvent{in: in, kind: "release", root: lockRoot(recv)}
	}
	return nil
}

// acquireWrapperParam: g takes an ILock parameter, acquires it (Lock / TryLock / LockWithTimeout), never releases it and
// returns an error: on success it returns with the lock held. The index of that parameter, or -1.
var acquireWrapperMemo = map[*ssa.Function]int{}

func acquireWrapperParam(g *ssa.Function) int {
	if v, ok := acquireWrapperMemo[g]; ok {
		return v
	}
	acquireWrapperMemo[g] = -1
	if g.Blocks == nil || g.Pkg == nil || !strings.HasPrefix(g.Pkg.Pkg.Path(), modPath) {
		return -1
	}
	res := g.Signature.Results()
	if res.Len() == 0 || !isErrorType(res.At(res.Len()-1).Type()) {
		return -1
	}
	if g.Signature.Recv() != nil && strings.Contains(g.Signature.Recv().Type().String(), "RemoteLockFile") {
		return -1
	}
	for i, p := range g.Params {
		if !isILockRecv(p) {
			continue
		}
		acq, rel := false, false
		withAnon(g, func(h *ssa.Function) {
			allInstrs(h, func(in ssa.Instruction) {
				if d, ok := in.(*ssa.Defer); ok && deferredRelease(d, ssa.Value(p)) {
					rel = true
				}
				if ev := lockEventOf(in); ev != nil && ev.root == ssa.Value(p) {
					if ev.kind == "acquire" {
						acq = true
					} else {
						rel = true
					}
				}
			})
		})
		if acq && !rel {
			acquireWrapperMemo[g] = i
			return i
		}
	}
	return -1
}

// deferredReleases: number of Unlock calls on root that a Defer instruction will run.
func deferredRelease(d *ssa.Defer, root ssa.Value) bool {
	if d.Call.IsInvoke() {
		return d.Call.Method.Name() == "Unlock" && isILockRecv(d.Call.Value) && lockRoot(d.Call.Value) == root
	}
	g := staticCallee(&d.Call)
	if g == nil {
		return false
	}
	found := false
	allInstrs(g, func(in ssa.Instruction) {
		if ev := lockEventOf(in); ev != nil && ev.kind == "release" && ev.root == root {
			found = true
		}
	})
	return found
}

type tsReport struct {
	in  ssa.Instruction
	msg string
}

// runTypestate analyses one function for one lock root. protected: calls that
// must execute in state held (nil = none). Returns violations and, for each
// protected call, whether it was always held.
func runTypestate(f *ssa.Function, root ssa.Value, protected func(ssa.Instruction) bool) (viol []tsReport, prot map[ssa.Instruction]bool) {
	prot = map[ssa.Instruction]bool{}
	in := map[*ssa.BasicBlock]tsSet{}
	for _, b := range f.Blocks {
		in[b] = tsSet{}
	}
	in[f.Blocks[0]][tsElem{tsFree, 0}] = true
	reported := map[ssa.Instruction]bool{}
	report := func(i ssa.Instruction, msg string) {
		if !reported[i] {
			reported[i] = true
			viol = append(viol, tsReport{i, msg})
		}
	}
	// acquire results by value for edge refinement
	var acquires []*lockEvent
	allInstrs(f, func(i ssa.Instruction) {
		if ev := lockEventOf(i); ev != nil && ev.kind == "acquire" && ev.root == root {
			acquires = append(acquires, ev)
		}
	})
	work := []*ssa.BasicBlock{f.Blocks[0]}
	inWork := map[*ssa.BasicBlock]bool{f.Blocks[0]: true}
	for len(work) > 0 {
		b := work[0]
		work = work[1:]
		inWork[b] = false
		cur := in[b].clone()
		// pendingAcquire: acquire executed in this block whose result is not yet tested
		for _, i := range b.Instrs {
			if ev := lockEventOf(i); ev != nil && ev.root == root {
				switch ev.kind {
				case "acquire":
					// the state change is applied on the branch that tests the result; if the result is
					// never tested the lock may or may not be held afterwards
					if len(ev.errVals) == 0 || !resultTested(f, ev.errVals) {
						nx := tsSet{}
						for e := range cur {
							nx[tsElem{tsHeld, e.d}] = true
							nx[e] = true
						}
						cur = nx
					}
				case "release":
					nx := tsSet{}
					for e := range cur {
						if e.st == tsFree {
							report(i, "Unlock() reachable while the lock is not held (acquire failed, was never attempted, or the lock was already released): with this lock implementation that deletes the directory of whoever holds it now")
						}
						nx[tsElem{tsFree, e.d}] = true
					}
					cur = nx
				}
				continue
			}
			if d, ok := i.(*ssa.Defer); ok && deferredRelease(d, root) {
				nx := tsSet{}
				for e := range cur {
					n := e.d + 1
					if n > 2 {
						n = 2
					}
					nx[tsElem{e.st, n}] = true
				}
				cur = nx
				continue
			}
			if protected != nil && protected(i) {
				ok := len(cur) > 0
				for e := range cur {
					if e.st != tsHeld {
						ok = false
					}
				}
				if prev, seen := prot[i]; seen {
					prot[i] = prev && ok
				} else {
					prot[i] = ok
				}
			}
			if r, ok := i.(*ssa.Return); ok {
				for e := range cur {
					st := e.st
					for k := 0; k < e.d; k++ {
						if st == tsFree {
							report(r, "a deferred Unlock() runs at this exit although the lock is not held here (the defer was registered before the acquire succeeded, or the lock was already released explicitly)")
						}
						st = tsFree
					}
					if st == tsHeld {
						if isErrorExit(f, r) {
							report(r, "error exit while the lock is still held and no release is pending: the heartbeat keeps the lock alive, so the entry stays locked for every other client")
						} else {
							report(r, "successful exit while the lock is still held and no release is pending")
						}
					}
				}
			}
		}
		// propagate along edges, refining on tests of acquire results
		for k, s := range b.Succs {
			out := cur
			if ifi, ok := b.Instrs[len(b.Instrs)-1].(*ssa.If); ok {
				if x, nilSucc, ok := nilTest(ifi); ok {
					for _, a := range acquires {
						for _, ev := range a.errVals {
							if sameValue(x, ev) {
								out = tsSet{}
								for e := range cur {
									if k == nilSucc {
										out[tsElem{tsHeld, e.d}] = true
									} else {
										out[e] = true
									}
								}
							}
						}
					}
				}
			}
			if in[s].addAll(out) && !inWork[s] {
				inWork[s] = true
				work = append(work, s)
			}
		}
	}
	return viol, prot
}

// resultTested: some If in f tests one of vals against nil.
func resultTested(f *ssa.Function, vals []ssa.Value) bool {
	for _, b := range f.Blocks {
		ifi, ok := b.Instrs[len(b.Instrs)-1].(*ssa.If)
		if !ok {
			continue
		}
		if x, _, ok := nilTest(ifi); ok {
			for _, v := range vals {
				if sameValue(x, v) {
					return true
				}
			}
		}
	}
	return false
}

// isErrorExit: the last result is an error and is not the nil constant on
// every reaching definition.
func isErrorExit(f *ssa.Function, r *ssa.Return) bool {
	n := len(r.Results)
	if n == 0 || !isErrorType(r.Results[n-1].Type()) {
		return false
	}
	for _, l := range sources(r.Results[n-1], deriveOpts{through: func(string) bool { return false }}) {
		if isNilConst(l) {
			return false
		}
		// error known non-nil here?
		if !isFreshError(l) && !onNonNilSide(l, r) && !onClassifiedSide(l, r) {
			return false
		}
	}
	return true
}

// onClassifiedSide: `at` only executes where a call that classifies errors (commonerrors.Any, errors.Is, errors.As) answered
// true for v against something else: v is not nil there (neither Any(nil, kinds…) nor errors.Is(nil, kind) is true).
func onClassifiedSide(v ssa.Value, at ssa.Instruction) bool {
	return onBoolSide(at, true, func(c ssa.Value) bool {
		cl, ok := c.(*ssa.Call)
		if !ok || len(cl.Call.Args) < 2 {
			return false
		}
		switch n := calleeFull(&cl.Call); {
		case strings.HasSuffix(n, "commonerrors.Any"), n == "errors.Is", n == "errors.As":
		default:
			return false
		}
		if !sameValue(cl.Call.Args[0], v) {
			return false
		}
		// compared with nil as well? then nothing is known
		for _, e := range variadicElems(cl.Call.Args[1]) {
			if isNilConst(e) {
				return false
			}
		}
		return true
	})
}

func (c *Ctx) c16Typestate() {
	protectedName := func(in ssa.Instruction) bool {
		cl, ok := in.(*ssa.Call)
		if !ok {
			return false
		}
		n := calleeFull(&cl.Call)
		if strings.HasSuffix(n, "sharedcache.TransferFiles") || strings.HasSuffix(n, ".unpackPackageToLocalDestination") {
			return true
		}
		// a mutating filesystem call on a path inside the shared entry (the clean-up of a failed transfer removes the entry's
		// package: done after the lock was given up, it removes the package the next holder has just stored)
		if nm, args, isFs := fsMethodCall(cl); isFs && len(args) > 0 {
			switch nm {
			case "Rm", "Remove", "RemoveWithContext", "Move", "MoveWithContext", "WriteFile", "Touch", "CleanDir", "CleanDirWithContext":
				inEntry := false
				sources(args[0], deriveOpts{through: func(sn string) bool {
					for _, suffix := range []string{"sharedcache.TransferFiles", ".createEntry", ".getCacheEntryPath", "sharedcache.getCachedPackagePath", ".findCachedPackageFromEntryDir"} {
						if strings.HasSuffix(sn, suffix) {
							inEntry = true
						}
					}
					return true
				}})
				return inEntry
			}
		}
		return false
	}
	clients := 0
	for _, sp := range c.SSAPkgs {
		if !strings.HasPrefix(sp.Pkg.Path(), modPath) {
			continue
		}
		rel := shortPkg(sp.Pkg.Path())
		for _, f := range c.srcFuncs(rel) {
			if f.Parent() != nil {
				continue
			}
			// the lock's own implementation is outside the rule
			if rel == "filesystem" && f.Signature.Recv() != nil && strings.Contains(f.Signature.Recv().Type().String(), "RemoteLockFile") {
				continue
			}
			if acquireWrapperParam(f) >= 0 {
				continue // returns with the lock held by design: its callers are the clients (Y19 looks at what it does with the context)
			}
			roots := map[ssa.Value]bool{}
			var order []ssa.Value
			withAnon(f, func(g *ssa.Function) {
				allInstrs(g, func(in ssa.Instruction) {
					if ev := lockEventOf(in); ev != nil {
						if !roots[ev.root] {
							roots[ev.root] = true
							order = append(order, ev.root)
						}
					}
				})
			})
			isMutable := rel == scPkg && f.Signature.Recv() != nil && strings.Contains(f.Signature.Recv().Type().String(), "SharedMutableCacheRepository")
			for _, root := range order {
				// only roots used by f itself (closures are folded in through defers)
				hasAcquire := false
				allInstrs(f, func(in ssa.Instruction) {
					if ev := lockEventOf(in); ev != nil && ev.root == root && ev.kind == "acquire" {
						hasAcquire = true
					}
				})
				if !hasAcquire {
					// release without any acquire in the function (e.g. helper): report as info only
					continue
				}
				clients++
				c.FuncsSeen[fname(f)] = true
				var pf func(ssa.Instruction) bool
				if isMutable {
					pf = protectedName
				}
				viol, prot := runTypestate(f, root, pf)
				key := fname(f) + "/lock"
				if len(viol) == 0 {
					c.ok("Y1", key, c.pos(f.Pos()), "every release happens while held, once; no successful exit while held")
				}
				for _, v := range viol {
					c.violate("Y1", key, c.ipos(v.in), v.msg)
				}
				for in, ok := range prot {
					cl := in.(*ssa.Call)
					what := short(calleeFull(&cl.Call))
					if nm, _, isFs := fsMethodCall(cl); isFs {
						what = "entry:" + nm
					}
					c.check(ok, "Y2", fname(f)+"/"+what, c.ipos(in), "runs only while the entry lock is held",
						"the shared package of the entry is transferred, or changed, while the entry lock is not held: concurrent Store/Fetch see partial files, and a clean-up made after the lock was given up removes the package the next holder has just stored — every later Fetch fails although that Store reported success")
				}
			}
			if isMutable && (f.Name() == "Fetch" || f.Name() == "Store") {
				// a protected call in a function that never acquires a lock
				if len(order) == 0 {
					allInstrs(f, func(in ssa.Instruction) {
						if protectedName(in) {
							cl := in.(*ssa.Call)
							c.violate("Y2", fname(f)+"/"+short(calleeFull(&cl.Call)), c.ipos(in), "the lock-based cache transfers the shared package without taking the entry lock")
						}
					})
				}
			}
		}
	}
	c.Extra["lock_clients"] = clients
}

// ---------------------------------------------------------------------------

func (c *Ctx) c16Immutable() {
	// Y3
	gen := c.fn(scPkg, "(*SharedImmutableCacheRepository).generateCachedPackageName")
	if gen != nil {
		good := false
		allInstrs(gen, func(in ssa.Instruction) {
			r, ok := in.(*ssa.Return)
			if !ok {
				return
			}
			for _, l := range sources(r.Results[0], deriveOpts{}) {
				cl, ok := l.(*ssa.Call)
				if !ok || calleeFull(&cl.Call) != "fmt.Sprintf" {
					continue
				}
				format, _ := constString(cl.Call.Args[0])
				// last variadic element
				elems := variadicElems(cl.Call.Args[1])
				if strings.HasSuffix(format, ".part") {
					good = true
				}
				if strings.HasSuffix(format, "%v") || strings.HasSuffix(format, "%s") {
					if len(elems) > 0 {
						if s, ok := constString(stripConv(elems[len(elems)-1])); ok && s == ".part" {
							good = true
						}
					}
				}
			}
		})
		c.check(good, "Y3", fname(gen), c.pos(gen.Pos()), "generated name ends with the .part marker", "the upload name no longer ends with the '.part' marker: readers can pick a half-written archive")
	}
	store := c.fn(scPkg, "(*SharedImmutableCacheRepository).Store")
	if store != nil {
		var transfer, move *ssa.Call
		allInstrs(store, func(in ssa.Instruction) {
			if cl, ok := in.(*ssa.Call); ok {
				n := calleeFull(&cl.Call)
				if strings.HasSuffix(n, "sharedcache.TransferFiles") {
					transfer = cl
				}
				if strings.HasSuffix(n, "VFS).Move") || strings.HasSuffix(n, "VFS).MoveWithContext") {
					if move == nil {
						move = cl
					}
				}
			}
		})
		good := transfer != nil
		why := "Store no longer uploads through TransferFiles"
		if good {
			// source of the transfer derives from generateCachedPackageName
			good = false
			for _, l := range sources(transfer.Call.Args[3], deriveOpts{through: func(n string) bool { return n == "path/filepath.Join" }}) {
				if cl, ok := l.(*ssa.Call); ok && staticCallee(&cl.Call) == gen {
					good = true
				}
			}
			why = "the archive uploaded is not named by generateCachedPackageName(): it appears in the entry directory under a final name while still being written"
		}
		c.check(good, "Y3", fname(store)+"/upload-name", c.pos(store.Pos()), "uploads under the .part name", why)
		good = move != nil && transfer != nil && dominates(transfer, move) && onNilSide(errResultsOf(transfer)[0], move)
		why = "the rename to the final name is not conditional on the verified transfer having succeeded"
		if good {
			// final name = ReplaceAll(destZip, ".part", "") with destZip = transfer result
			good = false
			args := move.Call.Args
			src, dst := args[len(args)-2], args[len(args)-1]
			srcOK := false
			for _, l := range sources(src, deriveOpts{}) {
				if ex, ok := l.(*ssa.Extract); ok && ex.Tuple == ssa.Value(transfer) && ex.Index == 0 {
					srcOK = true
				}
			}
			why = "the final name is not the uploaded name with the '.part' marker removed"
			fromSrc := func(v ssa.Value) bool {
				for _, l := range sources(v, deriveOpts{}) {
					if ex, ok := l.(*ssa.Extract); ok && ex.Tuple == ssa.Value(transfer) && ex.Index == 0 {
						return true
					}
				}
				return false
			}
			switch d := resolveValue(stripConv(dst)).(type) {
			case *ssa.Slice:
				// uploaded[:len(uploaded)-len(marker)]
				if srcOK && d.Low == nil && d.High != nil && fromSrc(d.X) {
					if sub, ok := d.High.(*ssa.BinOp); ok && sub.Op == token.SUB {
						if k, isC := constInt(sub.Y); isC && k == int64(len(".part")) {
							good = true
						}
					}
				}
			case *ssa.Call:
				switch calleeFull(&d.Call) {
				case "strings.TrimSuffix":
					if mk, _ := constString(d.Call.Args[1]); srcOK && mk == ".part" && fromSrc(d.Call.Args[0]) {
						good = true
					}
				case "strings.ReplaceAll", "strings.Replace":
					why = "the final name is computed by removing '.part' wherever it occurs in the whole path (" + calleeFull(&d.Call) + "): with a key or a storage path that contains the marker (\"release.partial-1\", \".../cache.partition\") the package is moved to another directory — Store reports success and the following Fetch finds no entry"
				}
			}
		}
		pos := c.pos(store.Pos())
		if move != nil {
			pos = c.ipos(move)
		}
		if good {
			// no successful return after the transfer without the rename, unless the uploaded name carries no marker
			isPartTest := func(v ssa.Value) bool {
				cl, ok := v.(*ssa.Call)
				if !ok || calleeFull(&cl.Call) != "strings.EqualFold" && calleeFull(&cl.Call) != "strings.HasSuffix" {
					return false
				}
				for _, a := range cl.Call.Args {
					if s2, ok := constString(a); ok && s2 == ".part" {
						return true
					}
				}
				return false
			}
			prune := func(b *ssa.BasicBlock, k int) bool {
				ifi, ok := b.Instrs[len(b.Instrs)-1].(*ssa.If)
				if !ok {
					return false
				}
				v, ts := boolTest(ifi)
				if isPartTest(v) {
					return k != ts // the side without the marker needs no rename
				}
				if x, nilSucc, ok := nilTest(ifi); ok && sameValue(x, errResultsOf(transfer)[0]) {
					return k != nilSucc
				}
				return false
			}
			esc := pathPruned(store, transfer, func(in ssa.Instruction) bool { return in == ssa.Instruction(move) }, func(in ssa.Instruction) bool { return isReturnOK(store, in) }, prune)
			if esc != nil {
				good, why = false, "Store can report success at "+c.ipos(esc)+" with the archive still under its '.part' name: readers skip it, so the version just stored is never the one Fetch returns"
			}
		}
		c.check(good, "Y3", fname(store)+"/publish", pos, "rename after the verified transfer on every successful path, marker stripped", why)
	}
	// Y4 who-may-list
	lister := c.fn(scPkg, "listCompleteFilesByModTime")
	// Y18: "returns the newest complete version": the newest one is chosen among the packages the listing hands back, so
	// the listing must look at every name of the directory. Its loops run to the end of what was listed; the only other way
	// out is an error (a package that vanished, a cancelled context): leaving a loop early with a success hands back a
	// prefix in directory order, and Fetch unpacks the newest of that prefix, CleanEntry spares what was not listed.
	c.rule("Y18", "the loops of listCompleteFilesByModTime run to the end of the listed names; the only other way out is an error exit (a prefix of the directory is never handed back as the whole listing)", 1)
	if lister != nil && lister.Blocks != nil {
		loops, bad := c.loopsRunToTheEnd(lister)
		switch {
		case loops == 0:
			c.undecided("Y18", fname(lister)+"/every-package", c.pos(lister.Pos()), "no loop over the listed names found")
		case bad != "":
			c.violate("Y18", fname(lister)+"/every-package", bad, "a loop over the listed names can be left here before the end of the list without an error: the packages after this point are not candidates, so an older version is returned as the newest (and CleanEntry never sees them)")
		default:
			c.ok("Y18", fname(lister)+"/every-package", c.pos(lister.Pos()), strconv.Itoa(loops)+" loop(s) over the listed names run to the end (error exits aside)")
		}
	}
	for _, f := range c.srcFuncs(scPkg) {
		if f.Signature.Recv() == nil || !strings.Contains(f.Signature.Recv().Type().String(), "SharedImmutableCacheRepository") {
			continue
		}
		c.FuncsSeen[fname(f)] = true
		bad := ""
		allInstrs(f, func(in ssa.Instruction) {
			if cl, ok := in.(*ssa.Call); ok {
				n := calleeFull(&cl.Call)
				for _, m := range []string{").Ls", ").LsRecursive", ").Lls", ").LsWithExclusionPatterns", ").ListDirTree", ").Walk", ").WalkWithContext", ").Glob", ").FindAll", "afero.ReadDir"} {
					if strings.HasSuffix(n, m) {
						bad = c.ipos(cl) + " " + short(n)
					}
				}
			}
		})
		if bad != "" {
			c.violate("Y4", fname(f)+"/listing", c.pos(f.Pos()), "lists an entry directory directly ("+bad+") instead of through listCompleteFilesByModTime: '.part' uploads become visible")
		} else if f.Name() == "CleanEntry" || f.Name() == "findCachedPackageFromEntryDir" {
			uses := false
			allInstrs(f, func(in ssa.Instruction) {
				if cl, ok := in.(*ssa.Call); ok && staticCallee(&cl.Call) == lister {
					uses = true
				}
			})
			c.check(uses, "Y4", fname(f)+"/listing", c.pos(f.Pos()), "lists through listCompleteFilesByModTime", "no longer lists through listCompleteFilesByModTime")
			if f.Name() == "findCachedPackageFromEntryDir" {
				// Y11 (picker): the package Fetch unpacks is the first of the listing, which is sorted newest first.
				picksFirst, n := true, 0
				allInstrs(f, func(in ssa.Instruction) {
					r, ok := in.(*ssa.Return)
					if !ok || len(r.Results) == 0 {
						return
					}
					for _, ia := range c16ElemAccesses(r.Results[0]) {
						n++
						if k, isConst := constInt(ia.Index); !isConst || k != 0 {
							picksFirst = false
						}
					}
				})
				c.check(picksFirst && n > 0, "Y11", fname(f)+"/picks-first", c.pos(f.Pos()), "the package handed to Fetch is element 0 of the newest-first listing",
					"the package handed to Fetch is not element 0 of the listing (sorted newest first): after a successful Store, Fetch returns an older version")
			}
			if f.Name() == "CleanEntry" {
				// Y11 (keeper): CleanEntry never removes element 0 of that listing, the version Fetch returns.
				removesFirst := ""
				allInstrs(f, func(in ssa.Instruction) {
					name, args, ok := fsMethodCall(in)
					if !ok || !(name == "Rm" || name == "RemoveWithContext" || name == "Remove") || len(args) == 0 {
						return
					}
					for _, ia := range c16ElemAccesses(args[len(args)-1]) {
						if sl, isSlice := ia.X.(*ssa.Slice); isSlice {
							if k, isConst := constInt(sl.Low); isConst && k >= 1 {
								continue
							}
						}
						if !c16MayBeZero(ia.Index) {
							continue
						}
						// a guard that compares the index with 0, or the name with element 0, protects it
						guarded := false
						allInstrs(f, func(g ssa.Instruction) {
							b, isBin := g.(*ssa.BinOp)
							if !isBin || (b.Op != token.EQL && b.Op != token.NEQ && b.Op != token.GTR && b.Op != token.LSS) || !dominates(b, in) {
								return
							}
							for _, o := range []ssa.Value{b.X, b.Y} {
								if k, isConst := constInt(o); isConst && k == 0 {
									guarded = true
								}
								for _, e := range c16ElemAccesses(o) {
									if k, isConst := constInt(e.Index); isConst && k == 0 {
										guarded = true
									}
								}
							}
						})
						if !guarded {
							removesFirst = c.ipos(in)
						}
					}
				})
				c.check(removesFirst == "", "Y11", fname(f)+"/keeps-first", c.pos(f.Pos()), "element 0 of the newest-first listing is never removed",
					"the removal at "+removesFirst+" can be handed element 0 of the listing, the most recent complete version: the version a successful Store has just published — the one Fetch must return — is removed")
			}
			if f.Name() == "CleanEntry" {
				// Y10: what is kept and what is removed is decided on one snapshot of the entry directory. With two
				// listings a Store that completes between them is in the second and not in the first: the version
				// kept is the older one and the version just stored — the one Fetch must now return — is removed.
				var sites []string
				allInstrs(f, func(in ssa.Instruction) {
					if cl, ok := in.(*ssa.Call); ok {
						if g := staticCallee(&cl.Call); g != nil && c16Reaches(g, lister, 4) {
							sites = append(sites, c.ipos(cl))
						}
					}
				})
				inLoopSite := false
				allInstrs(f, func(in ssa.Instruction) {
					if cl, ok := in.(*ssa.Call); ok {
						if g := staticCallee(&cl.Call); g != nil && c16Reaches(g, lister, 4) && inLoop(cl) {
							inLoopSite = true
						}
					}
				})
				c.check(len(sites) == 1 && !inLoopSite, "Y10", fname(f)+"/one-snapshot", c.pos(f.Pos()), "the entry directory is listed once; what is kept and what is removed come from that one listing",
					"the entry directory is listed more than once ("+strings.Join(sites, ", ")+"): a Store that completes between the listings appears in the later one only — the version kept is the one chosen from the earlier listing, and the version just stored, which Fetch must return from now on, is removed with the rest")
			}
		}
	}
	if lister != nil {
		// the use of an item (StatTimes / append) is on the false side of both tests
		isExtTest := func(marker string) func(ssa.Value) bool {
			return func(v ssa.Value) bool {
				cl, ok := v.(*ssa.Call)
				if !ok || calleeFull(&cl.Call) != "strings.EqualFold" {
					return false
				}
				for _, a := range cl.Call.Args {
					if s, ok := constString(a); ok && s == marker {
						for _, b := range cl.Call.Args {
							if e, ok := b.(*ssa.Call); ok && calleeFull(&e.Call) == "path/filepath.Ext" {
								return true
							}
						}
					}
				}
				return false
			}
		}
		var use ssa.Instruction
		allInstrs(lister, func(in ssa.Instruction) {
			if cl, ok := in.(*ssa.Call); ok && cl.Call.IsInvoke() && cl.Call.Method.Name() == "StatTimes" {
				use = cl
			}
		})
		// Y11 (order): the comparator handed to the sort says "i before j when i is more recent"
		newestFirst, nCmp := true, 0
		for _, an := range lister.AnonFuncs {
			if len(an.Params) != 2 || an.Signature.Results().Len() != 1 {
				continue
			}
			allInstrs(an, func(in ssa.Instruction) {
				r, ok := in.(*ssa.Return)
				if !ok {
					return
				}
				cl, ok := r.Results[0].(*ssa.Call)
				if !ok {
					newestFirst = false
					return
				}
				nCmp++
				argIdx := func(v ssa.Value) int {
					for _, e := range c16ElemAccessesThroughFields(v) {
						return paramIndex(an, e.Index)
					}
					return -1
				}
				var a, b int
				if len(cl.Call.Args) == 2 {
					a, b = argIdx(cl.Call.Args[0]), argIdx(cl.Call.Args[1])
				}
				switch calleeFull(&cl.Call) {
				case "(time.Time).After":
					newestFirst = newestFirst && a == 0 && b == 1
				case "(time.Time).Before":
					newestFirst = newestFirst && a == 1 && b == 0
				default:
					newestFirst = false
				}
			})
		}
		c.check(newestFirst && nCmp > 0, "Y11", fname(lister)+"/newest-first", c.pos(lister.Pos()), "sorted by modification time, most recent first", "the listing is not (recognisably) sorted most recent first: element 0, which Fetch takes and CleanEntry keeps, is not the version stored last")
		good := use != nil && onBoolSide(use, false, isExtTest(".part")) && onBoolSide(use, false, isExtTest(".hash"))
		// and whatever is appended to the result list comes from that guarded region
		pos := c.pos(lister.Pos())
		if use != nil {
			pos = c.ipos(use)
		}
		c.check(good, "Y4", fname(lister)+"/filter", pos, "items used only where neither .part nor .hash", "an entry is used without both the '.part' and the '.hash' extension tests being false: half-written uploads or hash side files are treated as packages")
	}
}

// c16ElemAccesses collects the element accesses (x[i]) a value is built from, looking through joins, conversions,
// concatenations, phis and local variables.
func c16ElemAccesses(v ssa.Value) []*ssa.IndexAddr {
	seen := map[ssa.Value]bool{}
	var out []*ssa.IndexAddr
	var walk func(v ssa.Value)
	walk = func(v ssa.Value) {
		if v == nil || seen[v] {
			return
		}
		seen[v] = true
		switch x := v.(type) {
		case *ssa.Phi:
			for _, e := range x.Edges {
				walk(e)
			}
		case *ssa.Convert:
			walk(x.X)
		case *ssa.ChangeType:
			walk(x.X)
		case *ssa.MakeInterface:
			walk(x.X)
		case *ssa.BinOp:
			if x.Op == token.ADD {
				walk(x.X)
				walk(x.Y)
			}
		case *ssa.Call:
			switch calleeFull(&x.Call) {
			case "path/filepath.Join", "path/filepath.Clean", "fmt.Sprintf", "path.Join":
				for _, a := range x.Call.Args {
					walk(a)
					for _, e := range variadicElems(a) {
						walk(e)
					}
				}
			}
		case *ssa.UnOp:
			if x.Op != token.MUL {
				return
			}
			switch a := x.X.(type) {
			case *ssa.IndexAddr:
				out = append(out, a)
			case *ssa.Alloc:
				st, _ := reachingStores(x, a)
				for _, sv := range st {
					walk(sv)
				}
			}
		}
	}
	walk(v)
	return out
}

// c16ElemAccessesThroughFields: like c16ElemAccesses, also looking through field selections and struct loads (x[i].field).
func c16ElemAccessesThroughFields(v ssa.Value) []*ssa.IndexAddr {
	for d := 0; d < 6; d++ {
		switch x := v.(type) {
		case *ssa.UnOp:
			if ia, ok := x.X.(*ssa.IndexAddr); ok {
				return []*ssa.IndexAddr{ia}
			}
			v = x.X
		case *ssa.FieldAddr:
			v = x.X
		case *ssa.Field:
			v = x.X
		case *ssa.IndexAddr:
			return []*ssa.IndexAddr{x}
		default:
			return nil
		}
	}
	return nil
}

// c16MayBeZero: the index is 0, or a loop counter that starts at 0 (also in the rotated form of range loops, -1 then +1).
func c16MayBeZero(idx ssa.Value) bool {
	switch x := idx.(type) {
	case *ssa.Const:
		k, ok := constInt(x)
		return ok && k == 0
	case *ssa.Phi:
		for _, e := range x.Edges {
			if k, ok := constInt(e); ok && k == 0 {
				return true
			}
		}
	case *ssa.BinOp:
		if x.Op == token.ADD {
			if ph, ok := x.X.(*ssa.Phi); ok {
				if one, ok := constInt(x.Y); ok && one == 1 {
					for _, e := range ph.Edges {
						if k, ok := constInt(e); ok && k == -1 {
							return true
						}
					}
				}
			}
		}
	}
	return false
}

// c16LimitsRecursive: the limits built by this call apply recursively — NewLimits(…, true), or a constructor of package
// filesystem that (transitively) ends in one.
func c16LimitsRecursive(cl *ssa.Call, depth int) bool {
	if depth > 4 {
		return true
	}
	g := staticCallee(&cl.Call)
	if g == nil {
		return true // unknown: not known to be flat
	}
	if g.Name() == "NewLimits" && len(cl.Call.Args) >= 5 {
		b, isC := constBool(cl.Call.Args[4])
		return !isC || b
	}
	if g.Name() == "NoLimits" {
		return false
	}
	rec := false
	found := false
	allInstrs(g, func(in ssa.Instruction) {
		r, ok := in.(*ssa.Return)
		if !ok || len(r.Results) == 0 {
			return
		}
		for _, l := range sources(r.Results[0], deriveOpts{}) {
			if ic, isCall := l.(*ssa.Call); isCall {
				found = true
				if c16LimitsRecursive(ic, depth+1) {
					rec = true
				}
			}
		}
	})
	return rec || !found
}

// c16Reaches reports whether g is target or calls it through at most depth static calls.
func c16Reaches(g, target *ssa.Function, depth int) bool {
	if g == nil || target == nil {
		return false
	}
	if g == target {
		return true
	}
	if depth == 0 || g.Blocks == nil {
		return false
	}
	found := false
	allInstrs(g, func(in ssa.Instruction) {
		if found {
			return
		}
		if ci, ok := in.(ssa.CallInstruction); ok {
			if h := staticCallee(ci.Common()); h != nil && h != g && c16Reaches(h, target, depth-1) {
				found = true
			}
		}
	})
	return found
}

// variadicElems returns the values stored in the backing array of a variadic
// slice argument.
func variadicElems(v ssa.Value) []ssa.Value {
	sl, ok := v.(*ssa.Slice)
	if !ok {
		return nil
	}
	al, ok := sl.X.(*ssa.Alloc)
	if !ok {
		return nil
	}
	type iv struct {
		i int64
		v ssa.Value
	}
	var out []iv
	for _, r := range *al.Referrers() {
		if ia, ok := r.(*ssa.IndexAddr); ok {
			idx, _ := constInt(ia.Index)
			for _, rr := range *ia.Referrers() {
				if s, ok := rr.(*ssa.Store); ok {
					out = append(out, iv{idx, s.Val})
				}
			}
		}
	}
	res := make([]ssa.Value, len(out))
	for _, e := range out {
		if int(e.i) < len(res) {
			res[e.i] = e.v
		}
	}
	return res
}

func (c *Ctx) c16Transfer() {
	f := c.fn(scPkg, "TransferFiles")
	if f != nil {
		getHash := c.fn(scPkg, "getHash")
		var hashes []*ssa.Call
		allInstrs(f, func(in ssa.Instruction) {
			if cl, ok := in.(*ssa.Call); ok && staticCallee(&cl.Call) == getHash {
				hashes = append(hashes, cl)
			}
		})
		// comparison
		var cmp *ssa.Call
		allInstrs(f, func(in ssa.Instruction) {
			if cl, ok := in.(*ssa.Call); ok && (calleeFull(&cl.Call) == "strings.EqualFold") {
				cmp = cl
			}
		})
		var cmpV ssa.Value
		if cmp != nil {
			cmpV = cmp
		} else {
			allInstrs(f, func(in ssa.Instruction) {
				if b, ok := in.(*ssa.BinOp); ok && b.Op == token.EQL && b.X.Type().String() == "string" {
					cmpV = b
				}
			})
		}
		good := len(hashes) >= 2 && cmpV != nil
		why := "TransferFiles no longer compares the source hash with the destination hash"
		if good {
			// operands are the two hash results
			var ops []ssa.Value
			switch x := cmpV.(type) {
			case *ssa.Call:
				ops = x.Call.Args
			case *ssa.BinOp:
				ops = []ssa.Value{x.X, x.Y}
			}
			seen := map[*ssa.Call]bool{}
			for _, o := range ops {
				for _, l := range sources(o, deriveOpts{}) {
					if ex, ok := l.(*ssa.Extract); ok && ex.Index == 0 {
						if cl, ok := ex.Tuple.(*ssa.Call); ok && staticCallee(&cl.Call) == getHash {
							seen[cl] = true
						}
					}
				}
			}
			if len(seen) < 2 {
				good, why = false, "the comparison does not involve both the source hash and the destination hash"
			}
			// destination hash is forced (recomputed): the call hashing the destination passes true
			forced := false
			for cl := range seen {
				if b, ok := constBool(cl.Call.Args[3]); ok && b {
					// its path argument is not the src parameter
					if paramIndex(f, cl.Call.Args[2]) != 3 {
						forced = true
					}
				}
			}
			if good && !forced {
				good, why = false, "the destination hash is not recomputed after the copy (forceHashUpdate is not true): a stale side file vouches for a corrupted copy"
			}
		}
		c.check(good, "Y5", fname(f)+"/verify", c.pos(f.Pos()), "hash(source) compared with a recomputed hash(destination)", why)
		// success returns only on the equal side
		if cmpV != nil {
			bad := ""
			n := 0
			allInstrs(f, func(in ssa.Instruction) {
				r, ok := in.(*ssa.Return)
				if !ok {
					return
				}
				if isErrorExit(f, r) {
					return
				}
				n++
				if !onBoolSide(r, true, func(v ssa.Value) bool { return v == cmpV }) {
					bad = c.ipos(r)
				}
			})
			c.check(bad == "" && n > 0, "Y5", fname(f)+"/success", c.pos(f.Pos()), "nil error only on the equal side of the hash comparison", "return at "+bad+" reports success without the hashes having compared equal")
		}
	}
	g := c.fn(scPkg, "(*AbstractSharedCacheRepository).unpackPackageToLocalDestination")
	if g != nil {
		var tr, uz *ssa.Call
		allInstrs(g, func(in ssa.Instruction) {
			if cl, ok := in.(*ssa.Call); ok {
				n := calleeFull(&cl.Call)
				if strings.HasSuffix(n, "sharedcache.TransferFiles") {
					tr = cl
				}
				if strings.Contains(n, "VFS).Unzip") {
					uz = cl
				}
			}
		})
		good := tr != nil && uz != nil && dominates(tr, uz) && onNilSide(errResultsOf(tr)[0], uz)
		if good {
			good = false
			// the archive argument: the first string argument (…(ctx, source, destination[, limits]))
			for _, a := range uz.Call.Args {
				if bt, isB := a.Type().Underlying().(*types.Basic); !isB || bt.Kind() != types.String {
					continue
				}
				for _, l := range sources(a, deriveOpts{}) {
					if ex, ok := l.(*ssa.Extract); ok && ex.Tuple == ssa.Value(tr) && ex.Index == 0 {
						good = true
					}
				}
				break
			}
		}
		c.check(good, "Y6", fname(g), c.pos(g.Pos()), "unzips the verified temporary copy", "the archive unzipped into the destination is not the hash-verified temporary copy (or the transfer's failure is ignored)")
		// Y13: the package is installed as it was stored: an archive found inside it stays an archive. Extraction with limits
		// that apply recursively (DefaultLimits, DefaultZipLimits, RecursiveZipLimits, NewLimits(…, true)) replaces every nested
		// zip by a folder of its content.
		if uz != nil {
			recursive := ""
			if strings.Contains(calleeFull(&uz.Call), "AndLimits") {
				lim := uz.Call.Args[len(uz.Call.Args)-1]
				for _, l := range sources(lim, deriveOpts{}) {
					lc, isCall := l.(*ssa.Call)
					if !isCall {
						recursive = "limits of unknown origin"
						continue
					}
					if c16LimitsRecursive(lc, 0) {
						recursive = short(calleeFull(&lc.Call))
					}
				}
			}
			c.check(recursive == "", "Y13", fname(g)+"/as-stored", c.ipos(uz), "the package is extracted without recursing into the archives it contains",
				"the package is extracted with limits that apply recursively ("+recursive+"): a zip archive that is part of the stored version is replaced by a folder of its content — Fetch succeeds and installs a tree that is not the version which was stored")
		}
	}
}

func isZeroLoad(v ssa.Value) bool {
	u, ok := v.(*ssa.UnOp)
	if !ok || u.Op != token.MUL {
		return false
	}
	a, ok := u.X.(*ssa.Alloc)
	if !ok {
		return false
	}
	st, _ := reachingStores(u, a)
	return len(st) == 0
}

// c16DestinationEmptied (Y9): "exactly one complete version … never a mixed tree". Unpacking adds and overwrites
// files; whatever an earlier version left in the destination and the new one does not contain stays unless the
// destination was emptied first — completely: a clean that spares entries matching some pattern spares them.
func (c *Ctx) c16DestinationEmptied() {
	setup := c.fn(scPkg, "(*AbstractSharedCacheRepository).setUpLocalDestination")
	c.FuncsSeen[fname(setup)] = true
	di := paramIndexByName(setup, "dest")
	if di < 0 {
		c.fatalf("C16/Y9: parameter dest of setUpLocalDestination not found")
		return
	}
	dest := setup.Params[di]
	isFullClean := func(in ssa.Instruction) (bool, string) {
		cl, isCall := in.(*ssa.Call)
		name, args, ok := fsMethodCall(in)
		if !ok || !isCall {
			return false, ""
		}
		switch name {
		case "Rm", "RemoveWithContext":
			// removing the destination altogether empties it as well (it is re-created afterwards or by the unpacking)
			return resolveValue(args[len(args)-1]) == ssa.Value(dest), ""
		case "CleanDir", "CleanDirWithContext":
			return resolveValue(args[len(args)-1]) == ssa.Value(dest), ""
		case "CleanDirWithContextAndExclusionPatterns":
			if len(args) >= 2 && resolveValue(args[1]) == ssa.Value(dest) {
				if len(variadicElems(args[len(args)-1])) == 0 && isNilConst(args[len(args)-1]) {
					return true, ""
				}
				return false, "the destination is cleaned with exclusion patterns (" + s_ipos(c, cl) + "): entries of an earlier version that match a pattern survive the clean"
			}
		}
		return false, ""
	}
	why := ""
	allInstrs(setup, func(in ssa.Instruction) {
		if _, w := isFullClean(in); w != "" {
			why = w
		}
	})
	esc := pathPruned(setup, nil, func(i ssa.Instruction) bool { ok, _ := isFullClean(i); return ok }, func(i ssa.Instruction) bool {
		r, ok := i.(*ssa.Return)
		return ok && !isErrorExit(setup, r)
	}, nil)
	if why == "" {
		why = "setUpLocalDestination can return successfully without having emptied the destination"
	}
	c.check(esc == nil, "Y9", fname(setup)+"/emptied", c.pos(setup.Pos()), "every successful return follows a clean of the destination without exclusion patterns",
		why+": what an earlier Fetch installed and the new version does not contain stays next to it — a mixed tree, with Fetch reporting success")
	// both Fetch implementations set the destination up before unpacking into it
	unpackName := "unpackPackageToLocalDestination"
	for _, fn := range []string{"(*SharedMutableCacheRepository).Fetch", "(*SharedImmutableCacheRepository).Fetch"} {
		f := c.fn(scPkg, fn)
		c.FuncsSeen[fname(f)] = true
		var su, un *ssa.Call
		allInstrs(f, func(in ssa.Instruction) {
			if cl, ok := in.(*ssa.Call); ok {
				if g := staticCallee(&cl.Call); g == setup {
					su = cl
				} else if g != nil && g.Name() == unpackName {
					un = cl
				}
			}
		})
		good := su != nil && un != nil && dominates(su, un) && len(errResultsOf(su)) > 0 && onNilSide(errResultsOf(su)[0], un)
		if good {
			// same destination
			good = sameValue(resolveValue(su.Call.Args[len(su.Call.Args)-1]), resolveValue(un.Call.Args[len(un.Call.Args)-1])) || resolveValue(su.Call.Args[len(su.Call.Args)-1]) == resolveValue(un.Call.Args[len(un.Call.Args)-1])
		}
		c.check(good, "Y9", fname(f)+"/setup-before-unpack", c.pos(f.Pos()), "the destination is set up (emptied) successfully before the package is unpacked into it",
			"the package is unpacked into a destination that was not emptied first (setUpLocalDestination missing, after the unpack, its error ignored, or on another path)")
	}
}

func s_ipos(c *Ctx, in ssa.Instruction) string { return c.ipos(in) }

// c16SideFileRefreshed (Y12): "a Store that reports success makes its version the one that subsequent Fetches return … even
// if individual filesystem operations failed while it ran". TransferFiles verifies the copy with a forced digest of the
// destination; getHash then refreshes the side file. If that write fails and is ignored, the previous side file — sixteen
// characters, so trusted by Y8's length test — describes the previous package: Store succeeds, every Fetch fails.
func (c *Ctx) c16SideFileRefreshed() {
	f := c.fn(scPkg, "getHash")
	key := fname(f) + "/failed-refresh-leaves-no-side-file"
	var write *ssa.Call
	allInstrs(f, func(in ssa.Instruction) {
		if cl, ok := in.(*ssa.Call); ok && cl.Call.IsInvoke() {
			switch cl.Call.Method.Name() {
			case "WriteFile", "WriteToFile", "WriteFileWithContext":
				write = cl
			}
		}
	})
	if write == nil {
		c.ok("Y12", key, c.pos(f.Pos()), "no side file is written")
		return
	}
	errs := errResultsOf(write)
	good := false
	if len(errs) > 0 {
		path := write.Call.Args[0]
		allInstrs(f, func(in ssa.Instruction) {
			switch x := in.(type) {
			case *ssa.Call:
				if name, args, isFs := fsMethodCall(x); isFs && (name == "Rm" || strings.HasPrefix(name, "Remove")) && len(args) > 0 && sameValue(args[len(args)-1], path) && onNonNilSide(errs[0], x) {
					good = true
				}
			case *ssa.Return:
				if onNonNilSide(errs[0], x) && isErrorExit(f, x) {
					good = true
				}
			}
		})
	}
	c.check(good, "Y12", key, c.ipos(write), "a failed write of the side file is followed by its removal or reported",
		"the outcome of writing the .hash side file is ignored: when the write fails after the package was replaced, the previous side file (well-formed, describing the previous package) stays — Store reports success and every later Fetch fails with a hash mismatch")
}

// c16HeartBeatOutlivesTheAcquire (Y19): the lock's heartbeat runs for as long as the context handed to Lock / TryLock /
// LockWithTimeout lives (C01/R9: it stops when that context ends). A client of the lock that derives a context of its own
// for the acquire and cancels it when it returns must give the lock back before it returns: returning with the lock held
// and the context cancelled leaves a lock that is held and silent — after two periods every other client sees it stale,
// CleanEntry releases it and a second Store runs in the middle of the first.
func (c *Ctx) c16HeartBeatOutlivesTheAcquire() {
	c.heartBeatOutlivesTheAcquire("Y19", scPkg, "a function of package sharedcache that acquires an entry lock under a context it derived itself (context.With*) and cancels in that function also releases the lock in that function: the heartbeat of a lock that stays held is never stopped by its own client", 1)
}

// heartBeatOutlivesTheAcquire is the rule Y19 for the functions of package rel, reported as `rule` (C01/R16 evaluates it for
// the lock's own implementation, whose take-over path acquires by calling TryLock again).
func (c *Ctx) heartBeatOutlivesTheAcquire(rule, rel, text string, floor int) {
	c.rule(rule, text, floor)
	n := 0
	for _, f := range c.srcFuncs(rel) {
		if f.Parent() != nil || f.Blocks == nil {
			continue
		}
		withAnon(f, func(h *ssa.Function) {
			allInstrs(h, func(in ssa.Instruction) {
				cl, ok := in.(*ssa.Call)
				if !ok {
					return
				}
				var recv, ctxArg ssa.Value
				name := ""
				switch {
				case cl.Call.IsInvoke() && lockAcquire[cl.Call.Method.Name()] && isILockRecv(cl.Call.Value) && len(cl.Call.Args) > 0:
					recv, ctxArg, name = cl.Call.Value, cl.Call.Args[0], cl.Call.Method.Name()
				default:
					g := staticCallee(&cl.Call)
					if g == nil || g.Signature.Recv() == nil || !lockAcquire[g.Name()] || len(cl.Call.Args) < 2 || !isILockRecv(cl.Call.Args[0]) {
						return
					}
					recv, ctxArg, name = cl.Call.Args[0], cl.Call.Args[1], g.Name()
				}
				n++
				c.FuncsSeen[fname(f)] = true
				key := fname(f) + "/acquire-context:" + name
				root := lockRoot(recv)
				cancelledHere := ""
				for _, l := range sources(ctxArg, deriveOpts{}) {
					ex, ok := l.(*ssa.Extract)
					if !ok || ex.Index != 0 {
						continue
					}
					w, ok := ex.Tuple.(*ssa.Call)
					if !ok || !strings.HasPrefix(calleeFull(&w.Call), "context.With") {
						continue
					}
					// is its cancel function called or deferred in this function?
					for _, r := range *w.Referrers() {
						ce, ok := r.(*ssa.Extract)
						if !ok || ce.Index != 1 {
							continue
						}
						for _, u := range *ce.Referrers() {
							switch x := u.(type) {
							case *ssa.Defer:
								if x.Call.Value == ssa.Value(ce) {
									cancelledHere = c.ipos(x)
								}
							case *ssa.Call:
								if x.Call.Value == ssa.Value(ce) {
									cancelledHere = c.ipos(x)
								}
							}
						}
					}
				}
				if cancelledHere == "" {
					c.ok(rule, key, c.ipos(cl), "the lock is acquired under the caller's context (or one this function does not cancel)")
					return
				}
				released := false
				withAnon(f, func(g *ssa.Function) {
					allInstrs(g, func(j ssa.Instruction) {
						if d, ok := j.(*ssa.Defer); ok && deferredRelease(d, root) {
							released = true
						}
						if ev := lockEventOf(j); ev != nil && ev.kind == "release" && ev.root == root {
							released = true
						}
					})
				})
				c.check(released, rule, key, c.ipos(cl), "the function that cancels the context of the acquire also releases the lock",
					"the lock is acquired under a context this function derives and cancels ("+cancelledHere+") without releasing the lock: the heartbeat lives on that context (it is what tells the other clients that the holder is alive), so the lock its caller goes on holding falls silent — two heartbeat periods later CleanEntry of another client finds it stale and releases it, a second Store runs in the middle of the first, and the Store that reported success has its package removed by the failure path of the other")
			})
		})
	}
	_ = n
}
