package main

import (
	"go/token"
	"strings"

	"golang.org/x/tools/go/ssa"
)

func init() {
	register(&propCheck{
		id:          "C01",
		level:       "other",
		explanation: "Static necessary conditions of 'at most one holder of the file lock', the structural facts without which no schedule argument can hold: (R1) TryLock reports success only after the raw, non-recursive, fail-if-exists Mkdir of the lock directory returned nil, no tolerant creator (MkDir/MkDirAll) is ever applied to the lock path, and Lock reports success only where TryLock did and loops only on ErrLocked; (R2) inside every function retried by retry.Do in the lock, once a destructive step on the lock path has succeeded no path returns an error (which would re-run the removal and delete a successor's lock); (R3) a stale take-over removes the lock only after an atomic claim (rename) of the directory it judged; (R4) the lock path is a pure function of directory, prefix and id, is the path given to Mkdir and the path removed by Unlock. R2 and R3 are violated by the pinned sources (known findings K1, K2, reproduced); they need an ownership token or rename protocol, i.e. a redesign. Decided on SSA; nothing is executed. Not decided: overlap of hold intervals under real schedules, heartbeat interplay, atomicity of the backend's mkdir.",
		run:         runC01,
		assumptions: []string{
			"the backend's Mkdir is atomic and fails when the directory exists (true of the OS; the in-memory afero backend is known not to guarantee it)",
		},
	})
}

func isRemoteLockMethod(f *ssa.Function) bool {
	g := outermost(f)
	return g.Signature.Recv() != nil && strings.Contains(g.Signature.Recv().Type().String(), "filesystem.RemoteLockFile")
}

// isLockPathValue: v derives from a call of (*RemoteLockFile).lockPath.
func isLockPathValue(v ssa.Value) bool {
	for _, l := range sources(v, deriveOpts{through: func(n string) bool { return n == "path/filepath.Clean" }}) {
		if cl, ok := resolveValue(l).(*ssa.Call); ok && strings.HasSuffix(calleeFull(&cl.Call), "RemoteLockFile).lockPath") {
			return true
		}
	}
	return false
}

func runC01(c *Ctx) {
	c.rule("R1", "acquisition is one exclusive create: TryLock returns nil only on the nil side of afero.Fs.Mkdir(lockPath) through l.fs.vfs; no MkDir/MkDirAll/MkdirAll on the lock path; Lock returns nil only where TryLock did and waits/retries only on ErrLocked", 4)
	c.rule("R2", "in a function retried by retry.Do, after a removal of the lock path returned nil no path returns a non-nil error (the removal must not be re-run)", 2)
	c.rule("R3", "stale take-over: between the staleness verdict and the removal of the lock path there is an atomic claim (Rename/Move of the lock path to a private name)", 1)
	c.rule("R8", "the staleness verdict that licenses a take-over measures every age against the holder's heartbeat period", 1)
	c.rule("R7", "the staleness verdict that licenses a take-over reads the files found by a plain listing of the lock directory (never a pattern search over the lock path, never a name computed from the observer's id)", 1)
	c.rule("R6", "the staleness verdict that licenses a take-over counts a heartbeat file it cannot read as a sign of life", 1)
	c.rule("R5", "inside the lock implementation only Unlock removes lockPath() and only ReleaseIfStale calls Unlock: acquire paths never release", 2)
	c.rule("R4", "lockPath() depends only on the lock's directory, prefix and id; it is the path created by TryLock and the path removed by Unlock", 3)

	c.rule("R9", "a heartbeat whose context has ended touches nothing any more: every write of the heartbeat goroutine (content, times) lies where the context gate of that iteration answered nil — the lock directory may already belong to the next holder, who uses the same file name", 2)
	if hb := c.fnOpt(fsPkgRel, "heartBeat"); hb != nil {
		c.FuncsSeen[fname(hb)] = true
		var gates []ssa.Value
		allInstrs(hb, func(in ssa.Instruction) {
			if cl, ok := in.(*ssa.Call); ok && strings.HasSuffix(calleeFull(&cl.Call), "parallelisation.DetermineContextError") {
				gates = append(gates, cl)
			}
		})
		n := 0
		allInstrs(hb, func(in ssa.Instruction) {
			cl, ok := in.(*ssa.Call)
			if !ok {
				return
			}
			isWrite := func(name string) bool {
				switch name {
				case "WriteFile", "WriteFileWithContext", "WriteToFile", "Chtimes", "Touch", "CreateFile", "Rm", "Remove", "Move", "Chmod":
					return true
				}
				return false
			}
			what := ""
			if cl.Call.IsInvoke() {
				if isWrite(cl.Call.Method.Name()) {
					what = cl.Call.Method.Name()
				}
			} else if g := staticCallee(&cl.Call); g != nil && inPkg(fsPkgRel)(g) && g.Blocks != nil {
				// a helper of the package that writes: the call stands for its writes
				allInstrs(g, func(j ssa.Instruction) {
					if k, ok := j.(*ssa.Call); ok && k.Call.IsInvoke() && isWrite(k.Call.Method.Name()) && what == "" {
						what = k.Call.Method.Name()
					}
				})
			}
			if what == "" {
				return
			}
			n++
			live := false
			for _, g := range gates {
				if onNilSide(g, cl) {
					live = true
				}
			}
			c.check(live, "R9", fname(hb)+"/writes-only-while-alive:"+what, c.ipos(cl), "the write lies where the context gate answered nil",
				"the heartbeat goroutine calls "+what+" where its context has ended (or was never consulted): the goroutine of a holder that released — its Unlock cancelled the context and removed the directory — may run this after the next holder has created the same directory and the same heartbeat file, and rewrites the content or the times of a live holder's heartbeat (back-dated: the live lock is reported stale and taken over)")
		})
		if n == 0 {
			c.violate("R9", fname(hb)+"/writes", c.pos(hb.Pos()), "the heartbeat goroutine writes nothing")
		}
	} else {
		c.info("R9", "filesystem.heartBeat/absent", "-", "no heartBeat function (the heartbeat is written elsewhere)")
	}
	c.rule("R11", "every beat of the heartbeat (re)creates the heartbeat file: a creating write lies in the loop, so that a creation that failed once, or a file that vanished, is repaired one period later", 1)
	c.rule("R12", "the instant written at a beat is read from the clock at that beat (time.Now() evaluated in the loop), not carried over or computed from the previous beat", 1)
	c.rule("R14", "the instant given to the heartbeat file is read after the write of that beat: a slow write does not back-date the heartbeat it has just made", 1)
	c.heartBeatEveryBeat("R11", "R12", "R14")
	c.lockDirectoryStampedOnceItExists("R15")
	c.heartBeatStampsEveryBeat("R17")
	c.lockDirectoryAgedAsListed("R18")
	// R16: "as long as the holder's heartbeat keeps running": the heartbeat lives on the context the acquire was given. The
	// lock's own take-over path acquires by calling TryLock again: under a context that very function derives and cancels
	// on its way out, the holder it has just made falls silent at once (the obligation C16/Y19, for the lock itself).
	c.heartBeatOutlivesTheAcquire("R16", fsPkgRel, "a method of the lock that acquires (TryLock / Lock / LockWithTimeout, on itself or another lock) under a context it derived itself (context.With*) and cancels in that function also releases the lock there: the heartbeat of a lock that stays held is not stopped by the code that acquired it", 1)
	c.rule("R13", "the heartbeat goroutine returns only where its context gate answered an error: a failed write does not end the heartbeat of a holder that is alive (the exit obligation of C17/S1)", 1)
	c.heartBeatStopsOnlyWithItsContext("R13")

	// R10: the verdict 'stale' (and with it the take-over of a lock) rests on listings and stats of the lock directory. A helper on
	// that path that loses a failure — an error overwritten by the outcome of the next step, a failing side that returns
	// success — turns "I could not look" into "there is no heartbeat file": the lock of a live holder is judged by the age of its
	// directory and taken over.
	c.rule("R10", "in everything the staleness verdict reaches inside the filesystem package, an error assigned to a variable is read before it is overwritten and a failing side does not return success", 20)
	c.staleVerdictErrorsTravel("R10")

	try := c.fn(fsPkgRel, "(*RemoteLockFile).TryLock")
	lock := c.fn(fsPkgRel, "(*RemoteLockFile).Lock")
	unlock := c.fn(fsPkgRel, "(*RemoteLockFile).Unlock")
	lockPath := c.fn(fsPkgRel, "(*RemoteLockFile).lockPath")
	if try == nil || lock == nil || unlock == nil || lockPath == nil {
		return
	}
	for _, f := range c.srcFuncs(fsPkgRel) {
		if isRemoteLockMethod(f) {
			c.FuncsSeen[fname(f)] = true
		}
	}

	// ---- R1 ---------------------------------------------------------------
	var mkdir *ssa.Call
	allInstrs(try, func(in ssa.Instruction) {
		cl, ok := in.(*ssa.Call)
		if !ok || !cl.Call.IsInvoke() || cl.Call.Method.Name() != "Mkdir" {
			return
		}
		if _, ok := fieldLoad(cl.Call.Value, "VFS", "vfs"); ok {
			mkdir = cl
		}
	})
	if mkdir == nil {
		c.violate("R1", fname(try)+"/create", c.pos(try.Pos()), "TryLock no longer creates the lock directory with the raw afero Mkdir (the only primitive that fails when the directory exists): two contenders can both succeed")
	} else {
		c.check(isLockPathValue(mkdir.Call.Args[0]), "R4", fname(try)+"/mkdir-path", c.ipos(mkdir), "Mkdir(lockPath())", "the directory created is not lockPath()")
		n := 0
		bad := ""
		allInstrs(try, func(in ssa.Instruction) {
			r, ok := in.(*ssa.Return)
			if !ok {
				return
			}
			for _, l := range sources(r.Results[0], deriveOpts{through: func(string) bool { return false }}) {
				if isNilConst(l) {
					n++
					if !(dominates(mkdir, r) && onNilSide(mkdir, r)) {
						bad = c.ipos(r)
					}
				}
			}
		})
		c.check(n > 0 && bad == "", "R1", fname(try)+"/success", c.ipos(mkdir), "nil only on the nil side of Mkdir's result",
			"TryLock returns success at "+bad+" without the exclusive Mkdir having succeeded")
	}
	// tolerant creators on the lock path anywhere in the lock's methods
	tol := ""
	for _, f := range c.srcFuncs(fsPkgRel) {
		if !isRemoteLockMethod(f) {
			continue
		}
		allInstrs(f, func(in ssa.Instruction) {
			cl, ok := in.(*ssa.Call)
			if !ok {
				return
			}
			n := calleeFull(&cl.Call)
			if hasSuffixAny(n, "VFS).MkDir", "VFS).MkDirAll", ".MkdirAll", "FS).MkDir", "FS).MkDirAll") {
				for _, a := range cl.Call.Args {
					if isLockPathValue(a) {
						tol = c.ipos(cl) + " " + short(n)
					}
				}
			}
		})
	}
	c.check(tol == "", "R1", "lockfile/tolerant-create", c.pos(try.Pos()), "no tolerant creator is applied to the lock path", "a creator that succeeds when the directory already exists is applied to the lock path at "+tol)

	// Lock: nil only where TryLock returned nil; waits only on ErrLocked
	var tryCall *ssa.Call
	allInstrs(lock, func(in ssa.Instruction) {
		if cl, ok := in.(*ssa.Call); ok && staticCallee(&cl.Call) == try {
			tryCall = cl
		}
	})
	if tryCall == nil {
		c.violate("R1", fname(lock)+"/success", c.pos(lock.Pos()), "Lock no longer acquires through TryLock")
	} else {
		bad := ""
		n := 0
		allInstrs(lock, func(in ssa.Instruction) {
			r, ok := in.(*ssa.Return)
			if !ok {
				return
			}
			for _, l := range sources(r.Results[0], deriveOpts{through: func(string) bool { return false }}) {
				if isNilConst(l) {
					n++
					if !onNilSide(tryCall, r) {
						bad = c.ipos(r)
					}
				}
			}
		})
		c.check(n > 0 && bad == "", "R1", fname(lock)+"/success", c.ipos(tryCall), "Lock succeeds only where TryLock did", "Lock returns success at "+bad+" although TryLock did not")
		// the wait (and hence the retry) happens only on err == ErrLocked
		var wait *ssa.Call
		allInstrs(lock, func(in ssa.Instruction) {
			if cl, ok := in.(*ssa.Call); ok && (calleeFull(&cl.Call) == "context.WithTimeout" || strings.HasSuffix(calleeFull(&cl.Call), "SleepWithContext") || calleeFull(&cl.Call) == "time.Sleep") {
				wait = cl
			}
		})
		isErrLocked := func(v ssa.Value) bool {
			if u, ok := stripConv(v).(*ssa.UnOp); ok {
				if g, ok := u.X.(*ssa.Global); ok && g.Name() == "ErrLocked" {
					return true
				}
			}
			return false
		}
		isLockedCmpOp := func(v ssa.Value, op token.Token) bool {
			if cl, isCall := v.(*ssa.Call); isCall && op == token.EQL {
				// errors.Is(err, ErrLocked) / commonerrors.Any(err, ErrLocked)
				n := calleeFull(&cl.Call)
				if (n == "errors.Is" || strings.HasSuffix(n, "commonerrors.Any")) && len(cl.Call.Args) == 2 && sameValue(cl.Call.Args[0], tryCall) {
					if isErrLocked(cl.Call.Args[1]) {
						return true
					}
					els := variadicElems(cl.Call.Args[1])
					return len(els) == 1 && isErrLocked(els[0])
				}
				return false
			}
			b, ok := v.(*ssa.BinOp)
			if !ok || b.Op != op {
				return false
			}
			for _, pair := range [][2]ssa.Value{{b.X, b.Y}, {b.Y, b.X}} {
				if sameValue(pair[0], tryCall) {
					if u, ok := stripConv(pair[1]).(*ssa.UnOp); ok {
						if g, ok := u.X.(*ssa.Global); ok && g.Name() == "ErrLocked" {
							return true
						}
					}
				}
			}
			return false
		}
		good := wait != nil && (onBoolSide(wait, true, func(v ssa.Value) bool { return isLockedCmpOp(v, token.EQL) }) ||
			onBoolSide(wait, false, func(v ssa.Value) bool { return isLockedCmpOp(v, token.NEQ) }))
		// every back edge from the non-nil side goes through that comparison: no other path from tryCall's non-nil side reaches the loop head
		if good {
			esc := pathAvoiding(tryCall, func(in ssa.Instruction) bool { return in == ssa.Instruction(wait) || isReturn(in) }, func(in ssa.Instruction) bool {
				return in == ssa.Instruction(tryCall)
			})
			if esc != nil {
				good = false
			}
		}
		pos := c.ipos(tryCall)
		c.check(good, "R1", fname(lock)+"/retry", pos, "Lock polls again only after TryLock said ErrLocked", "Lock retries TryLock on an error other than ErrLocked (e.g. ErrStaleLock): a stale verdict turns into a busy loop or an override")
	}

	// ---- R2 ---------------------------------------------------------------
	for _, f := range c.srcFuncs(fsPkgRel) {
		if !isRemoteLockMethod(f) || f.Parent() != nil {
			continue
		}
		allInstrs(f, func(in ssa.Instruction) {
			cl, ok := in.(*ssa.Call)
			if !ok || !strings.HasSuffix(calleeFull(&cl.Call), "retry-go/v4.Do") {
				return
			}
			mc, ok := stripConv(cl.Call.Args[0]).(*ssa.MakeClosure)
			if !ok {
				c.undecided("R2", fname(f)+"/retried", c.ipos(cl), "retried function is not a literal")
				return
			}
			lit := mc.Fn.(*ssa.Function)
			c.FuncsSeen[fname(lit)] = true
			var destr []*ssa.Call
			allInstrs(lit, func(j ssa.Instruction) {
				d, ok := j.(*ssa.Call)
				if !ok {
					return
				}
				n := calleeFull(&d.Call)
				if hasSuffixAny(n, "VFS).Rm", "VFS).RemoveWithContext", "VFS).RemoveWithContextAndExclusionPatterns", "VFS).RemoveWithPrivileges", ".Remove", ".RemoveAll", "VFS).CleanDir") {
					destr = append(destr, d)
				}
			})
			key := fname(f) + "/retried-literal"
			if len(destr) == 0 {
				c.ok("R2", key, c.ipos(cl), "no destructive step inside the retried function")
				return
			}
			for _, d := range destr {
				// returns reachable where d's result is nil
				bad := ""
				for _, b := range lit.Blocks {
					r, ok := b.Instrs[len(b.Instrs)-1].(*ssa.Return)
					if !ok || !dominates(d, r) {
						continue
					}
					if onNonNilSide(d, r) {
						continue // the removal failed: retrying it is harmless
					}
					for _, l := range sources(r.Results[0], deriveOpts{through: func(string) bool { return false }}) {
						if !isNilConst(l) {
							bad = c.ipos(r)
						}
					}
				}
				if bad == "" {
					c.ok("R2", key, c.ipos(d), "after the removal succeeded the retried function returns nil")
				} else {
					c.violate("R2", key, c.ipos(d), "after "+short(calleeFull(&d.Call))+" returned nil the retried function can still return an error at "+bad+": retry.Do runs the removal again and deletes the lock of whoever acquired in between")
				}
			}
		})
	}

	// ---- R3 ---------------------------------------------------------------
	rel := c.fn(fsPkgRel, "(*RemoteLockFile).ReleaseIfStale")
	if rel != nil {
		var removal *ssa.Call
		allInstrs(rel, func(in ssa.Instruction) {
			if cl, ok := in.(*ssa.Call); ok {
				if g := staticCallee(&cl.Call); g == unlock || (g != nil && strings.HasPrefix(g.Name(), "Rm")) {
					removal = cl
				}
			}
		})
		if removal == nil {
			c.ok("R3", fname(rel)+"/claim", c.pos(rel.Pos()), "no removal on the take-over path")
		} else {
			claimed := false
			reach := c.reachable([]*ssa.Function{rel}, false, inPkg(fsPkgRel))
			for g := range reach {
				if g == unlock {
					// Unlock is the holder's release; a claim inside it would count as well
				}
				allInstrs(g, func(in ssa.Instruction) {
					if cl, ok := in.(*ssa.Call); ok {
						n := calleeFull(&cl.Call)
						if hasSuffixAny(n, ".Rename", "VFS).Move", "VFS).MoveWithContext") {
							for _, a := range cl.Call.Args {
								if isLockPathValue(a) {
									claimed = true
								}
							}
						}
					}
				})
			}
			c.check(claimed, "R3", fname(rel)+"/claim", c.ipos(removal), "judged directory is claimed by rename before removal",
				"the stale take-over removes lockPath() with no atomic claim of the directory it judged: two contenders that both judge the dead holder's lock stale both remove — the second removes the first one's fresh lock — and both acquire")
		}
	}
	// the override branch of TryLock goes through ReleaseIfStale
	viaRel := false
	allInstrs(try, func(in ssa.Instruction) {
		if cl, ok := in.(*ssa.Call); ok && staticCallee(&cl.Call) == rel {
			viaRel = onBoolSide(cl, true, func(v ssa.Value) bool {
				_, ok := fieldLoad(v, "RemoteLockFile", "overrideStaleLock")
				return ok
			})
		}
	})
	c.info("R3", fname(try)+"/override", c.pos(try.Pos()), "override branch delegates to ReleaseIfStale under overrideStaleLock: "+b2s(viaRel))

	// ---- R5 ---------------------------------------------------------------
	// who-may-release: inside the lock's own implementation only ReleaseIfStale (and MakeStale's test helper path) may call
	// Unlock, and only Unlock removes lockPath(): an acquire path that "cleans up" removes the lock of whoever holds it.
	c.lockWhoMayRelease("R5")

	// ---- R6 ---------------------------------------------------------------
	// The take-over of R3 is licensed by IsStale(): what IsStale cannot read must not license it (shared with C17/S7).
	if isStaleM, isStaleF := c.fnOpt(fsPkgRel, "(*RemoteLockFile).IsStale"), c.fnOpt(fsPkgRel, "isStale"); isStaleM != nil && isStaleF != nil {
		comb := c.fnOpt(fsPkgRel, "areHeartBeatFilesAllStale")
		if comb != nil {
			called := false
			allInstrs(isStaleM, func(in ssa.Instruction) {
				if cl, ok := in.(*ssa.Call); ok && staticCallee(&cl.Call) == comb {
					called = true
				}
			})
			if !called {
				comb = nil
			}
		}
		if comb == nil {
			comb = isStaleM
		}
		okU, whyU, posU := c.c17UnreadableIsAlive(isStaleM, comb, isStaleF)
		c.check(okU, "R6", fname(isStaleM)+"/unreadable-is-alive", posU, "a heartbeat file that cannot be examined never licenses a take-over", whyU)
	} else {
		c.violate("R6", "filesystem.(*RemoteLockFile).IsStale/unreadable-is-alive", "", "IsStale / isStale not found")
	}

	// ---- R7 ---------------------------------------------------------------
	// … and what it reads are the files present in the lock directory, found by a plain listing (shared with C17/S6): a search
	// by pattern reads the lock path — built from the caller's id and directory — as a pattern; an id such as "job[1]" then
	// matches nothing, the verdict falls back on the age of the directory and a live lock is taken over.
	if isStaleM := c.fnOpt(fsPkgRel, "(*RemoteLockFile).IsStale"); isStaleM != nil {
		comb := c.fnOpt(fsPkgRel, "areHeartBeatFilesAllStale")
		if comb != nil {
			called := false
			allInstrs(isStaleM, func(in ssa.Instruction) {
				if cl, ok := in.(*ssa.Call); ok && staticCallee(&cl.Call) == comb {
					called = true
				}
			})
			if !called {
				comb = nil
			}
		}
		if comb == nil {
			comb = isStaleM
		}
		bad := c.c17JudgedPaths(isStaleM, comb)
		c.check(bad == "", "R7", fname(isStaleM)+"/judges-what-is-there", c.pos(isStaleM.Pos()), "the verdict that licenses a take-over reads the files listed in the lock directory",
			"the age read at "+bad+" is not that of a file found by a plain listing of the lock directory: a live lock can be judged by something else than its heartbeat file (the directory's own age, a file named after the observer) and taken over while it is held")
	}

	// ---- R8 ---------------------------------------------------------------
	// … and it measures every age — that of a heartbeat file, that of a lock directory still empty — against the period
	// the holder beats at: a verdict computed from another duration of the lock (the polling interval, say) declares a
	// holder dead before its first heartbeat is due (shared with C17/S2).
	if isStaleM := c.fnOpt(fsPkgRel, "(*RemoteLockFile).IsStale"); isStaleM != nil {
		bad, n := "", 0
		allInstrs(isStaleM, func(in ssa.Instruction) {
			cl, ok := in.(*ssa.Call)
			if !ok {
				return
			}
			g := staticCallee(&cl.Call)
			if g == nil || !inPkg(fsPkgRel)(g) || len(cl.Call.Args) == 0 {
				return
			}
			last := cl.Call.Args[len(cl.Call.Args)-1]
			if last.Type().String() != "time.Duration" {
				return
			}
			n++
			if _, isPeriod := fieldLoad(last, "RemoteLockFile", "lockHeartBeatPeriod"); !isPeriod {
				bad = c.ipos(cl)
			}
		})
		c.check(n > 0 && bad == "", "R8", fname(isStaleM)+"/judged-by-the-beat-period", c.pos(isStaleM.Pos()), "every age is measured against l.lockHeartBeatPeriod",
			"the age test at "+bad+" is given another duration than l.lockHeartBeatPeriod: a lock directory (or heartbeat file) is declared stale on a threshold that has nothing to do with how often its holder beats — a fresh holder whose first heartbeat has not landed yet is taken over")
	}

	// ---- R4 ---------------------------------------------------------------
	pure := true
	detail := ""
	allInstrs(lockPath, func(in ssa.Instruction) {
		r, ok := in.(*ssa.Return)
		if !ok {
			return
		}
		for _, l := range sources(r.Results[0], deriveOpts{through: func(n string) bool {
			return n == "path/filepath.Join" || n == "fmt.Sprintf" || n == "strings.TrimSpace" || n == "path/filepath.Clean"
		}}) {
			if _, ok := l.(*ssa.Const); ok {
				continue
			}
			okField := false
			for _, fld := range []string{"path", "prefix", "id"} {
				if _, ok := fieldLoad(l, "RemoteLockFile", fld); ok {
					okField = true
				}
			}
			if !okField {
				pure = false
				detail = l.String()
			}
		}
	})
	c.check(pure, "R4", fname(lockPath), c.pos(lockPath.Pos()), "function of (path, prefix, id) only", "lockPath() depends on "+detail+": lock objects for the same id and directory no longer contend on the same directory")
	// Unlock removes lockPath()
	good := false
	withAnon(unlock, func(g *ssa.Function) {
		allInstrs(g, func(in ssa.Instruction) {
			if cl, ok := in.(*ssa.Call); ok && hasSuffixAny(calleeFull(&cl.Call), "VFS).Rm", "VFS).RemoveWithContext") {
				if isLockPathValue(cl.Call.Args[len(cl.Call.Args)-1]) {
					good = true
				}
			}
		})
	})
	c.check(good, "R4", fname(unlock)+"/removes", c.pos(unlock.Pos()), "Unlock removes lockPath()", "Unlock does not remove lockPath()")
}

// staleVerdictErrorsTravel: errOverwrittenRule and errDropRule over everything IsStale reaches in the filesystem package
// (C01/R10, C17/S9).
func (c *Ctx) staleVerdictErrorsTravel(rule string) {
	is := c.fn(fsPkgRel, "(*RemoteLockFile).IsStale")
	if is == nil {
		return
	}
	var fns []*ssa.Function
	for f := range c.reachable([]*ssa.Function{is}, false, inPkg(fsPkgRel)) {
		fns = append(fns, f)
	}
	sortFuncs(fns)
	for _, f := range fns {
		c.errOverwrittenRule(rule, f)
		c.errDropRule(rule, f)
	}
	c.Extra["functions_reached_by_the_staleness_verdict"] = len(fns)
}

// heartBeatEveryBeat: two obligations on the loop of the heartbeat goroutine, shared by C01 and C17.
//   - create: every beat (re)creates the heartbeat file — a creating write (WriteFile, CreateFile, OpenFile, Touch) lies in
//     the loop. A beat that only sets times cannot repair a file whose first creation failed (EMFILE, EIO) or which vanished:
//     the goroutine keeps running, its Chtimes answers 'not found', nobody looks, and the lock of a live holder goes stale.
//   - clock: the instant written at a beat is read from the clock at that beat — every time operand of Chtimes derives from
//     a time.Now() evaluated inside the loop, not from a value carried from one iteration to the next (a computed schedule
//     drifts from the observers' clocks by every delay of every beat and never catches up).
func (c *Ctx) heartBeatEveryBeat(ruleCreate, ruleClock string, ruleAfter ...string) {
	hb := c.fnOpt(fsPkgRel, "heartBeat")
	if hb == nil {
		c.info(ruleCreate, "filesystem.heartBeat/absent", "-", "no heartBeat function (the heartbeat is written elsewhere)")
		return
	}
	c.FuncsSeen[fname(hb)] = true
	creating, stamping := 0, 0
	var stamps []*ssa.Call
	// the beat may have been moved into a helper of the package called from the loop: what the helper does, it does at every beat
	helperOfTheLoop := map[*ssa.Function]bool{}
	allInstrs(hb, func(in ssa.Instruction) {
		if cl, ok := in.(*ssa.Call); ok && inLoop(cl) {
			if g := staticCallee(&cl.Call); g != nil && inPkg(fsPkgRel)(g) && g.Blocks != nil {
				helperOfTheLoop[g] = true
			}
		}
	})
	everyBeat := func(cl *ssa.Call) bool {
		return (cl.Parent() == hb && inLoop(cl)) || helperOfTheLoop[cl.Parent()]
	}
	scan := func(g *ssa.Function) {
		allInstrs(g, func(in ssa.Instruction) {
			cl, ok := in.(*ssa.Call)
			if !ok || !cl.Call.IsInvoke() || !everyBeat(cl) {
				return
			}
			switch cl.Call.Method.Name() {
			case "WriteFile", "WriteFileWithContext", "WriteToFile", "CreateFile", "OpenFile", "Touch":
				creating++
			case "Chtimes":
				stamping++
				stamps = append(stamps, cl)
			}
		})
	}
	scan(hb)
	for g := range helperOfTheLoop {
		scan(g)
	}
	c.check(creating > 0, ruleCreate, fname(hb)+"/every-beat-creates-the-file", c.pos(hb.Pos()), "a creating write of the heartbeat file lies in the loop",
		"no beat (re)creates the heartbeat file: when its first creation fails (too many open files, an I/O error) or the file disappears, every later beat only sets the times of a file that is not there, ignores the answer, and the lock of a holder that is alive goes stale and is taken over")
	bad := ""
	for _, st := range stamps {
		for _, a := range st.Call.Args {
			if !strings.HasSuffix(a.Type().String(), "time.Time") {
				continue
			}
			for _, l := range sources(a, deriveOpts{}) {
				cl, ok := l.(*ssa.Call)
				if ok && calleeFull(&cl.Call) == "time.Now" && everyBeat(cl) {
					continue
				}
				bad = c.ipos(st) + " (operand from " + c.pos(l.Pos()) + ")"
			}
		}
	}
	if len(ruleAfter) > 0 {
		// the instant handed to Chtimes is read once the beat's write is over: read before it, a slow write back-dates the heart
		// beat it has just made
		late := ""
		var writes []*ssa.Call
		collect := func(g *ssa.Function) {
			allInstrs(g, func(in ssa.Instruction) {
				if cl, ok := in.(*ssa.Call); ok && cl.Call.IsInvoke() && everyBeat(cl) {
					switch cl.Call.Method.Name() {
					case "WriteFile", "WriteFileWithContext", "WriteToFile", "CreateFile", "OpenFile", "Touch":
						writes = append(writes, cl)
					}
				}
			})
		}
		collect(hb)
		for g := range helperOfTheLoop {
			collect(g)
		}
		for _, st := range stamps {
			for _, a := range st.Call.Args {
				if !strings.HasSuffix(a.Type().String(), "time.Time") {
					continue
				}
				for _, l := range sources(a, deriveOpts{}) {
					clock, ok := l.(*ssa.Call)
					if !ok || calleeFull(&clock.Call) != "time.Now" {
						continue
					}
					for _, w := range writes {
						if w.Parent() == clock.Parent() && !dominates(w, clock) {
							late = c.ipos(clock) + " (write at " + c.ipos(w) + ")"
						}
					}
				}
			}
		}
		c.check(len(stamps) == 0 || len(writes) == 0 || late == "", ruleAfter[0], fname(hb)+"/stamped-when-written", c.pos(hb.Pos()), "the clock read for the file's times follows the write of that beat",
			"the time given to the heart beat file is read at "+late+", before the beat's write: a write that takes 80 ms back-dates the heart beat it has just made by 80 ms — the lock of a live holder is reported stale 20 ms after a heart beat was written, and can be taken over")
	}
	c.check(stamping == 0 || bad == "", ruleClock, fname(hb)+"/every-beat-reads-the-clock", c.pos(hb.Pos()), "the times written at a beat come from time.Now() evaluated in the loop",
		"the time written at "+bad+" is not read from the clock at that beat (it is carried from one iteration to the next, or computed): observers compare it with their own clock, every delay of a beat accumulates, and after one stall of the disk the live lock is reported stale for ever")
}

// lockWhoMayRelease (R5, evaluated as Y17 for C16): inside the lock's own implementation only ReleaseIfStale may call Unlock,
// and only Unlock removes lockPath(): an acquire path that "cleans up after itself" removes the lock of whoever holds it.
func (c *Ctx) lockWhoMayRelease(rule string) {
	unlock := c.fn(fsPkgRel, "(*RemoteLockFile).Unlock")
	if unlock == nil {
		return
	}
	for _, f := range c.srcFuncs(fsPkgRel) {
		if !isRemoteLockMethod(f) {
			continue
		}
		outer := outermost(f)
		allInstrs(f, func(in ssa.Instruction) {
			cl, ok := in.(*ssa.Call)
			if !ok {
				return
			}
			g := staticCallee(&cl.Call)
			callsUnlock := g == unlock
			removes := false
			if n := calleeFull(&cl.Call); hasSuffixAny(n, "VFS).Rm", "VFS).RemoveWithContext", "VFS).RemoveWithContextAndExclusionPatterns", ".Remove", ".RemoveAll") {
				for _, a := range cl.Call.Args {
					if isLockPathValue(a) {
						removes = true
					}
				}
			}
			if !callsUnlock && !removes {
				return
			}
			key := fname(outer) + "/releases"
			switch {
			case callsUnlock && outer.Name() == "ReleaseIfStale":
				c.ok(rule, key, c.ipos(cl), "release by the stale take-over (guarded by IsStale, see R3/C17)")
			case removes && outer == unlock:
				c.ok(rule, key, c.ipos(cl), "the holder's release")
			default:
				c.violate(rule, key, c.ipos(cl), outer.Name()+" removes the lock directory (through "+short(calleeNameOf(cl))+") although it is not the holder's release nor the guarded stale take-over: a contender whose acquisition failed deletes the lock of whoever holds it, and the next acquire succeeds while the holder still holds")
			}
		})
	}

}

// heartBeatStopsOnlyWithItsContext (R13; the /exit obligation of C17/S1 evaluated for C01): "as long as the holder's
// heartbeat keeps running" — it keeps running until the holder releases. Every return of the heartbeat goroutine lies where
// its context gate answered an error: a beat whose write failed (a full disk for a moment, an I/O hiccup) is tried again one
// period later, it does not end the heartbeat of a holder that is alive.
func (c *Ctx) heartBeatStopsOnlyWithItsContext(rule string) {
	hb := c.fnOpt(fsPkgRel, "heartBeat")
	if hb == nil {
		c.info(rule, "filesystem.heartBeat/absent", "-", "no heartBeat function (the heartbeat is written elsewhere)")
		return
	}
	c.FuncsSeen[fname(hb)] = true
	bad := ""
	allInstrs(hb, func(in ssa.Instruction) {
		r, ok := in.(*ssa.Return)
		if !ok {
			return
		}
		ctxErr := false
		allInstrs(hb, func(j ssa.Instruction) {
			if cl, ok := j.(*ssa.Call); ok && strings.HasSuffix(calleeFull(&cl.Call), "DetermineContextError") && onNonNilSide(cl, r) {
				ctxErr = true
			}
		})
		if !ctxErr {
			bad = c.ipos(r)
		}
	})
	c.check(bad == "", rule, fname(hb)+"/stops-only-with-its-context", c.pos(hb.Pos()), "every return of the heartbeat goroutine follows a context gate that answered an error",
		"the heartbeat goroutine can return at "+bad+" although its context is still alive — after one failed write, say: the holder goes on believing it holds the lock, nothing refreshes the heartbeat any more, the lock goes stale after two periods and an override contender takes it over while the holder still holds")
}

// lockDirectoryStampedOnceItExists (R15, evaluated as S14 for C17): an empty lock directory is judged by its own modification
// time (the holder may have died between creating it and writing the first heartbeat), and TryLock sets that time itself
// for the backends that do not. The instant it sets is read from the clock once the exclusive Mkdir has answered: read
// before it, a Mkdir that took a while (a remote filesystem, a descheduled goroutine) back-dates the directory it has just
// made — the lock of a holder that has only just acquired is older than two periods at birth, reported stale and taken over.
func (c *Ctx) lockDirectoryStampedOnceItExists(rule string) {
	c.rule(rule, "the instant TryLock gives to the lock directory it has just created is read from the clock after the exclusive Mkdir answered (a slow Mkdir does not back-date the lock)", 1)
	try := c.fn(fsPkgRel, "(*RemoteLockFile).TryLock")
	if try == nil {
		return
	}
	c.FuncsSeen[fname(try)] = true
	var mkdirs, stamps []*ssa.Call
	allInstrs(try, func(in ssa.Instruction) {
		cl, ok := in.(*ssa.Call)
		if !ok {
			return
		}
		name := ""
		if cl.Call.IsInvoke() {
			name = cl.Call.Method.Name()
		} else if g := staticCallee(&cl.Call); g != nil {
			name = g.Name()
		}
		switch name {
		case "Mkdir":
			mkdirs = append(mkdirs, cl)
		case "Chtimes":
			stamps = append(stamps, cl)
		}
	})
	key := fname(try) + "/directory-stamped-once-it-exists"
	if len(stamps) == 0 {
		c.ok(rule, key, c.pos(try.Pos()), "TryLock does not set the times of the lock directory: the backend's own stamp stands")
		return
	}
	bad := ""
	for _, st := range stamps {
		for _, a := range st.Call.Args {
			if !strings.HasSuffix(a.Type().String(), "time.Time") {
				continue
			}
			fromClock := false
			for _, l := range sources(a, deriveOpts{}) {
				clock, ok := l.(*ssa.Call)
				if !ok || calleeFull(&clock.Call) != "time.Now" {
					continue
				}
				fromClock = true
				for _, mk := range mkdirs {
					if !dominates(mk, clock) {
						bad = "the clock is read at " + c.ipos(clock) + ", before the Mkdir at " + c.ipos(mk)
					}
				}
			}
			if !fromClock {
				bad = "the instant handed to Chtimes at " + c.ipos(st) + " is not read from the clock"
			}
		}
	}
	c.check(bad == "", rule, key, c.ipos(stamps[0]), "the instant given to the lock directory is read after the exclusive Mkdir",
		bad+": a Mkdir that takes more than two heartbeat periods (a remote filesystem, a descheduled goroutine) back-dates the directory it has just created — until the first heartbeat file is there the lock is judged by that age, so the lock of a holder that has just acquired is reported stale, released by ReleaseIfStale and taken over")
}

// heartBeatStampsEveryBeat (C17/S15, evaluated as C01/R17): "while the holder is alive … the heartbeat is refreshed every
// period". A beat is a write of the heartbeat file followed by Chtimes. The second half is what keeps the file's time fresh
// when the first half cannot be done — setting the times of a path needs no file handle, writing a file does (a holder at
// its limit of open files for a few periods). Every beat therefore reaches the Chtimes of the heartbeat path on every
// backend: no round of the loop goes by without it, the rounds that end the goroutine aside. A helper stands for the call
// only if every path through it makes it.
func (c *Ctx) heartBeatStampsEveryBeat(rule string) {
	c.rule(rule, "every round of the heartbeat loop sets the times of the heartbeat file (Chtimes, which needs no file handle) whatever the backend: no path from one beat to the next avoids it", 1)
	hb := c.fnOpt(fsPkgRel, "heartBeat")
	if hb == nil {
		c.info(rule, "filesystem.heartBeat/absent", "-", "no heartBeat function (the heartbeat is written elsewhere)")
		return
	}
	c.FuncsSeen[fname(hb)] = true
	isChtimes := func(in ssa.Instruction) bool {
		cl, ok := in.(*ssa.Call)
		return ok && cl.Call.IsInvoke() && cl.Call.Method.Name() == "Chtimes"
	}
	// a helper that makes the call on every path from its entry to its returns
	always := map[*ssa.Function]bool{}
	allInstrs(hb, func(in ssa.Instruction) {
		cl, ok := in.(*ssa.Call)
		if !ok {
			return
		}
		g := staticCallee(&cl.Call)
		if g == nil || !inPkg(fsPkgRel)(g) || g.Blocks == nil {
			return
		}
		has := false
		allInstrs(g, func(j ssa.Instruction) { has = has || isChtimes(j) })
		if has && pathPruned(g, nil, isChtimes, func(j ssa.Instruction) bool { _, isRet := j.(*ssa.Return); return isRet }, nil) == nil {
			always[g] = true
		}
	})
	stamp := func(in ssa.Instruction) bool {
		if isChtimes(in) {
			return true
		}
		if cl, ok := in.(*ssa.Call); ok {
			if g := staticCallee(&cl.Call); g != nil && always[g] {
				return true
			}
		}
		return false
	}
	var anyLoopInstr ssa.Instruction
	allInstrs(hb, func(in ssa.Instruction) {
		if anyLoopInstr == nil && inLoop(in) {
			anyLoopInstr = in
		}
	})
	key := fname(hb) + "/every-beat-sets-the-times"
	if anyLoopInstr == nil {
		c.violate(rule, key, c.pos(hb.Pos()), "heartBeat has no loop: the heartbeat is written once")
		return
	}
	hdr := loopHeaderOf(anyLoopInstr)
	if hdr == nil {
		c.undecided(rule, key, c.pos(hb.Pos()), "the loop of heartBeat was not recognised")
		return
	}
	first := hdr.Instrs[0]
	round := pathPruned(hb, first, stamp, func(in ssa.Instruction) bool { return in == first }, nil)
	c.check(round == nil, rule, key, c.pos(hb.Pos()), "every round of the loop reaches the Chtimes of the heartbeat file",
		"a round of the heartbeat loop can go by without the times of the heartbeat file being set (the call was made conditional — on the backend, on the outcome of the write — or moved into a helper that does not always make it): the write alone needs a file handle, so a holder that cannot open files for more than two periods (its process at the limit of open files) stops refreshing a heartbeat it could have refreshed, and its live lock is reported stale, released and taken over")
}

// lockDirectoryAgedAsListed (R18, evaluated as S16 for C17): an empty lock directory is judged by its own times — the
// times of the directory that was just found empty. They are read after the listing: read before it, a release and a new
// acquire may lie between the two reads; the listing then shows the new holder's directory, still empty before its first
// heartbeat, and it is judged with the times of the old one — a lock acquired an instant ago is 'stale', released by a
// cleaner that only releases stale locks, and acquired by a third party while its holder holds it.
func (c *Ctx) lockDirectoryAgedAsListed(rule string) {
	c.rule(rule, "in IsStale the times by which an empty lock directory is judged are read (StatTimes) after the listing that found it empty, not before it", 1)
	f := c.fnOpt(fsPkgRel, "(*RemoteLockFile).IsStale")
	isStaleF := c.fnOpt(fsPkgRel, "isStale")
	if f == nil || isStaleF == nil {
		return
	}
	c.FuncsSeen[fname(f)] = true
	var listings []*ssa.Call
	allInstrs(f, func(in ssa.Instruction) {
		if cl, ok := in.(*ssa.Call); ok {
			if nm, _, isFs := fsMethodCall(cl); isFs && (nm == "Ls" || nm == "Lls" || nm == "LsWithExclusionPatterns" || nm == "Glob" || nm == "FindAll") {
				listings = append(listings, cl)
			}
		}
	})
	key := fname(f) + "/empty-directory-aged-as-listed"
	bad := ""
	n := 0
	allInstrs(f, func(in ssa.Instruction) {
		cl, ok := in.(*ssa.Call)
		if !ok || staticCallee(&cl.Call) != isStaleF || len(cl.Call.Args) == 0 {
			return
		}
		for _, s := range sources(cl.Call.Args[0], deriveOpts{}) {
			ex, ok := s.(*ssa.Extract)
			if !ok {
				continue
			}
			st, ok := ex.Tuple.(*ssa.Call)
			if !ok || !strings.HasSuffix(calleeFull(&st.Call), ".StatTimes") {
				continue
			}
			n++
			for _, ls := range listings {
				if !dominates(ls, st) {
					bad = c.ipos(st) + " (listing at " + c.ipos(ls) + ")"
				}
			}
		}
	})
	if n == 0 || len(listings) == 0 {
		c.info(rule, key, "-", "IsStale does not judge a directory it lists by that directory's own times")
		return
	}
	c.check(bad == "", rule, key, c.pos(f.Pos()), "the directory's times are read after it was listed",
		"the times an empty lock directory is judged by are read at "+bad+", before the directory is listed: between the two reads the holder may release and another acquire; the listing then shows the new holder's directory — still empty before its first heartbeat — and it is judged by the age of the old one: a live lock is reported stale, ReleaseIfStale (the cache's CleanEntry) removes it and a third party acquires while its holder holds it")
}
