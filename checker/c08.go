package main

import (
	"go/token"
	"go/types"
	"strconv"
	"strings"

	"golang.org/x/tools/go/ssa"
)

func init() {
	register(&propCheck{
		id:              "C08",
		level:           "other",
		explanation:     "Static decision of the plumbing of exclusion patterns, which is where a compiling mutation hides (every pattern parameter is variadic: omitting it compiles). Over E, the functions of package filesystem that carry exclusion patterns (a `...string` exclusion parameter or a []*regexp.Regexp): (E1) never dropped — every call from a member of E to another member passes, in the callee's exclusion position, a value derived from the caller's own patterns; a call with zero variadic patterns, or a call (directly or through helpers that carry no patterns) to the pattern-less sibling of a recursive operation is a violation; (E2) always used — every member forwards or applies its patterns; (E3) every loop over a directory listing in a member iterates a list that was filtered with the patterns, or guards each use of the item with !IsPathExcluded(item, patterns): this is what keeps everything beneath an excluded directory untouched — it is never descended; (E4) in every exported member taking pattern strings, a compilation of the patterns whose error is an error exit precedes every mutating effect, so invalid patterns are rejected before anything is touched. Decided on SSA with an effect summary of the package; nothing is executed. Not decided: what the expanded regular expressions match on actual names, completeness ('does process every entry none of whose components matches').",
		run:             runC08,
		thoroughConfigs: []string{"darwin/amd64", "windows/amd64"},
		assumptions: []string{
			"regexp.MatchString on the expanded pattern list implements 'name matched in full by a pattern' for the names the property quantifies over",
		},
	})
}

var c08Appliers = map[string]bool{
	"ExcludeFiles": true, "NewExclusionRegexList": true, "IsPathExcludedFromPatterns": true, "IsPathExcluded": true, "ExcludeAll": true,
}

// one-level listers: calling them without patterns is fine as long as the
// result is filtered afterwards (E3)
var c08Listers = map[string]bool{"LsWithExclusionPatterns": true, "Ls": true, "Lls": true, "LsFromOpenedDirectory": true, "LlsFromOpenedDirectory": true}

type c08State struct {
	c   *Ctx
	eff *effects
	E   map[*ssa.Function][]int
}

func isRegexSlice(t types.Type) bool {
	return t.String() == "[]*regexp.Regexp"
}

func exclusionParams(f *ssa.Function) []int {
	var out []int
	sig := f.Signature
	for i, p := range f.Params {
		if isRegexSlice(p.Type()) {
			out = append(out, i)
			continue
		}
		if sl, ok := p.Type().(*types.Slice); ok && sl.Elem().String() == "string" && sig.Variadic() && i == len(f.Params)-1 &&
			strings.Contains(strings.ToLower(p.Name()), "xclusion") {
			out = append(out, i)
		}
	}
	return out
}

func (s *c08State) derivesP(v ssa.Value, f *ssa.Function) bool {
	outer := outermost(f)
	idxs := s.E[outer]
	for _, l := range sources(v, deriveOpts{through: func(n string) bool {
		return strings.HasSuffix(n, "filesystem.NewExclusionRegexList")
	}}) {
		r := resolveValue(l)
		for _, i := range idxs {
			if r == ssa.Value(outer.Params[i]) {
				return true
			}
		}
	}
	return false
}

// argFor maps parameter index j of callee g to the actual argument of call cc.
func argFor(cc *ssa.CallCommon, g *ssa.Function, j int) ssa.Value {
	if cc.IsInvoke() {
		if j-1 >= 0 && j-1 < len(cc.Args) {
			return cc.Args[j-1]
		}
		return nil
	}
	if j < len(cc.Args) {
		return cc.Args[j]
	}
	return nil
}

func runC08(c *Ctx) {
	c.cleanLoopStopsOnlyForARemovalError()
	// the function that compiles the patterns is an applier of them, under whatever name (extracted body of NewExclusionRegexList)
	if _, comp := c.c08Compiler(); comp != nil {
		c08Appliers[comp.Name()] = true
	}
	c.rule("E1", "exclusion patterns are never dropped on the way down: calls between pattern-carrying functions pass values derived from the caller's patterns; no call to a pattern-less recursive operation, directly or through helpers", 12)
	c.rule("E2", "every pattern-carrying function forwards or applies its patterns", 15)
	c.rule("E3", "loops over directory listings iterate a list filtered with the patterns, or guard each use of the item with !IsPathExcluded", 4)
	c.rule("E5", "inside loops over directory listings the patterns are applied to the listed names, not to joined paths", 1)
	c.rule("E6", "patterns are compiled one at a time: the regexp.Compile of NewExclusionRegexList sits in a loop over the patterns, its argument is not a concatenation of several of them, and a failed compilation is an error exit", 1)
	c.rule("E7", "NewExclusionRegexList looks at every pattern it is given: its loops over the patterns have no exit other than the end of the list and the error exit of a failed compilation", 1)
	c.rule("E9", "exported functions taking pattern strings never report success without having compiled them: an invalid pattern is rejected even when there is nothing to do", 8)
	c.rule("E4", "exported functions taking pattern strings compile them (error → error exit) before their first mutating effect", 8)

	c.rule("E11", "what lies beneath an excluded entry is not reached through a symbolic link elsewhere in the tree: in the removal call graph every descent is preceded by the Lstat link test of its path (the obligation C04/N1, over the pattern-carrying removal)", 3)
	{
		var roots []*ssa.Function
		for _, n := range c04Roots {
			if f := c.fn(fsPkgRel, n); f != nil {
				roots = append(roots, f)
			}
		}
		var fns []*ssa.Function
		for f := range c.reachable(roots, false, inPkg(fsPkgRel)) {
			fns = append(fns, f)
		}
		sortFuncs(fns)
		c.c04DescentRule("E11", fns, func(f *ssa.Function) bool { return c04Descents[outermost(f).Name()] })
	}

	c.c08CompileEach()
	c.patternLoopsComplete("E7")
	c.c08PatternsAreTheCallersOwn()
	c.c08FilterLeavesOutOnlyWhatMatches()
	c.c08PatternsCompiledAsGiven()
	s := &c08State{c: c, eff: c.computeEffects(), E: map[*ssa.Function][]int{}}
	var members []*ssa.Function
	for _, f := range c.srcFuncs(fsPkgRel) {
		if f.Parent() != nil {
			continue
		}
		if idx := exclusionParams(f); len(idx) > 0 {
			s.E[f] = idx
			if !c08Appliers[f.Name()] {
				members = append(members, f)
			}
		}
	}
	c.Extra["exclusion_carrying_functions"] = len(members)
	if len(members) < 15 {
		c.fatalf("C08: only %d exclusion-carrying functions found (≥ 15 expected)", len(members))
	}
	// ---- E12 ----------------------------------------------------------------
	// "patterns protect exactly what they name": the patterns that apply are the caller's — an operation does not add
	// patterns of its own (a name pattern matches at every depth: `^out\.zip$` added to keep the archive out of itself leaves
	// out every entry of that name) and does not write into the list it was given (append onto a variadic parameter lands
	// in the caller's backing array when it has spare capacity, and changes the patterns of the caller's next call).
	c.rule("E12", "no pattern-carrying function appends to, or stores into, the list of patterns it received: the patterns applied are the caller's, and the caller's list is left alone", 15)
	for _, f := range members {
		for _, i := range s.E[f] {
			prm := f.Params[i]
			bad := ""
			withAnon(f, func(g *ssa.Function) {
				allInstrs(g, func(in ssa.Instruction) {
					switch x := in.(type) {
					case *ssa.Call:
						if calleeFull(&x.Call) == "builtin.append" && len(x.Call.Args) > 0 && resolveValue(x.Call.Args[0]) == ssa.Value(prm) {
							bad = "append onto it at " + c.ipos(in)
						}
					case *ssa.Store:
						if ia, ok := x.Addr.(*ssa.IndexAddr); ok && resolveValue(ia.X) == ssa.Value(prm) {
							bad = "an element stored at " + c.ipos(in)
						}
					}
				})
			})
			c.check(bad == "", "E12", fname(f)+"/patterns-left-alone:"+prm.Name(), c.pos(f.Pos()), "the list of patterns received is only read and handed on",
				"the list of patterns "+prm.Name()+" is extended or rewritten ("+bad+"): the operation then applies a pattern the caller never gave — name patterns match at every depth, so entries the caller's patterns do not name are left out — and, the list being the caller's own array, the caller's next call may run with another pattern in place of one of its own")
		}
	}

	// ---- E13 ----------------------------------------------------------------
	// "Invalid patterns are rejected with the 'invalid' kind" — and valid ones are not. The patterns are Go regular expressions
	// (package regexp's syntax); the POSIX compiler refuses a good part of it (\d, \w, (?:…), (?i), lazy quantifiers): with it
	// every operation rejects such a pattern as 'invalid' and processes nothing.
	c.rule("E13", "the patterns are compiled as Go regular expressions: no call of regexp.CompilePOSIX / MustCompilePOSIX in package filesystem (the POSIX dialect refuses \\d, (?:…), (?i), lazy quantifiers — valid patterns would be rejected as 'invalid')", 0)
	{
		bad := ""
		for _, f := range c.srcFuncs(fsPkgRel) {
			allInstrs(f, func(in ssa.Instruction) {
				if cc := callCommon(in); cc != nil {
					if n := calleeFull(cc); n == "regexp.CompilePOSIX" || n == "regexp.MustCompilePOSIX" {
						bad = c.ipos(in) + " (" + fname(outermost(f)) + ")"
					}
				}
			})
		}
		c.check(bad == "", "E13", fsPkgRel+"/patterns-are-go-regular-expressions", "-", "no POSIX compilation of a pattern in package filesystem",
			"a pattern is compiled with the POSIX compiler at "+bad+": patterns using Go's syntax beyond the POSIX subset (`k\\d`, `(?:k)[12]`, `(?i)K[0-9]`, `k\\w+?`) are rejected with the 'invalid' kind by every operation, although they are valid and no entry they do not name is protected")
	}

	isRE := func(g *ssa.Function) bool {
		_, ok := s.E[g]
		return ok && !c08Appliers[g.Name()] && !c08Listers[g.Name()]
	}
	// droppers: functions without patterns that reach a recursive pattern-carrying operation through pattern-less functions only
	dropMemo := map[*ssa.Function]string{}
	var dropper func(g *ssa.Function, depth int) string
	dropper = func(g *ssa.Function, depth int) string {
		if v, ok := dropMemo[g]; ok {
			return v
		}
		dropMemo[g] = ""
		if depth > 5 || g.Blocks == nil {
			return ""
		}
		res := ""
		withAnon(g, func(h *ssa.Function) {
			allInstrs(h, func(in ssa.Instruction) {
				if res != "" {
					return
				}
				callee := s.eff.calleeOf(in)
				if callee == nil || callee == g {
					return
				}
				if isRE(callee) {
					res = g.Name() + " → " + callee.Name() + " (without patterns, " + c.ipos(in) + ")"
					return
				}
				if _, inE := s.E[callee]; inE {
					return
				}
				if sub := dropper(callee, depth+1); sub != "" {
					res = g.Name() + " → " + sub
				}
			})
		})
		dropMemo[g] = res
		return res
	}

	for _, f := range members {
		c.FuncsSeen[fname(f)] = true
		used := false
		withAnon(f, func(h *ssa.Function) {
			allInstrs(h, func(in ssa.Instruction) {
				cc := callCommon(in)
				if cc == nil {
					return
				}
				callee := s.eff.calleeOf(in)
				if callee == nil {
					return
				}
				if idxs, inE := s.E[callee]; inE {
					allOK := true
					why := ""
					for _, j := range idxs {
						a := argFor(cc, callee, j)
						switch {
						case a == nil || isNilConst(a):
							allOK, why = false, "called with no exclusion patterns at all"
						case !s.derivesP(a, h):
							// an empty slice literal?
							allOK, why = false, "the exclusion argument does not derive from this function's own patterns"
						}
					}
					if c08Appliers[callee.Name()] {
						if allOK {
							used = true
						}
						return
					}
					if allOK {
						used = true
					}
					if c08Listers[callee.Name()] && !allOK {
						return // unfiltered one-level listing: E3 decides
					}
					key := fname(f) + "→" + callee.Name()
					c.check(allOK, "E1", key, c.ipos(in), "patterns handed down", "the patterns are dropped here ("+why+"): below this call nothing is protected by them")
					return
				}
				// pattern-less callee: must not lead to a recursive pattern-carrying operation
				if c08Listers[callee.Name()] {
					return
				}
				if chain := dropper(callee, 0); chain != "" {
					c.violate("E1", fname(f)+"→"+callee.Name(), c.ipos(in), "the patterns are dropped: "+f.Name()+" → "+chain+": entries matching a pattern below the first level are processed as if no pattern had been given")
				}
			})
		})
		c.check(used, "E2", fname(f), c.pos(f.Pos()), "patterns forwarded or applied", "the exclusion patterns of "+f.Name()+" are neither forwarded nor applied")
	}

	s.loops(members)
	s.compileFirst(members)
	s.namesNotPaths(members)
}

// E5: inside a loop over a directory listing the patterns are applied to the listed name itself, never to a path
// built from it: a joined path can be matched across the separator by a pattern none of whose components matches
// (`a.b` matches "a/b"), so entries the patterns do not name would be skipped.
func (s *c08State) namesNotPaths(members []*ssa.Function) {
	c := s.c
	for _, f := range members {
		withAnon(f, func(h *ssa.Function) {
			allInstrs(h, func(in ssa.Instruction) {
				cl, ok := in.(*ssa.Call)
				if !ok || !inLoop(cl) {
					return
				}
				n := calleeFull(&cl.Call)
				if !strings.HasSuffix(n, "filesystem.IsPathExcluded") && !strings.HasSuffix(n, "filesystem.IsPathExcludedFromPatterns") {
					return
				}
				if !s.derivesP(cl.Call.Args[len(cl.Call.Args)-1], h) {
					return
				}
				joined := false
				for _, l := range sources(cl.Call.Args[0], deriveOpts{}) {
					if jc, ok := l.(*ssa.Call); ok {
						jn := calleeFull(&jc.Call)
						if jn == "path/filepath.Join" || jn == "path.Join" || strings.HasSuffix(jn, "filesystem.FilePathJoin") {
							joined = true
						}
					}
					if bo, ok := l.(*ssa.BinOp); ok && bo.Type().String() == "string" {
						joined = true
					}
				}
				key := fname(f) + "/filter-operand"
				c.check(!joined, "E5", key, c.ipos(cl), "the patterns are applied to the listed name", "inside the loop over a directory listing the patterns are applied to a joined path instead of the listed name: a pattern such as `a.b` then matches across the separator (\"a/b\") and entries none of whose components matches are skipped")
			})
		})
	}
}

// E3
func (s *c08State) loops(members []*ssa.Function) {
	c := s.c
	isFilterCall := func(v ssa.Value, h *ssa.Function) bool {
		var cl *ssa.Call
		switch x := v.(type) {
		case *ssa.Call:
			cl = x
		case *ssa.Extract:
			cl, _ = x.Tuple.(*ssa.Call)
		}
		if cl == nil {
			return false
		}
		callee := s.eff.calleeOf(cl)
		if callee == nil {
			return false
		}
		if callee.Name() != "ExcludeFiles" && callee.Name() != "LsWithExclusionPatterns" && callee.Name() != "ExcludeAll" {
			return false
		}
		for _, j := range s.E[callee] {
			if a := argFor(&cl.Call, callee, j); a != nil && s.derivesP(a, h) {
				return true
			}
		}
		return false
	}
	for _, f := range members {
		withAnon(f, func(h *ssa.Function) {
			seen := map[ssa.Value]bool{}
			allInstrs(h, func(in ssa.Instruction) {
				ia, ok := in.(*ssa.IndexAddr)
				if !ok || !inLoop(ia) {
					return
				}
				// slices of names / file infos indexed by a loop counter
				sl, ok := ia.X.Type().Underlying().(*types.Slice)
				if !ok {
					return
				}
				et := sl.Elem().String()
				if et != "string" && !strings.HasSuffix(et, "fs.FileInfo") && !strings.HasSuffix(et, "os.FileInfo") {
					return
				}
				if _, isPhi := ia.Index.(*ssa.Phi); !isPhi {
					if bo, ok := ia.Index.(*ssa.BinOp); !ok || bo == nil {
						return
					}
				}
				base := resolveValue(ia.X)
				if seen[base] {
					return
				}
				// only listings: the slice comes out of a call that accesses the backend
				isListing := false
				for _, l := range sources(base, deriveOpts{}) {
					var cl *ssa.Call
					switch x := l.(type) {
					case *ssa.Call:
						cl = x
					case *ssa.Extract:
						cl, _ = x.Tuple.(*ssa.Call)
					}
					if cl != nil && (s.eff.isAccessInstr(cl) || isFilterCall(l, h)) {
						isListing = true
					}
				}
				if !isListing {
					return
				}
				seen[base] = true
				key := fname(f) + "/loop"
				filtered := false
				for _, l := range sources(base, deriveOpts{}) {
					if isFilterCall(l, h) {
						filtered = true
					}
				}
				if filtered {
					c.ok("E3", key, c.ipos(ia), "iterates a list filtered with the patterns")
					return
				}
				// guard idiom: uses of the item happen on the false side of IsPathExcluded(item…, P…)
				guarded := false
				allInstrs(h, func(j ssa.Instruction) {
					cl, ok := j.(*ssa.Call)
					if !ok || !strings.HasSuffix(calleeFull(&cl.Call), "filesystem.IsPathExcluded") || !inLoop(cl) {
						return
					}
					if !s.derivesP(cl.Call.Args[1], h) {
						return
					}
					fromItem := false
					baseLeaves := map[ssa.Value]bool{base: true}
					for _, l := range sources(base, deriveOpts{}) {
						baseLeaves[l] = true
					}
					for _, l := range sources(cl.Call.Args[0], deriveOpts{through: func(n string) bool {
						return strings.HasSuffix(n, ").Name") || strings.HasPrefix(n, "path/filepath.")
					}}) {
						if baseLeaves[l] {
							fromItem = true
						}
					}
					if !fromItem {
						return
					}
					// every mutation / append in the loop lies on its false side
					okAll := true
					allInstrs(h, func(k ssa.Instruction) {
						if !inLoop(k) {
							return
						}
						isEffect := s.eff.isMutatingInstr(k)
						if cc, ok := k.(*ssa.Call); ok && calleeFull(&cc.Call) == "builtin.append" {
							isEffect = true
						}
						if isEffect && !onBoolSide(k, false, func(v ssa.Value) bool { return v == ssa.Value(cl) }) {
							okAll = false
						}
					})
					if okAll {
						guarded = true
					}
				})
				c.check(guarded, "E3", key, c.ipos(ia), "every use of the item is guarded by !IsPathExcluded(item, patterns)",
					"this loop walks an unfiltered directory listing and does not guard the use of each item with the patterns: excluded entries (and everything beneath them) are processed")
			})
		})
	}
}

// E4
func (s *c08State) compileFirst(members []*ssa.Function) {
	c := s.c
	// compileFirst(g): g takes pattern strings and every mutating effect of g is preceded by a compile whose error exits
	memo := map[*ssa.Function]int{}
	pointsOf := map[*ssa.Function][]*ssa.Call{}
	var ok func(g *ssa.Function) (bool, ssa.Instruction)
	ok = func(g *ssa.Function) (bool, ssa.Instruction) {
		if v, seen := memo[g]; seen {
			return v != 2, nil
		}
		memo[g] = 1
		// compile points: NewExclusionRegexList(P…) with its error leading to an exit, or a call handing P to a compile-first member
		var points []*ssa.Call
		allInstrs(g, func(in ssa.Instruction) {
			cl, isCall := in.(*ssa.Call)
			if !isCall {
				return
			}
			callee := s.eff.calleeOf(cl)
			if callee == nil {
				return
			}
			idxs, inE := s.E[callee]
			if !inE {
				return
			}
			passes := false
			for _, j := range idxs {
				if a := argFor(&cl.Call, callee, j); a != nil && s.derivesP(a, g) {
					passes = true
				}
			}
			if !passes {
				return
			}
			if callee.Name() == "NewExclusionRegexList" {
				points = append(points, cl)
				return
			}
			if callee.Name() == "IsPathExcludedFromPatterns" || callee.Name() == "IsPathExcluded" || callee.Name() == "ExcludeFiles" {
				return // swallows / cannot fail: not a compile point
			}
			if len(exclusionStringParams(callee)) > 0 && callee != g {
				if good, _ := ok(callee); good {
					points = append(points, cl)
				}
			}
		})
		pointsOf[g] = points
		var bad ssa.Instruction
		allInstrs(g, func(in ssa.Instruction) {
			if bad != nil {
				return
			}
			mut := s.eff.isMutatingInstr(in)
			// callbacks supplied by the caller may do anything
			if cl, isCall := in.(*ssa.Call); isCall && !cl.Call.IsInvoke() {
				if p, isP := resolveValue(cl.Call.Value).(*ssa.Parameter); isP {
					if _, isSig := p.Type().Underlying().(*types.Signature); isSig {
						mut = true
					}
				}
			}
			if !mut {
				return
			}
			for _, p := range points {
				if p == in {
					return // the compile-first callee itself
				}
			}
			guarded := false
			for _, p := range points {
				errs := errResultsOf(p)
				if dominates(p, in) && len(errs) > 0 && onNilSide(errs[0], in) {
					guarded = true
				}
			}
			if !guarded {
				bad = in
			}
		})
		if bad != nil {
			memo[g] = 2
			return false, bad
		}
		memo[g] = 1
		return true, nil
	}
	for _, f := range members {
		if f.Object() == nil || !f.Object().Exported() || len(exclusionStringParams(f)) == 0 {
			continue
		}
		good, bad := ok(f)
		// E9: "invalid patterns are rejected": no return that may report success is reached without the patterns
		// having been compiled (and found valid) on the way — also when there turns out to be nothing to do.
		{
			pts := pointsOf[f]
			isPoint := func(i ssa.Instruction) bool {
				for _, p := range pts {
					if ssa.Instruction(p) == i {
						return true
					}
				}
				return false
			}
			var early ssa.Instruction
			if res := f.Signature.Results(); res.Len() > 0 && isErrorType(res.At(res.Len()-1).Type()) {
				early = pathPruned(f, nil, isPoint, func(i ssa.Instruction) bool {
					r, isRet := i.(*ssa.Return)
					return isRet && !isErrorExit(f, r)
				}, nil)
			}
			k9 := fname(f) + "/always-rejected"
			if early == nil {
				c.ok("E9", k9, c.pos(f.Pos()), "every return that may report success follows the compilation of the patterns")
			} else {
				c.violate("E9", k9, c.ipos(early), "this return may report success although the exclusion patterns were never compiled: when there is nothing to do (missing or empty directory, …) an invalid pattern is accepted silently instead of being rejected with the 'invalid' kind")
			}
		}
		key := fname(f) + "/compile-first"
		if good {
			c.ok("E4", key, c.pos(f.Pos()), "patterns compiled (error → exit) before the first mutating effect")
		} else {
			c.violate("E4", key, c.ipos(bad), "this mutating effect can happen before the exclusion patterns have been compiled and their error returned: with an invalid pattern something is created or removed (an uncompilable pattern counts as 'not excluded') before — or instead of — the 'invalid' error")
		}
	}
}

func exclusionStringParams(f *ssa.Function) []int {
	var out []int
	for _, i := range exclusionParams(f) {
		if !isRegexSlice(f.Params[i].Type()) {
			out = append(out, i)
		}
	}
	return out
}

// c08CompileEach (E6): "invalid patterns are rejected". A pattern is judged valid on its own only if it is
// compiled on its own: joining the patterns into one alternation lets syntax errors cancel across patterns
// ("(x" and "y)" give the valid "(?:(x)|(?:y))").

// c08Compiler: the function in which the patterns are compiled — NewExclusionRegexList itself, or the package-local function
// it hands its patterns to when its own body has no compilation (an extracted body, a memoising front).
func (c *Ctx) c08Compiler() (front, compiler *ssa.Function) {
	front = c.fn(fsPkgRel, "NewExclusionRegexList")
	compiler = front
	hasCompile := func(g *ssa.Function) bool {
		found := false
		allInstrs(g, func(in ssa.Instruction) {
			if cl, ok := in.(*ssa.Call); ok && strings.HasPrefix(calleeFull(&cl.Call), "regexp.") && strings.Contains(calleeFull(&cl.Call), "Compile") {
				found = true
			}
		})
		return found
	}
	for d := 0; d < 3 && compiler != nil && !hasCompile(compiler); d++ {
		var next *ssa.Function
		allInstrs(compiler, func(in ssa.Instruction) {
			cl, ok := in.(*ssa.Call)
			if !ok {
				return
			}
			g := staticCallee(&cl.Call)
			if g == nil || !inPkg(fsPkgRel)(g) || g.Blocks == nil || g == compiler {
				return
			}
			// receives the patterns (a []string derived from the front's variadic parameter)
			for _, a := range cl.Call.Args {
				if sl, isSl := a.Type().Underlying().(*types.Slice); isSl {
					if bt, isB := sl.Elem().Underlying().(*types.Basic); isB && bt.Kind() == types.String {
						for _, l := range sources(a, deriveOpts{}) {
							if paramIndex(compiler, l) >= 0 {
								next = g
							}
						}
					}
				}
			}
		})
		if next == nil {
			break
		}
		compiler = next
	}
	return front, compiler
}

func (c *Ctx) c08CompileEach() {
	front, f := c.c08Compiler()
	c.FuncsSeen[fname(front)] = true
	c.FuncsSeen[fname(f)] = true
	key := fname(front) + "/compile-each"
	c.rule("E10", "the compiled exclusion list depends on the arguments only: no package-level state is read or written on the way from NewExclusionRegexList to the compiled expressions", 1)
	c.c08Pure(front)
	var compiles []*ssa.Call
	isCompile := func(n string) bool {
		return n == "regexp.Compile" || n == "regexp.MustCompile" || n == "regexp.CompilePOSIX"
	}
	allInstrs(f, func(in ssa.Instruction) {
		if cl, ok := in.(*ssa.Call); ok {
			n := calleeFull(&cl.Call)
			if isCompile(n) {
				compiles = append(compiles, cl)
				return
			}
			// a package-local helper that compiles its own string parameter and returns (regexp, error)
			if g := staticCallee(&cl.Call); g != nil && inPkg(fsPkgRel)(g) && g.Blocks != nil && g != f && len(cl.Call.Args) == 1 {
				wraps := false
				allInstrs(g, func(j ssa.Instruction) {
					if hc, ok := j.(*ssa.Call); ok && isCompile(calleeFull(&hc.Call)) && calleeFull(&hc.Call) != "regexp.MustCompile" && len(g.Params) == 1 && resolveValue(hc.Call.Args[0]) == ssa.Value(g.Params[0]) {
						wraps = true
					}
				})
				if wraps {
					compiles = append(compiles, cl)
				}
			}
		}
	})
	if len(compiles) == 0 {
		c.violate("E6", key, c.pos(f.Pos()), "no regexp.Compile in NewExclusionRegexList: the patterns are not validated here")
		return
	}
	for _, cl := range compiles {
		if calleeFull(&cl.Call) == "regexp.MustCompile" {
			c.violate("E6", key, c.ipos(cl), "MustCompile panics on an invalid pattern instead of reporting the 'invalid' kind")
			return
		}
		if !inLoop(cl) {
			c.violate("E6", key, c.ipos(cl), "the compilation is not inside a loop over the patterns: one regular expression is compiled for the whole set, so that syntax errors of different patterns can cancel each other (\"(x\" with \"y)\") and a set of invalid patterns is accepted")
			return
		}
		joined := ""
		for _, l := range sources(cl.Call.Args[0], deriveOpts{through: func(n string) bool { return n != "strings.Join" && !strings.HasSuffix(n, ".String") }}) {
			if lc, ok := l.(*ssa.Call); ok {
				if n := calleeFull(&lc.Call); n == "strings.Join" || n == "(*strings.Builder).String" || n == "(*bytes.Buffer).String" {
					joined = n
				}
			}
		}
		if joined != "" {
			c.violate("E6", key, c.ipos(cl), "the compiled expression is assembled with "+joined+": several patterns are validated as one")
			return
		}
		errs := errResultsOf(cl)
		okExit := len(errs) > 0
		for _, e := range errs {
			// on the non-nil side a return must be reachable immediately (no path back to the loop header that skips a return)
			found := false
			for _, r := range *e.Referrers() {
				if b, isB := r.(*ssa.BinOp); isB && (b.Op == token.NEQ || b.Op == token.EQL) {
					found = true
				}
			}
			if !found {
				okExit = false
			}
		}
		if !okExit {
			c.violate("E6", key, c.ipos(cl), "the error of regexp.Compile is not tested")
			return
		}
	}
	c.ok("E6", key, c.ipos(compiles[0]), "each pattern is compiled on its own inside the loop and a failure is tested")
}

// patternLoopsComplete (C08/E7, C04/N4): a pattern that is never looked at protects nothing. The loops of
// NewExclusionRegexList must run to the end of the list: the only other way out is an error exit.
func (c *Ctx) patternLoopsComplete(rule string) {
	front, f := c.c08Compiler()
	c.FuncsSeen[fname(f)] = true
	key := fname(front) + "/every-pattern"
	loops, bad := c.loopsRunToTheEnd(f)
	switch {
	case loops == 0:
		c.undecided(rule, key, c.pos(f.Pos()), "no loop over the patterns found")
	case bad != "":
		c.violate(rule, key, bad, "a loop over the patterns can be left here before the end of the list without an error: the patterns after this point are never compiled, so the entries they name are reported, copied, archived or deleted like any other (a blank pattern ahead of a real one is enough)")
	default:
		c.ok(rule, key, c.pos(f.Pos()), strconv.Itoa(loops)+" loop(s) over the patterns run to the end of the list (error exits aside)")
	}
}

// loopsRunToTheEnd counts the natural loops of f and reports the position of an exit from the body of one of them (the
// header's own exit aside) that neither returns a non-nil error nor panics: a `break`, a `return nil`, a `goto` out.
func (c *Ctx) loopsRunToTheEnd(f *ssa.Function) (loops int, bad string) {
	for _, h := range f.Blocks {
		body := map[*ssa.BasicBlock]bool{}
		var stack []*ssa.BasicBlock
		for _, p := range h.Preds {
			if h.Dominates(p) && !body[p] && p != h {
				body[p] = true
				stack = append(stack, p)
			}
		}
		if len(stack) == 0 {
			continue
		}
		loops++
		body[h] = true
		for len(stack) > 0 {
			x := stack[len(stack)-1]
			stack = stack[:len(stack)-1]
			for _, q := range x.Preds {
				if !body[q] {
					body[q] = true
					stack = append(stack, q)
				}
			}
		}
		for b := range body {
			if b == h {
				continue
			}
			for _, sc := range b.Succs {
				if body[sc] {
					continue
				}
				last := sc.Instrs[len(sc.Instrs)-1]
				if _, isPanic := last.(*ssa.Panic); isPanic {
					continue
				}
				// an error exit: the block (or the straight line after it) returns a non-nil error
				x := sc
				for len(x.Succs) == 1 && len(x.Preds) <= 1 {
					x = x.Succs[0]
				}
				if r, ok := x.Instrs[len(x.Instrs)-1].(*ssa.Return); ok && isErrorExit(f, r) {
					continue
				}
				bad = c.ipos(b.Instrs[len(b.Instrs)-1])
			}
		}
	}
	return
}

// c08Pure (E10): "for any tree and any set of exclusion patterns": what a set of patterns excludes depends on that set only.
// The compiled list is a function of the arguments of NewExclusionRegexList: on the way no package-level state is read or
// written (a cache of compiled sets keyed by anything less than the whole set hands one set the expressions of another;
// it would also let an invalid set through on a hit).
func (c *Ctx) c08Pure(front *ssa.Function) {
	bad := ""
	seen := map[*ssa.Function]bool{}
	var walk func(g *ssa.Function, d int)
	walk = func(g *ssa.Function, d int) {
		if g == nil || seen[g] || d > 4 || g.Blocks == nil {
			return
		}
		seen[g] = true
		allInstrs(g, func(in ssa.Instruction) {
			var ops []*ssa.Value
			for _, o := range in.Operands(ops) {
				if o == nil || *o == nil {
					continue
				}
				if gl, ok := (*o).(*ssa.Global); ok && gl.Pkg != nil && strings.HasPrefix(gl.Pkg.Pkg.Path(), modPath) {
					// error sentinels are read to build errors: no state
					if pt, isP := gl.Type().Underlying().(*types.Pointer); isP && isErrorType(pt.Elem()) {
						continue
					}
					bad = gl.Name() + " at " + c.ipos(in)
				}
			}
			if ci, ok := in.(ssa.CallInstruction); ok {
				if h := staticCallee(ci.Common()); h != nil && inPkg(fsPkgRel)(h) {
					walk(h, d+1)
				}
			}
		})
	}
	walk(front, 0)
	c.check(bad == "", "E10", fname(front)+"/depends-on-its-arguments-only", c.pos(front.Pos()), "no package-level state between the patterns and their compiled form",
		"the package-level variable "+bad+" is used on the way from the patterns to their compiled form: the list returned for a set of patterns can depend on earlier calls (a cache keyed by a digest or a concatenation of the patterns gives {\"qx\",\"zv\"} the expressions of {\"qxzv\"}, and lets an invalid set through on a hit)")
}

// c08PatternsAreTheCallersOwn (E14): "for any tree and any set of exclusion patterns" — the empty set included: with no
// pattern nothing is named and every entry is processed. A function that takes the caller's patterns hands on those
// patterns: where a value it passes on can be the parameter, it is the parameter on every path — not a default put in its
// place when the set is empty (the variant without patterns may pass a documented default of its own; a variant that takes
// patterns may not decide that none means some).
func (c *Ctx) c08PatternsAreTheCallersOwn() {
	c.rule("E14", "a function of package filesystem that takes exclusion patterns hands on the caller's own on every path: no value it passes on is the parameter on one path and something else (a default for the empty set) on another", 15)
	for _, f := range c.srcFuncs(fsPkgRel) {
		if f.Parent() != nil || f.Blocks == nil {
			continue
		}
		var own *ssa.Parameter
		for _, p := range f.Params {
			if p.Type().String() == "[]string" && strings.Contains(strings.ToLower(p.Name()), "exclusion") {
				own = p
			}
		}
		if own == nil {
			continue
		}
		c.FuncsSeen[fname(f)] = true
		bad := ""
		uses := 0
		withAnon(f, func(h *ssa.Function) {
			allInstrs(h, func(in ssa.Instruction) {
				cc := callCommon(in)
				if cc == nil {
					return
				}
				if _, isBuiltin := cc.Value.(*ssa.Builtin); isBuiltin {
					return // append and friends build new lists out of the elements; E6/E7 look at what the compiler does with them
				}
				for _, a := range cc.Args {
					if a.Type().String() != "[]string" {
						continue
					}
					isOwn := func(l ssa.Value) bool {
						if resolveValue(l) == ssa.Value(own) {
							return true
						}
						fv, ok := l.(*ssa.FreeVar)
						return ok && fv.Name() == own.Name()
					}
					srcs := sources(a, deriveOpts{})
					hasOwn, other := false, ssa.Value(nil)
					for _, l := range srcs {
						if isOwn(l) {
							hasOwn = true
						} else {
							other = l
						}
					}
					if hasOwn {
						uses++
						if other != nil {
							bad = c.ipos(in) + " (also " + c.pos(other.Pos()) + ")"
						}
					}
				}
			})
		})
		if uses == 0 {
			continue
		}
		c.check(bad == "", "E14", fname(f)+"/the-callers-own-patterns", c.pos(f.Pos()), "what is handed on where the caller's patterns may be handed on is the caller's patterns, on every path",
			"the patterns handed on at "+bad+" are the caller's on one path and something else on another: an empty set of patterns is replaced by a default, so a call with no pattern — which names nothing — leaves out the entries the default names (directories whose name starts with a dot), while every other operation reports them")
	}
}

// c08FilterLeavesOutOnlyWhatMatches (E15): "…and does process every entry none of whose path components contains a match".
// Every listing, walk, copy, archive and removal filters the names of a directory through ExcludeFiles. In its loop an item
// is left out of the result only where IsPathExcluded answered true for it: a name passed over on other grounds (it is
// 'empty' — reflection.IsEmpty trims white space, and a name made of blanks is a legal name) disappears from every
// operation at once, whatever the patterns.
func (c *Ctx) c08FilterLeavesOutOnlyWhatMatches() {
	c.filterLeavesOutOnlyWhatMatches("E15")
}

// filterLeavesOutOnlyWhatMatches is the rule E15 reported as `rule`: every listing, walk, copy, archive and removal of the
// package goes through ExcludeFiles, so the obligation is evaluated for each property whose verdict does (C04/N21, C06/Z31,
// C07/V20).
func (c *Ctx) filterLeavesOutOnlyWhatMatches(rule string) {
	c.rule(rule, "in ExcludeFiles an item of the listing is left out of the result only on the true side of IsPathExcluded(item, …): no other test decides what a listing holds", 1)
	f := c.fnOpt(fsPkgRel, "ExcludeFiles")
	if f == nil {
		return
	}
	c.FuncsSeen[fname(f)] = true
	var app, ex *ssa.Call
	allInstrs(f, func(in ssa.Instruction) {
		cl, ok := in.(*ssa.Call)
		if !ok || !inLoop(cl) {
			return
		}
		if calleeFull(&cl.Call) == "builtin.append" {
			app = cl
		}
		if strings.HasSuffix(calleeFull(&cl.Call), "filesystem.IsPathExcluded") {
			ex = cl
		}
	})
	key := fname(f) + "/left-out-only-when-excluded"
	if app == nil || ex == nil {
		c.violate(rule, key, c.pos(f.Pos()), "ExcludeFiles no longer has a loop that appends the items IsPathExcluded does not match")
		return
	}
	hdr := loopHeaderOf(app)
	if hdr == nil {
		c.undecided(rule, key, c.ipos(app), "the loop of ExcludeFiles was not recognised")
		return
	}
	first := hdr.Instrs[0]
	prune := func(b *ssa.BasicBlock, k int) bool {
		ifi, ok := b.Instrs[len(b.Instrs)-1].(*ssa.If)
		if !ok {
			return false
		}
		v, ts := boolTest(ifi)
		return v == ssa.Value(ex) && k == ts // the item matched: leaving it out is the point
	}
	skip := pathPruned(f, first, func(i ssa.Instruction) bool { return i == ssa.Instruction(app) }, func(i ssa.Instruction) bool { return i == first }, prune)
	c.check(skip == nil, rule, key, c.ipos(ex), "the only way round the append is the true side of IsPathExcluded",
		"an item can be left out of the result without IsPathExcluded having matched it (a way round the append at "+c.ipos(app)+" that does not pass the true side of the test): an entry whose name is passed over on other grounds — a name made of white space, which reflection.IsEmpty takes for empty — vanishes from every listing, walk, copy and archive, and Remove reports success with it still there")
}

// c08PatternsCompiledAsGiven (E16): "for any … set of exclusion patterns: regular expressions". The expression compiled for
// a pattern is the pattern: the first of the forms NewExclusionRegexList derives from a pattern is the caller's text itself
// (the others wrap it). A textual 'simplification' of the pattern beforehand — leading or trailing `.*` trimmed — is not
// one for every expression: `q\.*` (q followed by dots) becomes `q\`, which does not compile, and the whole set is refused
// as invalid; `\Qab.*` silently becomes another literal.
func (c *Ctx) c08PatternsCompiledAsGiven() {
	c.rule("E16", "among the expressions NewExclusionRegexList derives from a pattern there is the pattern itself, as the caller gave it (the element of the parameter, not the result of a call): the text of a valid expression is never rewritten before it is compiled", 1)
	front, f := c.c08Compiler()
	if f == nil {
		return
	}
	c.FuncsSeen[fname(f)] = true
	var own *ssa.Parameter
	for _, p := range f.Params {
		if p.Type().String() == "[]string" {
			own = p
		}
	}
	key := fname(front) + "/pattern-compiled-as-given"
	if own == nil {
		c.undecided("E16", key, c.pos(f.Pos()), "the patterns parameter of the compiler was not found")
		return
	}
	isElementOfOwn := func(v ssa.Value) bool {
		u, ok := resolveValue(v).(*ssa.UnOp)
		if !ok || u.Op != token.MUL {
			return false
		}
		ia, ok := u.X.(*ssa.IndexAddr)
		return ok && resolveValue(ia.X) == ssa.Value(own)
	}
	given := false
	nApp := 0
	allInstrs(f, func(in ssa.Instruction) {
		cl, ok := in.(*ssa.Call)
		if !ok || calleeFull(&cl.Call) != "builtin.append" || len(cl.Call.Args) != 2 || cl.Call.Args[0].Type().String() != "[]string" {
			return
		}
		nApp++
		for _, e := range variadicElems(cl.Call.Args[1]) {
			if isElementOfOwn(e) {
				given = true
			}
		}
	})
	// the pattern may also be compiled directly
	allInstrs(f, func(in ssa.Instruction) {
		if cl, ok := in.(*ssa.Call); ok && strings.HasPrefix(calleeFull(&cl.Call), "regexp.") && strings.Contains(calleeFull(&cl.Call), "Compile") && len(cl.Call.Args) > 0 && isElementOfOwn(cl.Call.Args[0]) {
			given = true
		}
	})
	c.check(given, "E16", key, c.pos(f.Pos()), "the caller's pattern is among the expressions compiled for it, unchanged",
		"none of the expressions compiled for a pattern is the pattern as the caller gave it: the text is rewritten first (a leading or trailing `.*` trimmed, say), which is not a simplification for every expression — `q\\.*` loses the dot its backslash escaped and no longer compiles, so a valid set of patterns is refused as 'invalid' by every operation, and a pattern such as `\\Qab.*` silently names other entries than it did")
}
