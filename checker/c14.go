package main

import (
	"fmt"
	"go/constant"
	"go/token"
	"go/types"
	"math/big"
	"sort"
	"strings"

	"golang.org/x/tools/go/ssa"
)

func init() {
	register(&propCheck{
		id:          "C14",
		level:       "other",
		explanation: "Static necessary conditions of 'retries are bounded and waits stay in range': (O1) every retry.Do of the repository passes Attempts(…) and Context(c) with c derived from a context parameter; the generic RetryIf also passes the caller's condition, LastErrorOnly(true), takes the attempt bound from RetryMax, calls the operation exactly once when the policy is disabled, and reports its result through ConvertContextError; (O2) a number parsed from a response header that is multiplied into a time.Duration is clamped below (≥ 0) and above (product representable) on every path, decided by an interval analysis over the branch conditions; (O3) the three IRetryWaitPolicy.Apply siblings share the Retry-After prologue — consulted only when enabled, its hint returned exactly when found; (O4) their fall-backs: the constant policy returns min, the linear policy delegates (min, max, attempt, resp) unchanged, the exponential policy returns max unless the computed wait passed both the representability and the '> max' test; (O5) policy selection and the wiring of bounds into the retrying HTTP client. Decided on SSA; nothing is executed. Not decided: the arithmetic inside retry-go and go-retryablehttp (jitter, (n+1)·min bounds, 2^n growth for n up to 2^31).",
		run:         runC14,
		assumptions: []string{
			"retry-go honours Attempts, Context, RetryIf and LastErrorOnly as documented; go-retryablehttp's LinearJitterBackoff/DefaultBackoff stay within [min, max]-derived bounds",
			"Attempts(0) means 'retry until success' in retry-go: RetryMax = 0 with an enabled policy is outside the property's quantifier (attempts 1..8)",
		},
	})
}

func runC14(c *Ctx) {
	c.retryAfterDatesGoThroughParseTime()
	c.rule("O1", "retry.Do is always bounded (Attempts) and context-bound (Context from a context parameter); RetryIf also passes RetryIf(cond) and LastErrorOnly(true), bounds attempts by RetryMax, runs fn once when disabled and converts context errors", 5)
	c.rule("O12", "the function RetryIf hands to retry.Do returns the operation's own error unchanged: the caller's retry condition is asked about the error the attempt produced", 1)
	c.contextConverterGoesByIdentity("O13", "RetryIf returns what this function makes of the last error: an attempt that failed with an error without a description (errors.New(\"\")) would make RetryIf / RetryOnError return nil although no attempt succeeded")
	c.rule("O14", "the options RetryIf hands to retry.Do are built by that call from the policy it was given: none comes out of package-level state (a cache of options per policy)", 1)
	c.rule("O6", "every attempt tests the context before it calls the operation (retry-go only looks at the context while it waits between attempts)", 1)
	c.rule("O7", "a value of a header is only taken from the list the header map holds where that list was found non-empty (or through Header.Get)", 1)
	c.rule("O8", "the Retry-After header is looked at only on paths where the status code was found equal to 429 or to 503 (equality tests only, both codes present): an ordering test would let other statuses through", 1)
	c.rule("O9", "a wait computed from the clock (time.Until, Time.Sub) is clamped at zero before it is used: the value goes nowhere but into a comparison or a merge whose lower bound is 0", 1)
	c.rule("O10", "a retried operation reports the end of its context by ctx.Err() (converted to 'cancelled' / 'timeout'): context.Cause is not used in packages retry, http, parallelisation or commonerrors", 0)
	c.rule("O2", "a header-derived number multiplied into a time.Duration is clamped to [0, MaxInt64/multiplier] on every path", 1)
	c.rule("O11", "in each Apply no wait is returned before the test of ConsiderRetryAfter: the server's hint replaces the computed wait for every attempt number, also where the computed wait is capped", 3)
	c.rule("O3", "the Apply siblings share the Retry-After prologue: consulted only under ConsiderRetryAfter, hint returned exactly when found", 3)
	c.rule("O4", "fall-backs: constant → min; linear → LinearJitterBackoff(min,max,attempt,resp); exponential → max unless the wait is representable and ≤ max", 3)
	c.rule("O5", "policy selection follows (Enabled, BackOffEnabled, LinearBackOffEnabled); the retrying client takes RetryMax / RetryWaitMin / RetryWaitMax / Backoff from the same configuration", 4)

	c.c14RetryDo()
	c.c14Clamp()
	c.c14Siblings()
	c.c14Selection()
	c.c14HeaderValues()
	c.c14StatusGate()
	c.noContextCause("O10", []string{"retry", "http", "parallelisation", "commonerrors"})
	c.c14ClockWaits()
}

const retryGo = "github.com/avast/retry-go/v4."

func (c *Ctx) c14RetryDo() {
	for _, sp := range c.SSAPkgs {
		if !strings.HasPrefix(sp.Pkg.Path(), modPath) {
			continue
		}
		for _, f := range c.srcFuncs(shortPkg(sp.Pkg.Path())) {
			allInstrs(f, func(in ssa.Instruction) {
				cl, ok := in.(*ssa.Call)
				if !ok || calleeFull(&cl.Call) != retryGo+"Do" {
					return
				}
				c.FuncsSeen[fname(outermost(f))] = true
				opts := map[string]*ssa.Call{}
				elems, _ := c14Options(c, cl.Call.Args[1], 0)
				for _, e := range elems {
					if oc, ok := stripConv(e).(*ssa.Call); ok {
						opts[strings.TrimPrefix(calleeFull(&oc.Call), retryGo)] = oc
					}
				}
				key := fname(outermost(f)) + "/retry.Do"
				att, hasAtt := opts["Attempts"]
				ctxo, hasCtx := opts["Context"]
				if !hasAtt {
					c.violate("O1", key+":attempts", c.ipos(cl), "retry.Do without retry.Attempts(…): the library default applies, not the configured bound")
				} else {
					// not the constant 0 (= unlimited)
					if n, isC := constInt(att.Call.Args[0]); isC && n == 0 {
						c.violate("O1", key+":attempts", c.ipos(att), "retry.Attempts(0) retries until success: unbounded")
					} else {
						c.ok("O1", key+":attempts", c.ipos(att), "bounded by retry.Attempts")
					}
				}
				if !hasCtx {
					c.violate("O1", key+":context", c.ipos(cl), "retry.Do without retry.Context(ctx): retries continue after the caller's context is done")
				} else {
					fromParam := false
					for _, l := range sources(ctxo.Call.Args[0], deriveOpts{through: func(n string) bool { return strings.HasPrefix(n, "context.With") }}) {
						if p, ok := resolveValue(l).(*ssa.Parameter); ok && p.Type().String() == "context.Context" {
							fromParam = true
						}
					}
					c.check(fromParam, "O1", key+":context", c.ipos(ctxo), "context derived from the caller's context parameter", "the context given to retry.Context does not derive from the caller's context (context.Background or a fresh context)")
				}
			})
		}
	}
	f := c.fn("retry", "RetryIf")
	if f == nil {
		return
	}
	var do *ssa.Call
	allInstrs(f, func(in ssa.Instruction) {
		if cl, ok := in.(*ssa.Call); ok && calleeFull(&cl.Call) == retryGo+"Do" {
			do = cl
		}
	})
	if do == nil {
		c.violate("O1", fname(f)+"/do", c.pos(f.Pos()), "RetryIf no longer retries through retry.Do")
		return
	}
	opts := map[string]*ssa.Call{}
	optElems, optState := c14Options(c, do.Call.Args[1], 0)
	for _, e := range optElems {
		if oc, ok := stripConv(e).(*ssa.Call); ok {
			opts[strings.TrimPrefix(calleeFull(&oc.Call), retryGo)] = oc
		}
	}
	// O14: "attempted at most the configured number of times": configured when the call is made. The options handed to retry.Do
	// are built for this call from the policy it was given: none is taken out of package-level state (a memo of 'the options
	// of this policy' keyed by the policy's address keeps the attempt bound of the first call for ever — the fields of a
	// policy are plain, mutable, exported fields).
	c.check(optState == "", "O14", fname(f)+"/options-built-for-this-call", c.ipos(do), "the options are built by this call",
		"options handed to retry.Do are taken out of package-level state ("+optState+"): a policy whose RetryMax is lowered after a first call — the same object, as long-lived policies are — is still retried the first call's number of times, with the first call's waits: the operation is attempted more often than the configuration says")
	good, why := true, ""
	if o, ok := opts["RetryIf"]; !ok || !(paramIndex(f, resolveValue(o.Call.Args[0])) >= 0 || c14ConditionLiteral(f, o.Call.Args[0])) {
		good, why = false, "the caller's retry condition is not handed to retry.RetryIf (as it is, or and-ed with 'the context is not done'): non-retriable errors are retried"
	}
	if o, ok := opts["LastErrorOnly"]; !ok {
		good, why = false, "retry.LastErrorOnly(true) missing: the caller receives an aggregate instead of the last error"
	} else if b, isC := constBool(o.Call.Args[0]); !isC || !b {
		good, why = false, "retry.LastErrorOnly is not true"
	}
	if o, ok := opts["Attempts"]; ok {
		fromMax := false
		for _, l := range sources(o.Call.Args[0], deriveOpts{through: func(n string) bool { return strings.Contains(n, "/safecast.") }}) {
			if _, ok := fieldLoad(l, "RetryPolicyConfiguration", "RetryMax"); ok {
				fromMax = true
			}
		}
		if !fromMax {
			good, why = false, "the attempt bound does not come from the policy's RetryMax"
		}
	}
	gated := c14GatedAttempt(f, do.Call.Args[0])
	if paramIndex(f, resolveValue(do.Call.Args[0])) < 0 && !gated {
		good, why = false, "the operation retried is not the caller's function (as it is, or behind a test of the context)"
	}
	c.check(good, "O1", fname(f)+"/options", c.ipos(do), "fn, RetryIf(cond), LastErrorOnly(true), Attempts(RetryMax)", why)
	// O6: retry-go consults its context only in the select that waits between two attempts; with a zero delay both
	// cases are ready and one is picked at random. "Not attempted again once the context is done" needs every attempt
	// to test the context itself before it calls the operation.
	c.check(gated, "O6", fname(f)+"/attempt-gated", c.ipos(do), "the function retried tests the context before every call of the operation",
		"the operation is handed to retry.Do as it is: retry-go looks at the context only while waiting between attempts, so with no wait (RetryWaitMin 0, no back-off) the operation is attempted again after the context is done about every other time")
	// O12: "not attempted again … after an error that is not retriable": what is retriable is the caller's to say, about the
	// error the attempt returned. The function handed to retry.Do returns the operation's own error: converted, wrapped or
	// relabelled on the way, the caller's condition is asked about another error than the one its operation produced (an
	// operation that fails with its own context.DeadlineExceeded, which the caller declared final, is retried as 'timeout').
	if mc, ok := stripConv(resolveValue(do.Call.Args[0])).(*ssa.MakeClosure); ok {
		if lit, ok := mc.Fn.(*ssa.Function); ok {
			var op *ssa.Call
			allInstrs(lit, func(in ssa.Instruction) {
				if cl, ok := in.(*ssa.Call); ok && !cl.Call.IsInvoke() {
					if _, isSig := cl.Call.Value.Type().Underlying().(*types.Signature); isSig && paramIndex(f, resolveValue(cl.Call.Value)) >= 0 {
						op = cl
					}
				}
			})
			bad := ""
			if op != nil {
				allInstrs(lit, func(in ssa.Instruction) {
					r, ok := in.(*ssa.Return)
					if !ok || len(r.Results) == 0 {
						return
					}
					res := r.Results[len(r.Results)-1]
					derived, direct := false, false
					for _, l := range sources(res, deriveOpts{through: func(string) bool { return true }}) {
						if l == ssa.Value(op) {
							derived = true
						}
					}
					for _, l := range sources(res, deriveOpts{}) {
						if l == ssa.Value(op) {
							direct = true
						}
					}
					if derived && !direct {
						bad = c.ipos(r)
					}
				})
			}
			c.check(op != nil && bad == "", "O12", fname(f)+"/attempt-returns-the-operations-own-error", c.ipos(do), "the function retried returns what the operation returned, as it is",
				"the function handed to retry.Do changes the operation's error on the way out ("+bad+"): the caller's retry condition is asked about the changed error, not the one the operation produced — an attempt that fails with an error the caller declared not retriable (its own context.DeadlineExceeded, say) is relabelled, found retriable and attempted again, and a later success makes the call return nil")
		}
	}
	// result through ConvertContextError
	conv := false
	allInstrs(f, func(in ssa.Instruction) {
		r, ok := in.(*ssa.Return)
		if !ok || !dominates(do, r) {
			return
		}
		if cl, ok := r.Results[0].(*ssa.Call); ok && calleeFull(&cl.Call) == ceConvCtx && cl.Call.Args[0] == ssa.Value(do) {
			conv = true
		}
	})
	c.check(conv, "O1", fname(f)+"/result", c.ipos(do), "result of retry.Do reported through ConvertContextError", "the result of retry.Do is not returned through ConvertContextError: context errors are not reported as cancelled/timeout")
	// disabled policy: one attempt, behind the same context gate, its result reported through ConvertContextError
	once, why1 := false, "with a disabled policy the operation is not run exactly once"
	nDisabled := 0
	isEnabled := func(v ssa.Value) bool { _, ok := fieldLoad(v, "RetryPolicyConfiguration", "Enabled"); return ok }
	allInstrs(f, func(in ssa.Instruction) {
		cl, ok := in.(*ssa.Call)
		if !ok || cl.Call.IsInvoke() || !onBoolSide(cl, false, isEnabled) {
			return
		}
		if _, isSig := cl.Call.Value.Type().Underlying().(*types.Signature); !isSig {
			return
		}
		direct := paramIndex(f, resolveValue(cl.Call.Value)) >= 0
		gatedCall := c14GatedAttempt(f, cl.Call.Value)
		if !direct && !gatedCall {
			return
		}
		nDisabled++
		if inLoop(cl) {
			why1 = "with a disabled policy the operation is run in a loop"
			return
		}
		if !gatedCall {
			why1 = "with a disabled policy the operation is called without a test of the context: it is attempted although the context is done"
			return
		}
		// returned through ConvertContextError
		for _, r := range *cl.Referrers() {
			if cv, ok := r.(*ssa.Call); ok && calleeFull(&cv.Call) == ceConvCtx {
				for _, rr := range *cv.Referrers() {
					if _, ok := rr.(*ssa.Return); ok {
						once = true
					}
				}
			}
		}
		if !once {
			why1 = "with a disabled policy the result of the operation is not reported through ConvertContextError: a context error it returns reaches the caller raw, not as cancelled/timeout"
		}
	})
	c.check(once && nDisabled == 1, "O1", fname(f)+"/disabled", c.pos(f.Pos()), "disabled policy: one attempt behind the context gate, reported through ConvertContextError", why1)
}

// ---------------------------------------------------------------------------
// O2 interval analysis

type ival struct {
	lo, hi       *big.Int
	hasLo, hasHi bool
}

func constBig(v ssa.Value) (*big.Int, bool) {
	cst, ok := stripConv(v).(*ssa.Const)
	if !ok {
		if cv, ok := v.(*ssa.Convert); ok {
			return constBig(cv.X)
		}
		return nil, false
	}
	if cst.Value == nil || cst.Value.Kind() != constant.Int {
		return nil, false
	}
	b, ok := new(big.Int).SetString(cst.Value.ExactString(), 10)
	return b, ok
}

// boundsAt computes bounds of value v as seen on the edge pred→(block of use),
// or in general at its definition when pred is nil.
func boundsOf(v ssa.Value, depth int) ival {
	if depth > 10 {
		return ival{}
	}
	if b, ok := constBig(v); ok {
		return ival{b, b, true, true}
	}
	switch x := v.(type) {
	case *ssa.Convert:
		return boundsOf(x.X, depth+1)
	case *ssa.ChangeType:
		return boundsOf(x.X, depth+1)
	case *ssa.Call:
		if b, ok := x.Call.Value.(*ssa.Builtin); ok && (b.Name() == "min" || b.Name() == "max") {
			var res ival
			first := true
			for _, a := range x.Call.Args {
				ab := boundsOf(a, depth+1)
				if first {
					res, first = ab, false
					continue
				}
				if b.Name() == "min" {
					// upper bound: any; lower bound: all
					if ab.hasHi && (!res.hasHi || ab.hi.Cmp(res.hi) < 0) {
						res.hi, res.hasHi = ab.hi, true
					}
					if !(res.hasLo && ab.hasLo) {
						res.hasLo = false
					} else if ab.lo.Cmp(res.lo) < 0 {
						res.lo = ab.lo
					}
				} else {
					if ab.hasLo && (!res.hasLo || ab.lo.Cmp(res.lo) > 0) {
						res.lo, res.hasLo = ab.lo, true
					}
					if !(res.hasHi && ab.hasHi) {
						res.hasHi = false
					} else if ab.hi.Cmp(res.hi) > 0 {
						res.hi = ab.hi
					}
				}
			}
			return res
		}
	case *ssa.Phi:
		var res ival
		for i, e := range x.Edges {
			eb := boundsOf(e, depth+1)
			// refine by the guards that hold on the incoming edge
			pred := x.Block().Preds[i]
			g := guardsOnEdge(e, pred, x.Block())
			if g.hasLo && (!eb.hasLo || g.lo.Cmp(eb.lo) > 0) {
				eb.lo, eb.hasLo = g.lo, true
			}
			if g.hasHi && (!eb.hasHi || g.hi.Cmp(eb.hi) < 0) {
				eb.hi, eb.hasHi = g.hi, true
			}
			if i == 0 {
				res = eb
				continue
			}
			if !(res.hasLo && eb.hasLo) {
				res.hasLo = false
			} else if eb.lo.Cmp(res.lo) < 0 {
				res.lo = eb.lo
			}
			if !(res.hasHi && eb.hasHi) {
				res.hasHi = false
			} else if eb.hi.Cmp(res.hi) > 0 {
				res.hi = eb.hi
			}
		}
		return res
	}
	return ival{}
}

// guardsOnEdge: bounds on value e implied by the branch conditions that must
// have been taken to traverse the edge pred→to.
func guardsOnEdge(e ssa.Value, pred, to *ssa.BasicBlock) ival {
	var res ival
	f := pred.Parent()
	for _, b := range f.Blocks {
		ifi, ok := b.Instrs[len(b.Instrs)-1].(*ssa.If)
		if !ok {
			continue
		}
		cmp, ok := ifi.Cond.(*ssa.BinOp)
		if !ok {
			continue
		}
		var cst *big.Int
		op := cmp.Op
		if cmp.X == e {
			cst, ok = constBig(cmp.Y)
		} else if cmp.Y == e {
			cst, ok = constBig(cmp.X)
			// flip
			op = map[token.Token]token.Token{token.LSS: token.GTR, token.GTR: token.LSS, token.LEQ: token.GEQ, token.GEQ: token.LEQ}[cmp.Op]
		} else {
			continue
		}
		if !ok || (op == token.ILLEGAL && cmp.Op != token.EQL && cmp.Op != token.NEQ) {
			continue
		}
		for k := 0; k < 2; k++ {
			// does the edge pred→to lie on side k of this branch?
			on := false
			if b == pred && b.Succs[k] == to && b.Succs[0] != b.Succs[1] {
				on = true
			} else if edgeDominates(b, k, pred) {
				on = true
			}
			if !on {
				continue
			}
			truth := k == 0
			one := big.NewInt(1)
			switch {
			case (op == token.LSS && !truth) || (op == token.GEQ && truth): // e >= c
				res = tightenLo(res, cst)
			case (op == token.LEQ && !truth) || (op == token.GTR && truth): // e > c
				res = tightenLo(res, new(big.Int).Add(cst, one))
			case (op == token.GTR && !truth) || (op == token.LEQ && truth): // e <= c
				res = tightenHi(res, cst)
			case (op == token.GEQ && !truth) || (op == token.LSS && truth): // e < c
				res = tightenHi(res, new(big.Int).Sub(cst, one))
			case (cmp.Op == token.EQL && truth) || (cmp.Op == token.NEQ && !truth): // e == c
				res = tightenLo(res, cst)
				res = tightenHi(res, cst)
			case (cmp.Op == token.NEQ && truth) || (cmp.Op == token.EQL && !truth): // e != c: for a length, != 0 means >= 1
				if lc, isCall := e.(*ssa.Call); isCall && calleeFull(&lc.Call) == "builtin.len" && cst.Sign() == 0 {
					res = tightenLo(res, one)
				}
			}
		}
	}
	return res
}

func tightenLo(r ival, c *big.Int) ival {
	if !r.hasLo || c.Cmp(r.lo) > 0 {
		r.lo, r.hasLo = c, true
	}
	return r
}
func tightenHi(r ival, c *big.Int) ival {
	if !r.hasHi || c.Cmp(r.hi) < 0 {
		r.hi, r.hasHi = c, true
	}
	return r
}

func (c *Ctx) c14Clamp() {
	maxI64 := new(big.Int).SetUint64(1<<63 - 1)
	n := 0
	for _, f := range c.srcFuncs("http") {
		// values derived from strconv.ParseInt/Atoi/ParseUint/ParseFloat
		allInstrs(f, func(in ssa.Instruction) {
			mul, ok := in.(*ssa.BinOp)
			if !ok || mul.Op != token.MUL || mul.Type().String() != "time.Duration" {
				return
			}
			for _, pair := range [][2]ssa.Value{{mul.X, mul.Y}, {mul.Y, mul.X}} {
				v, other := pair[0], pair[1]
				parsed := false
				for _, l := range sources(v, deriveOpts{}) {
					if ex, ok := l.(*ssa.Extract); ok {
						if cl, ok := ex.Tuple.(*ssa.Call); ok && strings.HasPrefix(calleeFull(&cl.Call), "strconv.") {
							parsed = true
						}
					}
				}
				if !parsed {
					continue
				}
				n++
				c.FuncsSeen[fname(f)] = true
				key := fname(f) + "/parsed*duration"
				mult, isC := constBig(other)
				if !isC {
					c.undecided("O2", key, c.ipos(mul), "multiplier of the header-derived number is not a constant")
					continue
				}
				b := boundsOf(v, 0)
				limit := new(big.Int).Quo(maxI64, mult)
				switch {
				case !b.hasLo || b.lo.Sign() < 0:
					c.violate("O2", key, c.ipos(mul), "the number parsed from the header is not clamped below at 0 before being multiplied by "+mult.String()+": a negative wait results")
				case !b.hasHi:
					c.violate("O2", key, c.ipos(mul), "the number parsed from the header has no upper clamp before being multiplied by "+mult.String()+" into a time.Duration: values above "+limit.String()+" overflow (Retry-After: 9223372036854775807 gives a negative wait)")
				case b.hi.Cmp(limit) > 0:
					c.violate("O2", key, c.ipos(mul), "upper clamp "+b.hi.String()+" still overflows when multiplied by "+mult.String()+" (limit "+limit.String()+")")
				default:
					c.ok("O2", key, c.ipos(mul), "clamped to ["+b.lo.String()+", "+b.hi.String()+"] before × "+mult.String())
				}
			}
		})
	}
	if n == 0 {
		c.info("O2", "http/no-parsed-multiplication", "-", "no header-derived number is multiplied into a duration any more")
	}
}

// ---------------------------------------------------------------------------

func (c *Ctx) c14Siblings() {
	find := c.fn("http", "findRetryAfter")
	if find == nil {
		return
	}
	for _, tn := range []string{"BasicRetryPolicy", "LinearBackoffPolicy", "ExponentialBackoffPolicy"} {
		f := c.fn("http", "(*"+tn+").Apply")
		if f == nil {
			continue
		}
		c.FuncsSeen[fname(f)] = true
		isConsider := func(v ssa.Value) bool { _, ok := fieldLoad(v, "RetryWaitPolicy", "ConsiderRetryAfter"); return ok }
		var call *ssa.Call
		allInstrs(f, func(in ssa.Instruction) {
			if cl, ok := in.(*ssa.Call); ok && staticCallee(&cl.Call) == find {
				call = cl
			}
		})
		key := fname(f)
		// one helper level: a method of the package that consults Retry-After for the siblings. It stands for the call if it
		// hands on both what findRetryAfter answered — the hint and whether there was one.
		var inner *ssa.Call
		helperGates := false
		if call == nil {
			var outer *ssa.Call
			var helper *ssa.Function
			allInstrs(f, func(in ssa.Instruction) {
				cl, ok := in.(*ssa.Call)
				if !ok {
					return
				}
				h := staticCallee(&cl.Call)
				if h == nil || h == find || h.Blocks == nil || !inPkg("http")(h) {
					return
				}
				allInstrs(h, func(j ssa.Instruction) {
					if ic, ok := j.(*ssa.Call); ok && staticCallee(&ic.Call) == find {
						outer, helper, inner = cl, h, ic
					}
				})
			})
			if helper != nil {
				forwards := helper.Signature.Results().Len() == 2
				sawFound := false
				allInstrs(helper, func(j ssa.Instruction) {
					r, ok := j.(*ssa.Return)
					if !ok || len(r.Results) != 2 {
						return
					}
					for idx, res := range r.Results {
						for _, l := range sources(res, deriveOpts{}) {
							if ex, ok := l.(*ssa.Extract); ok && ex.Tuple == ssa.Value(inner) && ex.Index == idx {
								if idx == 1 {
									sawFound = true
								}
								continue
							}
							if k, ok := l.(*ssa.Const); ok && (k.Value == nil || k.Value.String() == "0" || k.Value.String() == "false") {
								continue
							}
							forwards = false
						}
					}
				})
				if !forwards || !sawFound {
					c.violate("O3", key, c.ipos(outer), "Retry-After is consulted through "+fname(helper)+", which does not hand on whether a hint was found: Apply can only go by the value, and a hint of zero seconds (Retry-After: 0, or a date that has passed) is not told from 'no hint' — the computed wait is used although the server said to retry now")
					continue
				}
				// the response parameter travels through the helper
				p := -1
				for i, hp := range helper.Params {
					if len(inner.Call.Args) > 0 && resolveValue(inner.Call.Args[0]) == ssa.Value(hp) {
						p = i
					}
				}
				if p < 0 || p >= len(outer.Call.Args) || paramIndex(f, outer.Call.Args[p]) != 4 {
					c.violate("O3", key, c.ipos(outer), "findRetryAfter is not given the response parameter (through "+fname(helper)+")")
					continue
				}
				helperGates = onBoolSide(inner, true, isConsider)
				call = outer
			}
		}
		if call == nil {
			c.violate("O3", key, c.pos(f.Pos()), "Apply no longer consults Retry-After (findRetryAfter): the server's hint is ignored even when enabled")
			continue
		}
		// O11: "a Retry-After value on a 429/503 response replaces it exactly when that is enabled" — for every attempt number:
		// no wait is returned before the option was looked at (a representability guard placed first returns the cap and the
		// server's hint is never read for large attempt numbers).
		{
			var test *ssa.BasicBlock
			for _, b := range f.Blocks {
				if ifi, ok := b.Instrs[len(b.Instrs)-1].(*ssa.If); ok {
					if v, _ := boolTest(ifi); isConsider(v) && (test == nil || b.Dominates(test)) {
						test = b
					}
				}
			}
			if test == nil && helperGates {
				test = call.Block() // the helper looks at the option: every return follows the call
			}
			early := ""
			allInstrs(f, func(in ssa.Instruction) {
				if r, ok := in.(*ssa.Return); ok && (test == nil || !test.Dominates(r.Block())) {
					early = c.ipos(r)
				}
			})
			c.check(test != nil && early == "", "O11", key+"/hint-first", c.pos(f.Pos()), "every return follows the test of ConsiderRetryAfter",
				"a wait is returned at "+early+" before the policy looked at whether a Retry-After value is to be honoured: for the inputs that take that exit (attempt numbers whose linear bound is not representable) the server's hint — 7 seconds, or a date in the past — is ignored and the cap of 292 years is returned instead")
		}
		good, why := true, ""
		if !onBoolSide(call, true, isConsider) && !helperGates {
			good, why = false, "Retry-After is consulted although ConsiderRetryAfter is not set"
		}
		if inner == nil && paramIndex(f, call.Call.Args[0]) != 4 {
			good, why = false, "findRetryAfter is not given the response parameter"
		}
		// return of the hint on the found side; no other return on that side
		foundV := func(v ssa.Value) bool {
			ex, ok := v.(*ssa.Extract)
			return ok && ex.Tuple == ssa.Value(call) && ex.Index == 1
		}
		hint := false
		allInstrs(f, func(in ssa.Instruction) {
			r, ok := in.(*ssa.Return)
			if !ok {
				return
			}
			isHint := false
			if ex, ok := r.Results[0].(*ssa.Extract); ok && ex.Tuple == ssa.Value(call) && ex.Index == 0 {
				isHint = true
			}
			onFound := onBoolSide(r, true, foundV)
			if isHint && onFound {
				hint = true
			}
			if isHint && !onFound {
				good, why = false, "the Retry-After value is returned although no hint was found"
			}
			if !isHint && onFound {
				good, why = false, "a hint was found but something else is returned"
			}
		})
		if !hint {
			good, why = false, "the Retry-After hint is not returned when found"
		}
		// every return reachable once a hint was found returns the hint
		for _, b := range f.Blocks {
			ifi, ok := b.Instrs[len(b.Instrs)-1].(*ssa.If)
			if !ok {
				continue
			}
			v, ts := boolTest(ifi)
			if !foundV(v) {
				continue
			}
			visitReturnsFrom(b.Succs[ts], func(r *ssa.Return) {
				if ex, ok := r.Results[0].(*ssa.Extract); !ok || ex.Tuple != ssa.Value(call) || ex.Index != 0 {
					good, why = false, "a Retry-After hint was found, yet the return at "+c.ipos(r)+" yields something else: the server's hint does not replace the computed wait exactly when enabled"
				}
			})
		}
		c.check(good, "O3", key, c.ipos(call), "Retry-After consulted only when enabled; hint returned exactly when found", why)

		// O4 fall-backs
		switch tn {
		case "BasicRetryPolicy":
			ok4 := true
			allInstrs(f, func(in ssa.Instruction) {
				r, ok := in.(*ssa.Return)
				if !ok {
					return
				}
				if ex, ok := r.Results[0].(*ssa.Extract); ok && ex.Tuple == ssa.Value(call) {
					return
				}
				if paramIndex(f, r.Results[0]) != 1 {
					ok4 = false
				}
			})
			c.check(ok4, "O4", key+"/fallback", c.pos(f.Pos()), "constant policy waits min", "the constant policy's wait without a hint is not the configured minimum")
		case "LinearBackoffPolicy":
			ok4 := false
			allInstrs(f, func(in ssa.Instruction) {
				cl, ok := in.(*ssa.Call)
				if !ok || !strings.HasSuffix(calleeFull(&cl.Call), "go-retryablehttp.LinearJitterBackoff") {
					return
				}
				ok4 = true
				for i, a := range cl.Call.Args {
					if paramIndex(f, a) != i+1 {
						ok4 = false
					}
				}
			})
			c.check(ok4, "O4", key+"/fallback", c.pos(f.Pos()), "delegates (min, max, attempt, resp) unchanged", "the linear policy no longer delegates (min, max, attemptNum, resp) unchanged to LinearJitterBackoff")
			// LinearJitterBackoff multiplies by the attempt number without an overflow check: the delegation is reached only
			// past a test of the attempt number against MaxInt64 divided by a bound
			guarded := false
			c14BoundaryNote = ""
			allInstrs(f, func(in ssa.Instruction) {
				cl, ok := in.(*ssa.Call)
				if !ok || !strings.HasSuffix(calleeFull(&cl.Call), "go-retryablehttp.LinearJitterBackoff") {
					return
				}
				// a test of representability from one side of which the delegation cannot be reached (the other conditions of
				// the guard — a bound that is not positive — may legitimately by-pass the test)
				for _, b := range f.Blocks {
					ifi, isIf := b.Instrs[len(b.Instrs)-1].(*ssa.If)
					if !isIf || !c14RepresentabilityTest(ifi.Cond, f.Params[3], 0) {
						continue
					}
					for _, succ := range b.Succs {
						if len(succ.Instrs) == 0 {
							continue
						}
						isCall := func(i ssa.Instruction) bool { return i == ssa.Instruction(cl) }
						first := succ.Instrs[0]
						if !isCall(first) && pathAvoiding(first, func(ssa.Instruction) bool { return false }, isCall) == nil {
							guarded = true
						}
					}
				}
			})
			note := ""
			if !guarded && c14BoundaryNote != "" {
				note = c14BoundaryNote + "; "
			}
			c.check(guarded, "O4", key+"/fallback:representable", c.pos(f.Pos()), "delegation reached only where (attempt+1)·bound fits a duration",
				note+"the linear policy hands any attempt number to LinearJitterBackoff, which multiplies without an overflow check: for attempt numbers beyond MaxInt64/max the wait wraps around and is negative (Apply(1h, 1h, 2562047, nil))")
		case "ExponentialBackoffPolicy":
			// on the !ConsiderRetryAfter side: returns max or a value guarded by both tests
			ok4 := true
			n := 0
			maxP := f.Params[2]
			allInstrs(f, func(in ssa.Instruction) {
				r, ok := in.(*ssa.Return)
				if !ok || !onBoolSide(r, false, isConsider) {
					return
				}
				n++
				phi, isPhi := r.Results[0].(*ssa.Phi)
				if !isPhi {
					if paramIndex(f, r.Results[0]) != 2 {
						ok4 = false
					}
					return
				}
				for i, e := range phi.Edges {
					if e == ssa.Value(maxP) {
						continue
					}
					// the computed wait: edge must be on the false side of `sleep > max` and of the float mismatch test
					pred := phi.Block().Preds[i]
					gtFalse, neFalse := false, false
					for _, b := range f.Blocks {
						ifi, ok := b.Instrs[len(b.Instrs)-1].(*ssa.If)
						if !ok {
							continue
						}
						cmp, ok := ifi.Cond.(*ssa.BinOp)
						if !ok {
							continue
						}
						onFalse := (b == pred && b.Succs[1] == phi.Block()) || edgeDominates(b, 1, pred)
						if !onFalse {
							continue
						}
						if cmp.Op == token.GTR && cmp.X == e && cmp.Y == ssa.Value(maxP) {
							gtFalse = true
						}
						if cmp.Op == token.NEQ {
							neFalse = true
						}
					}
					if !gtFalse || !neFalse {
						ok4 = false
					}
				}
			})
			c.check(ok4 && n > 0, "O4", key+"/fallback", c.pos(f.Pos()), "returns max unless the computed wait is representable and ≤ max", "the exponential policy can return a computed wait that failed (or skipped) the representability or the '> max' test")
		}
	}
}

func (c *Ctx) c14Selection() {
	f := c.fn("http", "BackOffPolicyFactory")
	if f != nil {
		c.FuncsSeen[fname(f)] = true
		field := func(n string) func(ssa.Value) bool {
			return func(v ssa.Value) bool { _, ok := fieldLoad(v, "RetryPolicyConfiguration", n); return ok }
		}
		var basic, lin, exp *ssa.Call
		allInstrs(f, func(in ssa.Instruction) {
			if cl, ok := in.(*ssa.Call); ok {
				switch {
				case strings.HasSuffix(calleeFull(&cl.Call), "http.NewBasicRetryPolicy"):
					basic = cl
				case strings.HasSuffix(calleeFull(&cl.Call), "http.NewLinearBackoffPolicy"):
					lin = cl
				case strings.HasSuffix(calleeFull(&cl.Call), "http.NewExponentialBackoffPolicy"):
					exp = cl
				}
			}
		})
		good := basic != nil && lin != nil && exp != nil
		if good {
			good = onBoolSide(lin, true, field("LinearBackOffEnabled")) && onBoolSide(exp, false, field("LinearBackOffEnabled")) &&
				onBoolSide(lin, true, field("BackOffEnabled")) && onBoolSide(exp, true, field("BackOffEnabled")) &&
				onBoolSide(lin, true, field("Enabled")) && onBoolSide(exp, true, field("Enabled")) &&
				!onBoolSide(basic, true, field("BackOffEnabled"))
		}
		c.check(good, "O5", fname(f), c.pos(f.Pos()), "basic unless Enabled∧BackOffEnabled; then linear iff LinearBackOffEnabled", "the policy selected does not follow (Enabled, BackOffEnabled, LinearBackOffEnabled)")
	}
	g := c.fn("http", "NewConfigurableRetryableClientWithLoggerFromClient")
	if g != nil {
		c.FuncsSeen[fname(g)] = true
		want := map[string]string{"RetryWaitMin": "RetryWaitMin", "RetryWaitMax": "RetryWaitMax", "RetryMax": "RetryMax"}
		got := map[string]bool{}
		backoff := false
		allInstrs(g, func(in ssa.Instruction) {
			st, ok := in.(*ssa.Store)
			if !ok {
				return
			}
			fa, ok := st.Addr.(*ssa.FieldAddr)
			if !ok {
				return
			}
			sto := structOf(fa.X.Type())
			if sto == nil {
				return
			}
			name := sto.Field(fa.Field).Name()
			if w, ok := want[name]; ok {
				if _, ok := fieldLoad(st.Val, "RetryPolicyConfiguration", w); ok {
					got[name] = true
				}
			}
			if name == "Backoff" {
				for _, l := range sources(st.Val, deriveOpts{}) {
					if mc, ok := l.(*ssa.MakeClosure); ok && strings.Contains(mc.Fn.Name(), "Apply") && len(mc.Bindings) == 1 {
						if cl, ok := mc.Bindings[0].(*ssa.Call); ok && strings.HasSuffix(calleeFull(&cl.Call), "http.BackOffPolicyFactory") {
							backoff = true
						}
					}
				}
			}
		})
		for _, n := range []string{"RetryMax", "RetryWaitMin", "RetryWaitMax"} {
			c.check(got[n], "O5", fname(g)+"/"+n, c.pos(g.Pos()), n+" from the retry policy configuration", "the retrying client's "+n+" is not taken from the retry policy configuration")
		}
		c.check(backoff, "O5", fname(g)+"/Backoff", c.pos(g.Pos()), "Backoff = BackOffPolicyFactory(policy).Apply", "the retrying client's back-off is not the policy selected by BackOffPolicyFactory")
	}
}

// c14GatedAttempt: v is a function literal of f that returns the context's error when the context is done and
// otherwise the result of calling f's own operation parameter — exactly once, after the test.
func c14GatedAttempt(f *ssa.Function, v ssa.Value) bool {
	mc, ok := stripConv(resolveValue(v)).(*ssa.MakeClosure)
	if !ok {
		return false
	}
	lit, ok := mc.Fn.(*ssa.Function)
	if !ok {
		return false
	}
	var gate, op *ssa.Call
	nCalls := 0
	allInstrs(lit, func(in ssa.Instruction) {
		cl, ok := in.(*ssa.Call)
		if !ok {
			return
		}
		if cl.Call.IsInvoke() && cl.Call.Method.Name() == "Err" && strings.HasSuffix(cl.Call.Value.Type().String(), "context.Context") {
			gate = cl
			return
		}
		if strings.HasSuffix(calleeFull(&cl.Call), "parallelisation.DetermineContextError") {
			gate = cl
			return
		}
		if !cl.Call.IsInvoke() {
			if _, isSig := cl.Call.Value.Type().Underlying().(*types.Signature); isSig && paramIndex(f, resolveValue(cl.Call.Value)) >= 0 {
				op = cl
				nCalls++
			}
		}
	})
	if gate == nil || op == nil || nCalls != 1 {
		return false
	}
	// the context tested is f's context parameter
	ctxOK := false
	var cv ssa.Value
	if gate.Call.IsInvoke() {
		cv = gate.Call.Value
	} else {
		cv = gate.Call.Args[0]
	}
	if p, ok := resolveValue(cv).(*ssa.Parameter); ok && p.Parent() == f && strings.HasSuffix(p.Type().String(), "context.Context") {
		ctxOK = true
	}
	return ctxOK && dominates(gate, op) && onNilSide(gate, op) && !inLoop(op)
}

// c14ConditionLiteral: v is a function literal of f whose result can be true only through a call of f's own condition
// parameter on the literal's argument.
func c14ConditionLiteral(f *ssa.Function, v ssa.Value) bool {
	mc, ok := stripConv(resolveValue(v)).(*ssa.MakeClosure)
	if !ok {
		return false
	}
	lit, ok := mc.Fn.(*ssa.Function)
	if !ok {
		return false
	}
	good, n := true, 0
	allInstrs(lit, func(in ssa.Instruction) {
		r, ok := in.(*ssa.Return)
		if !ok || len(r.Results) != 1 {
			return
		}
		n++
		for _, l := range sources(r.Results[0], deriveOpts{}) {
			if b, isC := constBool(l); isC && !b {
				continue
			}
			cl, ok := l.(*ssa.Call)
			if ok && !cl.Call.IsInvoke() && paramIndex(f, resolveValue(cl.Call.Value)) >= 0 && len(cl.Call.Args) == 1 && cl.Call.Args[0] == ssa.Value(lit.Params[0]) {
				continue
			}
			good = false
		}
	})
	return good && n > 0
}

// c14HeaderValues (O7): "a Retry-After value on a 429/503 response replaces the wait exactly when that is enabled" — for any
// response. http.Header maps a name to a list of values; a key can be present with an empty list (a response assembled by
// a test double, a middleware that filtered the values). Indexing that list is only safe where its length was tested.
func (c *Ctx) c14HeaderValues() {
	n := 0
	for _, f := range c.srcFuncs("http") {
		allInstrs(f, func(in ssa.Instruction) {
			ia, ok := in.(*ssa.IndexAddr)
			if !ok {
				return
			}
			// the list comes out of a map lookup
			var list ssa.Value
			switch x := ia.X.(type) {
			case *ssa.Extract:
				if lk, isL := x.Tuple.(*ssa.Lookup); isL && x.Index == 0 {
					if _, isMap := lk.X.Type().Underlying().(*types.Map); isMap {
						list = x
					}
				}
			case *ssa.Lookup:
				if _, isMap := x.X.Type().Underlying().(*types.Map); isMap {
					list = x
				}
			}
			if list == nil {
				return
			}
			if _, isSlice := list.Type().Underlying().(*types.Slice); !isSlice {
				return
			}
			n++
			key := fname(outermost(f)) + "/header-value"
			guarded := false
			for _, b := range f.Blocks {
				ifi, isIf := b.Instrs[len(b.Instrs)-1].(*ssa.If)
				if !isIf || !(edgeDominates(b, 0, ia.Block()) || edgeDominates(b, 1, ia.Block())) {
					continue
				}
				if c14TestsLen(ifi.Cond, list, 0) {
					guarded = true
				}
			}
			// a range loop over the list is a guard too
			if inLoop(ia) {
				if _, isConst := ia.Index.(*ssa.Const); !isConst {
					guarded = true
				}
			}
			c.check(guarded, "O7", key, c.ipos(ia), "the list of values was found non-empty before one is taken",
				"a value is taken from the list the header map holds without a test of its length: a response whose header map has the key with no value (Header{\"Retry-After\": {}}) makes the back-off computation panic instead of falling back to the computed wait")
		})
	}
	c.Extra["header_value_sites"] = n
}

func c14TestsLen(v ssa.Value, list ssa.Value, depth int) bool {
	if depth > 6 {
		return false
	}
	switch x := v.(type) {
	case *ssa.BinOp:
		for _, o := range []ssa.Value{x.X, x.Y} {
			if cl, ok := o.(*ssa.Call); ok && calleeFull(&cl.Call) == "builtin.len" && cl.Call.Args[0] == list {
				return true
			}
		}
		return c14TestsLen(x.X, list, depth+1) || c14TestsLen(x.Y, list, depth+1)
	case *ssa.UnOp:
		return c14TestsLen(x.X, list, depth+1)
	case *ssa.Phi:
		for _, e := range x.Edges {
			if c14TestsLen(e, list, depth+1) {
				return true
			}
		}
	}
	return false
}

// c14StatusGate (O8): "a Retry-After value on a 429/503 response replaces it". In the function that reads the header
// (findRetryAfter) every use of Response.StatusCode is an equality test against a constant, the constants are exactly 429
// and 503, and the header map of the response cannot be reached from the entry without crossing the matching side of one
// of those tests.
func (c *Ctx) c14StatusGate() {
	f := c.fn("http", "findRetryAfter")
	if f == nil {
		return
	}
	key := fname(f) + "/status-gate"
	codes := map[int64]bool{}
	bad := ""
	matched := map[*ssa.BasicBlock]int{} // block ending in If → successor index on which the status matched
	n := 0
	allInstrs(f, func(in ssa.Instruction) {
		u, ok := in.(*ssa.UnOp)
		if !ok {
			return
		}
		if _, ok := fieldLoad(u, "Response", "StatusCode"); !ok {
			return
		}
		n++
		for _, r := range *u.Referrers() {
			// a predicate of the package over the code (`isThrottled(resp.StatusCode)`): its parameter obeys the same rule
			// and it answers true only on a match
			if cl, ok := r.(*ssa.Call); ok {
				if g := staticCallee(&cl.Call); g != nil && len(g.Blocks) > 0 && g.Pkg == f.Pkg && len(cl.Call.Args) == 1 && g.Signature.Results().Len() == 1 {
					if why := c14StatusPredicate(g, codes); why != "" {
						bad = c.ipos(r) + ": " + why
						continue
					}
					for _, br := range *cl.Referrers() {
						if ifi, ok := br.(*ssa.If); ok {
							matched[ifi.Block()] = 0
						} else {
							bad = c.ipos(br) + ": the outcome of the status test is not branched on directly"
						}
					}
					continue
				}
			}
			bo, ok := r.(*ssa.BinOp)
			if !ok || (bo.Op != token.EQL && bo.Op != token.NEQ) {
				bad = c.ipos(r) + ": the status code is used in something other than an equality test"
				continue
			}
			other := bo.X
			if other == ssa.Value(u) {
				other = bo.Y
			}
			k, isC := constInt(other)
			if !isC {
				bad = c.ipos(r) + ": the status code is compared with something that is not a constant"
				continue
			}
			codes[k] = true
			for _, br := range *bo.Referrers() {
				if ifi, ok := br.(*ssa.If); ok {
					if bo.Op == token.EQL {
						matched[ifi.Block()] = 0
					} else {
						matched[ifi.Block()] = 1
					}
				} else {
					bad = c.ipos(br) + ": the outcome of the status test is not branched on directly"
				}
			}
		}
	})
	if n == 0 {
		c.violate("O8", key, c.pos(f.Pos()), "findRetryAfter no longer looks at the status code of the response: the header of any response would be honoured")
		return
	}
	if bad == "" && !(len(codes) == 2 && codes[429] && codes[503]) {
		bad = fmt.Sprintf("the status codes tested are %v, not exactly 429 and 503", keysOf(codes))
	}
	if bad == "" {
		isHeader := func(in ssa.Instruction) bool {
			switch x := in.(type) {
			case *ssa.UnOp:
				_, ok := fieldLoad(x, "Response", "Header")
				return ok
			case *ssa.FieldAddr:
				_, ok := fieldAddrOf(x, "Response", "Header")
				return ok
			}
			return false
		}
		hit := pathPruned(f, nil, func(ssa.Instruction) bool { return false }, isHeader, func(b *ssa.BasicBlock, k int) bool {
			m, ok := matched[b]
			return ok && m == k
		})
		if hit != nil {
			bad = "the header of the response is reached at " + c.ipos(hit) + " without the status code having been found equal to 429 or 503"
		}
	}
	c.check(bad == "", "O8", key, c.pos(f.Pos()), "header consulted only once the status was found equal to 429 or 503", bad)
}

// c14StatusPredicate: g(code) bool uses its parameter only in equality tests against constants (collected in codes) and
// returns true only where one matched. "" when so.
func c14StatusPredicate(g *ssa.Function, codes map[int64]bool) string {
	p := g.Params[0]
	matched := map[*ssa.BasicBlock]int{}
	var eqs []ssa.Value
	for _, r := range *p.Referrers() {
		bo, ok := r.(*ssa.BinOp)
		if !ok || (bo.Op != token.EQL && bo.Op != token.NEQ) {
			return g.Name() + " uses the status code in something other than an equality test"
		}
		other := bo.X
		if other == ssa.Value(p) {
			other = bo.Y
		}
		k, isC := constInt(other)
		if !isC {
			return g.Name() + " compares the status code with something that is not a constant"
		}
		codes[k] = true
		if bo.Op == token.EQL {
			eqs = append(eqs, bo)
		}
		for _, br := range *bo.Referrers() {
			if ifi, ok := br.(*ssa.If); ok {
				if bo.Op == token.EQL {
					matched[ifi.Block()] = 0
				} else {
					matched[ifi.Block()] = 1
				}
			}
		}
	}
	// every return of a value that can be true: the constant true only beyond a matched edge; otherwise one of the equalities
	var okVal func(v ssa.Value, depth int) bool
	okVal = func(v ssa.Value, depth int) bool {
		if depth > 8 {
			return false
		}
		if b, isB := constBool(v); isB {
			return !b // a plain true is judged by where the return stands, below
		}
		for _, e := range eqs {
			if v == e {
				return true
			}
		}
		if phi, ok := v.(*ssa.Phi); ok {
			for i, e := range phi.Edges {
				pred := phi.Block().Preds[i]
				if b, isB := constBool(e); isB && b {
					// `a == x || b == y`: the true comes over the matched edge of a test
					if m, ok := matched[pred]; ok && pred.Succs[m] == phi.Block() {
						continue
					}
					return false
				}
				if !okVal(e, depth+1) {
					return false
				}
			}
			return true
		}
		return false
	}
	hit := pathPruned(g, nil, func(ssa.Instruction) bool { return false }, func(in ssa.Instruction) bool {
		ret, ok := in.(*ssa.Return)
		if !ok {
			return false
		}
		if b, isB := constBool(ret.Results[0]); isB {
			return b
		}
		return !okVal(ret.Results[0], 0)
	}, func(b *ssa.BasicBlock, k int) bool {
		m, ok := matched[b]
		return ok && m == k
	})
	if hit != nil {
		return g.Name() + " can answer true without the status code having matched"
	}
	return ""
}

func keysOf(m map[int64]bool) []int64 {
	var out []int64
	for k := range m {
		out = append(out, k)
	}
	sort.Slice(out, func(i, j int) bool { return out[i] < out[j] })
	return out
}

// c14ClockWaits (O9): "the wait computed between HTTP attempts is never negative". A duration obtained by subtracting the
// clock from a date is negative whenever the date is not in the future — and testing the date against one reading of the clock
// before subtracting another reading does not help (the date may fall between the two). Decided: the difference itself is
// what is clamped: besides comparisons it only flows into a merge (phi) whose lower bound, given the branch conditions on the
// incoming edges, is at least 0 — or into max(0, …).
func (c *Ctx) c14ClockWaits() {
	n := 0
	for _, f := range c.srcFuncs("http") {
		allInstrs(f, func(in ssa.Instruction) {
			cl, ok := in.(*ssa.Call)
			if !ok {
				return
			}
			switch calleeFull(&cl.Call) {
			case "time.Until", "(time.Time).Sub":
			default:
				return
			}
			n++
			c.FuncsSeen[fname(f)] = true
			key := fname(f) + "/clock-difference"
			bad := ""
			var visit func(v ssa.Value, depth int)
			visit = func(v ssa.Value, depth int) {
				if v.Referrers() == nil || depth > 4 {
					return
				}
				for _, r := range *v.Referrers() {
					switch x := r.(type) {
					case *ssa.BinOp:
						switch x.Op {
						case token.LSS, token.LEQ, token.GTR, token.GEQ, token.EQL, token.NEQ:
							continue
						}
						bad = c.ipos(r) + ": used in arithmetic before any clamp"
					case *ssa.Phi:
						// the branch conditions that hold on the edge the difference comes in by
						for i, e := range x.Edges {
							if e != v {
								continue
							}
							if g := guardsOnEdge(v, x.Block().Preds[i], x.Block()); !(g.hasLo && g.lo.Sign() >= 0) {
								bad = c.ipos(r) + ": merged into the result on an edge where it has not been found to be at least 0"
							}
						}
					case *ssa.Convert, *ssa.ChangeType:
						visit(x.(ssa.Value), depth+1)
					case *ssa.Call:
						if b, isB := x.Call.Value.(*ssa.Builtin); isB && (b.Name() == "max" || b.Name() == "min") {
							if bo := boundsOf(x, 0); !(bo.hasLo && bo.lo.Sign() >= 0) {
								bad = c.ipos(r) + ": the result of " + b.Name() + "() has no lower bound at 0"
							}
							continue
						}
						bad = c.ipos(r) + ": handed on unclamped"
					case *ssa.DebugRef:
					default:
						bad = c.ipos(r) + ": used (returned, stored) unclamped"
					}
				}
			}
			visit(cl, 0)
			c.check(bad == "", "O9", key, c.ipos(cl), "the difference with the clock is clamped at 0 before use",
				"the duration obtained from the clock is "+bad+": a date that is not (or no longer, between two readings of the clock) in the future gives a negative wait")
		})
	}
	c.Extra["clock_differences"] = n
}

// c14RepresentabilityTest: v is (the negation of, a call of a package predicate returning) an ordering comparison between a
// value computed from attempt and a quotient whose dividend is the constant MaxInt64.
func c14RepresentabilityTest(v ssa.Value, attempt ssa.Value, depth int) bool {
	if depth > 3 {
		return false
	}
	switch x := v.(type) {
	case *ssa.UnOp:
		if x.Op == token.NOT {
			return c14RepresentabilityTest(x.X, attempt, depth+1)
		}
	case *ssa.BinOp:
		switch x.Op {
		case token.LSS, token.LEQ, token.GTR, token.GEQ:
			for side, pair := range [][2]ssa.Value{{x.X, x.Y}, {x.Y, x.X}} {
				if !c11DependsOn(pair[0], []ssa.Value{attempt}, map[ssa.Value]bool{}, 0) || !c14IsMaxQuotient(pair[1]) {
					continue
				}
				// the multiplier is attempt+1: (attempt+1)·bound ≤ Max  ⇔  attempt+1 ≤ Max/bound  ⇔  attempt < Max/bound.
				// k = what is added to the attempt number before the comparison
				k := int64(0)
				if add, ok := stripConv(pair[0]).(*ssa.BinOp); ok && add.Op == token.ADD {
					if cst, isC := constInt(add.Y); isC {
						k = cst
					} else if cst, isC := constInt(add.X); isC {
						k = cst
					}
				}
				op := x.Op
				if side == 1 { // quotient on the left: mirror
					switch op {
					case token.LSS:
						op = token.GTR
					case token.LEQ:
						op = token.GEQ
					case token.GTR:
						op = token.LSS
					case token.GEQ:
						op = token.LEQ
					}
				}
				// exact forms: n < q, n+1 <= q (fits); n >= q, n+1 > q (does not fit)
				if (k == 0 && (op == token.LSS || op == token.GEQ)) || (k == 1 && (op == token.LEQ || op == token.GTR)) {
					return true
				}
				c14BoundaryNote = "the comparison of the attempt number with MaxInt64/bound is off by one (the multiplier is attempt+1: the exact test is attempt < MaxInt64/bound)"
			}
		}
	case *ssa.Call:
		g := staticCallee(&x.Call)
		if g == nil || len(g.Blocks) == 0 {
			return false
		}
		for i, a := range x.Call.Args {
			if i < len(g.Params) && c11DependsOn(a, []ssa.Value{attempt}, map[ssa.Value]bool{}, 0) {
				found := false
				allInstrs(g, func(in ssa.Instruction) {
					if r, ok := in.(*ssa.Return); ok && len(r.Results) == 1 {
						for _, l := range sources(r.Results[0], deriveOpts{}) {
							if c14RepresentabilityTest(l, g.Params[i], depth+1) {
								found = true
							}
						}
					}
				})
				if found {
					return true
				}
			}
		}
	}
	return false
}

// c14BoundaryNote: set by c14RepresentabilityTest when it met a test of the right shape with the wrong boundary.
var c14BoundaryNote string

func c14IsMaxQuotient(v ssa.Value) bool {
	v = stripConv(v)
	bo, ok := v.(*ssa.BinOp)
	if !ok || bo.Op != token.QUO {
		return false
	}
	k, isC := constBig(bo.X)
	return isC && k.Cmp(new(big.Int).SetUint64(1<<63-1)) == 0
}

// c14Options: the options a []retry.Option value is made of, through append, helpers of the package that return option lists,
// and — noted in fromState — package-level state (sync.Map / map / variable loads).
func c14Options(c *Ctx, v ssa.Value, depth int) (elems []ssa.Value, fromState string) {
	if depth > 5 || v == nil {
		return
	}
	merge := func(e []ssa.Value, st string) {
		elems = append(elems, e...)
		if st != "" {
			fromState = st
		}
	}
	if sl, ok := v.(*ssa.Slice); ok {
		if e := variadicElems(sl); len(e) > 0 {
			return e, ""
		}
	}
	for _, l := range sources(v, deriveOpts{}) {
		switch x := l.(type) {
		case *ssa.Slice:
			if e := variadicElems(x); len(e) > 0 {
				merge(e, "")
			} else {
				merge(c14Options(c, x.X, depth+1))
			}
		case *ssa.Call:
			n := calleeFull(&x.Call)
			switch {
			case n == "builtin.append":
				for _, a := range x.Call.Args {
					merge(c14Options(c, a, depth+1))
				}
			case strings.HasPrefix(n, "(*sync.Map)."):
				fromState = c.ipos(x) + " " + short(n)
				for _, a := range x.Call.Args[1:] {
					if mi, ok := a.(*ssa.MakeInterface); ok {
						merge(c14Options(c, mi.X, depth+1))
					}
				}
				fromState = c.ipos(x) + " " + short(n)
			default:
				if g := staticCallee(&x.Call); g != nil && inModule(g) && g.Blocks != nil {
					allInstrs(g, func(in ssa.Instruction) {
						if r, ok := in.(*ssa.Return); ok && len(r.Results) > 0 {
							merge(c14Options(c, r.Results[0], depth+1))
						}
					})
				}
			}
		case *ssa.TypeAssert:
			merge(c14Options(c, x.X, depth+1))
		case *ssa.Extract:
			merge(c14Options(c, x.Tuple, depth+1))
		case *ssa.MakeInterface:
			merge(c14Options(c, x.X, depth+1))
		case *ssa.UnOp:
			if g, ok := x.X.(*ssa.Global); ok {
				fromState = c.ipos(x) + " " + g.Name()
			}
		case *ssa.Lookup:
			fromState = c.ipos(x) + " (map lookup)"
		}
	}
	return
}
