package main

import (
	"go/token"
	"go/types"
	"strings"

	"golang.org/x/tools/go/ssa"
)

const cfgPkg = "config"

func init() {
	register(&propCheck{
		id:          "C15",
		level:       "other",
		explanation: "What viper, mapstructure and pflag do with a configuration structure at run time is not decided here. Decided are the structural facts of package config on which the stated precedence rests, on every path of the current sources: (U1) loading reports success only through Validate(): every return of LoadFromEnvironment that can carry a nil error follows the call of configurationToSet.Validate() and returns what WrapValidationError made of its result; Load and LoadFromViper only delegate; (U2) the sources are fed to the viper session in the order the precedence needs — the decoded defaults are merged first, the configuration file (when one is given) is merged after them and before the flags are linked to the structure keys, and all of it precedes Unmarshal: linkFlagKeysToStructureKeys forces the default value of an unset flag onto a structure key that is still empty, so a file merged after it loses to a mere default (genuine defect F30 of the pinned sources, repaired); (U3) in linkFlagKeysToStructureKeys an explicitly set flag is written with viper.Set (the override layer, above environment and file), and the default value of an unset flag is forced only where the structure key was found empty; (U4) the names reported by DetermineConfigurationEnvironmentVariables and the names the session honours are built with the same separator and case: SetEnvPrefix gets the caller's prefix, AutomaticEnv is on, the key replacer maps the configuration key separator to EnvVarSeparator, and the reporting side joins the upper-cased prefix and path elements with that same separator. Decided on SSA; nothing is executed. Not decided: viper's own precedence between its layers, mapstructure tag handling, what the Validate methods of user structures check (ValidateEmbedded walks them by reflection).",
		run:         runC15,
		assumptions: []string{
			"viper resolves a key in the order override (Set) > flag > environment > configuration (file and merged maps, later merges winning) > default, and AutomaticEnv looks up upper(prefix + \"_\" + replacer(key)) (library contract)",
		},
	})
}

func runC15(c *Ctx) {
	c.envOptionsSetOnEveryCall()
	c.rule("U1", "loading succeeds only through Validate(): every possibly-nil return of LoadFromEnvironment follows configurationToSet.Validate() and returns its (wrapped) result; Load/LoadFromViper delegate to it", 3)
	c.rule("U2", "source order in LoadFromEnvironment: MergeConfigMap(defaults) → configuration file → linkFlagKeysToStructureKeys → Unmarshal → Validate", 4)
	c.rule("U16", "the functions that turn the result of Validate() into a validation error answer nil only where the error they were given was found nil (a failed validation never becomes 'no error' on another ground)", 3)
	c.rule("U15", "the variable name a flag is bound to is made of the prefix and of the field's name: what cleanseEnvVar returns depends on both of its parameters", 1)
	c.rule("U14", "linkFlagKeysToStructureKeys asks the session whether the flag is set (IsSet) for every structure key: no key is passed over on the strength of another list", 1)
	c.rule("U3", "linkFlagKeysToStructureKeys: a set flag is written with Set(); the default of an unset flag is forced only where the structure key is empty", 2)
	c.rule("U9", "the reporting side (the names listed, the name a validation error gives) replaces the configuration key separator in the prefix too, like the session's key replacer", 2)
	c.rule("U10", "a validation error records the enclosing field in front of the path gathered so far, for the structure path and for the variable-name path alike (the error travels from the innermost structure outwards)", 2)
	c.rule("U11", "a set of flags bound to one key yields a value some flag was explicitly given whenever there is one: the value of a flag nobody set is returned only where the list of explicit values was found empty", 1)
	c.rule("U12", "binding a flag to a variable recognises the prefix in the name it is given in the spelling loading looks up (key separator replaced), not only as the caller wrote the prefix", 1)
	c.rule("U13", "the key replacer given to the session replaces the key separator and nothing else: the names loading looks up are the reported names", 1)
	c.rule("U8", "ValidateEmbedded calls Validate() on every field of struct kind that implements Validator, whatever the field holds, and returns its error", 1)
	c.rule("U6", "names with an empty prefix: prefix and separator are joined only where the prefix was found non-empty", 2)
	c.rule("U7", "structure keys are linked to flag keys without prefix removal", 1)
	c.rule("U17", "in package config no value other than a constant is used as the set of characters of strings.Trim / TrimLeft / TrimRight: a prefix is removed as a prefix", 0)
	c.rule("U5", "a prefix is tested and removed in the letter case of the string it is removed from", 2)
	c.rule("U4", "environment variable names: SetEnvPrefix(prefix), AutomaticEnv, key replacer separator → EnvVarSeparator; the reporting side joins upper-cased elements with the same separator", 4)

	load := c.fn(cfgPkg, "LoadFromEnvironment")
	c.FuncsSeen[fname(load)] = true
	find := func(f *ssa.Function, pred func(cl *ssa.Call) bool) *ssa.Call {
		var out *ssa.Call
		allInstrs(f, func(in ssa.Instruction) {
			if cl, ok := in.(*ssa.Call); ok && out == nil && pred(cl) {
				out = cl
			}
		})
		return out
	}
	method := func(name string) func(cl *ssa.Call) bool {
		return func(cl *ssa.Call) bool {
			n := calleeFull(&cl.Call)
			return strings.HasSuffix(n, "viper.Viper)."+name) || (cl.Call.IsInvoke() && cl.Call.Method.Name() == name)
		}
	}
	local := func(name string) func(cl *ssa.Call) bool {
		return func(cl *ssa.Call) bool {
			g := staticCallee(&cl.Call)
			return g != nil && g.Name() == name && inPkg(cfgPkg)(g)
		}
	}
	merge := find(load, method("MergeConfigMap"))
	file := find(load, local("LoadFromConfigurationFile"))
	link := find(load, local("linkFlagKeysToStructureKeys"))
	envo := find(load, local("setEnvOptions"))
	unm := find(load, method("Unmarshal"))
	val := find(load, func(cl *ssa.Call) bool { return cl.Call.IsInvoke() && cl.Call.Method.Name() == "Validate" })

	// ---- U1 -----------------------------------------------------------------
	if val == nil {
		c.violate("U1", fname(load)+"/validate", c.pos(load.Pos()), "LoadFromEnvironment never calls Validate() on the structure it filled")
	} else {
		cfgParam := paramIndexByName(load, "configurationToSet")
		onParam := cfgParam >= 0 && resolveValue(val.Call.Value) == ssa.Value(load.Params[cfgParam])
		esc := pathPruned(load, nil, func(i ssa.Instruction) bool { return i == ssa.Instruction(val) }, func(i ssa.Instruction) bool {
			r, ok := i.(*ssa.Return)
			return ok && !isErrorExit(load, r)
		}, nil)
		flows := false
		allInstrs(load, func(in ssa.Instruction) {
			r, ok := in.(*ssa.Return)
			if !ok || !dominates(val, r) {
				return
			}
			for _, l := range sources(r.Results[len(r.Results)-1], deriveOpts{through: func(n string) bool {
				return strings.Contains(n, "WrapValidationError") || strings.Contains(n, "WrapFieldValidationError")
			}}) {
				if l == ssa.Value(val) {
					flows = true
				}
			}
		})
		switch {
		case !onParam:
			c.violate("U1", fname(load)+"/validate", c.ipos(val), "Validate() is not called on the structure being filled")
		case esc != nil:
			c.violate("U1", fname(load)+"/validate", c.ipos(esc), "this return can report success without Validate() having been called: an invalid configuration is accepted")
		case !flows:
			c.violate("U1", fname(load)+"/validate", c.ipos(val), "the result of Validate() is not what the loader returns: validation failures are dropped")
		default:
			c.ok("U1", fname(load)+"/validate", c.ipos(val), "every possibly-successful return follows Validate() and returns its wrapped result")
		}
	}
	for _, w := range []struct{ name, callee string }{{"Load", "LoadFromViper"}, {"LoadFromViper", "LoadFromEnvironment"}} {
		f := c.fn(cfgPkg, w.name)
		c.FuncsSeen[fname(f)] = true
		good := false
		allInstrs(f, func(in ssa.Instruction) {
			r, ok := in.(*ssa.Return)
			if !ok {
				return
			}
			if cl, ok := r.Results[0].(*ssa.Call); ok {
				if g := staticCallee(&cl.Call); g != nil && g.Name() == w.callee {
					good = true
				}
			}
		})
		c.check(good, "U1", fname(f)+"/delegates", c.pos(f.Pos()), "returns the result of "+w.callee, w.name+" no longer returns the result of "+w.callee+": validation can be bypassed")
	}

	// ---- U18 ----------------------------------------------------------------
	// "loading fills every field … from a flag, the environment variable, the file and the supplied defaults": decoding the
	// defaults structure into the session is what tells viper the keys of the structure — variables are looked up, and flags
	// linked, for keys it knows only. The decode is therefore made whatever the defaults hold: skipped where they 'are
	// empty' (reflection.IsEmpty follows pointers and takes an all-zero structure for empty) the environment and the flags
	// are silently ignored for a caller whose defaults are all zero.
	c.rule("U18", "LoadFromEnvironment decodes the defaults structure it was given into the session on every path that merges it (mapstructure.Decode of the parameter dominates MergeConfigMap), except where the parameter was found nil", 1)
	{
		dp := paramIndexByName(load, "defaultConfiguration")
		var dec *ssa.Call
		allInstrs(load, func(in ssa.Instruction) {
			if cl, ok := in.(*ssa.Call); ok && strings.HasSuffix(calleeFull(&cl.Call), "mapstructure.Decode") && len(cl.Call.Args) > 0 && dp >= 0 {
				for _, l := range sources(cl.Call.Args[0], deriveOpts{}) {
					if resolveValue(l) == ssa.Value(load.Params[dp]) {
						dec = cl
					}
				}
			}
		})
		key := fname(load) + "/defaults-decoded-whatever-they-hold"
		switch {
		case dec == nil:
			c.violate("U18", key, c.pos(load.Pos()), "LoadFromEnvironment no longer decodes its defaults parameter: the session does not learn the keys of the structure")
		case merge == nil:
			c.violate("U18", key, c.pos(load.Pos()), "LoadFromEnvironment no longer merges the decoded defaults into the session")
		default:
			esc := pathPruned(load, nil, func(i ssa.Instruction) bool { return i == ssa.Instruction(dec) }, func(i ssa.Instruction) bool { return i == ssa.Instruction(merge) }, func(b *ssa.BasicBlock, k int) bool {
				ifi, ok := b.Instrs[len(b.Instrs)-1].(*ssa.If)
				if !ok {
					return false
				}
				x, nilSucc, ok := nilTest(ifi)
				return ok && resolveValue(x) == ssa.Value(load.Params[dp]) && k == nilSucc
			})
			c.check(esc == nil, "U18", key, c.ipos(dec), "the defaults are decoded on every path to the merge",
				"the merge of the defaults can be reached without the defaults structure having been decoded (the decode is made conditional on what the structure holds): for defaults that are all zero — which reflection.IsEmpty takes for 'none' — the session never learns the keys of the structure, no environment variable is looked up and no flag is linked: loading ignores both, and either fails validation or succeeds with zero values")
		}
	}

	// ---- U19 ----------------------------------------------------------------
	// "loading fills every field from …, the configuration file, …": the file named is read and merged on every load. A
	// successful return of LoadFromConfigurationFile follows MergeInConfig — that the session 'already uses this file'
	// (ConfigFileUsed only says which path was last designated) is no reason to skip it: a session on which the caller had
	// designated the file, or a second load after the defaults were merged over the first, gets the defaults in the place
	// of everything the file sets.
	c.rule("U19", "every successful return of LoadFromConfigurationFile follows the reading and merging of the file (MergeInConfig): no fast path answers for the file without reading it", 1)
	if lf := c.fnOpt(cfgPkg, "LoadFromConfigurationFile"); lf != nil {
		c.FuncsSeen[fname(lf)] = true
		isMerge := func(i ssa.Instruction) bool {
			cl, ok := i.(*ssa.Call)
			if !ok {
				return false
			}
			n := calleeFull(&cl.Call)
			return strings.HasSuffix(n, "viper.Viper).MergeInConfig") || strings.HasSuffix(n, "viper.Viper).ReadInConfig") || strings.HasSuffix(n, "viper.Viper).MergeConfig") || strings.HasSuffix(n, "viper.Viper).ReadConfig")
		}
		esc := pathPruned(lf, nil, isMerge, func(i ssa.Instruction) bool {
			r, ok := i.(*ssa.Return)
			return ok && !isErrorExit(lf, r)
		}, nil)
		c.check(esc == nil, "U19", fname(lf)+"/file-read-on-every-load", c.pos(lf.Pos()), "every successful return follows MergeInConfig",
			"the return at "+iposOrEmpty(c, esc)+" reports success without the file having been read and merged: where the session already designates this file (the usual initConfig of a cobra command does SetConfigFile itself) it is never read, and on a second load — after the defaults were merged again over the session — every field the file sets gets its default; no error is returned")
	}

	// ---- U2 -----------------------------------------------------------------
	need := func(key string, a, b *ssa.Call, an, bn, why string) {
		switch {
		case a == nil || b == nil:
			c.violate("U2", fname(load)+"/"+key, c.pos(load.Pos()), "the step "+map[bool]string{true: an, false: bn}[a == nil]+" is missing from LoadFromEnvironment")
		case pathPruned(load, nil, func(i ssa.Instruction) bool { return i == ssa.Instruction(a) }, func(i ssa.Instruction) bool { return i == ssa.Instruction(b) }, nil) != nil && !(key == "file-before-flags"):
			c.violate("U2", fname(load)+"/"+key, c.ipos(b), bn+" can be reached without "+an+" having run: "+why)
		default:
			c.ok("U2", fname(load)+"/"+key, c.ipos(b), an+" precedes "+bn)
		}
	}
	need("defaults-before-file", merge, file, "MergeConfigMap(defaults)", "the configuration file", "defaults merged after the file replace what the file supplied")
	need("everything-before-unmarshal", link, unm, "linkFlagKeysToStructureKeys", "Unmarshal", "flags are not yet reflected in the structure keys when the structure is filled")
	need("env-options-before-unmarshal", envo, unm, "setEnvOptions", "Unmarshal", "environment variables are not looked at")
	// the file, when there is one, precedes the linking of flags: no path runs link and then the file
	switch {
	case file == nil || link == nil:
		c.violate("U2", fname(load)+"/file-before-flags", c.pos(load.Pos()), "LoadFromEnvironment no longer has both steps")
	case pathPruned(load, link, func(ssa.Instruction) bool { return false }, func(i ssa.Instruction) bool { return i == ssa.Instruction(file) }, nil) != nil:
		c.violate("U2", fname(load)+"/file-before-flags", c.ipos(link), "the configuration file is merged after the flags were linked to the structure keys: linkFlagKeysToStructureKeys forces (viper.Set) the default value of every unset flag onto a structure key that is still empty at that moment, and a value the file supplies afterwards for that key is ignored — a mere default beats the configuration file")
	default:
		c.ok("U2", fname(load)+"/file-before-flags", c.ipos(file), "the configuration file is merged before the flags are linked")
	}

	// ---- U3 -----------------------------------------------------------------
	lk := c.fn(cfgPkg, "linkFlagKeysToStructureKeys")
	c.FuncsSeen[fname(lk)] = true
	isSetTest := func(v ssa.Value) bool { cl, ok := v.(*ssa.Call); return ok && method("IsSet")(cl) }
	emptyTest := func(v ssa.Value) bool {
		cl, ok := v.(*ssa.Call)
		if !ok || !strings.HasSuffix(calleeFull(&cl.Call), "reflection.IsEmpty") {
			return false
		}
		for _, l := range sources(cl.Call.Args[0], deriveOpts{}) {
			if g, ok := l.(*ssa.Call); ok && method("Get")(g) {
				return true
			}
		}
		return false
	}
	setOnSet, forcedOnlyIfEmpty, nSets := false, true, 0
	allInstrs(lk, func(in ssa.Instruction) {
		cl, ok := in.(*ssa.Call)
		if !ok || !method("Set")(cl) {
			return
		}
		nSets++
		if onBoolSide(cl, true, isSetTest) {
			setOnSet = true
			return
		}
		// a Set on the unset side: only where the structure key was found empty
		ok2 := false
		for _, b := range lk.Blocks {
			ifi, isIf := b.Instrs[len(b.Instrs)-1].(*ssa.If)
			if !isIf {
				continue
			}
			v, ts := boolTest(ifi)
			if !emptyTest(v) {
				continue
			}
			// the key tested is the structure key (first argument of this Set), not the flag key
			tc := v.(*ssa.Call)
			var getArg ssa.Value
			for _, l := range sources(tc.Call.Args[0], deriveOpts{}) {
				if g, ok := l.(*ssa.Call); ok && method("Get")(g) {
					getArg = g.Call.Args[len(g.Call.Args)-1]
				}
			}
			setKey := cl.Call.Args[len(cl.Call.Args)-2]
			if getArg != nil && resolveValue(getArg) == resolveValue(setKey) && edgeDominates(b, ts, cl.Block()) {
				ok2 = true
			}
		}
		if !ok2 {
			forcedOnlyIfEmpty = false
		}
	})
	c.check(setOnSet, "U3", fname(lk)+"/set-flag-wins", c.pos(lk.Pos()), "a set flag is written to the structure key with Set()", "on the side where the flag is set its value is not written with Set(): an explicitly set flag no longer beats the environment and the file")
	c.check(forcedOnlyIfEmpty && nSets > 0, "U3", fname(lk)+"/default-only-if-empty", c.pos(lk.Pos()), "the default of an unset flag is forced only where the structure key is empty", "the default value of an unset flag is forced onto the structure key without that key having been found empty: it overrides what the environment, the file or the defaults supplied")

	// ---- U14 ----------------------------------------------------------------
	// "an explicitly set command-line flag bound to it has the highest priority": for every key of the structure. The question
	// 'is the flag set?' is put to the session (IsSet), which knows; a shortcut that skips keys — because their flag key is not
	// in AllKeys(), say: viper leaves out a flat key whose dotted parent path is bound too, so the flag on `log` hides the one
	// on `log_level` — leaves the explicitly set flag of a skipped key out of the override layer.
	{
		var gate *ssa.If
		var nonFlag *ssa.BasicBlock
		for _, b := range lk.Blocks {
			ifi, ok := b.Instrs[len(b.Instrs)-1].(*ssa.If)
			if !ok {
				continue
			}
			v, ts := boolTest(ifi)
			if cl, ok := v.(*ssa.Call); ok {
				if g := staticCallee(&cl.Call); g != nil && g.Name() == "isFlagKey" {
					gate, nonFlag = ifi, b.Succs[1-ts]
				}
			}
		}
		var isSet *ssa.Call
		allInstrs(lk, func(in ssa.Instruction) {
			if cl, ok := in.(*ssa.Call); ok && method("IsSet")(cl) {
				isSet = cl
			}
		})
		switch {
		case gate == nil || isSet == nil:
			c.violate("U14", fname(lk)+"/every-structure-key-asked", c.pos(lk.Pos()), "linkFlagKeysToStructureKeys no longer asks the session, key by key, whether the flag bound to a structure key is set")
		default:
			// from the 'not a flag key' side: the next iteration (the gate again) or an exit reached without passing IsSet
			skipped := pathPruned(lk, nonFlag.Instrs[0], func(in ssa.Instruction) bool { return in == ssa.Instruction(isSet) }, func(in ssa.Instruction) bool {
				if in == ssa.Instruction(gate) {
					return true
				}
				_, isRet := in.(*ssa.Return)
				return isRet
			}, nil)
			if nonFlag.Instrs[0] == ssa.Instruction(isSet) {
				skipped = nil
			}
			c.check(skipped == nil, "U14", fname(lk)+"/every-structure-key-asked", c.ipos(isSet), "every structure key reaches IsSet(flag key) before the next key is looked at",
				"a structure key can be passed over without the session being asked whether its flag is set (the iteration reaches "+c.iposOr(skipped)+" without IsSet): a flag that was explicitly set for such a key is never written to the override layer and loses to the environment variable, the file or the defaults")
		}
	}

	// ---- U15 ----------------------------------------------------------------
	// "the environment variable PREFIX_PATH_TO_FIELD" — for the variables bound to flags too. The name handed to BindEnv is made
	// by cleanseEnvVar out of the prefix and the field's name: a name that lost its prefix on the way binds the flag to the
	// variable PATH_TO_FIELD — USER, HOME, DB_PORT: whatever happens to be in the environment — which then counts as set, and is
	// forced onto the field over its own variable, the file and the defaults.
	if cev := c.fnOpt(cfgPkg, "cleanseEnvVar"); cev != nil && len(cev.Params) >= 2 {
		c.FuncsSeen[fname(cev)] = true
		usesPrefix, usesName, rets := true, true, 0
		allInstrs(cev, func(in ssa.Instruction) {
			r, ok := in.(*ssa.Return)
			if !ok || len(r.Results) == 0 {
				return
			}
			rets++
			hasP, hasN := false, false
			for _, l := range sources(r.Results[0], deriveOpts{through: func(string) bool { return true }}) {
				if l == ssa.Value(cev.Params[0]) {
					hasP = true
				}
				if l == ssa.Value(cev.Params[1]) {
					hasN = true
				}
			}
			usesPrefix = usesPrefix && hasP
			usesName = usesName && hasN
		})
		c.check(rets > 0 && usesPrefix && usesName, "U15", fname(cev)+"/prefix-and-name", c.pos(cev.Pos()), "the name returned is made of the prefix and of the field's name",
			"the name cleanseEnvVar returns no longer depends on "+map[bool]string{true: "the field's name", false: "the prefix"}[usesPrefix]+": flags are bound to the variable named like the field path alone (USER, HOME, DB_PORT) — a variable of that name in the environment counts as 'the flag is set' and is forced onto the field, above the field's own variable, the file and the defaults; none of the names DetermineConfigurationEnvironmentVariables reports")
	}

	// ---- U16 ----------------------------------------------------------------
	// "a value that fails validation is reported as an error": what Validate() reported reaches the caller of the loader
	// through WrapValidationError / WrapFieldValidationError / newValidationError. Each of them answers nil for a nil error
	// and for nothing else: a nil handed back on any other ground (an empty prefix, a kind it does not know) turns the
	// failed validation into a successful load.
	isVErrType := func(t types.Type) bool {
		n := t.String()
		return strings.HasSuffix(n, "config.IValidationError") || strings.HasSuffix(n, "config.validationError")
	}
	for _, f := range c.srcFuncs(cfgPkg) {
		if f.Signature.Results().Len() != 1 || !isVErrType(f.Signature.Results().At(0).Type()) || f.Blocks == nil {
			continue
		}
		var errParams []ssa.Value
		for _, p := range f.Params {
			if isErrorType(p.Type()) {
				errParams = append(errParams, p)
			}
		}
		if len(errParams) == 0 {
			continue
		}
		c.FuncsSeen[fname(f)] = true
		// what stands for the error: the parameter itself, or what a sibling converter made of it
		cands := append([]ssa.Value{}, errParams...)
		allInstrs(f, func(in ssa.Instruction) {
			cl, ok := in.(*ssa.Call)
			if !ok || !isVErrType(cl.Type()) {
				return
			}
			for _, a := range cl.Call.Args {
				for _, p := range errParams {
					if sameValue(a, p) {
						cands = append(cands, cl)
					}
				}
			}
		})
		nilGround := func(at ssa.Instruction) bool {
			for _, x := range cands {
				if onNilSide(x, at) {
					return true
				}
			}
			return false
		}
		bad := ""
		rets := 0
		allInstrs(f, func(in ssa.Instruction) {
			r, ok := in.(*ssa.Return)
			if !ok || len(r.Results) != 1 {
				return
			}
			rets++
			var visit func(v ssa.Value, at ssa.Instruction, seen map[ssa.Value]bool)
			visit = func(v ssa.Value, at ssa.Instruction, seen map[ssa.Value]bool) {
				if seen[v] {
					return
				}
				seen[v] = true
				switch x := v.(type) {
				case *ssa.Const:
					if x.Value == nil && !nilGround(at) {
						bad = c.ipos(at)
					}
				case *ssa.Phi:
					for i, e := range x.Edges {
						pred := x.Block().Preds[i]
						last := pred.Instrs[len(pred.Instrs)-1]
						if isNilConst(e) {
							// the edge itself may be the nil branch of the test
							if ifi, ok := last.(*ssa.If); ok {
								if t, nilSucc, ok := nilTest(ifi); ok && pred.Succs[nilSucc] == x.Block() {
									known := false
									for _, cnd := range cands {
										known = known || sameValue(t, cnd)
									}
									if known {
										continue
									}
								}
							}
						}
						visit(e, last, seen)
					}
				case *ssa.ChangeInterface:
					visit(x.X, at, seen)
				}
			}
			visit(r.Results[0], r, map[ssa.Value]bool{})
		})
		switch {
		case rets == 0:
			c.undecided("U16", fname(f)+"/nil-only-for-nil", c.pos(f.Pos()), "no return found")
		case bad != "":
			c.violate("U16", fname(f)+"/nil-only-for-nil", bad, "answers nil here although the error it was given has not been found nil: the failed validation is handed on as 'no error', LoadFromEnvironment returns what this made of Validate()'s result and the invalid configuration is loaded successfully")
		default:
			c.ok("U16", fname(f)+"/nil-only-for-nil", c.pos(f.Pos()), "nil is answered only where the error given (or what the sibling converter made of it) was found nil")
		}
	}

	// ---- U4 -----------------------------------------------------------------
	seo := c.fn(cfgPkg, "setEnvOptions")
	c.FuncsSeen[fname(seo)] = true
	pfx := find(seo, method("SetEnvPrefix"))
	auto := find(seo, method("AutomaticEnv"))
	rep := find(seo, method("SetEnvKeyReplacer"))
	c.check(pfx != nil && paramIndex(seo, resolveValue(pfx.Call.Args[len(pfx.Call.Args)-1])) >= 0, "U4", fname(seo)+"/prefix", c.pos(seo.Pos()), "SetEnvPrefix(caller's prefix)", "the session's environment prefix is not the prefix the caller gave")
	c.check(auto != nil, "U4", fname(seo)+"/automatic", c.pos(seo.Pos()), "AutomaticEnv()", "AutomaticEnv() is not switched on: environment variables are not looked up for structure keys")
	sepOK, envSep := false, ""
	extra := ""
	if rep != nil {
		if pairs, ok := c15ReplacerPairs(rep.Call.Args[len(rep.Call.Args)-1]); ok {
			for _, pr := range pairs {
				if pr[0] == "." {
					sepOK, envSep = true, pr[1]
				} else {
					extra = strconvQuote(pr[0]) + " → " + strconvQuote(pr[1])
				}
			}
		}
	}
	c.check(sepOK, "U4", fname(seo)+"/replacer", c.pos(seo.Pos()), "key replacer maps \".\" to "+strconvQuote(envSep), "the environment key replacer does not map the configuration key separator to a constant separator")
	// U13: the names looked up are the keys with the key separator replaced — and nothing else. The reporting side builds its names from
	// the keys as they are (U4, reporting side): any further replacement made when a variable is looked up (a dash turned into an
	// underscore) makes loading honour a name that is not the one reported, for every field beneath a key that contains it.
	c.check(extra == "", "U13", fname(seo)+"/only-the-key-separator-is-replaced", c.pos(seo.Pos()), "the session's key replacer replaces the key separator only",
		"the session's key replacer also replaces "+extra+": for a tag with that character loading looks up another name than the one DetermineConfigurationEnvironmentVariables reports (DEMO_LEAF_SECTION_HOST honoured, DEMO_LEAF-SECTION_HOST reported): the variable set under the reported name no longer beats the file or the defaults")
	// the reporting side
	det := c.fn(cfgPkg, "DetermineConfigurationEnvironmentVariables")
	flat := c.fn(cfgPkg, "flattenDefaultsMap")
	c.FuncsSeen[fname(det)] = true
	c.FuncsSeen[fname(flat)] = true
	agree, upper := true, 0
	for _, f := range []*ssa.Function{det, flat} {
		allInstrs(f, func(in ssa.Instruction) {
			cl, ok := in.(*ssa.Call)
			if !ok {
				return
			}
			switch calleeFull(&cl.Call) {
			case "fmt.Sprintf":
				if format, isC := constString(cl.Call.Args[0]); isC && strings.Count(format, "%") == 2 {
					mid := strings.TrimSuffix(strings.TrimPrefix(format, format[:2]), format[len(format)-2:])
					if mid != envSep {
						agree = false
					}
				} else if isC && strings.Trim(format, "%vs") == "" && len(cl.Call.Args) > 1 {
					// only verbs: the separator is one of the operands
					for _, e := range variadicElems(cl.Call.Args[1]) {
						if k, isK := constString(stripConv(e)); isK && k != envSep {
							agree = false
						}
					}
				}
			case "strings.ToUpper":
				upper++
			}
		})
	}
	c.check(sepOK && agree && upper >= 3, "U4", "config/reported-names", c.pos(det.Pos()), "prefix and path elements upper-cased and joined with "+strconvQuote(envSep)+", the separator the session's replacer produces",
		"the names reported by DetermineConfigurationEnvironmentVariables are not built the way the session looks variables up (separator "+strconvQuote(envSep)+", upper case): they are not the names that loading honours")
	_ = token.NoPos

	// ---- U6 -----------------------------------------------------------------
	// Viper puts the separator after the prefix only when there is a prefix (mergeWithEnvPrefix). The reporting side and the
	// names flags are bound to do the same: wherever prefix and separator are joined, the prefix was found non-empty.
	nJoin := 0
	for _, name := range []string{"DetermineConfigurationEnvironmentVariables", "cleanseEnvVar"} {
		f := c.fn(cfgPkg, name)
		if f == nil {
			continue
		}
		c.FuncsSeen[fname(f)] = true
		var prefix *ssa.Parameter
		for _, p := range f.Params {
			if bt, isB := p.Type().Underlying().(*types.Basic); isB && bt.Kind() == types.String && (strings.Contains(strings.ToLower(p.Name()), "prefix") || strings.Contains(strings.ToLower(p.Name()), "appname")) {
				prefix = p
			}
		}
		if prefix == nil {
			c.violate("U6", fname(f)+"/prefix-then-separator", c.pos(f.Pos()), "no prefix parameter found in "+name)
			continue
		}
		allInstrs(f, func(in ssa.Instruction) {
			cl, ok := in.(*ssa.Call)
			if !ok || calleeFull(&cl.Call) != "fmt.Sprintf" || len(cl.Call.Args) < 2 {
				return
			}
			uses := false
			for _, e := range variadicElems(cl.Call.Args[1]) {
				for _, l := range sources(e, deriveOpts{through: func(n string) bool { return strings.Contains(n, "strings.") }}) {
					if l == ssa.Value(prefix) {
						uses = true
					}
				}
			}
			if !uses {
				return
			}
			nJoin++
			nonEmpty := onBoolSide(cl, false, func(v ssa.Value) bool { return c15EmptyTest(v, prefix, token.EQL) }) ||
				onBoolSide(cl, true, func(v ssa.Value) bool {
					return c15EmptyTest(v, prefix, token.NEQ) || c15EmptyTest(v, prefix, token.GTR)
				})
			c.check(nonEmpty, "U6", fname(f)+"/prefix-then-separator", c.ipos(cl), "prefix and separator joined only where the prefix is not empty",
				"prefix and separator are joined although the prefix may be empty: the name starts with the separator (\"_APPLICATION\") whereas loading with an empty prefix honours the bare name (\"APPLICATION\") — the names reported, and the variables flags are bound to, are not the names honoured")
		})
	}
	c.Extra["prefix_joins"] = nJoin

	// ---- U9 -----------------------------------------------------------------
	// The session's key replacer (configuration key separator → EnvVarSeparator) is applied by viper to the whole name it
	// looks up, prefix included. The reporting side applies the same replacement to the prefix it puts in front.
	{
		prefixReplaced := func(fn *ssa.Function, isPrefix func(l ssa.Value) bool) bool {
			replaced := false
			allInstrs(fn, func(in ssa.Instruction) {
				cl, ok := in.(*ssa.Call)
				if !ok || calleeFull(&cl.Call) != "(*strings.Replacer).Replace" || len(cl.Call.Args) < 2 {
					return
				}
				fromPrefix := false
				for _, l := range sources(cl.Call.Args[1], deriveOpts{through: func(n string) bool { return strings.Contains(n, "strings.") }}) {
					if isPrefix(l) {
						fromPrefix = true
					}
				}
				if !fromPrefix {
					return
				}
				if pairs, ok := c15ReplacerPairs(cl.Call.Args[0]); ok {
					for _, pr := range pairs {
						if pr[0] == "." && pr[1] == envSep {
							replaced = true
						}
					}
				}
			})
			return replaced
		}
		replaced := prefixReplaced(det, func(l ssa.Value) bool {
			p, isP := l.(*ssa.Parameter)
			return isP && p.Parent() == det
		})
		c.check(replaced, "U9", "config/reported-prefix-replaced", c.pos(det.Pos()), "the key separator is replaced in the prefix of the reported names, as the session does when it looks a variable up",
			"the prefix is put in front of the reported names as it is: with a prefix that contains the configuration key separator (\"my.app\") MY.APP_COUNT is reported whereas loading looks MY_APP_COUNT up")
		// the name a validation error gives the offending variable is built the same way
		if gp := c.fn(cfgPkg, "(*validationError).GetMapStructurePath"); gp != nil {
			c.FuncsSeen[fname(gp)] = true
			replaced := prefixReplaced(gp, func(l ssa.Value) bool {
				// the prefix recorded in the error: a load through the field mapStructurePrefix
				u, ok := l.(*ssa.UnOp)
				if !ok || u.Op != token.MUL {
					return false
				}
				inner, ok := u.X.(*ssa.UnOp)
				if !ok || inner.Op != token.MUL {
					return false
				}
				fa, ok := inner.X.(*ssa.FieldAddr)
				if !ok {
					return false
				}
				so := structOf(fa.X.Type())
				return so != nil && so.Field(fa.Field).Name() == "mapStructurePrefix"
			})
			c.check(replaced, "U9", "config/error-prefix-replaced", c.pos(gp.Pos()), "the key separator is replaced in the prefix of the variable a validation error names",
				"the validation error puts the prefix in front of the variable it names as it is: with the prefix \"my.app\" the error says [MY.APP_INNER] whereas loading honours MY_APP_INNER")
		}
	}

	// ---- U10 ----------------------------------------------------------------
	// RecordField is called as the error travels outwards: each caller adds the field that encloses what was recorded
	// before. The name reported (PREFIX_OUTER_INNER) is the name honoured only if the new element goes in front.
	if rf := c.fn(cfgPkg, "(*validationError).RecordField"); rf != nil {
		n := 0
		allInstrs(rf, func(in ssa.Instruction) {
			st, ok := in.(*ssa.Store)
			if !ok {
				return
			}
			fa, ok := st.Addr.(*ssa.FieldAddr)
			if !ok {
				return
			}
			if _, isSlice := st.Val.Type().Underlying().(*types.Slice); !isSlice {
				return
			}
			n++
			fieldName := fa.X.Type().Underlying().(*types.Pointer).Elem().Underlying().(*types.Struct).Field(fa.Field).Name()
			isOld := func(v ssa.Value) bool {
				u, ok := stripConv(v).(*ssa.UnOp)
				if !ok || u.Op != token.MUL {
					return false
				}
				ofa, ok := u.X.(*ssa.FieldAddr)
				return ok && ofa.Field == fa.Field && sameValue(ofa.X, fa.X)
			}
			good, why := false, "the path stored is not built by appending the path gathered so far after the new element"
			if cl, ok := stripConv(st.Val).(*ssa.Call); ok {
				switch calleeFull(&cl.Call) {
				case "builtin.append":
					if len(cl.Call.Args) == 2 && isOld(cl.Call.Args[1]) && !isOld(cl.Call.Args[0]) {
						good = true
					} else if len(cl.Call.Args) == 2 && !isOld(cl.Call.Args[1]) {
						why = "the new element is appended after the path gathered so far: the outermost field comes last and the name reported reads inside out (SUB_APP instead of APP_SUB)"
					}
				case "slices.Insert":
					if k, isC := constInt(cl.Call.Args[1]); isC && k == 0 && isOld(cl.Call.Args[0]) {
						good = true
					}
				}
			}
			c.check(good, "U10", fname(rf)+"/"+fieldName, c.ipos(st), "enclosing field recorded in front of the gathered path", why)
		})
		c.Extra["recorded_paths"] = n
	}

	// ---- U12 ----------------------------------------------------------------
	// The names reported (and looked up) for prefix `my.app` start with MY_APP_: a flag bound by such a name must be linked
	// to the structure key, i.e. the prefix must be recognised in that spelling and removed.
	if gk := c.fn(cfgPkg, "generateEnvVarConfigKeys"); gk != nil {
		c.FuncsSeen[fname(gk)] = true
		pi := paramIndexByName(gk, "envVarPrefix")
		found := false
		allInstrs(gk, func(in ssa.Instruction) {
			cl, ok := in.(*ssa.Call)
			if !ok || (calleeFull(&cl.Call) != "strings.HasPrefix" && calleeFull(&cl.Call) != "strings.CutPrefix") || pi < 0 {
				return
			}
			// the prefix operand went through a replacer key separator → env separator, and comes from the prefix parameter
			var walk func(v ssa.Value, depth int, replaced bool) bool
			walk = func(v ssa.Value, depth int, replaced bool) bool {
				if depth > 8 {
					return false
				}
				v = resolveValue(v)
				switch x := v.(type) {
				case *ssa.Parameter:
					return replaced && x == gk.Params[pi]
				case *ssa.BinOp:
					return x.Op == token.ADD && (walk(x.X, depth+1, replaced) || walk(x.Y, depth+1, replaced))
				case *ssa.Call:
					switch n := calleeFull(&x.Call); {
					case n == "(*strings.Replacer).Replace":
						if pairs, ok := c15ReplacerPairs(x.Call.Args[0]); ok {
							for _, pr := range pairs {
								if pr[0] == "." && pr[1] == envSep {
									return walk(x.Call.Args[1], depth+1, true)
								}
							}
						}
						return walk(x.Call.Args[1], depth+1, replaced)
					case strings.HasPrefix(n, "strings."):
						return len(x.Call.Args) > 0 && walk(x.Call.Args[0], depth+1, replaced)
					}
				}
				return false
			}
			if walk(cl.Call.Args[1], 0, false) {
				found = true
			}
		})
		c.check(found, "U12", fname(gk)+"/prefix-as-looked-up", c.pos(gk.Pos()), "the prefix is also recognised with the key separator replaced",
			"the prefix is only recognised in the name of the variable as the caller wrote it: with the prefix \"my.app\" the variable is MY_APP_NAME (looked up, and reported, that way); a flag bound to MY_APP_NAME keeps the prefix in its key, is never linked to the structure key, and an explicitly set flag is ignored")
	}

	// ---- U11 ----------------------------------------------------------------
	// "in decreasing priority, an explicitly set command-line flag bound to it, …": for a set of flags (BindFlagsToEnv) the
	// value viper is given is one of the values explicitly set — the current value of whichever flag comes last, set or
	// not, only when nothing was set. HasChanged() makes the value an override, so a wrong answer here beats every source.
	if vs := c.fn(cfgPkg, "(*multiFlags).ValueString"); vs != nil {
		c.FuncsSeen[fname(vs)] = true
		// the list of explicit values: the slice an element of which is returned
		var explicit ssa.Value
		allInstrs(vs, func(in ssa.Instruction) {
			r, ok := in.(*ssa.Return)
			if !ok || len(r.Results) != 1 {
				return
			}
			if u, ok := r.Results[0].(*ssa.UnOp); ok && u.Op == token.MUL {
				if ia, ok := u.X.(*ssa.IndexAddr); ok {
					explicit = ia.X
				}
			}
		})
		key := fname(vs) + "/explicit-values-first"
		if explicit == nil {
			c.violate("U11", key, c.pos(vs.Pos()), "ValueString never returns one of the values explicitly set")
		} else {
			var lens []ssa.Value
			allInstrs(vs, func(in ssa.Instruction) {
				if cl, ok := in.(*ssa.Call); ok && calleeFull(&cl.Call) == "builtin.len" && sameValue(cl.Call.Args[0], explicit) {
					lens = append(lens, cl)
				}
			})
			bad := ""
			allInstrs(vs, func(in ssa.Instruction) {
				r, ok := in.(*ssa.Return)
				if !ok || len(r.Results) != 1 {
					return
				}
				type edge struct {
					v    ssa.Value
					pred *ssa.BasicBlock
				}
				var edges []edge
				if phi, ok := r.Results[0].(*ssa.Phi); ok && phi.Block() == r.Block() {
					for i, e := range phi.Edges {
						edges = append(edges, edge{e, r.Block().Preds[i]})
					}
				} else {
					for _, p := range r.Block().Preds {
						edges = append(edges, edge{r.Results[0], p})
					}
				}
				for _, e := range edges {
					fromExplicit := false
					if u, ok := e.v.(*ssa.UnOp); ok && u.Op == token.MUL {
						if ia, ok := u.X.(*ssa.IndexAddr); ok && sameValue(ia.X, explicit) {
							fromExplicit = true
						}
					}
					if fromExplicit {
						continue
					}
					empty := false
					for _, l := range lens {
						if g := guardsOnEdge(l, e.pred, r.Block()); g.hasHi && g.hi.Sign() <= 0 {
							empty = true
						}
					}
					if !empty {
						bad = c.ipos(r)
					}
				}
			})
			c.check(bad == "" && len(lens) > 0, "U11", key, c.pos(vs.Pos()), "another value than an explicit one is returned only where there is none",
				"the return at "+bad+" yields a value that is not one of those explicitly set although the list of explicit values may hold some: with two flags of the set given different values and a third left alone, the field receives the default of the flag nobody set — as an override, which beats the environment, the file and the defaults")
		}
	}

	// ---- U7 -----------------------------------------------------------------
	// Structure keys never bear the prefix: linking them to the flag keys does not go through prefix removal.
	{
		bad := ""
		allInstrs(lk, func(in ssa.Instruction) {
			cl, ok := in.(*ssa.Call)
			if !ok {
				return
			}
			if g := staticCallee(&cl.Call); g != nil && inPkg(cfgPkg)(g) && c15RemovesPrefix(g, 3) {
				bad = c.ipos(cl) + " (" + g.Name() + ")"
			}
		})
		c.check(bad == "", "U7", fname(lk)+"/structure-keys-as-they-are", c.pos(lk.Pos()), "the flag key of a structure key is computed without prefix removal",
			"the flag key of a structure key is computed through prefix removal at "+bad+": a key that merely starts like the prefix (prefix \"app\", key \"application\" or \"app_name\") is linked to another flag key than the one BindFlagToEnv registers, and the explicitly set flag is ignored")
	}

	// ---- U8 -----------------------------------------------------------------
	// "passes Validate at every nesting level": ValidateEmbedded is what carries validation down. For every field of struct
	// kind that implements Validator, Validate() is called whatever the field holds (a section nobody configured is exactly
	// the one whose required fields are missing), and its error comes back.
	if ve := c.fnOpt(cfgPkg, "ValidateEmbedded"); ve != nil {
		c.FuncsSeen[fname(ve)] = true
		var validate *ssa.Call
		var kindTest *ssa.If
		kindTrue := 0
		allInstrs(ve, func(in ssa.Instruction) {
			if cl, ok := in.(*ssa.Call); ok && cl.Call.IsInvoke() && cl.Call.Method.Name() == "Validate" && inLoop(cl) {
				validate = cl
			}
		})
		for _, b := range ve.Blocks {
			ifi, ok := b.Instrs[len(b.Instrs)-1].(*ssa.If)
			if !ok {
				continue
			}
			v, ts := boolTest(ifi)
			bo, isB := v.(*ssa.BinOp)
			if !isB || (bo.Op != token.EQL && bo.Op != token.NEQ) {
				continue
			}
			for _, o := range []ssa.Value{bo.X, bo.Y} {
				if kc, isCall := o.(*ssa.Call); isCall && calleeFull(&kc.Call) == "(reflect.Value).Kind" {
					kindTest = ifi
					kindTrue = ts
					if bo.Op == token.NEQ {
						kindTrue = 1 - ts
					}
				}
			}
		}
		key := fname(ve) + "/every-section-validated"
		switch {
		case validate == nil || kindTest == nil:
			c.violate("U8", key, c.pos(ve.Pos()), "ValidateEmbedded no longer calls Validate() on the fields of struct kind inside its loop over the fields")
		default:
			hdr := loopHeaderOf(validate)
			start := kindTest.Block().Succs[kindTrue].Instrs[0]
			skip := ssa.Instruction(nil)
			if hdr != nil {
				if start == ssa.Instruction(validate) {
					skip = nil
				} else {
					skip = pathPruned(ve, start, func(i ssa.Instruction) bool { return i == ssa.Instruction(validate) }, func(i ssa.Instruction) bool { return i.Block() == hdr && i == hdr.Instrs[0] }, func(b *ssa.BasicBlock, k int) bool {
						// the field does not implement Validator: nothing to call
						ifi, ok := b.Instrs[len(b.Instrs)-1].(*ssa.If)
						if !ok {
							return false
						}
						v, ts := boolTest(ifi)
						if ex, isEx := v.(*ssa.Extract); isEx && ex.Index == 1 {
							if _, isTA := ex.Tuple.(*ssa.TypeAssert); isTA {
								return k == 1-ts
							}
						}
						return false
					})
				}
			}
			heeded := c19ErrorGoesSomewhere(validate, ve, 0, map[ssa.Value]bool{})
			c.check(skip == nil && heeded, "U8", key, c.ipos(validate), "every field of struct kind that implements Validator is validated, whatever it holds; the error comes back",
				"a field of struct kind can be passed over without its Validate() being called (or the outcome is dropped): a nested section that no source filled — the one whose required fields are missing — is not validated and loading succeeds")
		}
	}

	// ---- U5 -----------------------------------------------------------------
	// Prefix handling of the key/variable names: wherever a (non-constant) prefix is tested or removed, the string and the
	// prefix are in the same letter case — a lower-cased name never starts with an upper-case prefix, so the prefix stays in,
	// and the flag key and the reported variable name then carry it twice.
	nPfx := 0
	for _, f := range c.srcFuncs(cfgPkg) {
		allInstrs(f, func(in ssa.Instruction) {
			cl, ok := in.(*ssa.Call)
			if !ok {
				return
			}
			switch calleeFull(&cl.Call) {
			case "strings.HasPrefix", "strings.TrimPrefix", "strings.CutPrefix", "strings.HasSuffix", "strings.TrimSuffix", "strings.CutSuffix":
			default:
				return
			}
			if _, isConst := constString(cl.Call.Args[1]); isConst {
				return
			}
			nPfx++
			a, b := c15CaseOf(cl.Call.Args[0], 0), c15CaseOf(cl.Call.Args[1], 0)
			key := fname(outermost(f)) + "/" + cl.Call.StaticCallee().Name()
			c.check(a == b || a == "const" || b == "const", "U5", key, c.ipos(cl), "string and prefix in the same case ("+a+")",
				"the string is "+a+" and the prefix "+b+": with a prefix written in upper case (the usual way) the prefix is never found in the lower-cased name and stays in the key — the flag key and the reported environment variable name carry the prefix twice, and the names reported are not the names honoured")
		})
	}
	c.Extra["prefix_operations"] = nPfx

	// ---- U17 ----------------------------------------------------------------
	// strings.TrimLeft / TrimRight / Trim take a *set of characters*, not a prefix: handed the environment prefix they go on
	// removing every leading character of the name that occurs in the prefix ("app_port" loses "app_" and then the "p" of
	// "port"). In package config a value that is not a constant is never used as such a set: the key a flag is registered
	// under and the key its value is looked up under must be the same string.
	nCut := 0
	for _, f := range c.srcFuncs(cfgPkg) {
		allInstrs(f, func(in ssa.Instruction) {
			cl, ok := in.(*ssa.Call)
			if !ok {
				return
			}
			switch calleeFull(&cl.Call) {
			case "strings.TrimLeft", "strings.TrimRight", "strings.Trim":
			default:
				return
			}
			if _, isConst := constString(cl.Call.Args[1]); isConst {
				return
			}
			nCut++
			c.FuncsSeen[fname(outermost(f))] = true
			c.violate("U17", fname(outermost(f))+"/"+cl.Call.StaticCallee().Name()+"-with-a-variable-set", c.ipos(cl), "a value that is not a constant (a prefix, a name) is used as the *set of characters* of "+cl.Call.StaticCallee().Name()+": every leading character of the name that occurs in it is removed, not the prefix — bound with prefix 'app', the variable APP_PORT becomes the key '…ort' and the variable APP_ORT; the flag is never found under the key it is looked up by and an explicitly set flag loses to the environment, the file and the defaults")
		})
	}
	if nCut == 0 {
		c.info("U17", "config/no-variable-character-set", "-", "no strings.Trim / TrimLeft / TrimRight with a set of characters that is not a constant")
	}
}

// c15EmptyTest: v is `p == ""` / `p != ""` (op), or the same on len(p) and 0.
func c15EmptyTest(v ssa.Value, p *ssa.Parameter, op token.Token) bool {
	b, ok := v.(*ssa.BinOp)
	if !ok || b.Op != op {
		return false
	}
	for _, pair := range [][2]ssa.Value{{b.X, b.Y}, {b.Y, b.X}} {
		if ks, isK := constString(pair[1]); isK && ks == "" && resolveValue(pair[0]) == ssa.Value(p) && op != token.GTR {
			return true
		}
		if op == token.GTR && pair[0] != b.X {
			continue // 0 > len(p) is no emptiness test
		}
		if k, isK := constInt(pair[1]); isK && k == 0 {
			if cl, isCall := pair[0].(*ssa.Call); isCall && calleeFull(&cl.Call) == "builtin.len" && resolveValue(cl.Call.Args[0]) == ssa.Value(p) {
				return true
			}
		}
	}
	return false
}

// c15RemovesPrefix: g (or a function of the package it calls, to the given depth) removes a non-constant prefix.
func c15RemovesPrefix(g *ssa.Function, depth int) bool {
	found := false
	allInstrs(g, func(in ssa.Instruction) {
		cl, ok := in.(*ssa.Call)
		if !ok || found {
			return
		}
		switch calleeFull(&cl.Call) {
		case "strings.TrimPrefix", "strings.CutPrefix":
			if _, isK := constString(cl.Call.Args[1]); !isK {
				found = true
			}
			return
		}
		if h := staticCallee(&cl.Call); h != nil && h != g && depth > 0 && inPkg(cfgPkg)(h) && c15RemovesPrefix(h, depth-1) {
			found = true
		}
	})
	return found
}

// c15CaseOf classifies the letter case a string value is known to be in: "lower", "upper", "const", "as given" or "mixed".
func c15CaseOf(v ssa.Value, depth int) string {
	if depth > 8 {
		return "as given"
	}
	v = resolveValue(v)
	switch x := v.(type) {
	case *ssa.Const:
		return "const"
	case *ssa.Call:
		switch calleeFull(&x.Call) {
		case "strings.ToLower":
			return "lower"
		case "strings.ToUpper":
			return "upper"
		case "strings.TrimPrefix", "strings.TrimSuffix", "strings.TrimSpace", "strings.Trim":
			return c15CaseOf(x.Call.Args[0], depth+1)
		case "(*strings.Replacer).Replace":
			// a replacer whose strings carry no letters (`.` → `_`) leaves the case as it is
			if pairs, ok := c15ReplacerPairs(x.Call.Args[0]); ok {
				letters := false
				for _, pr := range pairs {
					for _, ks := range pr {
						if strings.ToLower(ks) != strings.ToUpper(ks) {
							letters = true
						}
					}
				}
				if !letters {
					return c15CaseOf(x.Call.Args[1], depth+1)
				}
			}
		}
	case *ssa.BinOp:
		if x.Op == token.ADD {
			a, b := c15CaseOf(x.X, depth+1), c15CaseOf(x.Y, depth+1)
			if ks, isK := constString(x.Y); isK && strings.ToLower(ks) == strings.ToUpper(ks) {
				return a // a suffix without letters
			}
			if ks, isK := constString(x.X); isK && strings.ToLower(ks) == strings.ToUpper(ks) {
				return b
			}
			if a == b {
				return a
			}
			return "mixed"
		}
	case *ssa.Phi:
		r := ""
		for _, e := range x.Edges {
			k := c15CaseOf(e, depth+1)
			if k == "const" {
				continue
			}
			if r == "" {
				r = k
			} else if r != k {
				return "mixed"
			}
		}
		if r == "" {
			return "const"
		}
		return r
	}
	return "as given"
}

func strconvQuote(s string) string { return "\"" + s + "\"" }

// c15ReplacerPairs: the (from, to) pairs of a *strings.Replacer value — a strings.NewReplacer call with constant operands, here
// or as the initial value of a package-level variable. ok is false when the value cannot be resolved.
func c15ReplacerPairs(v ssa.Value) (pairs [][2]string, ok bool) {
	var nr *ssa.Call
	for _, l := range sources(v, deriveOpts{}) {
		switch x := l.(type) {
		case *ssa.Call:
			if calleeFull(&x.Call) == "strings.NewReplacer" {
				nr = x
			}
		case *ssa.UnOp:
			g, isG := x.X.(*ssa.Global)
			if !isG || g.Pkg == nil {
				continue
			}
			// the initial value: a store in the package initialiser
			if init := g.Pkg.Func("init"); init != nil {
				allInstrs(init, func(in ssa.Instruction) {
					if st, isSt := in.(*ssa.Store); isSt && st.Addr == ssa.Value(g) {
						if cl, isCall := st.Val.(*ssa.Call); isCall && calleeFull(&cl.Call) == "strings.NewReplacer" {
							nr = cl
						}
					}
				})
			}
		}
	}
	if nr == nil {
		return nil, false
	}
	el := variadicElems(nr.Call.Args[0])
	if len(el)%2 != 0 {
		return nil, false
	}
	for i := 0; i+1 < len(el); i += 2 {
		from, ok1 := constString(el[i])
		to, ok2 := constString(el[i+1])
		if !ok1 || !ok2 {
			return nil, false
		}
		pairs = append(pairs, [2]string{from, to})
	}
	return pairs, true
}
