package main

import (
	"go/types"
	"strconv"
	"strings"

	"golang.org/x/tools/go/ssa"
)

func init() {
	register(&propCheck{
		id:          "C20",
		level:       "other",
		explanation: "Static necessary conditions of 'a digest depends only on the algorithm and the bytes': (H1) on every control-flow path of every method that writes into hashingAlgo.Hash the hasher is reset before the write or on every exit after it, error exits included — the history clause; (H1w) no other function touches that field; (H2) the value returned is hex(Sum(nil)) of that same hasher and the reader copied is the caller's reader, unwrapped; (H3) the algorithm-name table maps every name to the standard constructor, unkeyed; (H4) file hashing hands the opened file of the requested path, unchanged, to the hasher. Decided on the SSA form of the current sources; nothing is executed. Not decided: equality with reference digests (value-level), chunking independence (hash.Hash contract).",
		run:         runC20,
		assumptions: []string{
			"hash.Hash implementations honour their contract (Reset restores the initial state; Write never fails; chunking is irrelevant)",
			"safeio.CopyDataWithContext copies every byte of the reader unless it returns an error (C09)",
		},
	})
}

func stripConv(v ssa.Value) ssa.Value {
	for {
		switch x := v.(type) {
		case *ssa.ChangeInterface:
			v = x.X
		case *ssa.MakeInterface:
			v = x.X
		case *ssa.ChangeType:
			v = x.X
		default:
			return v
		}
	}
}

// fieldLoad: v (after conversions) is a load of field `field` of struct type
// named `tname` (pointer receiver access). Returns the base pointer.
func fieldLoad(v ssa.Value, tname, field string) (base ssa.Value, ok bool) {
	v = stripConv(v)
	u, isU := v.(*ssa.UnOp)
	if !isU || u.Op.String() != "*" {
		return nil, false
	}
	fa, isFA := u.X.(*ssa.FieldAddr)
	if !isFA {
		return nil, false
	}
	return fieldAddrOf(fa, tname, field)
}

func fieldAddrOf(fa *ssa.FieldAddr, tname, field string) (ssa.Value, bool) {
	pt, ok := fa.X.Type().Underlying().(*types.Pointer)
	if !ok {
		return nil, false
	}
	named, _ := types.Unalias(pt.Elem()).(*types.Named)
	st, _ := pt.Elem().Underlying().(*types.Struct)
	if named == nil || st == nil || named.Obj().Name() != tname {
		return nil, false
	}
	if st.Field(fa.Field).Name() != field {
		return nil, false
	}
	return fa.X, true
}

func runC20(c *Ctx) {
	c20Writes = nil
	c.rule("H1", "every write into hashingAlgo.Hash is preceded (dominated) by Hash.Reset(), or every path from the write to a return — error returns included — passes Hash.Reset() (explicit or deferred)", 1)
	c.rule("H1w", "hashingAlgo.Hash is touched only by methods of hashingAlgo and its constructor", 2)
	c.rule("H2", "the digest returned is hex.EncodeToString(Hash.Sum(nil)) computed after the copy; the copy reads the caller's reader itself into Hash", 3)
	c.rule("H5", "a digest is returned only where the copy into the hasher reported no error at all", 1)
	c.rule("H6", "before the copy into the hasher a reader is refused only where the parameter was found nil (or by the context gate): no predicate over the reader's content or state decides", 1)
	c.rule("H3", "NewHashingAlgorithm maps each algorithm name to the standard, unkeyed constructor", 6)
	c.rule("H9", "in the file hasher and in package hashing a deferred function literal stores into the enclosing function's error variable only where that variable is nil, or a value derived from its current value: releasing the handle never turns a failed calculation into a digest without an error", 0)
	c.rule("H4", "file hashing opens the requested path and passes that handle, unchanged, down to IHash.Calculate*", 6)

	const pkg = "hashing"
	p := c.pkg(pkg)
	if p == nil {
		return
	}
	// --- H10 ------------------------------------------------------------------
	// "independently of how the reader chunks the data": the hasher reads its input through safeio's contextual reader. That
	// adapter hands on what the wrapped reader reported — the bytes, and its error through the package's converters — and
	// makes up no error of its own: an empty read (0, nil) taken for the end of the data yields the digest of a prefix
	// (the obligation C09/A24).
	c.contextualAdaptersConvert("H10")
	c.c20OneCalculationPerHandle()
	// --- H9 -------------------------------------------------------------------
	// "the digest returned for a content equals the reference digest": what the file hasher answers is the pair the hasher
	// answered for the handle. A deferred release of the handle that writes its own outcome over the error (`err =
	// convert(closeErr)` where the calculation failed and the close did not) hands back ("", nil): no digest, no error.
	// No such store exists on the pinned sources (the handle is released with `_ = f.Close()`); the rule holds the ones
	// that may be added to the discipline of C09/A21.
	c.deferredCleanupKeepsTheError("H9", func(f *ssa.Function) bool {
		if f.Pkg != nil && strings.HasSuffix(f.Pkg.Pkg.Path(), "/hashing") {
			return true
		}
		return strings.HasSuffix(c.Fset.Position(f.Pos()).Filename, "filesystem/filehash.go")
	}, "the deferred function overwrites the error of the calculation with the outcome of releasing the handle: a calculation that failed (a read error, a cancellation midway) on a handle that closes cleanly is reported as (\"\", nil) — an empty digest without an error, which is the reference digest of nothing")
	// --- H1 / H1w / H2 ------------------------------------------------------
	writers := 0
	for _, sp := range c.SSAPkgs {
		if !strings.HasPrefix(sp.Pkg.Path(), modPath) {
			continue
		}
		rel := shortPkg(sp.Pkg.Path())
		for _, f := range c.srcFuncs(rel) {
			c.FuncsSeen[fname(f)] = true
			touches := false
			allInstrs(f, func(in ssa.Instruction) {
				if fa, ok := in.(*ssa.FieldAddr); ok {
					if _, ok := fieldAddrOf(fa, "hashingAlgo", "Hash"); ok && fa.X.Type().String() == "*"+modPath+"/hashing.hashingAlgo" {
						touches = true
					}
				}
			})
			if !touches {
				continue
			}
			isMethod := f.Signature.Recv() != nil && strings.Contains(f.Signature.Recv().Type().String(), "hashing.hashingAlgo")
			isCtor := rel == pkg && f.Name() == "newHashingAlgorithm"
			c.check(isMethod || isCtor, "H1w", fname(f), c.pos(f.Pos()),
				"method/constructor of hashingAlgo", "function outside hashingAlgo's methods reads or writes the running hash state")
			if !isMethod {
				continue
			}
			writers += c.c20Method(f)
		}
	}
	if writers == 0 {
		c.fatalf("C20: no write into hashingAlgo.Hash found — anchor lost")
	}
	c.c20Conventions()

	// --- H3 constructor table ----------------------------------------------
	c.c20Table()

	// --- H4 file hashing delegates ------------------------------------------
	c.c20FileHash()
	c.c20NoHasherInPackageState()
	c.c20DigestsComeFromTheHasher()
}

// c20Method checks H1 and H2 in one method of hashingAlgo; returns the number
// of write sites.
// c20Writes: every write into the hasher found by c20Method, with the convention it follows (reset before / reset after).
type c20Write struct {
	key, pos  string
	pre, post bool
}

var c20Writes []c20Write

// c20Conventions (H1, agreement): a method may reset the hasher before it writes, or leave it clean on every path after it
// wrote. The two conventions only work together if nobody relies on the second while somebody follows only the first: a
// writer that does not reset before it writes trusts every other writer to have cleaned up.
func (c *Ctx) c20Conventions() {
	var trusting *c20Write
	for i := range c20Writes {
		if !c20Writes[i].pre {
			trusting = &c20Writes[i]
		}
	}
	for _, w := range c20Writes {
		if w.post {
			continue
		}
		if trusting != nil && trusting.key != w.key {
			c.violate("H1", w.key+":leaves-it-clean", w.pos, "this write resets the hasher beforehand but leaves what it wrote in it, while the write at "+trusting.pos+" starts from whatever the hasher holds (it relies on every calculation cleaning up after itself): a calculation through that other method, made after this one on the same hasher, digests this one's input in front of its own")
		}
	}
}

func (c *Ctx) c20Method(f *ssa.Function) int {
	isHashLoad := func(v ssa.Value) bool {
		_, ok := fieldLoad(v, "hashingAlgo", "Hash")
		return ok
	}
	isReset := func(in ssa.Instruction) bool {
		call, ok := in.(*ssa.Call)
		if !ok || !call.Call.IsInvoke() {
			return false
		}
		return call.Call.Method.Name() == "Reset" && isHashLoad(call.Call.Value)
	}
	isDeferReset := func(in ssa.Instruction) bool {
		d, ok := in.(*ssa.Defer)
		if !ok {
			return false
		}
		if d.Call.IsInvoke() && d.Call.Method.Name() == "Reset" && isHashLoad(d.Call.Value) {
			return true
		}
		if g := staticCallee(&d.Call); g != nil {
			found := false
			allInstrs(g, func(j ssa.Instruction) {
				if cj, ok := j.(*ssa.Call); ok && cj.Call.IsInvoke() && cj.Call.Method.Name() == "Reset" {
					found = true
				}
			})
			return found
		}
		return false
	}
	readOnly := map[string]bool{"Sum": true, "Reset": true, "Size": true, "BlockSize": true}
	var writes []*ssa.Call
	var sums []*ssa.Call
	allInstrs(f, func(in ssa.Instruction) {
		call, ok := in.(*ssa.Call)
		if !ok {
			return
		}
		if call.Call.IsInvoke() && isHashLoad(call.Call.Value) {
			if call.Call.Method.Name() == "Sum" {
				sums = append(sums, call)
			}
			if !readOnly[call.Call.Method.Name()] {
				writes = append(writes, call)
			}
			return
		}
		for _, a := range call.Call.Args {
			if isHashLoad(a) {
				writes = append(writes, call)
				return
			}
		}
	})
	for _, w := range writes {
		key := fname(f) + "/write:" + short(calleeFull(&w.Call))
		// (a) a reset dominates the write
		pre := false
		allInstrs(f, func(in ssa.Instruction) {
			if (isReset(in) || isDeferReset(in)) && dominates(in, w) {
				pre = true
			}
		})
		// (b) every path to a return passes a reset
		esc := pathAvoiding(w, func(in ssa.Instruction) bool { return isReset(in) || isDeferReset(in) }, isReturn)
		// a reset deferred before the write runs on every exit too
		deferred := false
		allInstrs(f, func(in ssa.Instruction) {
			if isDeferReset(in) && dominates(in, w) {
				deferred = true
			}
		})
		resetFirst := false
		allInstrs(f, func(in ssa.Instruction) {
			if isReset(in) && dominates(in, w) {
				resetFirst = true
			}
		})
		c20Writes = append(c20Writes, c20Write{key: key, pos: c.ipos(w), pre: resetFirst, post: esc == nil || deferred})
		if pre {
			c.ok("H1", key, c.ipos(w), "reset (or deferred reset) dominates the write")
			continue
		}
		if esc == nil {
			c.ok("H1", key, c.ipos(w), "every path from the write to a return passes Hash.Reset()")
		} else {
			c.violate("H1", key, c.ipos(w), "a path from this write reaches the return at "+c.ipos(esc)+" without Hash.Reset(): the next calculation on the same hasher starts from a dirty state")
		}
	}
	// H2: on the success path the returned string is hex(Sum(nil)) after the write
	if len(writes) > 0 {
		okSum := false
		for _, s := range sums {
			argNil := len(s.Call.Args) == 1 && isNilConst(s.Call.Args[0])
			after := false
			for _, w := range writes {
				if dominates(w, s) {
					after = true
				}
			}
			flows := false
			for _, b := range f.Blocks {
				for _, in := range b.Instrs {
					r, ok := in.(*ssa.Return)
					if !ok || len(r.Results) == 0 {
						continue
					}
					for _, l := range sources(r.Results[0], deriveOpts{through: func(n string) bool { return n == "encoding/hex.EncodeToString" }}) {
						if l == ssa.Value(s) {
							flows = true
						}
					}
				}
			}
			key := fname(f) + "/sum"
			if argNil && after && flows {
				okSum = true
				c.ok("H2", key, c.ipos(s), "Sum(nil) after the write, hex-encoded into result 0")
			} else {
				c.violate("H2", key, c.ipos(s), "digest is not hex(Sum(nil)) taken after the copy (nil prefix: "+b2s(argNil)+", after write: "+b2s(after)+", reaches the result: "+b2s(flows)+")")
			}
		}
		if !okSum && len(sums) == 0 {
			// the digest may be formatted by a method of the same type: follow it (one level)
			viaHelper := ""
			allInstrs(f, func(in ssa.Instruction) {
				hc, ok := in.(*ssa.Call)
				if !ok {
					return
				}
				g := staticCallee(&hc.Call)
				if g == nil || g == f || g.Blocks == nil || g.Signature.Recv() == nil || !strings.Contains(g.Signature.Recv().Type().String(), "hashingAlgo") {
					return
				}
				after := false
				for _, w := range writes {
					if dominates(w, hc) {
						after = true
					}
				}
				reaches := false
				allInstrs(f, func(j ssa.Instruction) {
					if r, ok := j.(*ssa.Return); ok && len(r.Results) > 0 {
						for _, l := range sources(r.Results[0], deriveOpts{}) {
							if l == ssa.Value(hc) {
								reaches = true
							}
						}
					}
				})
				if !after || !reaches {
					return
				}
				// inside the helper: every return is hex.EncodeToString(Hash.Sum(nil))
				good, n := true, 0
				allInstrs(g, func(j ssa.Instruction) {
					r, ok := j.(*ssa.Return)
					if !ok || len(r.Results) == 0 {
						return
					}
					n++
					hx, ok := resolveValue(r.Results[0]).(*ssa.Call)
					if !ok || calleeFull(&hx.Call) != "encoding/hex.EncodeToString" {
						good = false
						return
					}
					sm, ok := resolveValue(hx.Call.Args[0]).(*ssa.Call)
					if !ok || !sm.Call.IsInvoke() || sm.Call.Method.Name() != "Sum" || !isHashLoad(sm.Call.Value) || len(sm.Call.Args) != 1 || !isNilConst(sm.Call.Args[0]) {
						good = false
					}
				})
				if good && n > 0 {
					viaHelper = fname(g)
				}
			})
			if viaHelper != "" {
				c.ok("H2", fname(f)+"/sum", c.pos(f.Pos()), "hex(Sum(nil)) taken after the write by "+viaHelper)
			} else {
				c.violate("H2", fname(f)+"/sum", c.pos(f.Pos()), "the result is not hex.EncodeToString(Hash.Sum(nil)) taken after the copy (no such call here, nor in a method of the hasher whose every return is exactly that): any other rendering of the digest (a number formatted without zero padding, a truncated or re-encoded sum) differs from the reference digest for some contents")
			}
		}
		// the reader copied is the parameter itself
		for _, w := range writes {
			key := fname(f) + "/reader"
			var rd ssa.Value
			for _, a := range w.Call.Args {
				if implementsReader(a.Type()) && !isHashLoad(a) {
					rd = a
				}
			}
			if rd == nil {
				continue
			}
			isParam := false
			for _, prm := range f.Params {
				if stripConv(rd) == ssa.Value(prm) {
					isParam = true
				}
			}
			c.check(isParam, "H2", key, c.ipos(w), "the caller's reader is copied as given", "the reader handed to the copy is not the caller's reader itself (wrapped, limited or replaced): bytes may be dropped or added")
			// H5: a digest is only returned where the copy reported no error at all — a reader that fails at byte k (whatever
			// the error: io.ErrUnexpectedEOF is converted to the library's EOF kind) yields no digest of the first k bytes.
			if errs := errResultsOf(w); len(errs) > 0 {
				bad := ""
				allInstrs(f, func(in ssa.Instruction) {
					r, isRet := in.(*ssa.Return)
					if !isRet || isErrorExit(f, r) {
						return
					}
					if !onNilSide(errs[0], r) {
						bad = c.ipos(r)
					}
				})
				c.check(bad == "", "H5", fname(f)+"/digest-only-after-a-complete-copy", c.ipos(w), "every return that can report success lies on the side where the copy's error is nil",
					"the return at "+bad+" can report success although the copy into the hasher reported an error (some error is tolerated after the copy): a reader cut short at byte k — io.ErrUnexpectedEOF, which the library converts to its EOF kind — yields the digest of the first k bytes and a nil error")
			}
			// H6: "independently of the reader that delivers it": before the copy, the only reason to refuse a reader is that
			// there is none (a nil test on the parameter). A predicate that looks at the reader's content or state
			// (reflection.IsEmpty, a length, a type switch) refuses some valid readers — an empty bytes.Buffer is a zero value.
			if isParam {
				bad := ""
				allInstrs(f, func(in ssa.Instruction) {
					r, isRet := in.(*ssa.Return)
					if !isRet || dominates(w, r) {
						return
					}
					// a return that does not come after the copy: nothing was read. It is the context gate's, or it lies where
					// the reader was found nil
					if !isErrorExit(f, r) {
						return
					}
					gate := false
					k := len(r.Results) - 1
					for _, l := range sources(r.Results[k], deriveOpts{}) {
						if cl, ok := l.(*ssa.Call); ok && strings.HasSuffix(calleeFull(&cl.Call), "DetermineContextError") {
							gate = true
						}
					}
					if gate || onNilSide(stripConv(rd), r) {
						return
					}
					bad = c.ipos(r)
				})
				c.check(bad == "", "H6", fname(f)+"/only-a-nil-reader-is-refused", c.ipos(w), "before the copy a reader is refused only where it was found nil",
					"the return at "+bad+" refuses the reader before anything is read although the reader was not found nil: whatever decides it looks at the reader itself, and readers of an empty content that happen to be zero values (new(bytes.Buffer), http.NoBody) get 'undefined' instead of the digest of the empty content")
			}
			// the callee must be the whole-stream copy
			cal := calleeFull(&w.Call)
			c.check(cal == modPath+"/safeio.CopyDataWithContext" || cal == "io.Copy", "H2", fname(f)+"/copier", c.ipos(w),
				"whole-stream copy "+short(cal), "copy primitive "+short(cal)+" is not a whole-stream copy (CopyDataWithContext / io.Copy)")
		}
	}
	return len(writes)
}

func b2s(b bool) string {
	if b {
		return "yes"
	}
	return "no"
}

func implementsReader(t types.Type) bool {
	ms := types.NewMethodSet(t)
	for i := 0; i < ms.Len(); i++ {
		if ms.At(i).Obj().Name() == "Read" {
			return true
		}
	}
	return false
}

var c20Ctors = map[string]string{
	"MD5":        "crypto/md5.New",
	"SHA1":       "crypto/sha1.New",
	"SHA256":     "crypto/sha256.New",
	"Murmur":     "github.com/spaolacci/murmur3.New64",
	"xxhash":     "github.com/OneOfOne/xxhash.New64",
	"blake2b256": "golang.org/x/crypto/blake2b.New256",
}

// c20Table: in NewHashingAlgorithm, for each constant string compared with the
// name parameter, the constructor called on the equal side is the expected one.
func (c *Ctx) c20Table() {
	f := c.fn("hashing", "NewHashingAlgorithm")
	if f == nil {
		return
	}
	c.FuncsSeen[fname(f)] = true
	seen := map[string]bool{}
	for _, b := range f.Blocks {
		ifi, ok := b.Instrs[len(b.Instrs)-1].(*ssa.If)
		if !ok {
			continue
		}
		bin, ok := ifi.Cond.(*ssa.BinOp)
		if !ok || bin.Op.String() != "==" {
			continue
		}
		name, ok := constString(bin.Y)
		if !ok {
			name, ok = constString(bin.X)
		}
		if !ok {
			continue
		}
		want, known := c20Ctors[name]
		if !known {
			c.info("H3", "name:"+name, c.ipos(ifi), "algorithm name without a reference constructor in the checker's table")
			continue
		}
		// constructor calls in the true successor (straight-line block)
		var got []string
		var ctorCall *ssa.Call
		for _, in := range b.Succs[0].Instrs {
			if call, ok := in.(*ssa.Call); ok {
				n := calleeFull(&call.Call)
				if n != "" && !strings.HasPrefix(n, "builtin.") {
					got = append(got, n)
					ctorCall = call
				}
			}
		}
		seen[name] = true
		key := "name:" + name
		if len(got) == 1 && got[0] == want {
			unkeyed := true
			for _, a := range ctorCall.Call.Args {
				if !isNilConst(a) {
					unkeyed = false
				}
			}
			c.check(unkeyed, "H3", key, c.ipos(ctorCall), name+" → "+want, name+" → "+want+" called with a non-nil key/seed: digest differs from the reference")
		} else {
			c.violate("H3", key, c.ipos(ifi), "name "+name+" selects "+strings.Join(got, ",")+", expected "+want)
		}
	}
	for n := range c20Ctors {
		if !seen[n] {
			c.violate("H3", "name:"+n, c.pos(f.Pos()), "algorithm "+n+" no longer selected by NewHashingAlgorithm")
		}
	}
}

// paramIndex returns the index of the parameter v strips to, or -1.
func paramIndex(f *ssa.Function, v ssa.Value) int {
	v = stripConv(v)
	for i, p := range f.Params {
		if ssa.Value(p) == v {
			return i
		}
	}
	return -1
}

func (c *Ctx) c20FileHash() {
	const fsPkg = "filesystem"
	// (1) calculateFile: GenericOpen(path param) → hashFunc(h, f)
	f := c.fn(fsPkg, "(*fileHashing).calculateFile")
	if f != nil {
		c.FuncsSeen[fname(f)] = true
		var open *ssa.Call
		var dyn *ssa.Call
		allInstrs(f, func(in ssa.Instruction) {
			call, ok := in.(*ssa.Call)
			if !ok {
				return
			}
			if call.Call.IsInvoke() && (call.Call.Method.Name() == "GenericOpen" || call.Call.Method.Name() == "Open") {
				open = call
			}
			if !call.Call.IsInvoke() && paramIndex(f, call.Call.Value) >= 0 {
				dyn = call
			}
		})
		if open == nil || dyn == nil {
			c.violate("H4", fname(f), c.pos(f.Pos()), "calculateFile no longer opens the path and calls the hashing callback")
		} else {
			pathOK := len(open.Call.Args) >= 1 && paramIndex(f, open.Call.Args[0]) >= 0 && f.Params[paramIndex(f, open.Call.Args[0])].Name() == "path"
			fsOK := paramIndex(f, open.Call.Value) >= 0
			c.check(pathOK && fsOK, "H4", fname(f)+"/open", c.ipos(open), "opens parameter path on parameter fs", "the file opened is not the requested path on the requested filesystem")
			handleOK := false
			for _, a := range dyn.Call.Args {
				for _, l := range sources(a, deriveOpts{}) {
					if ex, ok := l.(*ssa.Extract); ok && ex.Tuple == ssa.Value(open) && ex.Index == 0 {
						handleOK = true
					}
				}
			}
			c.check(handleOK && dominates(open, dyn), "H4", fname(f)+"/delegate", c.ipos(dyn), "the opened handle is what gets hashed", "the handle passed to the hasher is not the file just opened")
			// result pass-through
			retOK := true
			allInstrs(f, func(in ssa.Instruction) {
				r, ok := in.(*ssa.Return)
				if !ok || !dominates(dyn, r) {
					return
				}
				for _, l := range sources(r.Results[0], deriveOpts{}) {
					ex, ok := l.(*ssa.Extract)
					if !ok || ex.Tuple != ssa.Value(dyn) || ex.Index != 0 {
						retOK = false
					}
				}
			})
			c.check(retOK, "H4", fname(f)+"/result", c.ipos(dyn), "the callback's digest is returned as is", "the digest returned is not the hasher's result")
		}
	}
	// (2) pass-through wrappers: the File/ctx parameters reach IHash unchanged
	for _, name := range []string{"(*fileHashing).CalculateWithContext", "(*fileHashing).Calculate"} {
		g := c.fn(fsPkg, name)
		if g == nil {
			continue
		}
		c.FuncsSeen[fname(g)] = true
		found := false
		allInstrs(g, func(in ssa.Instruction) {
			call, ok := in.(*ssa.Call)
			if !ok || !call.Call.IsInvoke() || !strings.HasPrefix(call.Call.Method.Name(), "Calculate") {
				return
			}
			found = true
			last := call.Call.Args[len(call.Call.Args)-1]
			i := paramIndex(g, last)
			c.check(i >= 0 && g.Params[i].Name() == "f", "H4", fname(g)+"/reader", c.ipos(call), "file parameter handed to IHash unchanged", "the reader given to the hashing algorithm is not the file parameter itself")
		})
		if !found {
			c.violate("H4", fname(g)+"/reader", c.pos(g.Pos()), "does not delegate to IHash.Calculate*")
		}
	}
	// (3) the closures of CalculateFile(WithContext) pass their file parameter
	for _, name := range []string{"(*fileHashing).CalculateFileWithContext", "(*fileHashing).CalculateFile"} {
		g := c.fn(fsPkg, name)
		if g == nil {
			continue
		}
		c.FuncsSeen[fname(g)] = true
		n := 0
		for _, a := range g.AnonFuncs {
			allInstrs(a, func(in ssa.Instruction) {
				call, ok := in.(*ssa.Call)
				if !ok || !strings.HasPrefix(call.Call.Value.Name(), "Calculate") && (call.Call.Method == nil || !strings.HasPrefix(call.Call.Method.Name(), "Calculate")) {
					return
				}
				n++
				last := call.Call.Args[len(call.Call.Args)-1]
				i := paramIndex(a, last)
				c.check(i >= 0, "H4", fname(g)+"/closure", c.ipos(call), "closure passes its file parameter on", "closure hashes something other than the file it is given")
			})
		}
		if n == 0 {
			c.violate("H4", fname(g)+"/closure", c.pos(g.Pos()), "no delegating closure found")
		}
	}
}

// c20NoHasherInPackageState (H7): "a digest depends only on the algorithm and the bytes". A hasher is a piece of mutable state
// (write, sum, reset): the package-level helpers build one per call. A hasher fetched from package-level state — a global, a
// map or a sync.Map of hashers kept "per algorithm" — is shared by every caller of the helper: two goroutines hashing with the
// same algorithm interleave their writes and resets, and both get a digest of neither text. Decided for package hashing: the
// receiver of every hashing call (Calculate*, Write, Sum, Reset on a hasher) made by a function of the package derives from
// a parameter, a field of the function's own receiver, or a constructor called in that function — never from a load of a
// package-level variable or from a sync.Map.
func (c *Ctx) c20NoHasherInPackageState() {
	c.rule("H7", "in package hashing the hasher a function works with comes from a parameter, its own receiver, or a constructor it calls — never out of package-level state (a global, a map or sync.Map of hashers): independent callers never share a hasher", 3)
	n := 0
	for _, f := range c.srcFuncs("hashing") {
		if f.Blocks == nil {
			continue
		}
		allInstrs(f, func(in ssa.Instruction) {
			cl, ok := in.(*ssa.Call)
			if !ok {
				return
			}
			var recv ssa.Value
			if cl.Call.IsInvoke() {
				t := cl.Call.Value.Type().String()
				if !(strings.HasSuffix(t, "hashing.IHash") || t == "hash.Hash" || t == "hash.Hash32" || t == "hash.Hash64") {
					return
				}
				recv = cl.Call.Value
			} else if g := staticCallee(&cl.Call); g != nil && g.Signature.Recv() != nil && strings.Contains(g.Signature.Recv().Type().String(), "hashing.hashingAlgo") && len(cl.Call.Args) > 0 {
				recv = cl.Call.Args[0]
			} else if g != nil && inPkg("hashing")(g) && g.Signature.Recv() == nil {
				// a helper of the package that is handed a hasher
				for _, a := range cl.Call.Args {
					if strings.HasSuffix(a.Type().String(), "hashing.IHash") {
						recv = a
					}
				}
			}
			if recv == nil {
				return
			}
			n++
			shared := ""
			var walk func(v ssa.Value, depth int, seen map[ssa.Value]bool)
			walk = func(v ssa.Value, depth int, seen map[ssa.Value]bool) {
				if v == nil || seen[v] || depth > 30 {
					return
				}
				seen[v] = true
				switch x := v.(type) {
				case *ssa.Global:
					shared = "the package-level variable " + x.Name()
				case *ssa.UnOp:
					walk(x.X, depth+1, seen)
				case *ssa.FieldAddr:
					walk(x.X, depth+1, seen)
				case *ssa.IndexAddr:
					walk(x.X, depth+1, seen)
				case *ssa.Lookup:
					walk(x.X, depth+1, seen)
				case *ssa.Extract:
					walk(x.Tuple, depth+1, seen)
				case *ssa.TypeAssert:
					walk(x.X, depth+1, seen)
				case *ssa.MakeInterface:
					walk(x.X, depth+1, seen)
				case *ssa.ChangeInterface:
					walk(x.X, depth+1, seen)
				case *ssa.Phi:
					for _, e := range x.Edges {
						walk(e, depth+1, seen)
					}
				case *ssa.Alloc:
					for _, st := range storesToDeep(x) {
						walk(st, depth+1, seen)
					}
				case *ssa.Call:
					cn := calleeFull(&x.Call)
					if strings.HasPrefix(cn, "(*sync.Map).") {
						shared = "a sync.Map (" + c.ipos(x) + ")"
						return
					}
					// a helper of the package that hands out a hasher: follow what it returns
					if g := staticCallee(&x.Call); g != nil && inPkg("hashing")(g) && g.Blocks != nil && depth < 6 {
						allInstrs(g, func(i2 ssa.Instruction) {
							if r, ok := i2.(*ssa.Return); ok && len(r.Results) > 0 {
								walk(r.Results[0], depth+1, seen)
							}
						})
					}
				}
			}
			walk(recv, 0, map[ssa.Value]bool{})
			key := fname(f) + "/own-hasher:" + c.ipos(cl)
			_ = key
			c.check(shared == "", "H7", fname(f)+"/own-hasher", c.ipos(cl), "the hasher comes from a parameter, the receiver or a constructor called here",
				"the hasher used here comes out of "+shared+": every caller of this function with the same algorithm works on one hash.Hash — two goroutines interleave their writes and resets and each gets a digest that is the digest of neither text (or a panic inside the hash implementation), although each of them only ever called a package-level function")
		})
	}
	if n == 0 {
		c.violate("H7", "hashing/no-hashing-call", "-", "no function of package hashing works with a hasher any more")
	}
}

// c20DigestsComeFromTheHasher (H8): "the digest returned for a content equals the reference digest of the standard
// implementation of the selected algorithm — for every content, the empty one included". The text helpers of the package
// return what the hasher computed, or "" where they failed: never an entry of a table of digests worked out beforehand (one
// wrong constant — BLAKE2b-512 cut to 64 characters for BLAKE2b-256 — is a wrong digest for ever, for one content and one
// algorithm). Decided for the package-level functions of package hashing that return a string: every value they return
// derives from a call, or is the empty string; none comes out of a map, a package-level variable or a non-empty constant.
func (c *Ctx) c20DigestsComeFromTheHasher() {
	c.rule("H8", "the package-level text helpers of package hashing return what a hasher computed, or the empty string: no digest comes out of a table, a package-level variable or a constant", 3)
	for _, f := range c.srcFuncs("hashing") {
		if f.Parent() != nil || f.Blocks == nil || f.Signature.Recv() != nil {
			continue
		}
		res := f.Signature.Results()
		if res.Len() == 0 || res.At(0).Type().String() != "string" || !strings.HasPrefix(f.Name(), "Calculate") {
			continue
		}
		bad := ""
		allInstrs(f, func(in ssa.Instruction) {
			r, ok := in.(*ssa.Return)
			if !ok || len(r.Results) == 0 {
				return
			}
			seen := map[ssa.Value]bool{}
			var walk func(v ssa.Value, d int)
			walk = func(v ssa.Value, d int) {
				if v == nil || seen[v] || d > 20 {
					return
				}
				seen[v] = true
				switch x := v.(type) {
				case *ssa.Const:
					if s, isS := constString(x); isS && s != "" {
						bad = "the constant " + strconv.Quote(s) + " (" + c.ipos(r) + ")"
					}
				case *ssa.Lookup:
					bad = "a map lookup (" + c.pos(x.Pos()) + ")"
				case *ssa.Global:
					bad = "the package-level variable " + x.Name()
				case *ssa.Phi:
					for _, e := range x.Edges {
						walk(e, d+1)
					}
				case *ssa.Extract:
					walk(x.Tuple, d+1)
				case *ssa.UnOp:
					walk(x.X, d+1)
				case *ssa.IndexAddr:
					walk(x.X, d+1)
				case *ssa.Index:
					walk(x.X, d+1)
				case *ssa.Alloc:
					for _, st := range storesToDeep(x) {
						walk(st, d+1)
					}
				case *ssa.Call:
					// what a call returns is its own business (the hashers are held to H2, the helpers of this package to this rule)
				}
			}
			walk(r.Results[0], 0)
		})
		c.FuncsSeen[fname(f)] = true
		c.check(bad == "", "H8", fname(f)+"/computed", c.pos(f.Pos()), "every value returned is computed by a call, or is the empty string",
			fname(f)+" can return "+bad+" instead of what the hasher computes: a digest taken from a table is right only as long as every entry of the table is — a shortcut for the empty text with one wrong entry gives, for that algorithm and that content, a digest that is not the reference digest, while the same bytes through the reader or the file path hash correctly")
	}
}

// c20OneCalculationPerHandle (H11): "hashing a file returns the value of hashing its bytes … independently of any earlier
// calculation — including one that failed midway". The file hasher opens the path and hands the handle to the hasher
// once. A second calculation on the same handle (a retry after a failed read) starts where the first one stopped unless
// the handle can be rewound — and on the backends whose handles cannot seek the rewind silently does nothing: the digest
// of the rest of the file is returned as the digest of the file. A retry opens the file again.
func (c *Ctx) c20OneCalculationPerHandle() {
	c.rule("H11", "in the file hasher the calculation is run at most once per handle it opened: the call of the hashing callback is not in a loop that does not also open the file", 1)
	f := c.fnOpt(fsPkgRel, "(*fileHashing).calculateFile")
	if f == nil {
		return
	}
	c.FuncsSeen[fname(f)] = true
	var calc []*ssa.Call
	var opens []*ssa.Call
	allInstrs(f, func(in ssa.Instruction) {
		cl, ok := in.(*ssa.Call)
		if !ok {
			return
		}
		if !cl.Call.IsInvoke() {
			if _, isSig := cl.Call.Value.Type().Underlying().(*types.Signature); isSig && paramIndex(f, resolveValue(cl.Call.Value)) >= 0 {
				calc = append(calc, cl)
			}
		}
		if nm, _, isFs := fsMethodCall(cl); isFs && (nm == "GenericOpen" || nm == "Open" || nm == "OpenFile") {
			opens = append(opens, cl)
		}
	})
	key := fname(f) + "/one-calculation-per-handle"
	if len(calc) == 0 {
		c.info("H11", key, "-", "calculateFile does not run a callback on the handle it opens")
		return
	}
	bad := ""
	for _, k := range calc {
		if !inLoop(k) {
			continue
		}
		sameLoop := false
		for _, o := range opens {
			if inLoop(o) && loopHeaderOf(o) == loopHeaderOf(k) {
				sameLoop = true
			}
		}
		if !sameLoop {
			bad = c.ipos(k)
		}
	}
	if len(calc) > 1 {
		// two calls on one straight line: the second one is a second calculation on the same handle
		for i := range calc {
			for j := range calc {
				if i != j && dominates(calc[i], calc[j]) {
					bad = c.ipos(calc[j])
				}
			}
		}
	}
	c.check(bad == "", "H11", key, c.ipos(calc[0]), "one calculation per opened handle",
		"the calculation is run again at "+bad+" on the handle of a calculation that failed: it starts where the failed one stopped unless the handle was rewound, and a rewind that is 'best effort' does nothing on a backend whose handles cannot seek (an io/fs filesystem served as a stream) — after a read that failed once at byte k the digest of the remaining bytes is returned, with no error, as the digest of the file")
}
