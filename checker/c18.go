package main

import (
	"go/token"
	"go/types"
	"strconv"
	"strings"

	"golang.org/x/tools/go/ssa"
)

func init() {
	register(&propCheck{
		id:          "C18",
		level:       "other",
		explanation: "Static necessary conditions of 'subprocess results are faithful': (M1) in Execute the start message dominates the run and every path from the run to an exit passes exactly one end message carrying the run's own result; (M2) what Execute returns after the run derives from the run's result only, through the command-error conversion, and that conversion returns nil only for a nil error (or ESRCH); (M7) where the run failed and the subprocess's own context is done, Execute returns that context's error — 'an error (of context kind if it was cancelled)' — and nowhere else does anything but the run's result reach the caller; (M3) a writer that tokenises each Write call on a line separator and forwards the pieces must carry the trailing fragment from one call to the next (a field it both reads and writes) — otherwise every line that straddles two pipe reads is delivered as two messages; violated by logStreamer in the pinned sources (known finding K4: the repair needs a buffer, a flush point after Wait and a decision about an unterminated last line); (M4) the stream adapter sends each non-empty piece to exactly one of Log / LogError according to its stream flag, in a loop without early exit, and reports the whole chunk as written; stdout gets the output adapter, stderr the error adapter, both on the command's loggers; (M5) Output() returns the content of the string logger that is a member of the loggers the subprocess writes to, read after Execute returned. Decided on SSA; no process is started. Not decided: output fidelity for actual write patterns and volumes (pipe chunking at run time), exit-status values.",
		run:         runC18,
		assumptions: []string{
			"os/exec copies everything the child writes to cmd.Stdout/cmd.Stderr in order, in arbitrary chunks",
		},
	})
}

func runC18(c *Ctx) {
	c.messagesAreNotFormats()
	c.rule("M1", "Execute: LogStart() dominates the run; every path from the run to an exit passes exactly one LogEnd(e) with e the run's result", 2)
	c.rule("M2", "Execute returns the run's result (converted by ConvertCommandError/ConvertProcessError only); the conversion yields nil only for a nil error or ESRCH", 3)
	c.rule("M7", "Execute reports a failed run whose process context is done with that context's error (cancelled / timeout kind), and only then", 1)
	c.rule("M3", "an io.Writer that splits each chunk on a line separator and forwards the pieces keeps the trailing fragment in a field it both reads and writes", 1)
	c.rule("M4", "logStreamer: each non-empty piece goes to exactly one of Log/LogError by the stream flag, no early exit, n=len(p); Stdout/Stderr get the out/err adapters over the command's loggers", 4)
	c.rule("M6", "stop(): IsOn() is re-validated under the object's mutex before the command is stopped and an end message logged (exactly one end message per run across Execute and the monitor's Stop)", 1)
	c.rule("M8", "the command of a subprocess is set up so that its pipes are read to the end: of the fields of exec.Cmd, WaitDelay (which makes Wait close the pipes and discard what was not read yet) is never set", 3)
	c.rule("M10", "the composite the Output* family wraps the caller's loggers in keeps the streams apart: its Log forwards to every member's Log and its LogError to every member's LogError (the obligation C13/L4)", 2)
	c.rule("M11", "what Output() captures is written under a lock: the string logger's writer, shared by the output and the error log.Logger, and the composite that wraps it follow the locking discipline of C13/L1 (fields written by concurrent entry points are written under the write lock)", 4)
	c.rule("M5", "Output*: the string returned is the content of the string logger combined into the subprocess's loggers, read after Execute", 1)

	exec := c.fn(spPkg, "(*Subprocess).Execute")
	wrapRun := c.fn(spPkg, "(*cmdWrapper).Run")
	if exec == nil || wrapRun == nil {
		return
	}
	c.FuncsSeen[fname(exec)] = true
	var run *ssa.Call
	allInstrs(exec, func(in ssa.Instruction) {
		if cl, ok := in.(*ssa.Call); ok && staticCallee(&cl.Call) == wrapRun {
			run = cl
		}
	})
	if run == nil {
		c.violate("M1", fname(exec)+"/run", c.pos(exec.Pos()), "Execute no longer runs the command through cmdWrapper.Run")
		return
	}
	isMsg := func(name string) func(ssa.Instruction) bool {
		return func(in ssa.Instruction) bool {
			cl, ok := in.(*ssa.Call)
			return ok && strings.HasSuffix(calleeFull(&cl.Call), "subprocessMessaging)."+name)
		}
	}
	// M1 start
	started := false
	allInstrs(exec, func(in ssa.Instruction) {
		if isMsg("LogStart")(in) && dominates(in, run) {
			started = true
		}
	})
	c.check(started, "M1", fname(exec)+"/start", c.ipos(run), "LogStart() dominates the run", "the start message is not logged before the child runs on every path")
	// M1 end: exactly one
	esc := pathAvoiding(run, isMsg("LogEnd"), isReturn)
	twice := false
	var endCall *ssa.Call
	allInstrs(exec, func(in ssa.Instruction) {
		if isMsg("LogEnd")(in) {
			endCall = in.(*ssa.Call)
			if pathAvoiding(in, func(ssa.Instruction) bool { return false }, isMsg("LogEnd")) != nil {
				twice = true
			}
		}
	})
	good := esc == nil && !twice && endCall != nil
	why := ""
	switch {
	case endCall == nil || esc != nil:
		why = "a path from the run reaches the exit at " + c.iposOr(esc) + " without the success/failure message"
	case twice:
		why = "two end messages can be logged for one run"
	}
	if good {
		// carries the run's result
		arg := endCall.Call.Args[len(endCall.Call.Args)-1]
		if !sameValue(arg, run) && stripConv(arg) != ssa.Value(run) {
			only := true
			for _, l := range sources(arg, deriveOpts{}) {
				if l != ssa.Value(run) && !ctxErrorInstead(l, run) {
					only = false
				}
			}
			if !only {
				good, why = false, "the end message does not carry the result of the run"
			}
		}
	}
	c.check(good, "M1", fname(exec)+"/end", c.ipos(run), "exactly one LogEnd(result of Run) on every path after the run", why)

	// M2
	bad := ""
	n := 0
	allInstrs(exec, func(in ssa.Instruction) {
		r, ok := in.(*ssa.Return)
		if !ok || !dominates(run, r) {
			return
		}
		n++
		for _, l := range sources(r.Results[0], deriveOpts{}) {
			if l != ssa.Value(run) && !ctxErrorInstead(l, run) {
				bad = c.ipos(r)
			}
		}
	})
	c.check(bad == "" && n > 0, "M2", fname(exec)+"/result", c.ipos(run), "Execute returns exactly the run's result", "the value returned at "+bad+" is not (only) the result of running the child")
	// M7: "(of context kind if it was cancelled)": a killed child ends with 'signal: killed', which the conversion turns
	// into os.ErrProcessDone — not a context kind. The context's own error has to take its place where the run failed
	// and the context is done.
	hasCtx := false
	allInstrs(exec, func(in ssa.Instruction) {
		r, ok := in.(*ssa.Return)
		if !ok || !dominates(run, r) {
			return
		}
		for _, l := range sources(r.Results[0], deriveOpts{}) {
			if ctxErrorInstead(l, run) {
				hasCtx = true
			}
		}
	})
	c.check(hasCtx, "M7", fname(exec)+"/context-kind", c.ipos(run), "a failed run whose process context is done is reported with the context's error",
		"Execute never substitutes the error of the subprocess's context for the run's: a cancelled or timed-out Execute returns the way the killed process ended ('os: process already finished'), which is not of 'cancelled'/'timeout' kind")
	// cmdWrapper.Run returns ConvertCommandError(cmd.Run())
	{
		okW := false
		allInstrs(wrapRun, func(in ssa.Instruction) {
			r, ok := in.(*ssa.Return)
			if !ok {
				return
			}
			for _, l := range sources(r.Results[0], deriveOpts{through: func(n string) bool {
				return strings.HasSuffix(n, "subprocess.ConvertCommandError") || strings.HasSuffix(n, "proc.ConvertProcessError")
			}}) {
				if cl, ok := l.(*ssa.Call); ok && calleeFull(&cl.Call) == "(*os/exec.Cmd).Run" {
					okW = true
				}
			}
		})
		c.check(okW, "M2", fname(wrapRun)+"/result", c.pos(wrapRun.Pos()), "ConvertCommandError(cmd.Run())", "cmdWrapper.Run does not return the converted result of exec.Cmd.Run")
	}
	if conv := c.fn("proc", "ConvertProcessError"); conv != nil {
		c.FuncsSeen[fname(conv)] = true
		bad := ""
		norm := ssa.Value(nil)
		allInstrs(conv, func(in ssa.Instruction) {
			if cl, ok := in.(*ssa.Call); ok && calleeFull(&cl.Call) == ceConvCtx && norm == nil {
				norm = cl
			}
		})
		allInstrs(conv, func(in ssa.Instruction) {
			r, ok := in.(*ssa.Return)
			if !ok {
				return
			}
			for _, l := range sources(r.Results[0], deriveOpts{}) {
				nilRet := isNilConst(l)
				if !nilRet && l == norm {
					// returning err itself: nil only where err == nil was established; fine unless on the ==nil side (then it is nil, allowed)
					continue
				}
				if !nilRet {
					continue
				}
				// constant nil: allowed on err==nil side or on the ESRCH case
				okSide := onBoolSide(r, true, func(v ssa.Value) bool {
					b, ok := v.(*ssa.BinOp)
					if ok && b.Op == token.EQL && (isNilConst(b.X) || isNilConst(b.Y)) {
						return true
					}
					if cl, ok := v.(*ssa.Call); ok && strings.HasSuffix(calleeFull(&cl.Call), "commonerrors.Any") {
						for _, e := range variadicElems(cl.Call.Args[1]) {
							if mi, ok := e.(*ssa.MakeInterface); ok {
								if k, ok := mi.X.(*ssa.Const); ok && k.Type().String() == "syscall.Errno" {
									return true
								}
							}
						}
					}
					return false
				})
				if !okSide {
					bad = c.ipos(r)
				}
			}
		})
		c.check(bad == "", "M2", fname(conv)+"/nil-only-for-nil", c.pos(conv.Pos()), "nil only for a nil error (or ESRCH)", "the conversion turns a non-nil process error into nil at "+bad+": a failing child would be reported as success")
	}

	c.c18Tokenisers()
	c.c18Routing()
	c.c18Output()
	c.c18PipesDrained()
	c.compositeForwards("M10", false)
	// M11: the two stream goroutines of a command log concurrently; Output* combines the caller's loggers with a string logger
	// whose single writer serves both its log.Logger values
	c.ruleAlias = map[string]string{"L1": "M11", "L2": "M11"}
	for _, tname := range []string{"StringWriter", "StringLoggers", "MultipleLogger"} {
		if sp := c.pkg("logs"); sp != nil {
			if m, ok := sp.Members[tname].(*ssa.Type); ok {
				if tn, ok := m.Type().(*types.Named); ok {
					c.c13Type("logs", tn)
				}
			}
		}
	}
	c.ruleAlias = nil
	c.c18RunsDoNotOverlap()
	c.c18PiecesAreTheBytesWritten()
	c.c18CallersLoggersAreLeftOpen()
	c.c18TranslatorsAreFresh()
	// M17: "otherwise an error (of context kind if it was cancelled)": Execute reports the end of its context through
	// parallelisation.DetermineContextError — which reads ctx.Err(), not context.Cause (the obligation C12/T7 = C14/O10 =
	// C09/A19, evaluated here for the packages Execute's verdict goes through).
	c.rule("M17", "the end of the command's context is read through ctx.Err() (converted to 'cancelled' / 'timeout'): context.Cause is not used in packages subprocess, parallelisation or commonerrors", 0)
	c.noContextCause("M17", []string{spPkg, "parallelisation", "commonerrors"})
	c.rule("M14", "every one-line forwarder of package subprocess (Setup…, Execute…, Output…, New… variants) hands each of its parameters to the call it forwards to, exactly once: the messages, the environment and the user reach the command whichever variant is called", 15)
	c.forwardersKeepTheirArguments("M14", []string{spPkg}, nil,
		"called through that variant the subprocess is described with another argument in its place — the failure message replaced by the success message: a child that fails is reported with the text for success, and the failure text is never logged")
	c.c18MonitoringOverBeforeTheNextRun()
	c.c18StopRecheck()
}

// M6: Execute logs the end message itself; the monitor's Stop runs concurrently and blocks on the object's mutex while
// Execute is in progress. stop() must therefore re-validate IsOn() after it obtained the mutex, before it stops the
// command and logs an end message: otherwise a cancelled Execute is followed by a second (success) end message.
func (c *Ctx) c18StopRecheck() {
	f := c.fn(spPkg, "(*Subprocess).stop")
	if f == nil {
		return
	}
	c.FuncsSeen[fname(f)] = true
	ls := computeLockset(f)
	var ends []*ssa.Call
	allInstrs(f, func(in ssa.Instruction) {
		if cl, ok := in.(*ssa.Call); ok && strings.HasSuffix(calleeFull(&cl.Call), "subprocessMessaging).LogEnd") {
			ends = append(ends, cl)
		}
	})
	key := fname(f) + "/recheck-under-lock"
	if len(ends) == 0 {
		c.ok("M6", key, c.pos(f.Pos()), "stop() logs no end message")
		return
	}
	good := true
	for _, e := range ends {
		okOne := false
		allInstrs(f, func(in ssa.Instruction) {
			cl, ok := in.(*ssa.Call)
			if !ok || !strings.HasSuffix(calleeFull(&cl.Call), "Subprocess).IsOn") {
				return
			}
			if ls.at(cl, "mu") == lockNone {
				return
			}
			if onBoolSide(e, true, func(v ssa.Value) bool { return v == ssa.Value(cl) }) {
				okOne = true
			}
		})
		if !okOne {
			good = false
		}
	}
	c.check(good, "M6", key, c.ipos(ends[0]), "IsOn() re-checked under the mutex before the end message", "stop() logs an end message without having re-checked IsOn() after it obtained the mutex: when it was waiting for a running Execute, which already logged its own end message, a second (success) message follows a failed or cancelled run")
}

// M3
func (c *Ctx) c18Tokenisers() {
	n := 0
	for _, rel := range []string{spPkg, "logs", "safeio"} {
		for _, f := range c.srcFuncs(rel) {
			if f.Name() != "Write" || f.Signature.Recv() == nil || f.Parent() != nil {
				continue
			}
			// splits its parameter on a separator?
			var split *ssa.Call
			allInstrs(f, func(in ssa.Instruction) {
				cl, ok := in.(*ssa.Call)
				if !ok {
					return
				}
				cn := calleeFull(&cl.Call)
				if cn != "strings.Split" && cn != "bytes.Split" && cn != "strings.SplitN" && cn != "strings.SplitAfter" && cn != "strings.Fields" && cn != "bufio.NewScanner" {
					return
				}
				for _, l := range sources(cl.Call.Args[0], deriveOpts{through: func(string) bool { return true }}) {
					if paramIndex(f, l) == 1 {
						split = cl
					}
				}
			})
			if split == nil {
				continue
			}
			// forwards pieces (calls something inside a loop)?
			forwards := false
			allInstrs(f, func(in ssa.Instruction) {
				if cl, ok := in.(*ssa.Call); ok && cl.Call.IsInvoke() && inLoop(cl) {
					forwards = true
				}
			})
			if !forwards {
				continue
			}
			n++
			c.FuncsSeen[fname(f)] = true
			rt := f.Signature.Recv().Type()
			if p, ok := rt.(*types.Pointer); ok {
				rt = p.Elem()
			}
			tn, _ := types.Unalias(rt).(*types.Named)
			carries := false
			if tn != nil {
				acc := accessesOf(f, tn)
				reads, writes := map[string]bool{}, map[string]bool{}
				for _, a := range acc {
					if a.write {
						writes[a.field] = true
					} else {
						reads[a.field] = true
					}
				}
				for fld := range writes {
					if reads[fld] {
						carries = true
					}
				}
			}
			key := fname(f) + "/carry"
			c.check(carries, "M3", key, c.ipos(split), "keeps the trailing fragment between calls",
				"Write splits each chunk on the line separator and forwards the pieces but keeps no state between calls: a line that straddles two Write calls (every line longer than one pipe read, or written in two pieces) reaches the logger as two messages")
		}
	}
	if n == 0 {
		c.info("M3", "no-tokenising-writer", "-", "no io.Writer in subprocess/logs/safeio tokenises its input any more")
		// keep the rule counted: the obligation then is vacuous by construction
		c.ok("M3", "subprocess/no-tokeniser", "-", "no tokenising writer present")
	}
}

// M4
func (c *Ctx) c18Routing() {
	f := c.fn(spPkg, "(*logStreamer).Write")
	if f != nil {
		var logC, errC *ssa.Call
		allInstrs(f, func(in ssa.Instruction) {
			if cl, ok := in.(*ssa.Call); ok && cl.Call.IsInvoke() {
				switch cl.Call.Method.Name() {
				case "Log":
					logC = cl
				case "LogError":
					errC = cl
				}
			}
		})
		isFlag := func(v ssa.Value) bool { _, ok := fieldLoad(v, "logStreamer", "IsStdErr"); return ok }
		good := logC != nil && errC != nil && onBoolSide(errC, true, isFlag) && onBoolSide(logC, false, isFlag) && inLoop(logC) && inLoop(errC) && !loopHasEarlyExit(f)
		c.check(good, "M4", fname(f)+"/routing", c.pos(f.Pos()), "stderr pieces → LogError, stdout pieces → Log, every piece, no early exit",
			"pieces are not routed to Log/LogError by the stream flag for every piece of the chunk")
		// returns len(p), nil
		okN := false
		allInstrs(f, func(in ssa.Instruction) {
			r, ok := in.(*ssa.Return)
			if !ok {
				return
			}
			if cl, ok := stripConv(r.Results[0]).(*ssa.Call); ok && calleeFull(&cl.Call) == "builtin.len" && paramIndex(f, cl.Call.Args[0]) == 1 && isNilConst(r.Results[1]) {
				okN = true
			}
		})
		c.check(okN, "M4", fname(f)+"/written", c.pos(f.Pos()), "reports len(p), nil", "Write does not report the whole chunk as written: os/exec stops copying (short write) and output is lost")
	}
	// adapters
	mk := c.fn(spPkg, "newLogStreamer")
	for _, s := range []struct {
		fn   string
		flag bool
	}{{"newOutStreamer", false}, {"newErrLogStreamer", true}} {
		g := c.fn(spPkg, s.fn)
		if g == nil || mk == nil {
			continue
		}
		good := false
		allInstrs(g, func(in ssa.Instruction) {
			if cl, ok := in.(*ssa.Call); ok && staticCallee(&cl.Call) == mk {
				if b, ok := constBool(cl.Call.Args[1]); ok && b == s.flag && paramIndex(g, cl.Call.Args[2]) == 1 {
					good = true
				}
			}
		})
		c.check(good, "M4", fname(g), c.pos(g.Pos()), "adapter with stream flag "+b2s(s.flag), "the adapter is not built with stream flag "+b2s(s.flag)+" over the loggers given")
	}
	cc := c.fn(spPkg, "(*command).createCommand")
	if cc != nil {
		want := map[string]string{"Stdout": "newOutStreamer", "Stderr": "newErrLogStreamer"}
		got := map[string]bool{}
		allInstrs(cc, func(in ssa.Instruction) {
			st, ok := in.(*ssa.Store)
			if !ok {
				return
			}
			fa, ok := st.Addr.(*ssa.FieldAddr)
			if !ok {
				return
			}
			so := structOf(fa.X.Type())
			if so == nil {
				return
			}
			name := so.Field(fa.Field).Name()
			w, ok := want[name]
			if !ok {
				return
			}
			if cl, ok := stripConv(st.Val).(*ssa.Call); ok && strings.HasSuffix(calleeFull(&cl.Call), "subprocess."+w) {
				if _, ok := fieldLoad(cl.Call.Args[1], "command", "loggers"); ok {
					got[name] = true
				}
			}
		})
		c.check(got["Stdout"] && got["Stderr"], "M4", fname(cc)+"/streams", c.pos(cc.Pos()), "Stdout → output adapter, Stderr → error adapter, over c.loggers",
			"the child's stdout/stderr are not connected to the output/error adapters over the command's loggers")
	}
}

// M5
func (c *Ctx) c18Output() {
	f := c.fn(spPkg, "OutputAsWithEnvironment")
	if f == nil {
		return
	}
	var strL, comb, mkP, ex, get *ssa.Call
	allInstrs(f, func(in ssa.Instruction) {
		cl, ok := in.(*ssa.Call)
		if !ok {
			return
		}
		n := calleeFull(&cl.Call)
		switch {
		case strings.HasSuffix(n, "logs.NewPlainStringLogger") || strings.HasSuffix(n, "logs.NewStringLogger"):
			strL = cl
		case strings.HasSuffix(n, "logs.NewCombinedLoggers") || strings.HasSuffix(n, "logs.NewMultipleLoggers"):
			comb = cl
		case strings.HasSuffix(n, "subprocess.newPlainSubProcess") || strings.HasSuffix(n, "subprocess.newSubProcess"):
			mkP = cl
		case strings.HasSuffix(n, "Subprocess).Execute"):
			ex = cl
		case strings.HasSuffix(n, "StringLoggers).GetLogContent"):
			get = cl
		}
	})
	good := strL != nil && comb != nil && mkP != nil && ex != nil && get != nil
	why := "Output no longer collects the child's output through a string logger combined into the subprocess's loggers"
	if good {
		fromStr := func(v ssa.Value) bool {
			for _, l := range sources(v, deriveOpts{}) {
				if e, ok := l.(*ssa.Extract); ok && e.Tuple == ssa.Value(strL) && e.Index == 0 {
					return true
				}
			}
			return false
		}
		member := false
		for _, e := range variadicElems(comb.Call.Args[len(comb.Call.Args)-1]) {
			if fromStr(e) {
				member = true
			}
		}
		usesComb := false
		for _, l := range sources(mkP.Call.Args[1], deriveOpts{}) {
			if e, ok := l.(*ssa.Extract); ok && e.Tuple == ssa.Value(comb) && e.Index == 0 {
				usesComb = true
			}
		}
		switch {
		case !member:
			good, why = false, "the string logger is not a member of the loggers the subprocess writes to"
		case !usesComb:
			good, why = false, "the subprocess does not write to the combined loggers"
		case !fromStr(get.Call.Args[0]):
			good, why = false, "the content returned is not the string logger's"
		case !dominates(ex, get):
			good, why = false, "the content is read before Execute returned"
		}
		if good {
			// "Output() returns all of it": whatever Execute reports, what the child wrote is handed back — every return
			// that follows Execute carries the content read from the string logger, nothing else.
			allInstrs(f, func(in ssa.Instruction) {
				r, ok := in.(*ssa.Return)
				if !ok || len(r.Results) == 0 || !dominates(ex, r) {
					return
				}
				for _, l := range sources(r.Results[0], deriveOpts{through: func(n string) bool { return strings.HasPrefix(n, "strings.") }}) {
					if l != ssa.Value(get) {
						good, why = false, "the return at "+c.ipos(r)+" follows Execute and hands back something other than the string logger's content: when the child fails, what it wrote before failing is lost to the caller"
					}
				}
			})
		}
	}
	c.check(good, "M5", fname(f), c.pos(f.Pos()), "string logger ∈ combined loggers → subprocess; content read after Execute", why)
}

// ctxErrorInstead: l is the error of the subprocess's own context (DetermineContextError(…ProcessContext())) and
// it takes the place of the run's result only where both are non-nil — "an error (of context kind if it was
// cancelled)": a failed run is reported as the cancellation that caused it, a successful run stays nil, and a run
// that failed while the context is alive keeps its own error.
func ctxErrorInstead(l ssa.Value, run ssa.Value) bool {
	cl, ok := l.(*ssa.Call)
	if !ok || !strings.HasSuffix(calleeFull(&cl.Call), "parallelisation.DetermineContextError") || len(cl.Call.Args) != 1 {
		return false
	}
	fromProcessCtx := false
	for _, a := range sources(cl.Call.Args[0], deriveOpts{}) {
		if ac, ok := a.(*ssa.Call); ok && strings.HasSuffix(calleeFull(&ac.Call), ".ProcessContext") {
			fromProcessCtx = true
		}
	}
	if !fromProcessCtx || cl.Referrers() == nil {
		return false
	}
	stores := 0
	for _, r := range *cl.Referrers() {
		st, ok := r.(*ssa.Store)
		if !ok {
			continue
		}
		stores++
		if !onNonNilSide(run, st) || !onNonNilSide(cl, st) {
			return false
		}
	}
	return stores > 0
}

// c18PipesDrained (M8): "every line … reaches the logger … for any volume". exec.Cmd copies the child's pipes into the
// Stdout/Stderr writers and Wait returns once they are drained — unless WaitDelay is set: then, that long after the child is
// gone (or the context done), os/exec closes the pipes, drops whatever the loggers had not consumed yet and makes Run fail
// with ErrWaitDelay even for a child that exited 0. Every store into a field of exec.Cmd in package subprocess is listed;
// none is WaitDelay.
func (c *Ctx) c18PipesDrained() {
	for _, f := range c.srcFuncs(spPkg) {
		allInstrs(f, func(in ssa.Instruction) {
			st, ok := in.(*ssa.Store)
			if !ok {
				return
			}
			fa, ok := st.Addr.(*ssa.FieldAddr)
			if !ok {
				return
			}
			so := structOf(fa.X.Type())
			if so == nil {
				return
			}
			pt, isPtr := fa.X.Type().Underlying().(*types.Pointer)
			if !isPtr {
				return
			}
			nt, isNamed := pt.Elem().(*types.Named)
			if !isNamed || nt.Obj().Pkg() == nil || nt.Obj().Pkg().Path() != "os/exec" || nt.Obj().Name() != "Cmd" {
				return
			}
			field := so.Field(fa.Field).Name()
			key := fname(outermost(f)) + "/exec.Cmd." + field
			c.FuncsSeen[fname(outermost(f))] = true
			c.check(field != "WaitDelay", "M8", key, c.ipos(st), "exec.Cmd."+field+" set",
				"exec.Cmd.WaitDelay is set: once the child is gone, Wait gives the copying of its pipes that long and then closes them — the lines a slow logger had not consumed yet (or that a background part of the child's script writes later) are dropped, and a child that exited 0 is reported failed with 'WaitDelay expired before I/O complete'")
		})
	}
}

// c18RunsDoNotOverlap (M9): "Execute returns nil exactly when the child exits with status 0". What is left of a run — the
// goroutine watching its context — cancels every context registered in the store when it wakes up. A new run stays clear of
// it only if (a) the monitoring is marked as on before that goroutine is started (so that the next run can see it), (b) the
// goroutine waits on the context of its own run, bound when it is started, not on whatever context is current when it gets
// to run, and (c) the context of a run is created in one place only — newSubprocessMonitoring and RunMonitoring, the
// latter only once IsOn() has answered false — and not by Execute()/Start() before they wait.
func (c *Ctx) c18RunsDoNotOverlap() {
	c.rule("M9", "runs of one subprocess do not overlap: the monitoring is marked on before its goroutine starts, the goroutine waits on the context bound at its start, and a run's context is only created by RunMonitoring once the previous monitoring is over", 3)
	reset := c.fn(spPkg, "(*subprocessMonitoring).Reset")
	runMon := c.fn(spPkg, "(*subprocessMonitoring).RunMonitoring")
	start := c.fn(spPkg, "(*subprocessMonitoring).runProcessMonitoring")
	if reset == nil || runMon == nil || start == nil {
		return
	}
	c.FuncsSeen[fname(runMon)] = true
	c.FuncsSeen[fname(start)] = true
	// (c) who may create the context of a run
	bad := ""
	n := 0
	for _, f := range c.srcFuncs(spPkg) {
		allInstrs(f, func(in ssa.Instruction) {
			cc := callCommon(in)
			if cc == nil || staticCallee(cc) != reset {
				return
			}
			n++
			switch outermost(f).Name() {
			case "newSubprocessMonitoring", "RunMonitoring":
			default:
				bad = c.ipos(in) + " (" + fname(outermost(f)) + ")"
			}
		})
	}
	c.check(n > 0 && bad == "", "M9", spPkg+"/context-of-a-run-created-in-one-place", c.pos(reset.Pos()), "Reset() is called by the constructor and by RunMonitoring only",
		"the context of a run is also created at "+bad+": that clears the 'stopping' mark and registers the new context while the goroutine of the previous run may still be about to cancel everything registered — the new run is cancelled although nobody asked (Execute() in a loop on `true` returns 'cancelled' one time out of three)")
	// … and RunMonitoring only gets there once IsOn() answered false
	isOnFalse := func(b *ssa.BasicBlock, k int) bool {
		ifi, ok := b.Instrs[len(b.Instrs)-1].(*ssa.If)
		if !ok {
			return false
		}
		v, ts := boolTest(ifi)
		cl, isCall := v.(*ssa.Call)
		if !isCall {
			return false
		}
		g := staticCallee(&cl.Call)
		return g != nil && g.Name() == "IsOn" && k == 1-ts
	}
	hit := pathPruned(runMon, nil, func(ssa.Instruction) bool { return false }, func(in ssa.Instruction) bool {
		cc := callCommon(in)
		return cc != nil && staticCallee(cc) == reset
	}, isOnFalse)
	c.check(hit == nil, "M9", fname(runMon)+"/new-context-after-the-previous-monitoring", c.pos(runMon.Pos()), "Reset() is reached only where IsOn() answered false",
		"RunMonitoring can create the context of the new run ("+c.iposOr(hit)+") without IsOn() having answered false: the goroutine of the previous run is still there and cancels it")
	// (a) and (b)
	var goi *ssa.Go
	allInstrs(start, func(in ssa.Instruction) {
		if g, ok := in.(*ssa.Go); ok {
			goi = g
		}
	})
	if goi == nil {
		c.violate("M9", fname(start)+"/goroutine", c.pos(start.Pos()), "runProcessMonitoring no longer starts the monitoring goroutine")
		return
	}
	marked := false
	allInstrs(start, func(in ssa.Instruction) {
		cl, ok := in.(*ssa.Call)
		if !ok || calleeFull(&cl.Call) != "(*go.uber.org/atomic.Bool).Store" || len(cl.Call.Args) < 2 {
			return
		}
		if b, isB := constBool(cl.Call.Args[1]); !isB || !b {
			return
		}
		if fa, ok := cl.Call.Args[0].(*ssa.FieldAddr); ok {
			if so := structOf(fa.X.Type()); so != nil && so.Field(fa.Field).Name() == "monitoringOn" && dominates(cl, goi) {
				marked = true
			}
		}
	})
	c.check(marked, "M9", fname(start)+"/marked-on-before-the-goroutine", c.ipos(goi), "monitoringOn is set before the goroutine is started",
		"the monitoring is only marked as on by the goroutine itself, whenever it gets to run: until then the next run believes there is nothing to wait for, creates its context, and the late goroutine cancels it")
	var lit *ssa.Function
	switch v := goi.Call.Value.(type) {
	case *ssa.MakeClosure:
		lit, _ = v.Fn.(*ssa.Function)
	case *ssa.Function:
		lit = v
	}
	boundCtx := false
	why := "the goroutine does not wait on a context"
	if lit != nil {
		allInstrs(lit, func(in ssa.Instruction) {
			u, ok := in.(*ssa.UnOp)
			if !ok || u.Op != token.ARROW {
				return
			}
			done, ok := u.X.(*ssa.Call)
			if !ok || !done.Call.IsInvoke() || done.Call.Method.Name() != "Done" {
				return
			}
			bound := false
			switch x := done.Call.Value.(type) {
			case *ssa.Parameter, *ssa.FreeVar:
				bound = true
			case *ssa.UnOp:
				_, bound = x.X.(*ssa.FreeVar)
			}
			if in, ok := resolveValue(done.Call.Value).(ssa.Instruction); ok && in.Parent() != lit {
				bound = true // a value computed by the function that starts the goroutine
			}
			if bound {
				boundCtx = true
			} else {
				why = "the goroutine waits on a context it obtains when it gets to run (" + c.ipos(done) + "), which is the context of the next run if that one was created in the meantime"
			}
		})
	}
	c.check(boundCtx, "M9", fname(start)+"/waits-on-the-context-of-its-run", c.ipos(goi), "the goroutine waits on a context bound when it is started", why)
}

// c18MonitoringOverBeforeTheNextRun (M12): Execute holds the lock of the subprocess for the whole run, and the goroutine
// which monitors the run calls Stop(), which takes that lock: cancelled in the middle of a run, the goroutine waits for
// Execute. If the next run takes the lock before the goroutine does, RunMonitoring waits for the goroutine in vain (it
// holds the lock the goroutine needs), gives up after a second and the command is run with the context of the previous
// run — cancelled. Execute therefore waits for the monitoring to be over *after* it released the lock: a deferred call,
// registered before the deferred Unlock, to a function which loops until the monitoring is off and takes no lock.
func (c *Ctx) c18MonitoringOverBeforeTheNextRun() {
	c.rule("M15", "the wait for the monitoring of a run to be over is not bounded by the context of that run (cancelled by the time the wait starts): it reads neither ProcessContext() nor the stored context", 1)
	c.rule("M12", "Execute, which holds the lock during the run, waits after releasing it for what is left of the run's monitoring (which needs that lock) to be over: the next run cannot overtake it and inherit a cancelled context", 1)
	ex := c.fn(spPkg, "(*Subprocess).Execute")
	if ex == nil {
		return
	}
	c.FuncsSeen[fname(ex)] = true
	// functions that loop until the monitoring is off
	waits := func(w *ssa.Function) bool {
		found := false
		seen := map[*ssa.Function]bool{}
		var visit func(g *ssa.Function, depth int)
		visit = func(g *ssa.Function, depth int) {
			if g == nil || seen[g] || g.Blocks == nil || depth > 2 {
				return
			}
			seen[g] = true
			allInstrs(g, func(in ssa.Instruction) {
				if cc := callCommon(in); cc != nil {
					if _, op, ok := mutexOp(cc); ok && (op == "Lock" || op == "RLock") {
						found = false
						seen = nil
						return
					}
				}
			})
			if seen == nil {
				return
			}
			for _, b := range g.Blocks {
				ifi, ok := b.Instrs[len(b.Instrs)-1].(*ssa.If)
				if !ok || !inLoop(ifi) {
					continue
				}
				v, _ := boolTest(ifi)
				for _, l := range sources(v, deriveOpts{}) {
					cl, ok := l.(*ssa.Call)
					if !ok {
						continue
					}
					if h := staticCallee(&cl.Call); h != nil && h.Name() == "IsOn" && strings.Contains(fname(h), "subprocessMonitoring") {
						found = true
					}
					if calleeFull(&cl.Call) == "(*go.uber.org/atomic.Bool).Load" && len(cl.Call.Args) > 0 {
						if fa, ok := cl.Call.Args[0].(*ssa.FieldAddr); ok {
							if so := structOf(fa.X.Type()); so != nil && so.Field(fa.Field).Name() == "monitoringOn" {
								found = true
							}
						}
					}
				}
			}
			if found {
				return
			}
			allInstrs(g, func(in ssa.Instruction) {
				if seen == nil {
					return
				}
				if cc := callCommon(in); cc != nil {
					if h := staticCallee(cc); h != nil && inPkg(spPkg)(h) {
						visit(h, depth+1)
					}
				}
			})
		}
		visit(w, 0)
		return found && seen != nil
	}
	var unlockDefer, lockCall ssa.Instruction
	var waitDefer ssa.Instruction
	var explicitUnlock, explicitWait ssa.Instruction
	allInstrs(ex, func(in ssa.Instruction) {
		cc := callCommon(in)
		if cc == nil {
			return
		}
		_, isDefer := in.(*ssa.Defer)
		if _, op, ok := mutexOp(cc); ok {
			switch {
			case op == "Lock" && !isDefer:
				lockCall = in
			case op == "Unlock" && isDefer:
				unlockDefer = in
			case op == "Unlock":
				explicitUnlock = in
			}
			return
		}
		if h := staticCallee(cc); h != nil && waits(h) {
			if isDefer {
				waitDefer = in
			} else {
				explicitWait = in
			}
		}
	})
	key := fname(ex) + "/monitoring-over-once-the-lock-is-released"
	if lockCall == nil {
		c.ok("M12", key, c.pos(ex.Pos()), "Execute does not hold the lock of the subprocess during the run: the monitoring goroutine is never kept waiting")
		return
	}
	good := false
	chosen := waitDefer
	switch {
	case waitDefer != nil && unlockDefer != nil && dominates(waitDefer, unlockDefer):
		good = true // deferred calls run in reverse order: the wait runs after the release
	case waitDefer != nil && unlockDefer == nil && explicitUnlock != nil:
		good = true // the release is explicit, the deferred wait runs at the very end
	case explicitWait != nil && explicitUnlock != nil && dominates(explicitUnlock, explicitWait):
		good = true
		chosen = explicitWait
	}
	waiters := map[*ssa.Function]bool{}
	if good && chosen != nil {
		waiters[staticCallee(callCommon(chosen))] = true
	}
	// M15: by the time the wait runs, the run's own context is over (Execute cancels it on its way out, and a run that was
	// interrupted had it cancelled before): a wait that is bounded by that context — its time limit derived from it, its
	// sleeps and tests given it — gives up at once, and the next run overtakes the monitoring all the same.
	for h := range waiters {
		c.FuncsSeen[fname(h)] = true
		bad := ""
		seen := map[*ssa.Function]bool{}
		var visit func(g *ssa.Function, depth int)
		visit = func(g *ssa.Function, depth int) {
			if g == nil || seen[g] || g.Blocks == nil || depth > 2 {
				return
			}
			seen[g] = true
			allInstrs(g, func(in ssa.Instruction) {
				if fa, ok := in.(*ssa.FieldAddr); ok {
					if so := structOf(fa.X.Type()); so != nil && so.Field(fa.Field).Name() == "cancellableCtx" {
						bad = c.ipos(in)
					}
				}
				if cc := callCommon(in); cc != nil {
					if k := staticCallee(cc); k != nil && inPkg(spPkg)(k) {
						if k.Name() == "ProcessContext" {
							bad = c.ipos(in)
							return
						}
						if k.Name() != "IsOn" {
							visit(k, depth+1)
						}
					}
				}
			})
		}
		visit(h, 0)
		c.check(bad == "", "M15", fname(h)+"/not-bounded-by-the-run-that-is-over", c.pos(h.Pos()), "the wait for the monitoring to be over does not read the context of the run",
			"the wait for the monitoring to be over reads the context of the run ("+bad+"): that context is cancelled by the time the wait runs (Execute cancels it on its way out), so a wait bounded by it gives up at once — the next Execute()/Start() overtakes the goroutine of this run, waits a second in vain and runs its command under the cancelled context: 'cancelled' although nobody interrupted it")
	}
	c.check(good, "M12", key, c.ipos(lockCall), "after the lock is released Execute waits for the monitoring of the run to be over",
		"Execute returns while the goroutine monitoring its run may still be waiting for the lock (a Cancel() in the middle of the run sends it into Stop()): the next Execute()/Start() takes the lock first, waits one second in vain for that goroutine, and runs its command under the cancelled context of the previous run — it reports 'cancelled' although nobody interrupted it")
}

// c18PiecesAreTheBytesWritten (M13): "every line … reaches the logger complete, unmodified". What the stream writer hands to
// the logger is a piece of what the child wrote: obtained from the chunk by conversion to a string, splitting and slicing
// only. Anything else on the way — a bufio.Scanner (ScanLines drops a trailing carriage return, and a line that is a lone
// "\r" altogether), a trim, a replacement, a field split — changes what some children write (CRLF output, progress lines).
func (c *Ctx) c18PiecesAreTheBytesWritten() {
	c.rule("M13", "what the stream writer hands to the logger derives from the chunk it was given through conversion, strings.Split / SplitAfter and slicing only: no scanner, trim or replacement on the way (a trailing carriage return is part of the line)", 2)
	f := c.fnOpt(spPkg, "(*logStreamer).Write")
	if f == nil || len(f.Params) < 2 {
		return
	}
	c.FuncsSeen[fname(f)] = true
	chunk := f.Params[1]
	var impure func(v ssa.Value, depth int, seen map[ssa.Value]bool) ssa.Value
	impure = func(v ssa.Value, depth int, seen map[ssa.Value]bool) ssa.Value {
		if v == ssa.Value(chunk) {
			return nil
		}
		if seen[v] || depth > 40 {
			return nil
		}
		seen[v] = true
		switch x := v.(type) {
		case *ssa.Convert:
			return impure(x.X, depth+1, seen)
		case *ssa.ChangeType:
			return impure(x.X, depth+1, seen)
		case *ssa.MakeInterface:
			return impure(x.X, depth+1, seen)
		case *ssa.Slice:
			return impure(x.X, depth+1, seen)
		case *ssa.Phi:
			for _, e := range x.Edges {
				if b := impure(e, depth+1, seen); b != nil {
					return b
				}
			}
			return nil
		case *ssa.UnOp:
			if x.Op == token.MUL {
				switch a := x.X.(type) {
				case *ssa.IndexAddr:
					return impure(a.X, depth+1, seen)
				case *ssa.FieldAddr:
					if a.X == ssa.Value(f.Params[0]) {
						return nil // state the writer carries from one call to the next (a fragment of an unfinished line)
					}
				case *ssa.Alloc:
					for _, st := range storesToDeep(a) {
						if b := impure(st, depth+1, seen); b != nil {
							return b
						}
					}
					return nil
				}
			}
		case *ssa.Index:
			return impure(x.X, depth+1, seen)
		case *ssa.BinOp:
			if x.Op == token.ADD { // a fragment kept from the previous chunk, followed by the start of this one
				if b := impure(x.X, depth+1, seen); b != nil {
					return b
				}
				return impure(x.Y, depth+1, seen)
			}
		case *ssa.Const:
			return nil
		case *ssa.Extract:
			return impure(x.Tuple, depth+1, seen)
		case *ssa.Next:
			return impure(x.Iter, depth+1, seen)
		case *ssa.Range:
			return impure(x.X, depth+1, seen)
		case *ssa.Call:
			if calleeFull(&x.Call) == "builtin.append" {
				for _, a := range x.Call.Args {
					if b := impure(a, depth+1, seen); b != nil {
						return b
					}
				}
				return nil
			}
			switch calleeFull(&x.Call) {
			case "strings.Split", "strings.SplitN", "strings.SplitAfter", "strings.SplitAfterN", "bytes.Split", "bytes.SplitAfter", "strings.Cut", "bytes.Cut":
				return impure(x.Call.Args[0], depth+1, seen)
			}
		}
		return v
	}
	n := 0
	allInstrs(f, func(in ssa.Instruction) {
		cl, ok := in.(*ssa.Call)
		if !ok || !cl.Call.IsInvoke() || (cl.Call.Method.Name() != "Log" && cl.Call.Method.Name() != "LogError") {
			return
		}
		n++
		bad := ""
		for _, a := range cl.Call.Args {
			for _, el := range variadicElems(a) {
				if b := impure(el, 0, map[ssa.Value]bool{}); b != nil {
					bad = c.pos(b.Pos()) + " (" + b.String() + ")"
				}
			}
		}
		c.check(bad == "", "M13", fname(f)+"/pieces-unmodified:"+cl.Call.Method.Name(), c.ipos(cl), "the piece logged is cut out of the chunk by conversion, splitting and slicing only",
			"what is handed to the logger does not come straight out of the chunk written by the child: it passes through "+bad+" — a scanner's ScanLines, a trim or a replacement drops or rewrites bytes (the carriage return of `first\\r\\n`, the whole line `\\r`), so lines do not reach the logger unmodified and Output() does not return all of what was written")
	})
	if n == 0 {
		c.violate("M13", fname(f)+"/pieces-unmodified", c.pos(f.Pos()), "the stream writer no longer hands anything to the loggers")
	}
}

// c18CallersLoggersAreLeftOpen (M16): "every non-empty line the child writes … reaches the output logger". The loggers are
// the caller's: they outlive the run (a second Output() with the same logger, a string logger read after the call). Package
// subprocess closes only what it created itself and shares with nobody — never a logger it was handed, nor a combination
// that contains one (MultipleLogger.Close closes every member): a closed string logger has forgotten what it was told, a
// closed pipe refuses the next run's lines.
func (c *Ctx) c18CallersLoggersAreLeftOpen() {
	c.rule("M16", "package subprocess never calls Close on a logger it was handed, or on a combination that contains one: no Close on a logs.Loggers value derived from a parameter or from a field", 0)
	n := 0
	for _, rel := range []string{spPkg} {
		for _, f := range c.srcFuncs(rel) {
			if f.Blocks == nil || f.Parent() != nil {
				continue
			}
			withAnon(f, func(h *ssa.Function) {
				allInstrs(h, func(in ssa.Instruction) {
					cc := callCommon(in)
					if cc == nil || !cc.IsInvoke() || cc.Method.Name() != "Close" {
						return
					}
					isLogger := false
					if it, ok := cc.Value.Type().Underlying().(*types.Interface); ok {
						for i := 0; i < it.NumMethods(); i++ {
							if it.Method(i).Name() == "LogError" {
								isLogger = true // logs.Loggers and the interfaces that extend it
							}
						}
					}
					if !isLogger {
						return
					}
					n++
					top := outermost(f)
					c.FuncsSeen[fname(top)] = true
					// where the logger comes from, through constructors and captured variables
					bad := ""
					seen := map[ssa.Value]bool{}
					var walk func(v ssa.Value, depth int)
					walk = func(v ssa.Value, depth int) {
						if v == nil || seen[v] || depth > 8 {
							return
						}
						seen[v] = true
						for _, l := range sources(v, deriveOpts{through: func(string) bool { return true }}) {
							switch x := l.(type) {
							case *ssa.Parameter:
								if strings.Contains(x.Type().String(), "/logs.") {
									bad = "the parameter " + x.Name() + " of " + fname(x.Parent())
								}
							case *ssa.UnOp:
								if fv, ok := x.X.(*ssa.FreeVar); ok {
									// a captured variable: what the enclosing function stored in it
									g := fv.Parent()
									for i, cand := range g.FreeVars {
										if cand != fv || g.Parent() == nil {
											continue
										}
										allInstrs(g.Parent(), func(j ssa.Instruction) {
											if mc, ok := j.(*ssa.MakeClosure); ok && mc.Fn == ssa.Value(g) && i < len(mc.Bindings) {
												if a, ok := mc.Bindings[i].(*ssa.Alloc); ok {
													for _, sv := range storesToDeep(a) {
														walk(sv, depth+1)
													}
												} else {
													walk(mc.Bindings[i], depth+1)
												}
											}
										})
									}
								} else if _, ok := x.X.(*ssa.FieldAddr); ok {
									bad = "a field (" + c.pos(x.Pos()) + ")"
								} else if a, ok := x.X.(*ssa.Alloc); ok {
									for _, sv := range storesToDeep(a) {
										walk(sv, depth+1)
									}
								}
							case *ssa.Extract:
								walk(x.Tuple, depth+1)
							}
						}
					}
					walk(cc.Value, 0)
					key := fname(top) + "/closes-a-logger"
					if n > 1 {
						key += "#" + strconv.Itoa(n)
					}
					c.check(bad == "", "M16", key, c.ipos(in), "the logger closed was created here and contains nothing the caller owns",
						"the logger closed here contains "+bad+": it belongs to the caller. Closing a combination closes every member — a string logger forgets the lines of the child it has just been given (they reached the logger and are gone again when the call returns), a logger that refuses writes once closed loses every line of the next run")
				})
			})
		}
	}
	if n == 0 {
		c.info("M16", "subprocess/no-logger-is-closed", "-", "package subprocess closes no logger")
	}
}

// c18TranslatorsAreFresh (M18): "Execute returns nil exactly when the child exits with status 0 …; every line the child
// writes reaches the logger". What is run is the command the caller named, translated by the CommandAsDifferentUser it is
// handed — command.Me() for every Execute / Output / Setup. That object is mutable (Prepend rewrites its receiver and
// returns it, and the library itself writes platform.WithPrivileges(command.Me())): the constructors of the package hand
// out a value of their own making on every call, never a package-level one — a shared Me() once decorated with sudo (or
// anything) is what every later Execute in the process runs.
func (c *Ctx) c18TranslatorsAreFresh() {
	c.rule("M18", "the constructors of package subprocess/command return a CommandAsDifferentUser built by that very call: no returned pointer is (or derives from) a package-level variable", 2)
	for _, f := range c.srcFuncs("subprocess/command") {
		if f.Blocks == nil || f.Signature.Recv() != nil || f.Signature.Results().Len() != 1 || !strings.HasSuffix(f.Signature.Results().At(0).Type().String(), "command.CommandAsDifferentUser") {
			continue
		}
		c.FuncsSeen[fname(f)] = true
		bad := ""
		var walk func(v ssa.Value, g *ssa.Function, depth int)
		walk = func(v ssa.Value, g *ssa.Function, depth int) {
			if depth > 3 {
				return
			}
			for _, l := range sources(v, deriveOpts{}) {
				switch x := l.(type) {
				case *ssa.UnOp:
					if gl, ok := x.X.(*ssa.Global); ok {
						bad = c.ipos(x) + " (" + gl.Name() + ")"
					}
				case *ssa.Global:
					bad = c.pos(x.Pos()) + " (" + x.Name() + ")"
				case *ssa.Call:
					if h := staticCallee(&x.Call); h != nil && inPkg("subprocess/command")(h) && h.Blocks != nil {
						allInstrs(h, func(in ssa.Instruction) {
							if r, ok := in.(*ssa.Return); ok && len(r.Results) == 1 {
								walk(r.Results[0], h, depth+1)
							}
						})
					}
				}
			}
		}
		allInstrs(f, func(in ssa.Instruction) {
			if r, ok := in.(*ssa.Return); ok && len(r.Results) == 1 {
				walk(r.Results[0], f, 0)
			}
		})
		c.check(bad == "", "M18", fname(f)+"/a-value-of-its-own-making", c.pos(f.Pos()), "the translator returned is built by the call",
			"the translator returned is the package-level variable read at "+bad+": CommandAsDifferentUser is mutable (Prepend rewrites its receiver; platform.WithPrivileges(command.Me()) prepends sudo) and Me() is the translator of every Execute / Output / Setup — once anything has decorated the shared value, every later Execute in the process runs `x cmd …` instead of `cmd …`: the status and the lines it reports are those of another command")
	}
}
