package main

// Checker self-validation: seeded mutants (must be reported, by the expected
// rule) and behaviour-preserving refactors (must stay silent), applied in
// memory through the loader's overlay, one child process per variant.

import (
	"bytes"
	"encoding/json"
	"fmt"
	"os"
	"os/exec"
	"path/filepath"
	"sort"
	"strings"
	"sync"
)

type seedEdit struct {
	File string `json:"file"` // relative to the module dir (utils/)
	Old  string `json:"old"`
	New  string `json:"new"`
}

type seed struct {
	Name   string     `json:"name"`
	Prop   string     `json:"property"`
	Kind   string     `json:"kind"`   // mutant | refactor
	Expect string     `json:"expect"` // substring of an obligation key that must be violated (mutant)
	Edits  []seedEdit `json:"edits"`
	Note   string     `json:"note,omitempty"`
	path   string
}

func loadSeeds(root, prop string) ([]*seed, error) {
	files, _ := filepath.Glob(filepath.Join(root, "seeds", prop, "*.json"))
	sort.Strings(files)
	var out []*seed
	for _, f := range files {
		b, err := os.ReadFile(f)
		if err != nil {
			return nil, err
		}
		var ss []*seed
		if err := json.Unmarshal(b, &ss); err != nil {
			var one seed
			if err2 := json.Unmarshal(b, &one); err2 != nil {
				return nil, fmt.Errorf("%s: %v", f, err)
			}
			ss = []*seed{&one}
		}
		for _, s := range ss {
			s.path = f
			if s.Prop == "" {
				s.Prop = prop
			}
			out = append(out, s)
		}
	}
	return out, nil
}

// overlayFor applies the seed's edits to the current sources; ok=false when
// an anchor text is not present (seed skipped).
func overlayFor(repo string, s *seed) (map[string][]byte, bool, error) {
	ov := map[string][]byte{}
	for _, e := range s.Edits {
		p := filepath.Join(repo, e.File)
		cur, have := ov[p]
		if !have {
			b, err := os.ReadFile(p)
			if err != nil {
				return nil, false, err
			}
			cur = b
		}
		if !bytes.Contains(cur, []byte(e.Old)) {
			return nil, false, nil
		}
		ov[p] = bytes.Replace(cur, []byte(e.Old), []byte(e.New), 1)
	}
	return ov, true, nil
}

type seedResult struct {
	Name     string   `json:"name"`
	Kind     string   `json:"kind"`
	Expect   string   `json:"expect,omitempty"`
	Outcome  string   `json:"outcome"` // caught | missed | silent | false-alarm | skipped | error
	Reported []string `json:"reported,omitempty"`
}

func runSelftest(root, repo, prop string, par int, verbose bool) ([]seedResult, bool) {
	seeds, err := loadSeeds(root, prop)
	if err != nil {
		fmt.Fprintln(os.Stderr, "selftest:", err)
		return nil, false
	}
	exe, _ := os.Executable()
	res := make([]seedResult, len(seeds))
	sem := make(chan struct{}, par)
	var wg sync.WaitGroup
	for i, s := range seeds {
		wg.Add(1)
		go func(i int, s *seed) {
			defer wg.Done()
			sem <- struct{}{}
			defer func() { <-sem }()
			r := seedResult{Name: s.Name, Kind: s.Kind, Expect: s.Expect}
			_, ok, err := overlayFor(repo, s)
			if err != nil {
				r.Outcome = "error"
				res[i] = r
				return
			}
			if !ok {
				r.Outcome = "skipped"
				res[i] = r
				return
			}
			cmd := exec.Command(exe, s.Prop, "--seed-file", s.path, "--seed-name", s.Name)
			cmd.Env = append(os.Environ(), "GOMAXPROCS=4")
			out, _ := cmd.CombinedOutput()
			code := cmd.ProcessState.ExitCode()
			for _, line := range strings.Split(string(out), "\n") {
				if strings.HasPrefix(line, "MUTANT-VIOLATED ") {
					r.Reported = append(r.Reported, strings.TrimPrefix(line, "MUTANT-VIOLATED "))
				}
			}
			switch s.Kind {
			case "refactor":
				if code == 0 && len(r.Reported) == 0 {
					r.Outcome = "silent"
				} else if code == 2 && len(r.Reported) == 0 {
					r.Outcome = "error"
					r.Reported = append(r.Reported, lastLines(string(out), 3))
				} else {
					r.Outcome = "false-alarm"
				}
			default:
				hit := false
				for _, k := range r.Reported {
					if strings.Contains(k, s.Expect) {
						hit = true
					}
				}
				if hit {
					r.Outcome = "caught"
				} else if code == 2 && len(r.Reported) == 0 {
					r.Outcome = "error"
					r.Reported = append(r.Reported, lastLines(string(out), 3))
				} else {
					r.Outcome = "missed"
				}
			}
			res[i] = r
		}(i, s)
	}
	wg.Wait()
	allGood := true
	for _, r := range res {
		good := r.Outcome == "caught" || r.Outcome == "silent" || r.Outcome == "skipped"
		if !good {
			allGood = false
		}
		if verbose {
			fmt.Printf("  %-11s %-8s %-60s %s\n", r.Outcome, r.Kind, r.Name, strings.Join(r.Reported, " "))
		}
	}
	return res, allGood
}

func lastLines(s string, n int) string {
	ls := strings.Split(strings.TrimSpace(s), "\n")
	if len(ls) > n {
		ls = ls[len(ls)-n:]
	}
	return strings.Join(ls, " | ")
}

func seedByName(root, file, name string) (*seed, error) {
	b, err := os.ReadFile(file)
	if err != nil {
		return nil, err
	}
	var ss []*seed
	if err := json.Unmarshal(b, &ss); err != nil {
		var one seed
		if err2 := json.Unmarshal(b, &one); err2 != nil {
			return nil, err
		}
		ss = []*seed{&one}
	}
	for _, s := range ss {
		if s.Name == name {
			return s, nil
		}
	}
	return nil, fmt.Errorf("seed %q not in %s", name, file)
}
