package main

// Plumbing shared by every property: loading the current tree, the obligation
// ledger, the known-findings file, evidence and verdict.

import (
	"crypto/sha1"
	"encoding/json"
	"fmt"
	"go/ast"
	"go/token"
	"go/types"
	"os"
	"path/filepath"
	"sort"
	"strings"
	"time"

	"golang.org/x/tools/go/packages"
	"golang.org/x/tools/go/ssa"
	"golang.org/x/tools/go/ssa/ssautil"
)

const modPath = "github.com/ARM-software/golang-utils/utils"

// Status of one obligation.
const (
	stOK        = "ok"
	stViolated  = "violated"
	stUndecided = "undecided"
	stInfo      = "info"
)

type Obligation struct {
	Key    string `json:"key"`
	Rule   string `json:"rule"`
	Pos    string `json:"pos"`
	Status string `json:"status"`
	Detail string `json:"detail,omitempty"`
}

type RuleInfo struct {
	ID    string `json:"id"`
	Text  string `json:"text"`
	Floor int    `json:"floor"`
	Count int    `json:"count"`
}

type Ctx struct {
	Prop    string
	Tier    string
	Seed    int64
	Repo    string // module dir (…/utils)
	Root    string // /verif
	GOOS    string
	GOARCH  string
	Fset    *token.FileSet
	Pkgs    []*packages.Package
	ByPath  map[string]*packages.Package
	Prog    *ssa.Program
	SSAPkgs map[string]*ssa.Package

	Obls        []Obligation
	Rules       []*RuleInfo
	rulesByID   map[string]*RuleInfo
	keyCount    map[string]int
	ruleAlias   map[string]string // rule id used by a shared rule function → rule id of the property being checked
	Assumptions []string
	Extra       map[string]any
	FuncsSeen   map[string]bool
	fatal       []string
}

// ---------------------------------------------------------------------------
// loading

type loadOpts struct {
	goos, goarch string
	overlay      map[string][]byte
	patterns     []string
}

func load(repo string, o loadOpts) (*Ctx, error) {
	env := os.Environ()
	if o.goos != "" {
		env = append(env, "GOOS="+o.goos)
	}
	if o.goarch != "" {
		env = append(env, "GOARCH="+o.goarch, "CGO_ENABLED=0")
	}
	pats := o.patterns
	if len(pats) == 0 {
		pats = []string{"./..."}
	}
	cfg := &packages.Config{
		Mode:    packages.LoadAllSyntax,
		Dir:     repo,
		Env:     env,
		Overlay: o.overlay,
		Tests:   false,
	}
	pkgs, err := packages.Load(cfg, pats...)
	if err != nil {
		return nil, fmt.Errorf("packages.Load: %w", err)
	}
	if len(pkgs) == 0 {
		return nil, fmt.Errorf("no packages loaded from %s", repo)
	}
	c := &Ctx{Repo: repo, GOOS: o.goos, GOARCH: o.goarch,
		ByPath: map[string]*packages.Package{}, SSAPkgs: map[string]*ssa.Package{},
		rulesByID: map[string]*RuleInfo{}, keyCount: map[string]int{}, Extra: map[string]any{},
		FuncsSeen: map[string]bool{}}
	c.Pkgs = pkgs
	c.Fset = pkgs[0].Fset
	var terrs []string
	for _, p := range pkgs {
		c.ByPath[p.PkgPath] = p
		for _, e := range p.Errors {
			terrs = append(terrs, p.PkgPath+": "+e.Error())
		}
	}
	if len(terrs) > 0 {
		return nil, fmt.Errorf("load/type errors in the tree under analysis:\n  %s", strings.Join(terrs, "\n  "))
	}
	prog, spkgs := ssautil.AllPackages(pkgs, ssa.InstantiateGenerics|ssa.BareInits)
	prog.Build()
	c.Prog = prog
	for i, sp := range spkgs {
		if sp != nil {
			c.SSAPkgs[pkgs[i].PkgPath] = sp
		}
	}
	return c, nil
}

// ---------------------------------------------------------------------------
// anchors

func (c *Ctx) fatalf(format string, a ...any) {
	c.fatal = append(c.fatal, fmt.Sprintf(format, a...))
}

func (c *Ctx) pkg(rel string) *ssa.Package {
	p := c.SSAPkgs[modPath+"/"+rel]
	if p == nil {
		c.fatalf("anchor: package %s not found", rel)
	}
	return p
}

func (c *Ctx) tpkg(rel string) *packages.Package {
	p := c.ByPath[modPath+"/"+rel]
	if p == nil {
		c.fatalf("anchor: package %s not found", rel)
	}
	return p
}

// fn resolves "Name" (package function) or "(*T).m" / "T.m" in package rel.
func (c *Ctx) fn(rel, name string) *ssa.Function {
	f := c.fnOpt(rel, name)
	if f == nil {
		c.fatalf("anchor: function %s.%s not found (renamed or removed?)", rel, name)
	}
	return f
}

func (c *Ctx) fnOpt(rel, name string) *ssa.Function {
	p := c.SSAPkgs[modPath+"/"+rel]
	if p == nil {
		return nil
	}
	if !strings.HasPrefix(name, "(") && !strings.Contains(name, ".") {
		return p.Func(name)
	}
	ptr := false
	s := name
	if strings.HasPrefix(s, "(*") {
		ptr = true
		s = s[2:]
	} else if strings.HasPrefix(s, "(") {
		s = s[1:]
	}
	i := strings.Index(s, ".")
	tn := strings.TrimSuffix(s[:i], ")")
	mn := s[i+1:]
	obj := p.Pkg.Scope().Lookup(tn)
	if obj == nil {
		return nil
	}
	var t types.Type = obj.Type()
	if ptr {
		t = types.NewPointer(t)
	}
	sel := c.Prog.MethodSets.MethodSet(t).Lookup(p.Pkg, mn)
	if sel == nil {
		// try pointer anyway
		sel = c.Prog.MethodSets.MethodSet(types.NewPointer(obj.Type())).Lookup(p.Pkg, mn)
		if sel == nil {
			return nil
		}
	}
	return c.Prog.MethodValue(sel)
}

// srcFuncs returns every source-level function (incl. methods and anonymous
// functions) of package rel, excluding generated files.
func (c *Ctx) srcFuncs(rel string) []*ssa.Function {
	p := c.pkg(rel)
	if p == nil {
		return nil
	}
	var out []*ssa.Function
	seen := map[*ssa.Function]bool{}
	var add func(f *ssa.Function)
	add = func(f *ssa.Function) {
		if f == nil || seen[f] || f.Blocks == nil || f.Synthetic != "" {
			return
		}
		seen[f] = true
		if c.isGenerated(f) {
			return
		}
		out = append(out, f)
		for _, a := range f.AnonFuncs {
			add(a)
		}
	}
	for _, m := range p.Members {
		switch m := m.(type) {
		case *ssa.Function:
			add(m)
		case *ssa.Type:
			for _, t := range []types.Type{m.Type(), types.NewPointer(m.Type())} {
				ms := c.Prog.MethodSets.MethodSet(t)
				for i := 0; i < ms.Len(); i++ {
					f := c.Prog.MethodValue(ms.At(i))
					if f != nil && f.Pkg == p {
						add(f)
					}
				}
			}
		}
	}
	sort.Slice(out, func(i, j int) bool { return out[i].Pos() < out[j].Pos() })
	return out
}

func (c *Ctx) isGenerated(f *ssa.Function) bool {
	if !f.Pos().IsValid() {
		return false
	}
	fn := c.Fset.Position(f.Pos()).Filename
	b := filepath.Base(fn)
	return strings.HasSuffix(b, "_enumer.go") || strings.Contains(fn, "/mocks/") || strings.HasSuffix(b, "_test.go")
}

func (c *Ctx) pos(p token.Pos) string {
	if !p.IsValid() {
		return "-"
	}
	q := c.Fset.Position(p)
	rel, err := filepath.Rel(filepath.Dir(c.Repo), q.Filename)
	if err != nil || strings.HasPrefix(rel, "..") {
		rel = q.Filename
	}
	return fmt.Sprintf("%s:%d", rel, q.Line)
}

// instrPos gives the best position available for an instruction.
func (c *Ctx) ipos(i ssa.Instruction) string {
	if i == nil {
		return "-"
	}
	p := i.Pos()
	if !p.IsValid() {
		if v, ok := i.(ssa.Value); ok {
			_ = v
		}
		// fall back to the closest positioned instruction in the block, then function
		b := i.Block()
		if b != nil {
			for _, j := range b.Instrs {
				if j.Pos().IsValid() {
					p = j.Pos()
					break
				}
			}
		}
		if !p.IsValid() && i.Parent() != nil {
			p = i.Parent().Pos()
		}
	}
	return c.pos(p)
}

func fname(f *ssa.Function) string {
	if f == nil {
		return "?"
	}
	s := f.RelString(f.Pkg.Pkg)
	if f.Pkg != nil {
		return shortPkg(f.Pkg.Pkg.Path()) + "." + s
	}
	return s
}

func shortPkg(p string) string {
	return strings.TrimPrefix(p, modPath+"/")
}

// ---------------------------------------------------------------------------
// rules and obligations

func (c *Ctx) rule(id, text string, floor int) *RuleInfo {
	if r, ok := c.rulesByID[id]; ok {
		return r
	}
	r := &RuleInfo{ID: id, Text: text, Floor: floor}
	c.rulesByID[id] = r
	c.Rules = append(c.Rules, r)
	return r
}

func (c *Ctx) add(rule, key, pos, status, detail string) {
	// a rule function shared with another property reports under the id that property gave it
	if a, ok := c.ruleAlias[rule]; ok {
		rule = a
	}
	r := c.rulesByID[rule]
	if r == nil {
		panic("unknown rule " + rule)
	}
	full := c.Prop + "/" + rule + "/" + key
	c.keyCount[full]++
	if n := c.keyCount[full]; n > 1 {
		full = fmt.Sprintf("%s#%d", full, n)
	}
	if status != stInfo {
		r.Count++
	}
	c.Obls = append(c.Obls, Obligation{Key: full, Rule: rule, Pos: pos, Status: status, Detail: detail})
}

func (c *Ctx) ok(rule, key, pos, detail string)        { c.add(rule, key, pos, stOK, detail) }
func (c *Ctx) violate(rule, key, pos, detail string)   { c.add(rule, key, pos, stViolated, detail) }
func (c *Ctx) undecided(rule, key, pos, detail string) { c.add(rule, key, pos, stUndecided, detail) }
func (c *Ctx) info(rule, key, pos, detail string)      { c.add(rule, key, pos, stInfo, detail) }

// check is shorthand: ok if cond else violate.
func (c *Ctx) check(cond bool, rule, key, pos, okDetail, badDetail string) {
	if cond {
		c.ok(rule, key, pos, okDetail)
	} else {
		c.violate(rule, key, pos, badDetail)
	}
}

// ---------------------------------------------------------------------------
// known findings

type KnownFinding struct {
	Property  string `json:"property"`
	Key       string `json:"key"`
	Status    string `json:"status"` // open | fixed
	Commit    string `json:"commit,omitempty"`
	WhatFails string `json:"what_fails"`
	Demo      string `json:"demo,omitempty"`
	Tag       string `json:"tag,omitempty"`
}

func loadKnown(root string) ([]KnownFinding, error) {
	b, err := os.ReadFile(filepath.Join(root, "known_findings.json"))
	if err != nil {
		if os.IsNotExist(err) {
			return nil, nil
		}
		return nil, err
	}
	var k struct {
		Findings []KnownFinding `json:"findings"`
	}
	if err := json.Unmarshal(b, &k); err != nil {
		return nil, err
	}
	return k.Findings, nil
}

// ---------------------------------------------------------------------------
// verdict and evidence

type runMeta struct {
	start       time.Time
	configs     []string
	selfval     any
	level       string
	checkerCmd  string
	trustedBase []string
	explanation string
	only        string
	quiet       bool
}

// finishMutant: self-validation child; prints violated keys, writes nothing.
func finishMutant(c *Ctx) int {
	if len(c.fatal) > 0 {
		for _, f := range c.fatal {
			fmt.Fprintln(os.Stderr, "ANALYSIS-ERROR:", f)
		}
		return 2
	}
	known, _ := loadKnown(c.Root)
	open := map[string]bool{}
	for _, k := range known {
		if k.Property == c.Prop && k.Status == "open" {
			open[k.Key] = true
		}
	}
	exit := 0
	for _, o := range c.Obls {
		if o.Status == stViolated && !open[o.Key] {
			fmt.Printf("MUTANT-VIOLATED %s\n", o.Key)
			exit = 1
		}
		if o.Status == stUndecided {
			fmt.Printf("MUTANT-UNDECIDED %s\n", o.Key)
			if exit == 0 {
				exit = 2
			}
		}
	}
	for _, r := range c.Rules {
		if r.Count < r.Floor {
			fmt.Printf("MUTANT-FLOOR %s\n", r.ID)
			if exit == 0 {
				exit = 2
			}
		}
	}
	return exit
}

func finish(c *Ctx, m *runMeta) int {
	if len(c.fatal) > 0 {
		for _, f := range c.fatal {
			fmt.Fprintln(os.Stderr, "ANALYSIS-ERROR:", f)
		}
		return 2
	}
	known, err := loadKnown(c.Root)
	if err != nil {
		fmt.Fprintln(os.Stderr, "ANALYSIS-ERROR: known_findings.json:", err)
		return 2
	}
	open := map[string]KnownFinding{}
	for _, k := range known {
		if k.Property == c.Prop && k.Status == "open" {
			open[k.Key] = k
		}
	}
	sort.SliceStable(c.Obls, func(i, j int) bool { return c.Obls[i].Key < c.Obls[j].Key })
	var nOK, nViol, nKnown, nUndec int
	exit := 0
	distinct := map[string]bool{}
	var viol []Obligation
	printedKnown := map[string]bool{}
	for i := range c.Obls {
		o := &c.Obls[i]
		if m.only != "" && o.Key != m.only {
			continue
		}
		switch o.Status {
		case stOK:
			nOK++
			distinct[o.Key] = true
		case stViolated:
			distinct[o.Key] = true
			// the same construct seen under another build configuration (key@goos/goarch) is the same finding
			base := o.Key
			if i := strings.LastIndex(base, "@"); i > 0 && strings.Contains(base[i:], "/") && !strings.Contains(base[i:], " ") {
				base = base[:i]
			}
			if k, ok := open[base]; ok {
				nKnown++
				if !printedKnown[base] {
					printedKnown[base] = true
					fmt.Printf("KNOWN-FINDING: property=%s %s [%s at %s]\n", c.Prop, k.WhatFails, base, o.Pos)
				}
				o.Status = "known-finding"
				continue
			}
			nViol++
			viol = append(viol, *o)
		case stUndecided:
			nUndec++
			viol = append(viol, *o)
		}
	}
	// floors
	var floorFail []string
	if m.only == "" {
		for _, r := range c.Rules {
			if r.Count < r.Floor {
				floorFail = append(floorFail, fmt.Sprintf("rule %s matched %d instance(s), fewer than the %d confirmed by hand: the rule no longer sees the code it was written for", r.ID, r.Count, r.Floor))
			}
		}
	}
	_ = os.MkdirAll(filepath.Join(c.Root, "replays"), 0o755)
	for _, o := range viol {
		h := sha1.Sum([]byte(o.Key))
		rp := filepath.Join(c.Root, "replays", fmt.Sprintf("%s-%x.json", c.Prop, h[:6]))
		b, _ := json.MarshalIndent(map[string]any{"property": c.Prop, "key": o.Key, "rule": o.Rule, "rule_text": c.rulesByID[o.Rule].Text,
			"pos": o.Pos, "status": o.Status, "detail": o.Detail, "goos": c.GOOS, "goarch": c.GOARCH}, "", " ")
		_ = os.WriteFile(rp, b, 0o644)
		if o.Status == stUndecided {
			fmt.Printf("UNDECIDED property=%s rule=%s at %s: %s [%s]\n", c.Prop, o.Rule, o.Pos, o.Detail, o.Key)
			if exit == 0 {
				exit = 2
			}
		} else {
			fmt.Printf("%s: %s: %s [%s]\n", o.Pos, o.Rule, o.Detail, o.Key)
			fmt.Printf("VIOLATION property=%s replay=%s\n", c.Prop, rp)
			exit = 1
		}
	}
	for _, f := range floorFail {
		fmt.Fprintln(os.Stderr, "ANALYSIS-ERROR:", f)
		if exit == 0 {
			exit = 2
		}
	}

	// evidence
	samples := []any{}
	perRule := map[string]int{}
	for _, o := range c.Obls {
		if o.Status == stInfo {
			continue
		}
		if perRule[o.Rule] < 8 || o.Status != stOK {
			if len(samples) < 80 {
				samples = append(samples, o)
			}
		}
		perRule[o.Rule]++
	}
	var infos []Obligation
	for _, o := range c.Obls {
		if o.Status == stInfo && len(infos) < 40 {
			infos = append(infos, o)
		}
	}
	ruleTexts := []string{}
	ruleIDs := []string{}
	for _, r := range c.Rules {
		ruleTexts = append(ruleTexts, r.ID+": "+r.Text)
		ruleIDs = append(ruleIDs, r.ID)
	}
	nfun := len(c.FuncsSeen)
	total := nOK + nViol + nKnown + nUndec
	cov := map[string]any{
		"explanation":         m.explanation + " — Rules applied in this run (one line each under coverage.rules, with the number of instances found and the floor confirmed by hand): " + strings.Join(ruleIDs, ", ") + ".",
		"rule":                "obligations are enumerated from the type-checked SSA program of /repo/utils (all packages of ./...); one obligation per rule instance (call site, path, field, table cell); distinct = distinct obligation keys (rule/function/construct)",
		"rules":               c.Rules,
		"obligations":         total,
		"discharged":          nOK,
		"known_findings":      nKnown,
		"violated":            nViol,
		"undecided":           nUndec,
		"evaluations":         total,
		"distinct_nontrivial": len(distinct),
		"samples":             samples,
		"packages_loaded":     len(c.Pkgs),
		"functions_analysed":  nfun,
		"build_configs":       m.configs,
		"exhaustive":          true,
	}
	if len(infos) > 0 {
		cov["information"] = infos
	}
	if m.selfval != nil {
		cov["self_validation"] = m.selfval
	}
	if m.checkerCmd != "" {
		cov["checker_cmd"] = m.checkerCmd
		cov["trusted_base"] = m.trustedBase
	}
	for k, v := range c.Extra {
		cov[k] = v
	}
	ev := map[string]any{
		"property_id": c.Prop,
		"tier":        c.Tier,
		"seed":        c.Seed,
		"level":       m.level,
		"coverage":    cov,
		"assumptions": c.Assumptions,
		"wall_s":      time.Since(m.start).Seconds(),
		"violations":  nViol,
	}
	evDir := filepath.Join(c.Root, "evidence")
	if d := os.Getenv("GUCHECK_EVIDENCE_DIR"); d != "" {
		evDir = d // the seeded-change tools check a deliberately broken tree: its evidence must not replace the tree's own
	}
	_ = os.MkdirAll(evDir, 0o755)
	b, _ := json.MarshalIndent(ev, "", " ")
	if err := os.WriteFile(filepath.Join(evDir, c.Prop+".json"), b, 0o644); err != nil {
		fmt.Fprintln(os.Stderr, "ANALYSIS-ERROR: cannot write evidence:", err)
		return 2
	}
	if !m.quiet {
		fmt.Printf("%s %s: %d obligation(s): %d ok, %d violated, %d known finding(s), %d undecided; %d function(s) in %d package(s) [%s]\n",
			c.Prop, c.Tier, total, nOK, nViol, nKnown, nUndec, nfun, len(c.Pkgs), strings.Join(m.configs, ","))
	}
	return exit
}

// ---------------------------------------------------------------------------
// small AST helpers

func (c *Ctx) fileOf(p *packages.Package, pos token.Pos) *ast.File {
	for _, f := range p.Syntax {
		if f.Pos() <= pos && pos <= f.End() {
			return f
		}
	}
	return nil
}
