package main

// G8: effect summaries for package filesystem. A *backend access* is a call
// through VFS.vfs (afero.Fs), afero helpers taking it, or a File method; it is
// *mutating* if the primitive is one of the mutating afero calls. FS.m is
// summarised by (*VFS).m.

import (
	"strings"

	"golang.org/x/tools/go/ssa"
)

var aferoMutating = map[string]bool{
	"Create": true, "Mkdir": true, "MkdirAll": true, "Remove": true, "RemoveAll": true, "Rename": true,
	"Chmod": true, "Chown": true, "Chtimes": true, "SymlinkIfPossible": true, "LinkIfPossible": true,
	"ChownIfPossible": true, "ForceRemoveIfPossible": true,
}

type effects struct {
	c         *Ctx
	mutates   map[*ssa.Function]bool // may (transitively) mutate the backend
	accesses  map[*ssa.Function]bool // may (transitively) touch the backend at all
	direct    map[*ssa.Function][]ssa.Instruction
	vfsByName map[string]*ssa.Function
}

// primitiveEffect classifies one instruction: 0 none, 1 access, 2 mutation.
func primitiveEffect(in ssa.Instruction) int {
	cl, ok := in.(*ssa.Call)
	if !ok {
		return 0
	}
	if cl.Call.IsInvoke() {
		recv := cl.Call.Value
		rt := recv.Type().String()
		name := cl.Call.Method.Name()
		if _, isVfs := fieldLoad(recv, "VFS", "vfs"); isVfs || strings.HasSuffix(rt, "afero.Fs") {
			if aferoMutating[name] {
				return 2
			}
			if name == "OpenFile" {
				if flag, isC := constInt(cl.Call.Args[1]); isC && flag&0x3 == 0 && flag&0x40 == 0 && flag&0x200 == 0 {
					return 1
				}
				return 2
			}
			if name == "Name" {
				return 0
			}
			return 1
		}
		// interface assertions on the backend (IChowner, ILinker, IForceRemover…)
		if aferoMutating[name] {
			return 2
		}
		if strings.HasSuffix(rt, "afero.File") || strings.HasSuffix(rt, "filesystem.File") {
			switch name {
			case "Write", "WriteString", "WriteAt", "Truncate", "ReadFrom":
				return 2
			case "Name", "Fd":
				return 0
			}
			return 1
		}
		return 0
	}
	n := calleeFull(&cl.Call)
	switch n {
	case "github.com/spf13/afero.TempDir", "github.com/spf13/afero.TempFile", "github.com/spf13/afero.WriteFile":
		return 2
	case "github.com/spf13/afero.ReadDir", "github.com/spf13/afero.ReadFile", "github.com/spf13/afero.Exists", "github.com/spf13/afero.IsDir":
		return 1
	}
	return 0
}

func (c *Ctx) computeEffects() *effects {
	e := &effects{c: c, mutates: map[*ssa.Function]bool{}, accesses: map[*ssa.Function]bool{}, direct: map[*ssa.Function][]ssa.Instruction{}, vfsByName: map[string]*ssa.Function{}}
	fns := c.srcFuncs(fsPkgRel)
	for _, f := range fns {
		if f.Parent() == nil && f.Signature.Recv() != nil && isVFSPtr(f.Signature.Recv().Type()) {
			e.vfsByName[f.Name()] = f
		}
	}
	for _, f := range fns {
		allInstrs(f, func(in ssa.Instruction) {
			switch primitiveEffect(in) {
			case 2:
				e.mutates[f] = true
				e.accesses[f] = true
				e.direct[f] = append(e.direct[f], in)
			case 1:
				e.accesses[f] = true
			}
		})
	}
	changed := true
	for changed {
		changed = false
		for _, f := range fns {
			for _, g := range e.callees(f) {
				if e.mutates[g] && !e.mutates[f] {
					e.mutates[f] = true
					changed = true
				}
				if e.accesses[g] && !e.accesses[f] {
					e.accesses[f] = true
					changed = true
				}
			}
		}
	}
	return e
}

// callees: static callees inside the package, closures created, and FS/ICloseableFS
// interface invokes summarised by the VFS method of the same name.
func (e *effects) callees(f *ssa.Function) []*ssa.Function {
	var out []*ssa.Function
	allInstrs(f, func(in ssa.Instruction) {
		if g := e.calleeOf(in); g != nil {
			out = append(out, g)
		}
		if mc, ok := in.(*ssa.MakeClosure); ok {
			if g, ok := mc.Fn.(*ssa.Function); ok {
				out = append(out, g)
			}
		}
	})
	return out
}

// calleeOf resolves the package-internal callee of a call instruction.
func (e *effects) calleeOf(in ssa.Instruction) *ssa.Function {
	cc := callCommon(in)
	if cc == nil {
		return nil
	}
	if g := staticCallee(cc); g != nil {
		if inPkg(fsPkgRel)(g) {
			return g
		}
		return nil
	}
	if cc.IsInvoke() {
		rt := cc.Value.Type().String()
		if strings.HasSuffix(rt, "filesystem.FS") || strings.HasSuffix(rt, "filesystem.ICloseableFS") {
			return e.vfsByName[cc.Method.Name()]
		}
	}
	return nil
}

// isMutatingInstr: the instruction mutates the backend itself or calls
// something that may.
func (e *effects) isMutatingInstr(in ssa.Instruction) bool {
	if primitiveEffect(in) == 2 {
		return true
	}
	if _, isDefer := in.(*ssa.Defer); isDefer {
		return false
	}
	if g := e.calleeOf(in); g != nil && e.mutates[g] {
		return true
	}
	return false
}

func (e *effects) isAccessInstr(in ssa.Instruction) bool {
	if primitiveEffect(in) >= 1 {
		return true
	}
	if _, isDefer := in.(*ssa.Defer); isDefer {
		return false
	}
	if g := e.calleeOf(in); g != nil && e.accesses[g] {
		return true
	}
	return false
}
