package main

import (
	"go/token"
	"go/types"
	"sort"
	"strconv"
	"strings"

	"golang.org/x/tools/go/ssa"
)

func init() {
	register(&propCheck{
		id:          "C03",
		level:       "other",
		explanation: "Static necessary conditions of the unzip resource limits: each configured limit is compared at a place where the comparison can bound what it is meant to bound, on every path. All rules are evaluated on the control-flow graph pruned under 'limits apply' (the false successor of every branch on limits.Apply() — and, for depth, on GetMaxDepth() >= 0 — is removed: with NoLimits nothing is promised). (W1) the copy of an entry into the destination is preceded by the comparison of its declared size with GetMaxFileSize() whose failing side is a 'too large' error exit, and the number of bytes copied is that declared size; zip.NewReader is preceded by the archive-size comparison; (W2) in the entry loop every cyclic path that increments the file counter or the byte total also passes the comparison of that counter with GetMaxFileCount()/GetMaxTotalSize(); (W3) the totals returned by the nested extraction are added to the parent's counters, the same limits object is handed down and the depth strictly grows on the recursive cycle; unzip returns the counters' values; (W4) every entry creation in the loop is preceded by the depth comparison; (W6) every way round the loop that creates an entry — the directory of a directory entry, an extracted file — increments the file counter or adds the nested count in that iteration (conditions with identical operands, such as the two evaluations of 'is this name an archive', are taken to agree within an iteration); (W5) lying headers: the copy is bounded by the declared size, so archive/zip only gets to compare the header's size and checksum with the data if the entry's reader is read on afterwards — on every path from the successful copy to a successful return the reader is read once more and the outcome is examined. Decided on SSA; nothing is executed. Not decided: the arithmetic (off-by-one of > vs >=, uint64 wrap), what archive/zip verifies at the end of an entry (library contract), what is on disk when an error is returned.",
		run:         runC03,
		assumptions: []string{
			"safeio.CopyNWithContext writes at most the number of bytes it is given (io.CopyN)",
			"archive/zip reports a checksum/size mismatch between header and data as an error",
		},
	})
}

// pathPruned: like pathAvoiding but from an arbitrary start (nil = entry),
// skipping edges for which prune(b,k) is true.
func pathPruned(f *ssa.Function, from ssa.Instruction, stop, target func(ssa.Instruction) bool, prune func(b *ssa.BasicBlock, k int) bool) ssa.Instruction {
	seen := map[*ssa.BasicBlock]bool{}
	var walk func(b *ssa.BasicBlock, start int) ssa.Instruction
	walk = func(b *ssa.BasicBlock, start int) ssa.Instruction {
		for k := start; k < len(b.Instrs); k++ {
			in := b.Instrs[k]
			if target(in) {
				return in
			}
			if stop(in) {
				return nil
			}
		}
		for k, s := range b.Succs {
			if prune != nil && prune(b, k) {
				continue
			}
			if seen[s] {
				continue
			}
			seen[s] = true
			if r := walk(s, 0); r != nil {
				return r
			}
		}
		return nil
	}
	if from == nil {
		seen[f.Blocks[0]] = true
		return walk(f.Blocks[0], 0)
	}
	return walk(from.Block(), instrIndex(from)+1)
}

func isLimitsGetter(v ssa.Value, name string) bool {
	cl, ok := stripConv(v).(*ssa.Call)
	return ok && cl.Call.IsInvoke() && cl.Call.Method.Name() == name && strings.HasSuffix(cl.Call.Value.Type().String(), "filesystem.ILimits")
}

// pruneLimits: prune the false edge of `if limits.Apply()` (and optionally of
// `limits.GetMaxDepth() >= 0` / `> 0`).
func pruneLimits(depthToo bool) func(b *ssa.BasicBlock, k int) bool {
	return func(b *ssa.BasicBlock, k int) bool {
		ifi, ok := b.Instrs[len(b.Instrs)-1].(*ssa.If)
		if !ok {
			return false
		}
		v, ts := boolTest(ifi)
		if isLimitsGetter(v, "Apply") {
			return k != ts
		}
		// `count <= math.MaxInt64` guards the conversion of an unsigned count; a count above 2^63 is not reachable
		if bo, ok := v.(*ssa.BinOp); ok && bo.Op == token.LEQ {
			if kc, isC := bo.Y.(*ssa.Const); isC && kc.Value != nil && kc.Value.ExactString() == "9223372036854775807" {
				return k != ts
			}
		}
		if depthToo {
			if bo, ok := v.(*ssa.BinOp); ok && (bo.Op == token.GEQ || bo.Op == token.GTR) && isLimitsGetter(bo.X, "GetMaxDepth") {
				if n, isC := constInt(bo.Y); isC && n == 0 {
					return k != ts
				}
			}
		}
		return false
	}
}

// limitCmp: comparison `x > limits.<getter>()` (or the mirrored form).
// Returns the compared value, and the successor index taken when the limit is exceeded.
func limitCmp(ifi *ssa.If, getter string) (x ssa.Value, exceeded int, ok bool) {
	v, ts := boolTest(ifi)
	bo, isB := v.(*ssa.BinOp)
	if !isB {
		return nil, 0, false
	}
	switch {
	case (bo.Op == token.GTR || bo.Op == token.GEQ) && isLimitsGetter(bo.Y, getter):
		return bo.X, ts, true
	case (bo.Op == token.LSS || bo.Op == token.LEQ) && isLimitsGetter(bo.X, getter):
		return bo.Y, ts, true
	}
	return nil, 0, false
}

// errorKindOnEdge: all returns reachable from block b are error exits whose
// error is built with kind `kind`.
func (c *Ctx) errorKindOnEdge(f *ssa.Function, b *ssa.BasicBlock, kind string) (bool, string) {
	okAll := true
	why := ""
	n := 0
	// only follow until the first return on each path (the failing side returns straight away)
	visitReturnsFrom(b, func(r *ssa.Return) {
		n++
		k := len(r.Results) - 1
		good := false
		for _, l := range sources(r.Results[k], deriveOpts{}) {
			if cl, ok := l.(*ssa.Call); ok && strings.HasPrefix(calleeFull(&cl.Call), modPath+"/commonerrors.New") && isGlobalLoad(cl.Call.Args[0], kind) {
				good = true
			}
			if cl, ok := l.(*ssa.Call); ok && calleeFull(&cl.Call) == "fmt.Errorf" {
				for _, e := range variadicElems(cl.Call.Args[1]) {
					if isGlobalLoad(e, kind) {
						good = true
					}
				}
			}
		}
		if !good {
			okAll = false
			why = "return at " + c.ipos(r) + " on the exceeded side does not yield an error of kind " + kind
		}
	})
	return okAll && n > 0, why
}

func runC03(c *Ctx) {
	c.tooLargeIsDecidedByTheLimits("W12")
	c.depthCountsEveryElement()
	c.rule("W1", "per-file bound precedes the write (declared size vs GetMaxFileSize, 'too large' on the failing side, bytes copied = declared size); archive size checked before zip.NewReader", 2)
	c.rule("W5", "an archive whose headers contradict its data is refused: after the bounded copy of an entry its reader is read on (the zip reader compares size and checksum with the header only at the end of the entry), and an error or a surplus byte is an error exit, on every path to a successful return", 1)
	c.rule("W6", "every way round the entry loop that creates an entry (the directory of a directory entry, an extracted file) increments the file counter — or adds the nested extraction's count — in that same iteration; branch conditions with identical operands are taken to agree within one iteration", 2)
	c.rule("W2", "every cyclic path of the entry loop that increments a running total passes that total's comparison with its limit", 3)
	c.rule("W3", "nested totals are added to the parent's counters; the same limits and a strictly larger depth go down the recursion; unzip returns its counters", 4)
	c.rule("W4", "every entry creation in the loop (and the opening of the archive) is preceded by the depth comparison", 3)

	unzip := c.fn(fsPkgRel, "(*VFS).unzip")
	uzf := c.fn(fsPkgRel, "(*VFS).unzipZippedFile")
	nested := c.fn(fsPkgRel, "(*VFS).unzipNestedZipFiles")
	nzr := c.fn(fsPkgRel, "newZipReader")
	if unzip == nil || uzf == nil || nested == nil || nzr == nil {
		return
	}
	for _, f := range []*ssa.Function{unzip, uzf, nested, nzr} {
		c.FuncsSeen[fname(f)] = true
	}

	// ---- W7 -----------------------------------------------------------------
	// "An extraction that reports success has left on disk no more than …": the accounting leaves out what a later step is
	// meant to remove (a nested archive once extracted) or refuse. A failure of such a step that is assigned to a variable
	// nothing reads — a shadow of the error result, a value overwritten by the next call — lets the extraction report
	// success with the uncounted remains on disk.
	c.rule("W7", "in the extraction functions an error assigned to a variable is read before the variable is overwritten or goes out of scope", 20)
	for _, f := range []*ssa.Function{unzip, uzf, nested, nzr} {
		withAnon(f, func(g *ssa.Function) { c.errOverwrittenRule("W7", g) })
	}

	// ---- W8 -----------------------------------------------------------------
	// W1 bounds the write of an entry by the size its header declares, handed to safeio.CopyNWithContext. That helper
	// writes at most the number of bytes it is given — for every value of that number, a negative one included (a zip64
	// header may declare 2^63 or more, which reads as a negative int64): no path of it turns into an unbounded copy.
	c.rule("W8", "safeio.CopyNWithContext copies through io.CopyN with the count it was given on every path: no unbounded copy (io.Copy, CopyDataWithContext) is reachable in it, whatever the count", 1)
	c.copyNBounded("W8")
	c.c03EntriesAreWrittenFromScratch()
	// W9: the limits apply whichever variant of the extraction is called
	c.rule("W9", "every variant of the extraction (package-level function, method, with or without context) that is a one-line forwarder hands each of its parameters — the limits among them — to the call it forwards to, exactly once", 5)
	c.forwardersKeepTheirArguments("W9", []string{fsPkgRel}, func(f *ssa.Function) bool { return strings.Contains(f.Name(), "nzip") },
		"that variant of the extraction runs without what the caller gave it — called through it, an archive over the limits is extracted in full and reported as a success, nested archives are not expanded and no depth applies")

	// ---- W1 -----------------------------------------------------------------
	c.c03Guarded(uzf, "W1", "GetMaxFileSize", false, func(in ssa.Instruction) bool {
		cl, ok := in.(*ssa.Call)
		if !ok {
			return false
		}
		n := calleeFull(&cl.Call)
		if n == "io.Copy" || n == "io.CopyN" {
			// draining into io.Discard writes nothing
			return !isGlobalLoad(cl.Call.Args[0], "Discard")
		}
		return strings.HasSuffix(n, "safeio.CopyNWithContext") || strings.HasSuffix(n, "safeio.CopyDataWithContext")
	}, "copy into the destination", true)
	c.c03Guarded(nzr, "W1", "GetMaxFileSize", false, func(in ssa.Instruction) bool {
		cl, ok := in.(*ssa.Call)
		return ok && calleeFull(&cl.Call) == "archive/zip.NewReader"
	}, "zip.NewReader", false)

	c.c03EndOfEntry(uzf)

	// ---- W2 -----------------------------------------------------------------
	c.c03Totals(unzip)

	// ---- W2b: the bytes of every extracted entry reach the running total
	c.c03Accounted(unzip, uzf)

	// ---- W6: every entry created is counted
	c.c03Counted(unzip, uzf)

	// ---- W3 -----------------------------------------------------------------
	c.c03Nested(unzip, nested)

	// ---- W4 -----------------------------------------------------------------
	c.c03Guarded(unzip, "W4", "GetMaxDepth", true, func(in ssa.Instruction) bool {
		if !inLoop(in) {
			return false
		}
		name, _, ok := fsMethodCall(in)
		if ok && (name == "MkDir" || name == "MkDirAll" || name == "OpenFile" || name == "CreateFile") {
			return true
		}
		cl, isCall := in.(*ssa.Call)
		return isCall && staticCallee(&cl.Call) == uzf
	}, "entry creation", false)
	c.c03Guarded(nzr, "W4", "GetMaxDepth", true, func(in ssa.Instruction) bool {
		cl, ok := in.(*ssa.Call)
		return ok && cl.Call.IsInvoke() && cl.Call.Method.Name() == "GenericOpen"
	}, "opening of the archive", false)
}

// c03Guarded: every instruction matched by sink is, on the pruned graph,
// preceded on every path from the entry by a comparison with limits.<getter>()
// whose exceeded side is a 'too large' error exit.
func (c *Ctx) c03Guarded(f *ssa.Function, rule, getter string, depth bool, sink func(ssa.Instruction) bool, what string, checkCount bool) {
	var cmps []*ssa.If
	exceeded := map[*ssa.If]int{}
	compared := map[*ssa.If]ssa.Value{}
	for _, b := range f.Blocks {
		if ifi, ok := b.Instrs[len(b.Instrs)-1].(*ssa.If); ok {
			if x, ex, ok := limitCmp(ifi, getter); ok {
				cmps = append(cmps, ifi)
				exceeded[ifi] = ex
				compared[ifi] = x
			}
		}
	}
	var sinks []ssa.Instruction
	allInstrs(f, func(in ssa.Instruction) {
		if sink(in) {
			sinks = append(sinks, in)
		}
	})
	if len(sinks) == 0 {
		c.fatalf("C03/%s: no %s found in %s — anchor lost", rule, what, fname(f))
		return
	}
	prune := pruneLimits(depth)
	for _, s := range sinks {
		key := fname(f) + "/" + getter + "→" + what
		if len(cmps) == 0 {
			c.violate(rule, key, c.ipos(s), "no comparison with limits."+getter+"() precedes the "+what+": the limit is not enforced")
			continue
		}
		isCmp := func(in ssa.Instruction) bool {
			for _, ci := range cmps {
				if in == ssa.Instruction(ci) {
					return true
				}
			}
			return false
		}
		// reachable from entry without passing a comparison?
		esc := pathPruned(f, nil, isCmp, func(in ssa.Instruction) bool { return in == s }, prune)
		if esc != nil {
			c.violate(rule, key, c.ipos(s), "the "+what+" can be reached, with limits applied, without the comparison with limits."+getter+"() having been made")
			continue
		}
		// the exceeded side of (each) comparison does not reach the sink and returns 'too large'
		good := true
		why := ""
		for _, ci := range cmps {
			ex := ci.Block().Succs[exceeded[ci]]
			reaches := false
			visitBlocksFrom(ex, func(b *ssa.BasicBlock) {
				if b == s.Block() && !(ci.Block() == s.Block()) {
					// the sink's block reachable from the exceeded side
					reaches = true
				}
			})
			if reaches && !inLoopBack(ex, s.Block(), ci.Block()) {
				good, why = false, "the side on which the limit is exceeded still reaches the "+what
			}
			if ok, w := c.errorKindOnEdge(f, ex, "ErrTooLarge"); !ok && !reaches {
				good, why = false, w
			}
		}
		if good && checkCount {
			// bytes copied = the compared (declared) size
			cl := s.(*ssa.Call)
			nArg := cl.Call.Args[len(cl.Call.Args)-1]
			same := false
			for _, ci := range cmps {
				if sameValue(nArg, compared[ci]) || nArg == compared[ci] {
					same = true
				}
				for _, l := range sources(nArg, deriveOpts{}) {
					for _, m := range sources(compared[ci], deriveOpts{}) {
						if l == m {
							same = true
						}
					}
				}
			}
			if strings.HasSuffix(calleeFull(&cl.Call), "CopyDataWithContext") || calleeFull(&cl.Call) == "io.Copy" {
				good, why = false, "the entry is copied without a byte bound: more than the declared (and checked) size can be written"
			} else if !same {
				good, why = false, "the number of bytes copied is not the declared size that was compared with the limit"
			}
		}
		c.check(good, rule, key, c.ipos(s), "preceded by the "+getter+" comparison; exceeded side is a 'too large' exit", why)
	}
}

func visitBlocksFrom(b *ssa.BasicBlock, fn func(*ssa.BasicBlock)) {
	seen := map[*ssa.BasicBlock]bool{b: true}
	stack := []*ssa.BasicBlock{b}
	for len(stack) > 0 {
		x := stack[len(stack)-1]
		stack = stack[:len(stack)-1]
		fn(x)
		for _, s := range x.Succs {
			if !seen[s] {
				seen[s] = true
				stack = append(stack, s)
			}
		}
	}
}

// inLoopBack: reaching `to` from `from` is only possible by going round the
// loop through `via` again (i.e. every path passes via).
func inLoopBack(from, to, via *ssa.BasicBlock) bool {
	seen := map[*ssa.BasicBlock]bool{from: true}
	stack := []*ssa.BasicBlock{from}
	for len(stack) > 0 {
		x := stack[len(stack)-1]
		stack = stack[:len(stack)-1]
		if x == to {
			return false
		}
		if x == via {
			continue
		}
		for _, s := range x.Succs {
			if !seen[s] {
				seen[s] = true
				stack = append(stack, s)
			}
		}
	}
	return true
}

// counterOf: the atomic counter object (result of atomic.NewUint64) a method
// call operates on.
func counterOf(cc *ssa.CallCommon) (ssa.Value, string) {
	n := calleeFull(cc)
	for _, m := range []string{"Inc", "Add", "Load", "Store", "Dec", "Sub"} {
		if strings.HasSuffix(n, "atomic.Uint64)."+m) || strings.HasSuffix(n, "atomic.Int64)."+m) || strings.HasSuffix(n, "atomic.Uint32)."+m) {
			return resolveValue(cc.Args[0]), m
		}
	}
	return nil, ""
}

func (c *Ctx) c03Totals(unzip *ssa.Function) {
	// counters and their limit getters
	type cinfo struct {
		getter string
		cmps   []*ssa.If
		incs   []*ssa.Call
	}
	counters := map[ssa.Value]*cinfo{}
	var order []ssa.Value
	get := func(v ssa.Value) *cinfo {
		if ci, ok := counters[v]; ok {
			return ci
		}
		ci := &cinfo{}
		counters[v] = ci
		order = append(order, v)
		return ci
	}
	allInstrs(unzip, func(in ssa.Instruction) {
		cl, ok := in.(*ssa.Call)
		if !ok {
			return
		}
		if cnt, m := counterOf(&cl.Call); cnt != nil && (m == "Inc" || m == "Add") && inLoop(cl) {
			ci := get(cnt)
			ci.incs = append(ci.incs, cl)
		}
	})
	for _, b := range unzip.Blocks {
		ifi, ok := b.Instrs[len(b.Instrs)-1].(*ssa.If)
		if !ok {
			continue
		}
		for _, g := range []string{"GetMaxFileCount", "GetMaxTotalSize"} {
			x, _, ok := limitCmp(ifi, g)
			if !ok {
				continue
			}
			for _, l := range sources(x, deriveOpts{through: func(n string) bool { return strings.Contains(n, "/safecast.") }}) {
				if cl, ok := l.(*ssa.Call); ok {
					if cnt, m := counterOf(&cl.Call); cnt != nil && m == "Load" {
						ci := get(cnt)
						ci.getter = g
						ci.cmps = append(ci.cmps, ifi)
					}
				}
			}
		}
	}
	if len(order) < 2 {
		c.violate("W2", fname(unzip)+"/counters", c.pos(unzip.Pos()), "the entry loop no longer keeps both running totals (file count and bytes on disk)")
	}
	prune := pruneLimits(false)
	for _, cnt := range order {
		ci := counters[cnt]
		name := ci.getter
		if name == "" {
			name = "unknown-limit"
		}
		for _, inc := range ci.incs {
			key := fname(unzip) + "/" + name + "/after-" + strings.ToLower(short(inc.Call.Value.Name()))
			if len(ci.cmps) == 0 {
				c.violate("W2", key, c.ipos(inc), "this running total is incremented in the loop but never compared with a limit")
				continue
			}
			isCmp := func(in ssa.Instruction) bool {
				for _, x := range ci.cmps {
					if in == ssa.Instruction(x) {
						return true
					}
				}
				return false
			}
			// loop header: the block that dominates inc's block and is the target of a back edge from a block reachable from inc
			hdr := loopHeaderOf(inc)
			if hdr == nil {
				c.undecided("W2", key, c.ipos(inc), "cannot determine the loop this increment belongs to")
				continue
			}
			esc := pathPruned(unzip, inc, isCmp, func(in ssa.Instruction) bool { return in.Block() == hdr && in == hdr.Instrs[0] }, prune)
			if esc != nil {
				c.violate("W2", key, c.ipos(inc), "after this increment the loop can move on to the next entry (and finally report success) without comparing the total with limits."+ci.getter+"(): entries taking this path are not bounded by the limit")
				continue
			}
			okKind := true
			why := ""
			for _, x := range ci.cmps {
				_, ex, _ := limitCmp(x, ci.getter)
				if ok, w := c.errorKindOnEdge(unzip, x.Block().Succs[ex], "ErrTooLarge"); !ok {
					okKind, why = false, w
				}
			}
			c.check(okKind, "W2", key, c.ipos(inc), "every way round the loop passes the "+ci.getter+" comparison; exceeded side is a 'too large' exit", why)
		}
	}
}

// loopHeaderOf: innermost loop header whose natural loop contains in.
func loopHeaderOf(in ssa.Instruction) *ssa.BasicBlock {
	b := in.Block()
	var best *ssa.BasicBlock
	for _, h := range b.Parent().Blocks {
		if !h.Dominates(b) {
			continue
		}
		isHdr := false
		for _, p := range h.Preds {
			if h.Dominates(p) {
				// b must reach p without leaving through h
				seen := map[*ssa.BasicBlock]bool{b: true}
				stack := []*ssa.BasicBlock{b}
				for len(stack) > 0 {
					x := stack[len(stack)-1]
					stack = stack[:len(stack)-1]
					if x == p {
						isHdr = true
						break
					}
					for _, s := range x.Succs {
						if !seen[s] && s != h {
							seen[s] = true
							stack = append(stack, s)
						}
					}
				}
			}
		}
		if isHdr && (best == nil || best.Dominates(h)) {
			best = h
		}
	}
	return best
}

func (c *Ctx) c03Nested(unzip, nested *ssa.Function) {
	// (a) results #1/#2 of unzipNestedZipFiles flow into Add on the counters
	var call *ssa.Call
	allInstrs(unzip, func(in ssa.Instruction) {
		if cl, ok := in.(*ssa.Call); ok && staticCallee(&cl.Call) == nested {
			call = cl
		}
	})
	if call == nil {
		c.violate("W3", fname(unzip)+"/nested-call", c.pos(unzip.Pos()), "unzip no longer extracts nested archives through unzipNestedZipFiles")
	} else {
		added := map[int]bool{}
		allInstrs(unzip, func(in ssa.Instruction) {
			cl, ok := in.(*ssa.Call)
			if !ok {
				return
			}
			if cnt, m := counterOf(&cl.Call); cnt != nil && m == "Add" {
				for _, l := range sources(cl.Call.Args[1], deriveOpts{through: func(n string) bool { return strings.Contains(n, "/safecast.") }}) {
					if ex, ok := l.(*ssa.Extract); ok && ex.Tuple == ssa.Value(call) {
						added[ex.Index] = true
					}
				}
			}
		})
		allPaths := true
		if added[1] && added[2] {
			// on every path from the successful nested extraction to the next entry (or a successful return) both additions happen
			hdr := loopHeaderOf(call)
			errs := errResultsOf(call)
			prune := func(b *ssa.BasicBlock, k int) bool {
				if ifi, ok := b.Instrs[len(b.Instrs)-1].(*ssa.If); ok && len(errs) > 0 {
					if x, nilSucc, ok := nilTest(ifi); ok && sameValue(x, errs[0]) {
						return k != nilSucc
					}
				}
				return false
			}
			for _, idx := range []int{1, 2} {
				isAddOf := func(in ssa.Instruction) bool {
					cl, ok := in.(*ssa.Call)
					if !ok {
						return false
					}
					if cnt, m := counterOf(&cl.Call); cnt == nil || m != "Add" {
						return false
					}
					for _, l := range sources(cl.Call.Args[1], deriveOpts{through: func(n string) bool { return strings.Contains(n, "/safecast.") }}) {
						if ex, ok := l.(*ssa.Extract); ok && ex.Tuple == ssa.Value(call) && ex.Index == idx {
							return true
						}
					}
					return false
				}
				if hdr != nil && pathPruned(unzip, call, isAddOf, func(in ssa.Instruction) bool { return in == hdr.Instrs[0] || isReturnOK(unzip, in) }, prune) != nil {
					allPaths = false
				}
			}
		}
		c.check(added[1] && added[2] && allPaths, "W3", fname(unzip)+"/nested-totals", c.ipos(call), "nested file count and size are added to the parent's totals on every path",
			"the totals of the nested extraction (results #1 count, #2 bytes) are not both added to the parent's counters on every path: a nested bomb escapes the total limits")
		// same limits, depth passed on
		limOK := paramIndexByName(unzip, "limits") >= 0 && stripConv(call.Call.Args[3]) == ssa.Value(unzip.Params[paramIndexByName(unzip, "limits")])
		c.check(limOK, "W3", fname(unzip)+"/nested-limits", c.ipos(call), "the caller's limits go down unchanged", "the nested extraction does not receive the caller's limits object")
	}
	// (b) in unzipNestedZipFiles: unzip(ctx, nested, dest, limits, currentDepth+k)
	var rec *ssa.Call
	allInstrs(nested, func(in ssa.Instruction) {
		if cl, ok := in.(*ssa.Call); ok && staticCallee(&cl.Call) == unzip {
			rec = cl
		}
	})
	if rec == nil {
		c.violate("W3", fname(nested)+"/recursion", c.pos(nested.Pos()), "unzipNestedZipFiles no longer recurses into unzip")
	} else {
		li := paramIndexByName(nested, "limits")
		di := paramIndexByName(nested, "currentDepth")
		good := li >= 0 && di >= 0
		why := "parameters renamed"
		if good {
			if stripConv(rec.Call.Args[4]) != ssa.Value(nested.Params[li]) {
				good, why = false, "the recursion does not pass the limits it was given (NoLimits() or a fresh object disables every bound below the first level)"
			}
			grows := false
			if bo, ok := rec.Call.Args[5].(*ssa.BinOp); ok && bo.Op == token.ADD {
				if bo.X == ssa.Value(nested.Params[di]) {
					if k, isC := constInt(bo.Y); isC && k >= 1 {
						grows = true
					}
				}
			}
			if good && !grows {
				good, why = false, "the depth handed to the nested extraction is not the current depth plus at least one: nesting is unbounded by the depth limit"
			}
		}
		c.check(good, "W3", fname(nested)+"/recursion", c.ipos(rec), "same limits, depth+1", why)
		// results passed back
		back := true
		allInstrs(nested, func(in ssa.Instruction) {
			r, ok := in.(*ssa.Return)
			if !ok || isErrorExit(nested, r) {
				return
			}
			for i := 1; i <= 2; i++ {
				found := false
				for _, l := range sources(r.Results[i], deriveOpts{}) {
					if ex, ok := l.(*ssa.Extract); ok && ex.Tuple == ssa.Value(rec) && ex.Index == i {
						found = true
					}
				}
				if !found {
					back = false
				}
			}
		})
		c.check(back, "W3", fname(nested)+"/totals-back", c.ipos(rec), "the nested totals are returned to the parent", "unzipNestedZipFiles does not hand the nested totals back")
	}
	// (c) unzip returns its counters
	goodRet := true
	n := 0
	allInstrs(unzip, func(in ssa.Instruction) {
		r, ok := in.(*ssa.Return)
		if !ok || isErrorExit(unzip, r) {
			return
		}
		n++
		for i := 1; i <= 2; i++ {
			found := false
			for _, l := range sources(r.Results[i], deriveOpts{}) {
				if cl, ok := l.(*ssa.Call); ok {
					if cnt, m := counterOf(&cl.Call); cnt != nil && m == "Load" {
						found = true
					}
				}
			}
			if !found {
				goodRet = false
			}
		}
	})
	c.check(goodRet && n > 0, "W3", fname(unzip)+"/returns-totals", c.pos(unzip.Pos()), "successful return carries the counters' values", "a successful return of unzip does not carry the file count and byte total: the parent of a nested archive cannot account for it")
}

func paramIndexByName(f *ssa.Function, name string) int {
	for i, p := range f.Params {
		if p.Name() == name {
			return i
		}
	}
	return -1
}

// c03Accounted: after an entry has been extracted (unzipZippedFile returned nil) every way round the loop adds to the
// byte total — the entry's own size or the totals of the nested extraction.
func (c *Ctx) c03Accounted(unzip, uzf *ssa.Function) {
	var ex *ssa.Call
	allInstrs(unzip, func(in ssa.Instruction) {
		if cl, ok := in.(*ssa.Call); ok && staticCallee(&cl.Call) == uzf {
			ex = cl
		}
	})
	if ex == nil {
		return
	}
	// the byte total = the counter compared with GetMaxTotalSize
	var total ssa.Value
	for _, b := range unzip.Blocks {
		if ifi, ok := b.Instrs[len(b.Instrs)-1].(*ssa.If); ok {
			if x, _, ok := limitCmp(ifi, "GetMaxTotalSize"); ok {
				for _, l := range sources(x, deriveOpts{through: func(n string) bool { return strings.Contains(n, "/safecast.") }}) {
					if cl, ok := l.(*ssa.Call); ok {
						if cnt, m := counterOf(&cl.Call); cnt != nil && m == "Load" {
							total = cnt
						}
					}
				}
			}
		}
	}
	key := fname(unzip) + "/bytes-accounted"
	if total == nil {
		c.violate("W2", key, c.ipos(ex), "no running byte total compared with GetMaxTotalSize()")
		return
	}
	isAdd := func(in ssa.Instruction) bool {
		cl, ok := in.(*ssa.Call)
		if !ok {
			return false
		}
		cnt, m := counterOf(&cl.Call)
		return cnt == total && m == "Add"
	}
	hdr := loopHeaderOf(ex)
	errs := errResultsOf(ex)
	prune := func(b *ssa.BasicBlock, k int) bool {
		// only the success side of the extraction matters
		if ifi, ok := b.Instrs[len(b.Instrs)-1].(*ssa.If); ok && len(errs) > 0 {
			if x, nilSucc, ok := nilTest(ifi); ok && sameValue(x, errs[0]) {
				return k != nilSucc
			}
		}
		return false
	}
	if hdr == nil {
		c.undecided("W2", key, c.ipos(ex), "cannot determine the entry loop")
		return
	}
	esc := pathPruned(unzip, ex, isAdd, func(in ssa.Instruction) bool { return in == hdr.Instrs[0] || isReturnOK(unzip, in) }, prune)
	c.check(esc == nil, "W2", key, c.ipos(ex), "every extracted entry adds its bytes (or its nested totals) to the running total",
		"after an entry has been written the loop can move on (or return successfully) without adding anything to the byte total: such entries are not bounded by GetMaxTotalSize()")
}

func isReturnOK(f *ssa.Function, in ssa.Instruction) bool {
	r, ok := in.(*ssa.Return)
	return ok && !isErrorExit(f, r)
}

// c03EndOfEntry (W5). The copy is bounded by the size the header declares (W1), so it never reaches the end of the
// entry's stream: archive/zip compares the declared size and checksum with the data only when a Read hits the end,
// and reports surplus data only when a Read goes past the declared size. Unless the entry's reader is read once more
// after the copy, an entry holding more data than declared is silently truncated and a wrong checksum goes unnoticed.
func (c *Ctx) c03EndOfEntry(uzf *ssa.Function) {
	key := fname(uzf) + "/end-of-entry"
	var open, cp *ssa.Call
	allInstrs(uzf, func(in ssa.Instruction) {
		if cl, ok := in.(*ssa.Call); ok {
			n := calleeFull(&cl.Call)
			if n == "(*archive/zip.File).Open" {
				open = cl
			}
			if strings.HasSuffix(n, "safeio.CopyNWithContext") || n == "io.CopyN" {
				cp = cl
			}
		}
	})
	if open == nil || cp == nil {
		c.ok("W5", key, c.pos(uzf.Pos()), "no bounded copy from an entry reader in this function (the copy reads to the end of the entry)")
		return
	}
	isEntryReader := func(v ssa.Value) bool {
		for _, l := range sources(v, deriveOpts{through: func(n string) bool {
			return strings.Contains(n, "safeio.NewContextualReader") || n == "bufio.NewReader" || n == "io.TeeReader"
		}}) {
			if ex, ok := l.(*ssa.Extract); ok && ex.Tuple == ssa.Value(open) && ex.Index == 0 {
				return true
			}
		}
		return false
	}
	// a probe: a read from the entry's reader after the copy — Read, or a draining helper
	var probes []*ssa.Call
	allInstrs(uzf, func(in ssa.Instruction) {
		cl, ok := in.(*ssa.Call)
		if !ok || cl == cp {
			return
		}
		if cl.Call.IsInvoke() && cl.Call.Method.Name() == "Read" && isEntryReader(cl.Call.Value) {
			probes = append(probes, cl)
			return
		}
		switch n := calleeFull(&cl.Call); {
		case n == "io.Copy" || n == "io.ReadAll" || n == "io.ReadFull" || n == "io.CopyN" || strings.HasSuffix(n, "safeio.ReadAll") || strings.HasSuffix(n, "safeio.ReadAtMost") || strings.HasSuffix(n, "safeio.CopyDataWithContext"):
			for _, a := range cl.Call.Args {
				if isEntryReader(a) {
					probes = append(probes, cl)
				}
			}
		}
	})
	isProbe := func(i ssa.Instruction) bool {
		for _, p := range probes {
			if ssa.Instruction(p) == i {
				return true
			}
		}
		return false
	}
	// every path from the successful copy to a successful return passes a probe
	cpErr := errResultsOf(cp)
	esc := pathPruned(uzf, cp, isProbe, func(i ssa.Instruction) bool {
		r, ok := i.(*ssa.Return)
		return ok && !isErrorExit(uzf, r)
	}, func(b *ssa.BasicBlock, k int) bool {
		ifi, ok := b.Instrs[len(b.Instrs)-1].(*ssa.If)
		if !ok {
			return false
		}
		x, nilSucc, ok := nilTest(ifi)
		if !ok || len(cpErr) == 0 {
			return false
		}
		return sameValue(x, cpErr[0]) && k == 1-nilSucc
	})
	if esc != nil {
		c.violate("W5", key, c.ipos(cp), "after the copy of the declared number of bytes a successful return ("+c.ipos(esc)+") is reached without the entry's reader having been read any further: the zip reader never compares the header's size and checksum with the data, an entry holding more data than its header declares is silently truncated and a wrong checksum goes unnoticed — no error for an archive whose headers contradict its data")
		return
	}
	// the outcome of each probe is looked at — its error above all: archive/zip reports surplus data and a wrong
	// checksum as (0, error), never through the byte count
	for _, p := range probes {
		errUsed := false
		for _, e := range errResultsOf(p) {
			if e.Referrers() != nil {
				for _, r := range *e.Referrers() {
					if _, isDbg := r.(*ssa.DebugRef); !isDbg {
						errUsed = true
					}
				}
			}
		}
		if !errUsed {
			c.violate("W5", key, c.ipos(p), "the error of reading on after the copy is discarded: archive/zip reports an entry longer than its header declares (zip.ErrFormat) and a wrong checksum (zip.ErrChecksum) as (0, error) — looking at the number of bytes alone accepts both")
			return
		}
	}
	c.ok("W5", key, c.ipos(probes[0]), "the entry's reader is read on after the bounded copy and the outcome is examined before success")
}

// exprKey: a canonical text for a pure-looking expression, so that two evaluations of the same condition within one
// loop iteration (no common sub-expression elimination in go/ssa) can be recognised as the same condition.
func exprKey(v ssa.Value, depth int) string {
	if depth == 0 || v == nil {
		return "?"
	}
	switch x := v.(type) {
	case *ssa.Const:
		return "const:" + x.String()
	case *ssa.Parameter:
		return "param:" + x.Name()
	case *ssa.Call:
		var b strings.Builder
		if x.Call.IsInvoke() {
			b.WriteString("invoke:" + x.Call.Method.Name() + "(" + exprKey(x.Call.Value, depth-1))
		} else {
			b.WriteString("call:" + calleeFull(&x.Call) + "(")
		}
		for _, a := range x.Call.Args {
			b.WriteString("," + exprKey(a, depth-1))
		}
		b.WriteString(")")
		return b.String()
	case *ssa.UnOp:
		if x.Op == token.MUL {
			if fa, ok := x.X.(*ssa.FieldAddr); ok {
				return "(" + exprKey(fa.X, depth-1) + ").f" + strconv.Itoa(fa.Field)
			}
		}
		if x.Op == token.NOT {
			return "!" + exprKey(x.X, depth-1)
		}
	case *ssa.FieldAddr:
		return "&(" + exprKey(x.X, depth-1) + ").f" + strconv.Itoa(x.Field)
	case *ssa.ChangeInterface:
		return exprKey(x.X, depth-1)
	case *ssa.MakeInterface:
		return exprKey(x.X, depth-1)
	}
	return v.Name()
}

// cyclicPathCorrelated searches a path from the first instruction of loop header hdr, through an instruction
// satisfying via, back to the header (or to an instruction satisfying exit), along which no instruction satisfies
// stop and no pruned edge is taken. Conditions that are calls (or negations of calls) with identical operands are
// given the same truth value along the path. It returns the via instruction of such a path, or nil.
func cyclicPathCorrelated(f *ssa.Function, hdr *ssa.BasicBlock, via, stop, exit func(ssa.Instruction) bool, prune func(b *ssa.BasicBlock, k int) bool) ssa.Instruction {
	type state struct {
		b    *ssa.BasicBlock
		seen bool
		env  string
	}
	visited := map[state]bool{}
	envStr := func(env map[string]bool) string {
		ks := make([]string, 0, len(env))
		for k, v := range env {
			if v {
				ks = append(ks, k+"=1")
			} else {
				ks = append(ks, k+"=0")
			}
		}
		sort.Strings(ks)
		return strings.Join(ks, ";")
	}
	var found ssa.Instruction
	var walk func(b *ssa.BasicBlock, start int, seenVia ssa.Instruction, env map[string]bool, first bool)
	walk = func(b *ssa.BasicBlock, start int, seenVia ssa.Instruction, env map[string]bool, first bool) {
		if found != nil {
			return
		}
		if !first {
			st := state{b, seenVia != nil, envStr(env)}
			if visited[st] {
				return
			}
			visited[st] = true
		}
		for k := start; k < len(b.Instrs); k++ {
			in := b.Instrs[k]
			if !first || k > start {
				if b == hdr && k == 0 {
					if seenVia != nil {
						found = seenVia
					}
					return
				}
			}
			if exit != nil && exit(in) {
				if seenVia != nil {
					found = seenVia
				}
				return
			}
			if stop(in) {
				return
			}
			if via(in) {
				seenVia = in
			}
		}
		ifi, isIf := b.Instrs[len(b.Instrs)-1].(*ssa.If)
		for k, sc := range b.Succs {
			if prune != nil && prune(b, k) {
				continue
			}
			env2 := env
			set := func(key string, val bool) {
				n := make(map[string]bool, len(env2)+1)
				for a, bv := range env2 {
					n[a] = bv
				}
				n[key] = val
				env2 = n
			}
			if isIf {
				v, ts := boolTest(ifi)
				val := k == ts
				key := ""
				switch x := v.(type) {
				case *ssa.Call:
					key = exprKey(x, 6)
				case *ssa.Phi:
					// a short-circuit result: its value was fixed by the edge it was entered through
					if known, ok := env["phi:"+x.Name()]; ok {
						if known != val {
							continue
						}
					}
					for a := range env {
						if strings.HasPrefix(a, "alias:"+x.Name()+"=") {
							key = strings.TrimPrefix(a, "alias:"+x.Name()+"=")
							if strings.HasPrefix(key, "!") {
								key = key[1:]
								val = !val
							}
						}
					}
				}
				if key != "" {
					if known, ok := env[key]; ok {
						if known != val {
							continue
						}
					} else {
						set(key, val)
					}
				}
			}
			// values of boolean phi nodes of the successor, as fixed by this edge
			occ := 0
			for kk := 0; kk < k; kk++ {
				if b.Succs[kk] == sc {
					occ++
				}
			}
			j := -1
			for pi, pb := range sc.Preds {
				if pb == b {
					if occ == 0 {
						j = pi
						break
					}
					occ--
				}
			}
			if j >= 0 {
				for _, in := range sc.Instrs {
					phi, ok := in.(*ssa.Phi)
					if !ok {
						break
					}
					if bt, ok := phi.Type().Underlying().(*types.Basic); !ok || bt.Kind() != types.Bool {
						continue
					}
					// forget what an earlier edge said
					clean := make(map[string]bool, len(env2))
					for a, bv := range env2 {
						if a == "phi:"+phi.Name() || strings.HasPrefix(a, "alias:"+phi.Name()+"=") {
							continue
						}
						clean[a] = bv
					}
					env2 = clean
					e := phi.Edges[j]
					if bv, isC := constBool(e); isC {
						env2["phi:"+phi.Name()] = bv
						continue
					}
					neg := false
					for {
						u, ok := e.(*ssa.UnOp)
						if !ok || u.Op != token.NOT {
							break
						}
						e = u.X
						neg = !neg
					}
					if cl, ok := e.(*ssa.Call); ok {
						k2 := exprKey(cl, 6)
						if known, ok := env2[k2]; ok {
							env2["phi:"+phi.Name()] = known != neg
						} else if neg {
							env2["alias:"+phi.Name()+"=!"+k2] = true
						} else {
							env2["alias:"+phi.Name()+"="+k2] = true
						}
					}
				}
			}
			if sc == hdr {
				if seenVia != nil {
					found = seenVia
					return
				}
				continue
			}
			walk(sc, 0, seenVia, env2, false)
			if found != nil {
				return
			}
		}
	}
	walk(hdr, 0, nil, map[string]bool{}, true)
	return found
}

// c03Counted (W6): "no more than the configured number of files". The comparison with GetMaxFileCount() bounds
// the counter (W2); the counter bounds what is on disk only if everything created is counted.
func (c *Ctx) c03Counted(unzip, uzf *ssa.Function) {
	// the file counter = the counter compared with GetMaxFileCount
	var counter ssa.Value
	for _, b := range unzip.Blocks {
		if ifi, ok := b.Instrs[len(b.Instrs)-1].(*ssa.If); ok {
			if x, _, ok := limitCmp(ifi, "GetMaxFileCount"); ok {
				for _, l := range sources(x, deriveOpts{through: func(n string) bool { return strings.Contains(n, "/safecast.") }}) {
					if cl, ok := l.(*ssa.Call); ok {
						if cnt, m := counterOf(&cl.Call); cnt != nil && m == "Load" {
							counter = cnt
						}
					}
				}
			}
		}
	}
	if counter == nil {
		c.violate("W6", fname(unzip)+"/counted", c.pos(unzip.Pos()), "no running file count compared with GetMaxFileCount()")
		return
	}
	isInc := func(in ssa.Instruction) bool {
		cl, ok := in.(*ssa.Call)
		if !ok {
			return false
		}
		cnt, m := counterOf(&cl.Call)
		return cnt == counter && (m == "Inc" || m == "Add")
	}
	// creations: the extraction of a file, and MkDir of the very path that the extraction would use (the directory
	// of a directory entry; the implicit parent of a file entry, MkDir(filepath.Dir(path)), is not an entry)
	var extraction *ssa.Call
	allInstrs(unzip, func(in ssa.Instruction) {
		if cl, ok := in.(*ssa.Call); ok && staticCallee(&cl.Call) == uzf {
			extraction = cl
		}
	})
	if extraction == nil {
		return
	}
	entryPath := resolveValue(extraction.Call.Args[2])
	type site struct {
		in   *ssa.Call
		what string
	}
	sites := []site{{extraction, "extracted-file"}}
	allInstrs(unzip, func(in ssa.Instruction) {
		name, args, ok := fsMethodCall(in)
		if ok && (name == "MkDir" || name == "MkDirAll") && len(args) > 0 && resolveValue(args[0]) == entryPath && inLoop(in) {
			sites = append(sites, site{in.(*ssa.Call), "directory-entry"})
		}
	})
	hdr := loopHeaderOf(extraction)
	if hdr == nil {
		c.undecided("W6", fname(unzip)+"/counted", c.ipos(extraction), "cannot determine the entry loop")
		return
	}
	for _, st := range sites {
		errs := errResultsOf(st.in)
		var errV ssa.Value
		if len(errs) > 0 {
			errV = errs[0]
		} else if isErrorType(st.in.Type()) {
			errV = st.in
		}
		prune := func(b *ssa.BasicBlock, k int) bool {
			if ifi, ok := b.Instrs[len(b.Instrs)-1].(*ssa.If); ok && errV != nil {
				if x, nilSucc, ok := nilTest(ifi); ok && sameValue(x, errV) {
					return k != nilSucc
				}
			}
			return false
		}
		hit := cyclicPathCorrelated(unzip, hdr, func(i ssa.Instruction) bool { return i == ssa.Instruction(st.in) }, isInc,
			func(i ssa.Instruction) bool { return isReturnOK(unzip, i) }, prune)
		c.check(hit == nil, "W6", fname(unzip)+"/counted/"+st.what, c.ipos(st.in), "every iteration that creates this kind of entry counts it (or adds the nested count)",
			"there is a way round the entry loop that creates this entry without the file counter having been incremented in that iteration: such entries are not bounded by GetMaxFileCount() (and are missing from the list returned)")
	}
}

// copyNBounded: safeio.CopyNWithContext copies through io.CopyN with the count it was given on every path (C03/W8, C09/A20).
func (c *Ctx) copyNBounded(rule string) {
	cn := c.fn("safeio", "CopyNWithContext")
	if cn == nil {
		return
	}
	c.FuncsSeen[fname(cn)] = true
	pi := paramIndexByName(cn, "n")
	// the count: the parameter itself, or the parameter merged with constants (`if n < 0 { n = 0 }`)
	isCount := func(v ssa.Value) bool {
		if pi < 0 {
			return false
		}
		fromParam := false
		var visit func(l ssa.Value, depth int) bool
		visit = func(l ssa.Value, depth int) bool {
			l = resolveValue(l)
			if l == ssa.Value(cn.Params[pi]) {
				fromParam = true
				return true
			}
			if _, isConst := l.(*ssa.Const); isConst {
				return true
			}
			// a variable captured by the copy function and assigned more than once (`if n < 0 { n = 0 }`): every value stored
			if u, ok := l.(*ssa.UnOp); ok && u.Op == token.MUL && depth < 4 {
				if a, ok := resolveFreeVar(u.X).(*ssa.Alloc); ok {
					for _, st := range storesToDeep(a) {
						for _, l2 := range sources(st, deriveOpts{}) {
							if !visit(l2, depth+1) {
								return false
							}
						}
					}
					return true
				}
			}
			return false
		}
		for _, l := range sources(v, deriveOpts{}) {
			if !visit(l, 0) {
				return false
			}
		}
		return fromParam
	}
	// a source that is the caller's reader limited to the count
	limited := false
	bounded, unbounded := 0, ""
	withAnon(cn, func(g *ssa.Function) {
		allInstrs(g, func(in ssa.Instruction) {
			cl, ok := in.(*ssa.Call)
			if !ok {
				return
			}
			if calleeFull(&cl.Call) == "io.LimitReader" && isCount(cl.Call.Args[1]) {
				limited = true
			}
		})
	})
	withAnon(cn, func(g *ssa.Function) {
		allInstrs(g, func(in ssa.Instruction) {
			cl, ok := in.(*ssa.Call)
			if !ok {
				return
			}
			// a function value handed on (io.Copy passed as the copy function) counts as a call of it
			for _, a := range cl.Call.Args {
				if fn, isFn := a.(*ssa.Function); isFn && (fn.String() == "io.Copy") {
					if limited {
						bounded++
					} else {
						unbounded = "io.Copy (handed on at " + c.ipos(cl) + ") on a source that is not limited to the count"
					}
				}
			}
			switch n := calleeFull(&cl.Call); {
			case n == "io.CopyN":
				if isCount(cl.Call.Args[2]) {
					bounded++
				} else {
					unbounded = "io.CopyN with another count at " + c.ipos(cl)
				}
			case n == "io.Copy", n == "io.CopyBuffer", n == "io.ReadAll", strings.HasSuffix(n, "safeio.CopyDataWithContext"), strings.HasSuffix(n, "safeio.ReadAll"):
				if limited && (n == "io.Copy" || n == "io.CopyBuffer") {
					bounded++
				} else {
					unbounded = short(n) + " at " + c.ipos(cl)
				}
			}
		})
	})
	c.check(bounded > 0 && unbounded == "", rule, fname(cn)+"/bounded-for-every-count", c.pos(cn.Pos()), "every copy of CopyNWithContext is io.CopyN with the count given (or io.Copy from a reader limited to it)",
		"CopyNWithContext can copy through "+unbounded+": for some count (a negative one: what a declared size of 2^63 or more becomes) the whole stream is written — an entry whose header lies about its size lands on disk without any bound, per-file and total limits notwithstanding")
}

// c03EntriesAreWrittenFromScratch (W10): "at no moment is a single file … longer than the size its header declares,
// written". The bytes of an entry are bounded by the copy (W8); the file they are written into holds nothing else only if
// it is opened with truncation: over a file that already exists — an earlier extraction into the same destination (what
// Fetch of the shared cache does), the same name twice in one archive — the entry's bytes land at the front of the old
// content and the file stays as long as it was, beyond its header and beyond the limits.
func (c *Ctx) c03EntriesAreWrittenFromScratch() {
	c.rule("W10", "the file an entry is extracted into is opened with O_TRUNC (or created through a call that truncates): what is left on disk for an entry is what its header declares, not the tail of an older file", 1)
	f := c.fnOpt(fsPkgRel, "(*VFS).unzipZippedFile")
	if f == nil {
		return
	}
	c.FuncsSeen[fname(f)] = true
	n := 0
	allInstrs(f, func(in ssa.Instruction) {
		cl, ok := in.(*ssa.Call)
		if !ok {
			return
		}
		name, args, isFs := fsMethodCall(cl)
		if !isFs {
			return
		}
		switch name {
		case "OpenFile":
			if len(args) < 2 {
				return
			}
			flag, isC := constInt(args[1])
			if isC && flag&0x3 == 0 {
				return // read-only
			}
			n++
			key := fname(f) + "/entry-file-truncated"
			if n > 1 {
				key += "#" + strconv.Itoa(n)
			}
			c.check(isC && flag&0x200 != 0, "W10", key, c.ipos(cl), "the entry's file is opened for writing with O_TRUNC",
				"the file an entry is written into is opened without O_TRUNC: where a file of that name exists already (a second extraction into the same destination, the same name twice in one archive) the entry's bytes overwrite its beginning and the rest stays — a 10-byte entry leaves a 4096-byte file, longer than its header declares and than the per-file and total limits allow, and the extraction reports success")
		case "CreateFile", "Create":
			n++
			c.ok("W10", fname(f)+"/entry-file-truncated", c.ipos(cl), "the entry's file is created through a call that truncates")
		}
	})
	if n == 0 {
		c.undecided("W10", fname(f)+"/entry-file-truncated", c.pos(f.Pos()), "how unzipZippedFile opens the file of an entry was not recognised")
	}
}
