package main

// Rules written after round 15 of the seeded changes (instrumentation that perturbs, hardening that over- or
// under-restricts, the empty and the zero). Each is called from the run function of the property it belongs to.

import (
	"go/constant"
	"go/token"
	"go/types"
	"strings"

	"golang.org/x/tools/go/ssa"
)

// callNamed reports whether i is a call whose resolved callee's full name ends with one of the suffixes.
func callNamed(i ssa.Instruction, suffixes ...string) bool {
	cl, ok := i.(*ssa.Call)
	if !ok {
		return false
	}
	n := calleeFull(&cl.Call)
	for _, s := range suffixes {
		if n == s || strings.HasSuffix(n, s) {
			return true
		}
	}
	return false
}

// ---- C15 / U20 -------------------------------------------------------------
// "loading fills every field from … environment variables named prefix + path …": the session only looks environment
// variables up once AutomaticEnv, the prefix and the key replacer have been set on it. setEnvOptions does so on every
// call — a guard that takes a session 'already set up' for what it was handed (an empty prefix equals the prefix of a
// fresh session) leaves the session without any of the three.
func (c *Ctx) envOptionsSetOnEveryCall() {
	c.rule("U20", "every return of setEnvOptions follows SetEnvPrefix, AutomaticEnv and SetEnvKeyReplacer on the session: no path leaves the session without the environment as a source", 3)
	f := c.fnOpt(cfgPkg, "setEnvOptions")
	if f == nil {
		return
	}
	c.FuncsSeen[fname(f)] = true
	for _, m := range []string{"SetEnvPrefix", "AutomaticEnv", "SetEnvKeyReplacer"} {
		m := m
		esc := pathPruned(f, nil, func(i ssa.Instruction) bool { return callNamed(i, "viper.Viper)."+m) },
			func(i ssa.Instruction) bool { _, ok := i.(*ssa.Return); return ok }, nil)
		c.check(esc == nil, "U20", fname(f)+"/"+m, c.pos(f.Pos()), "every return follows "+m,
			"the return at "+iposOrEmpty(c, esc)+" is reached without "+m+" having been called on the session: for the input that takes this path (an empty prefix on a fresh session equals the prefix the session already has) the session never looks the environment up — every field without a bound flag gets the file's value or its default although its variable is set, while DetermineConfigurationEnvironmentVariables still reports the name")
	}
}

// ---- C14 / O15 -------------------------------------------------------------
// "A Retry-After value on a 429/503 response replaces the computed wait (HTTP dates past and future)": an HTTP date has
// three forms (RFC 7231: IMF-fixdate, RFC 850, asctime) and net/http.ParseTime is what knows them. parseDate gives up
// on a value only after http.ParseTime has: a table of layouts written by hand in its place leaves a form out.
func (c *Ctx) retryAfterDatesGoThroughParseTime() {
	c.rule("O15", "parseDate reports a Retry-After value as unparseable only after net/http.ParseTime has refused it: every form of HTTP date is recognised", 1)
	f := c.fnOpt("http", "parseDate")
	if f == nil {
		return
	}
	c.FuncsSeen[fname(f)] = true
	esc := pathPruned(f, nil, func(i ssa.Instruction) bool { return callNamed(i, "net/http.ParseTime") },
		func(i ssa.Instruction) bool {
			r, ok := i.(*ssa.Return)
			return ok && isErrorExit(f, r)
		}, nil)
	found := false
	allInstrs(f, func(i ssa.Instruction) {
		if cl, ok := i.(*ssa.Call); ok && callNamed(i, "net/http.ParseTime") && len(cl.Call.Args) == 1 && len(f.Params) > 0 && sameValue(cl.Call.Args[0], f.Params[0]) {
			found = true
		}
	})
	c.check(esc == nil && found, "O15", fname(f)+"/http-date-forms", c.pos(f.Pos()), "the failure return follows http.ParseTime of the value",
		"parseDate can report failure (return at "+iposOrEmpty(c, esc)+") without net/http.ParseTime having been asked about the value: the three forms of an HTTP date (IMF-fixdate, RFC 850 'Monday, 02-Jan-06 15:04:05 GMT', asctime) are no longer all recognised — a 429/503 whose Retry-After is a date in the missing form is treated as carrying none, and the policy's own computed wait is used instead of the server's")
}

// ---- C16 / Y21 -------------------------------------------------------------
// "… exactly one complete version previously passed to Store for that key": the key designates the entry. The path of an
// entry is the storage path joined with the key as it was given: a key that is reduced on the way (its base name, its
// stem, a truncated or folded form) makes distinct keys share one entry directory — and one lock.
func (c *Ctx) entryPathJoinsTheKeyItself() {
	c.rule("Y21", "getCacheEntryPath joins the storage path with the key as given: no function reduces the key on the way (distinct keys designate distinct entries)", 1)
	f := c.fnOpt(scPkg, "(*AbstractSharedCacheRepository).getCacheEntryPath")
	if f == nil {
		return
	}
	c.FuncsSeen[fname(f)] = true
	ki := paramIndexByName(f, "key")
	if ki < 0 {
		for i, p := range f.Params {
			if i > 0 && types.Identical(p.Type(), types.Typ[types.String]) {
				ki = i
			}
		}
	}
	good, at := false, ssa.Instruction(nil)
	var reduced string
	allInstrs(f, func(i ssa.Instruction) {
		r, ok := i.(*ssa.Return)
		if !ok || len(r.Results) == 0 {
			return
		}
		at = r
		var walk func(v ssa.Value, depth int)
		seen := map[ssa.Value]bool{}
		walk = func(v ssa.Value, depth int) {
			if seen[v] || depth > 6 {
				return
			}
			seen[v] = true
			if ki >= 0 && sameValue(v, f.Params[ki]) {
				good = true
				return
			}
			switch x := v.(type) {
			case *ssa.Call:
				n := calleeFull(&x.Call)
				if n == "path/filepath.Join" || n == "path.Join" {
					for _, a := range x.Call.Args {
						for _, e := range variadicElems(a) {
							walk(e, depth+1)
						}
					}
					return
				}
				for _, a := range x.Call.Args {
					for _, s := range sources(a, deriveOpts{through: func(string) bool { return true }}) {
						if ki >= 0 && s == ssa.Value(f.Params[ki]) {
							reduced = n
						}
					}
				}
			case *ssa.Phi:
				for _, e := range x.Edges {
					walk(e, depth+1)
				}
			case *ssa.BinOp:
				walk(x.X, depth+1)
				walk(x.Y, depth+1)
			}
		}
		walk(r.Results[0], 0)
	})
	c.check(good && reduced == "", "Y21", fname(f)+"/key-as-given", c.iposOr(at), "the key itself is joined to the storage path",
		"the path of an entry is no longer the storage path joined with the key as given"+map[bool]string{true: " (the key goes through " + reduced + " first)", false: ""}[reduced != ""]+": keys that differ only in what that drops (a directory part, what follows the last dot: `toolchain-1.2` and `toolchain-1.3`) designate one entry directory and one lock — a Fetch for one key reports success and installs the version stored for the other, a Store under one replaces what the other designates, and CleanEntry for one removes the other's")
}

// ---- C19 / E20 -------------------------------------------------------------
// "After Stop/Close or cancellation nothing more is yielded": the paginator's own context descends from the one its
// constructor was handed. A constructor that hands the next one a context cut off from its caller's (WithoutCancel,
// Background, TODO) builds a paginator that the caller's cancellation or deadline never reaches.
func (c *Ctx) paginatorContextsDescendFromTheCallers() {
	c.rule("E20", "every context a constructor or method of the pagination package hands on descends from the one it was given (or from the paginator's own): none is cut off from its cancellation with context.WithoutCancel, Background or TODO", 6)
	p := c.SSAPkgs[modPath+"/"+pagPkg]
	if p == nil {
		return
	}
	for _, f := range c.srcFuncs(pagPkg) {
		withAnon(f, func(g *ssa.Function) {
			n := 0
			allInstrs(g, func(i ssa.Instruction) {
				cc := callCommonOf(i)
				if cc == nil {
					return
				}
				callee := calleeFull(cc)
				if strings.HasPrefix(callee, "context.") {
					return
				}
				for _, a := range cc.Args {
					if !isContextType(a.Type()) {
						continue
					}
					n++
					key := fname(outermost(g)) + "/" + shortCallee(callee) + "/ctx"
					var cut string
					for _, s := range sources(a, deriveOpts{through: func(cn string) bool {
						return cn == "context.WithCancel" || cn == "context.WithTimeout" || cn == "context.WithDeadline" || cn == "context.WithValue" || cn == "context.WithCancelCause"
					}}) {
						if cl, ok := s.(*ssa.Call); ok {
							switch cn := calleeFull(&cl.Call); cn {
							case "context.WithoutCancel", "context.Background", "context.TODO":
								cut = cn
							}
						}
					}
					c.check(cut == "", "E20", key, c.ipos(i), "the context handed on descends from the caller's",
						"the context handed to "+shortCallee(callee)+" comes from "+cut+": it is cut off from the cancellation and the deadline of the context this function was given — a paginator built on it goes on answering HasNext with true and yielding the rest of the page and the pages to come after its caller's context was cancelled, and a HasNext that polls a stream never returns")
				}
			})
			_ = n
		})
	}
}

func callCommonOf(i ssa.Instruction) *ssa.CallCommon {
	switch x := i.(type) {
	case *ssa.Call:
		return &x.Call
	case *ssa.Go:
		return &x.Call
	case *ssa.Defer:
		return &x.Call
	}
	return nil
}

func isContextType(t types.Type) bool {
	n, ok := t.(*types.Named)
	return ok && n.Obj().Pkg() != nil && n.Obj().Pkg().Path() == "context" && n.Obj().Name() == "Context"
}

func shortCallee(n string) string {
	if n == "" {
		return "a function value"
	}
	return strings.TrimPrefix(n, modPath+"/")
}

// ---- C13 / L18 -------------------------------------------------------------
// "each message is delivered … never lost; the ring-buffered asynchronous logger drops messages only when it also reports
// how many": Close drains the ring through `w.diodeWriter.(io.Closer)` — a type assertion that fails silently. What the
// constructors put in a field that a method of the package asserts an interface on must have that interface's methods:
// a wrapper that embeds io.Writer promotes Write and nothing else, the assertion fails, the ring is never drained.
func (c *Ctx) assertedFieldsHoldWhatIsAsserted() {
	c.rule("L18", "where a method of the logs package reaches a capability through a comma-ok type assertion on a field (w.diodeWriter.(io.Closer)), every value the package stores in that field has the asserted methods: the assertion cannot fail silently", 1)
	type fieldKey struct {
		t *types.Named
		i int
	}
	asserted := map[fieldKey]*types.Interface{}
	where := map[fieldKey]ssa.Instruction{}
	fieldOf := func(v ssa.Value) (fieldKey, bool) {
		fa, ok := v.(*ssa.FieldAddr)
		if !ok {
			return fieldKey{}, false
		}
		pt, ok := fa.X.Type().Underlying().(*types.Pointer)
		if !ok {
			return fieldKey{}, false
		}
		nt, ok := pt.Elem().(*types.Named)
		if !ok {
			return fieldKey{}, false
		}
		return fieldKey{nt, fa.Field}, true
	}
	funcs := c.srcFuncs("logs")
	for _, f := range funcs {
		withAnon(f, func(g *ssa.Function) {
			allInstrs(g, func(i ssa.Instruction) {
				ta, ok := i.(*ssa.TypeAssert)
				if !ok || !ta.CommaOk {
					return
				}
				it, ok := ta.AssertedType.Underlying().(*types.Interface)
				if !ok || it.NumMethods() == 0 {
					return
				}
				ld, ok := ta.X.(*ssa.UnOp)
				if !ok || ld.Op != token.MUL {
					return
				}
				if k, ok := fieldOf(ld.X); ok {
					asserted[k] = it
					where[k] = ta
				}
			})
		})
	}
	for _, f := range funcs {
		withAnon(f, func(g *ssa.Function) {
			allInstrs(g, func(i ssa.Instruction) {
				st, ok := i.(*ssa.Store)
				if !ok {
					return
				}
				k, ok := fieldOf(st.Addr)
				if !ok {
					return
				}
				it := asserted[k]
				if it == nil {
					return
				}
				mi, ok := st.Val.(*ssa.MakeInterface)
				if !ok {
					return // an interface value handed in by the caller: what it holds is the caller's
				}
				st0 := k.t.Underlying().(*types.Struct)
				key := fname(outermost(g)) + "/" + k.t.Obj().Name() + "." + st0.Field(k.i).Name()
				has := types.Implements(mi.X.Type(), it)
				c.check(has, "L18", key, c.ipos(st), "the value stored has the methods asserted at "+c.ipos(where[k]),
					"the value stored in "+k.t.Obj().Name()+"."+st0.Field(k.i).Name()+" is a "+types.TypeString(mi.X.Type(), func(p *types.Package) string { return p.Name() })+", which does not have the methods that "+c.ipos(where[k])+" asserts on the field before it uses them (a wrapper that embeds io.Writer promotes Write only): the assertion fails without a word, Close skips the draining of the ring buffer and closes the slow writer under it — the messages still queued are written to a closed destination, lost, and never reported as dropped")
			})
		})
	}
}

// ---- C18 / M19 -------------------------------------------------------------
// "The start message is logged before, and exactly one of the success / failure messages after …": the messages are the
// caller's text (or the default one, which embeds the command path) — data, not format strings. Every formatting call of
// the messaging layer has a constant format; a helper that takes a format is only ever handed constants.
func (c *Ctx) messagesAreNotFormats() {
	c.rule("M19", "every formatting call of the subprocess messaging layer has a constant format string (a helper that takes the format is handed constants only): the caller's messages and the command path are logged as they are", 3)
	isFormatter := func(n string) (int, bool) {
		switch n {
		case "fmt.Sprintf", "fmt.Errorf":
			return 0, true
		case "fmt.Fprintf":
			return 1, true
		}
		if strings.HasSuffix(n, "commonerrors.Newf") || strings.HasSuffix(n, "commonerrors.WrapErrorf") {
			return -2, true // the format is the argument before the variadic one
		}
		return 0, false
	}
	var funcs []*ssa.Function
	for _, f := range c.srcFuncs(spPkg) {
		if strings.Contains(fname(f), "subprocessMessaging") || strings.Contains(fname(f), "newSubprocessMessaging") || strings.Contains(strings.ToLower(fname(f)), "messag") {
			funcs = append(funcs, f)
		}
	}
	callersOf := func(t *ssa.Function) (out []*ssa.Call) {
		for _, f := range c.srcFuncs(spPkg) {
			withAnon(f, func(g *ssa.Function) {
				allInstrs(g, func(i ssa.Instruction) {
					if cl, ok := i.(*ssa.Call); ok && staticCallee(&cl.Call) == t {
						out = append(out, cl)
					}
				})
			})
		}
		return
	}
	var constantFormat func(v ssa.Value, g *ssa.Function, depth int) (bool, string)
	constantFormat = func(v ssa.Value, g *ssa.Function, depth int) (bool, string) {
		if k, ok := v.(*ssa.Const); ok && k.Value != nil && k.Value.Kind() == constant.String {
			return true, ""
		}
		if p, ok := v.(*ssa.Parameter); ok && depth < 3 {
			idx := -1
			for i, q := range g.Params {
				if q == p {
					idx = i
				}
			}
			cs := callersOf(g)
			if idx < 0 || len(cs) == 0 {
				return false, "a parameter of " + fname(g) + " whose callers are not all known"
			}
			for _, cl := range cs {
				if idx >= len(cl.Call.Args) {
					return false, "a parameter of " + fname(g)
				}
				if ok, why := constantFormat(cl.Call.Args[idx], cl.Parent(), depth+1); !ok {
					if why == "" {
						why = "what " + c.ipos(cl) + " hands to " + fname(g)
					}
					return false, why
				}
			}
			return true, ""
		}
		if ld, ok := v.(*ssa.UnOp); ok && ld.Op == token.MUL {
			if fa, ok := ld.X.(*ssa.FieldAddr); ok {
				if pt, ok := fa.X.Type().Underlying().(*types.Pointer); ok {
					if st, ok := pt.Elem().Underlying().(*types.Struct); ok {
						return false, "the field " + st.Field(fa.Field).Name()
					}
				}
			}
		}
		return false, ""
	}
	seen := map[string]int{}
	for _, f := range funcs {
		withAnon(f, func(g *ssa.Function) {
			allInstrs(g, func(i ssa.Instruction) {
				cl, ok := i.(*ssa.Call)
				if !ok {
					return
				}
				n := calleeFull(&cl.Call)
				idx, ok := isFormatter(n)
				if !ok {
					return
				}
				if idx < 0 {
					idx = len(cl.Call.Args) + idx
				}
				if idx < 0 || idx >= len(cl.Call.Args) {
					return
				}
				key := fname(outermost(g)) + "/" + shortCallee(n)
				seen[key]++
				if seen[key] > 1 {
					key += "#" + itoa(int64(seen[key]))
				}
				okc, why := constantFormat(cl.Call.Args[idx], g, 0)
				if why == "" {
					why = "a value computed at run time"
				}
				c.check(okc, "M19", key, c.ipos(cl), "the format is a constant",
					"the format handed to "+shortCallee(n)+" is "+why+", not a constant: a message of the caller's (or the default one, which embeds the command path) is interpreted as a format string — a `%` in it comes out as `%!d(MISSING)` and the like, the start or success message logged is not the one configured")
			})
		})
	}
}

// ---- C12 / T12 -------------------------------------------------------------
// "Parallelise returns all results or an error that some invocation returned": the error Parallelise returns from its
// collecting loop is the one it received from the invocation — the value itself, with its message and its chain. A
// conversion applied on the way (ConvertContextError answers with the bare kind for anything that wraps a context
// error) returns an error no invocation returned.
func (c *Ctx) paralleliseReturnsTheInvocationsError() {
	c.rule("T12", "the error Parallelise returns from its collecting loop is the value received from the invocation, not the result of a call applied to it", 1)
	f := c.fnOpt(parPkg, "Parallelise")
	if f == nil {
		return
	}
	c.FuncsSeen[fname(f)] = true
	var recv []*ssa.UnOp
	allInstrs(f, func(i ssa.Instruction) {
		if u, ok := i.(*ssa.UnOp); ok && u.Op == token.ARROW {
			recv = append(recv, u)
		}
	})
	isRecv := func(v ssa.Value) bool {
		for _, u := range recv {
			if v == ssa.Value(u) {
				return true
			}
		}
		return false
	}
	// the received value, or a field read of it (directly, or of the local it was stored in)
	received := func(v ssa.Value) bool {
		if isRecv(v) {
			return true
		}
		switch x := v.(type) {
		case *ssa.Field:
			return isRecv(x.X)
		case *ssa.UnOp:
			if x.Op != token.MUL {
				return false
			}
			var base ssa.Value = x.X
			if fa, ok := base.(*ssa.FieldAddr); ok {
				base = fa.X
			}
			if al, ok := base.(*ssa.Alloc); ok {
				for _, st := range storesToDeep(al) {
					if isRecv(st) {
						return true
					}
				}
			}
		}
		return false
	}
	n := 0
	allInstrs(f, func(i ssa.Instruction) {
		r, ok := i.(*ssa.Return)
		if !ok || len(r.Results) == 0 || len(recv) == 0 || !dominates(recv[0], r) {
			return
		}
		ev := r.Results[len(r.Results)-1]
		var through string
		fromRecv := false
		for _, s := range sources(ev, deriveOpts{through: func(string) bool { return false }}) {
			if received(s) {
				fromRecv = true
				continue
			}
			if x, ok := s.(*ssa.Call); ok {
				for _, a := range x.Call.Args {
					for _, s2 := range sources(a, deriveOpts{through: func(string) bool { return true }}) {
						if received(s2) {
							through = calleeFull(&x.Call)
						}
					}
				}
			}
		}
		if !fromRecv && through == "" {
			return // a return that does not carry what was received
		}
		n++
		key := fname(f) + "/error-of-an-invocation"
		if n > 1 {
			key += "#" + itoa(int64(n))
		}
		c.check(through == "", "T12", key, c.ipos(r), "the error returned is the one received from the invocation",
			"the error returned from the collecting loop is "+map[bool]string{true: "the result of " + shortCallee(through) + " applied to", false: "not"}[through != ""]+" the error received from the invocation: what Parallelise returns is a value no invocation returned — for an error that is or wraps context.Canceled / DeadlineExceeded the bare kind ('cancelled', 'timeout') comes back, the message and the chain of the invocation's error are lost and errors.Is(err, context.Canceled) is false")
	})
}

// ---- C11 / D20 -------------------------------------------------------------
// "Serialising such an error to text and deserialising it yields … the same reason": DeserialiseError parses the text it
// was given. Nothing rewrites the bytes between the caller and the parser — a filter on the way (only printable runes,
// no control characters) changes the reason of every message that holds what it removes.
func (c *Ctx) deserialiseParsesTheTextAsGiven() {
	c.rule("D20", "DeserialiseError hands the parser the text it was given: no call rewrites the bytes on the way (bytes.TrimSpace apart, the statement's 'up to whitespace')", 1)
	f := c.fnOpt(cePkg, "DeserialiseError")
	if f == nil || len(f.Params) == 0 {
		return
	}
	c.FuncsSeen[fname(f)] = true
	n := 0
	allInstrs(f, func(i ssa.Instruction) {
		cl, ok := i.(*ssa.Call)
		if !ok {
			return
		}
		g := staticCallee(&cl.Call)
		if g == nil || g.Pkg == nil || g.Pkg.Pkg.Path() != modPath+"/"+cePkg || len(cl.Call.Args) == 0 {
			return
		}
		// a function of the package that takes the text
		takes := -1
		for k, a := range cl.Call.Args {
			if types.Identical(a.Type(), f.Params[0].Type()) {
				for _, s := range sources(a, deriveOpts{through: func(string) bool { return true }}) {
					if s == ssa.Value(f.Params[0]) {
						takes = k
					}
				}
			}
		}
		if takes < 0 {
			return
		}
		n++
		var rewritten string
		for _, s := range sources(cl.Call.Args[takes], deriveOpts{through: func(cn string) bool { return cn == "bytes.TrimSpace" }}) {
			if x, ok := s.(*ssa.Call); ok {
				rewritten = calleeFull(&x.Call)
			}
		}
		key := fname(f) + "/" + g.Name() + "/text-as-given"
		c.check(rewritten == "", "D20", key, c.ipos(cl), "the text given is the text parsed",
			"the text handed to "+g.Name()+" is the result of "+shortCallee(rewritten)+", not the text DeserialiseError was given: whatever that call removes or replaces (control characters such as a tab, non-ASCII spaces, zero-width joiners, soft hyphens when only 'printable' runes are kept) is missing from the reason of the error that comes back — the kind survives, the message does not")
	})
}

// ---- C03 / W11 -------------------------------------------------------------
// "… nothing deeper than the depth limit": the depth of an entry is the number of separators in its relative path.
// FileTreeDepth counts the elements strings.Split gives — every element, whatever it is made of. A splitting function
// that cleans its output up (trims the elements, drops the empty ones) does not count directories named with white space.
func (c *Ctx) depthCountsEveryElement() {
	c.rule("W11", "the depth FileTreeDepth returns is counted on what strings.Split (or Count / SplitN / SplitAfter) gives of the relative path: no function that trims or drops elements lies between the path and the count", 1)
	f := c.fnOpt("filesystem", "FileTreeDepth")
	if f == nil {
		return
	}
	c.FuncsSeen[fname(f)] = true
	var bad, good string
	var at ssa.Instruction
	allInstrs(f, func(i ssa.Instruction) {
		r, ok := i.(*ssa.Return)
		if !ok || len(r.Results) < 1 {
			return
		}
		var walk func(v ssa.Value, g *ssa.Function, depth int)
		seen := map[ssa.Value]bool{}
		walk = func(v ssa.Value, g *ssa.Function, depth int) {
			if seen[v] || depth > 12 {
				return
			}
			seen[v] = true
			switch x := v.(type) {
			case *ssa.Phi:
				for _, e := range x.Edges {
					walk(e, g, depth+1)
				}
			case *ssa.BinOp:
				walk(x.X, g, depth+1)
				walk(x.Y, g, depth+1)
			case *ssa.Convert:
				walk(x.X, g, depth+1)
			case *ssa.ChangeType:
				walk(x.X, g, depth+1)
			case *ssa.UnOp:
				if x.Op == token.MUL {
					if al, ok := x.X.(*ssa.Alloc); ok {
						for _, st := range storesToDeep(al) {
							walk(st, g, depth+1)
						}
						return
					}
				}
				walk(x.X, g, depth+1)
			case *ssa.Extract:
				walk(x.Tuple, g, depth+1)
			case *ssa.Call:
				if b, ok := x.Call.Value.(*ssa.Builtin); ok && b.Name() == "len" {
					walk(x.Call.Args[0], g, depth+1)
					return
				}
				n := calleeFull(&x.Call)
				switch n {
				case "strings.Split", "strings.SplitN", "strings.SplitAfter", "strings.Count", "bytes.Count", "bytes.Split":
					good = n
					at = x
					return
				}
				if h := staticCallee(&x.Call); h != nil && h.Pkg != nil && h.Pkg.Pkg.Path() == modPath+"/filesystem" && len(h.Blocks) > 0 {
					allInstrs(h, func(j ssa.Instruction) {
						if rr, ok := j.(*ssa.Return); ok && len(rr.Results) > 0 {
							walk(rr.Results[0], h, depth+1)
						}
					})
					return
				}
				if n != "" {
					bad = n
					at = x
				}
			}
		}
		walk(r.Results[0], f, 0)
	})
	c.check(bad == "" && good != "", "W11", fname(f)+"/every-element-counts", c.iposOr(at), "the depth is counted on the output of "+good,
		"the depth is counted on what "+shortCallee(bad)+" returns: a function that cleans its output up (trims each element, drops those left empty) does not count a directory whose name is made of white space (` `, `\\t` — legal on disk and in archives), so an archive whose directories are so named is extracted deeper than the depth limit and the extraction reports success; in recursive mode the under-counted depth is also what the nested extraction starts from")
}

// ---- C02 / X9 --------------------------------------------------------------
// "An entry that would resolve outside the destination makes the call fail with the 'suspected malicious intent' kind" —
// every entry, of every kind. In the entry loop of unzip no path leads from the reading of an entry (zipReader.File[i])
// to the next round without the entry's name having gone through sanitiseZipExtractPath: an entry left out before the
// check (a symbolic link 'not recreated', a kind 'not supported') is an entry whose escaping name is never refused.
func (c *Ctx) everyEntryIsSanitised() {
	c.rule("X9", "in the entry loop of unzip every path from the reading of an entry to the next round goes through sanitiseZipExtractPath: no entry is left out before its name has been checked", 1)
	f := c.fnOpt("filesystem", "(*VFS).unzip")
	if f == nil {
		return
	}
	c.FuncsSeen[fname(f)] = true
	n := 0
	allInstrs(f, func(i ssa.Instruction) {
		ia, ok := i.(*ssa.IndexAddr)
		if !ok || !inLoop(ia) {
			return
		}
		// the slice indexed is the File field of the zip reader
		isFiles := false
		for _, s := range sources(ia.X, deriveOpts{through: func(string) bool { return false }}) {
			if ld, ok := s.(*ssa.UnOp); ok && ld.Op == token.MUL {
				if fa, ok := ld.X.(*ssa.FieldAddr); ok {
					if pt, ok := fa.X.Type().Underlying().(*types.Pointer); ok {
						if st, ok := pt.Elem().Underlying().(*types.Struct); ok && st.Field(fa.Field).Name() == "File" && strings.Contains(pt.Elem().String(), "archive/zip") {
							isFiles = true
						}
					}
				}
			}
		}
		if !isFiles {
			return
		}
		n++
		esc := pathPruned(f, ia, func(j ssa.Instruction) bool { return callNamed(j, "filesystem.sanitiseZipExtractPath") },
			func(j ssa.Instruction) bool { return j == ssa.Instruction(ia) }, nil)
		key := fname(f) + "/every-entry-sanitised"
		if n > 1 {
			key += "#" + itoa(int64(n))
		}
		c.check(esc == nil, "X9", key, c.ipos(ia), "every round of the loop goes through sanitiseZipExtractPath",
			"the next entry can be reached from the reading of this one without sanitiseZipExtractPath having seen its name: the entries that take that path (those of a kind the loop now leaves out — symbolic links, say) are never checked, so an archive that holds such an entry named `../evil` or `a/../../evil` is extracted with a nil error instead of being refused with the 'suspected malicious intent' kind; the same in nested archives")
	})
}

// ---- C04 / N22 (= C06 / Z32 = C16 / Y22) -------------------------------------
// "When the call reports success … the tree is really gone": removal, CleanDir and IsEmpty answer 'nothing there' for a
// path that does not exist — as IsPathNotExist says. What IsPathNotExist takes for 'does not exist' is the absence of the
// path (os.IsNotExist, ErrPathNotExist): an error that says the path could not be examined (a name too long, a
// permission, a loop of links) says nothing of the kind.
func (c *Ctx) notExistMeansAbsent(rule string) {
	c.rule(rule, "IsPathNotExist classifies as 'does not exist' only what says the path is absent (os.IsNotExist, ErrPathNotExist, fs.ErrNotExist, ENOENT): an error that says the path could not be examined is not one of them", 1)
	f := c.fnOpt("filesystem", "IsPathNotExist")
	if f == nil {
		return
	}
	c.FuncsSeen[fname(f)] = true
	n := 0
	allInstrs(f, func(i ssa.Instruction) {
		cl, ok := i.(*ssa.Call)
		if !ok {
			return
		}
		cn := calleeFull(&cl.Call)
		var kinds []ssa.Value
		switch {
		case strings.HasSuffix(cn, "commonerrors.Any") || strings.HasSuffix(cn, "commonerrors.None"):
			if len(cl.Call.Args) == 2 {
				kinds = variadicElems(cl.Call.Args[1])
			}
		case cn == "errors.Is":
			kinds = []ssa.Value{cl.Call.Args[1]}
		default:
			return
		}
		for _, k := range kinds {
			n++
			name := ""
			v := k
			if mi, ok := v.(*ssa.MakeInterface); ok {
				v = mi.X
			}
			switch x := v.(type) {
			case *ssa.UnOp:
				if g, ok := x.X.(*ssa.Global); ok {
					name = g.Pkg.Pkg.Path() + "." + g.Name()
				}
			case *ssa.Const:
				if x.Value != nil {
					name = types.TypeString(x.Type(), nil) + "(" + x.Value.ExactString() + ")"
				} else {
					name = "nil"
				}
			}
			okk := false
			switch name {
			case modPath + "/filesystem.ErrPathNotExist", "os.ErrNotExist", "io/fs.ErrNotExist", "syscall.Errno(2)", modPath + "/commonerrors.ErrNotFound":
				okk = true
			}
			key := fname(f) + "/" + shortCallee(cn)
			if n > 1 {
				key += "#" + itoa(int64(n))
			}
			if name == "" {
				name = "a value that is not one of the 'absent' errors"
			}
			c.check(okk, rule, key, c.ipos(cl), "only 'absent' errors are classified as not existing",
				"IsPathNotExist now answers true for "+strings.TrimPrefix(name, modPath+"/")+": an error that says the path could not be examined is taken for the absence of the path — removal, CleanDir and IsEmpty, which answer 'nothing there, success' on that answer, skip an entry whose path is longer than the system allows (syscall.Errno(36), ENAMETOOLONG), every ancestor then returns nil for a directory 'some files of which may have been ignored', and Rm / CleanDir report success with the whole tree still there")
		}
	})
	if n == 0 {
		c.ok(rule, fname(f)+"/classification", c.pos(f.Pos()), "IsPathNotExist classifies with os.IsNotExist and the text of ErrPathNotExist only")
	}
}

// ---- C09 / A25 -------------------------------------------------------------
// "a bounded read returns … the whole source when it is shorter; limited file reads refuse larger files with 'too large'":
// the size Stat reports bounds the buffer and refuses early a file that is known to be too large; it never decides that
// there is nothing to read. A size of zero is what procfs/sysfs files, devices, pipes and files still being written
// report — ReadFileContent compares the size with bounds, not with zero.
func (c *Ctx) statSizeNeverMeansEmpty() {
	c.rule("A25", "ReadFileContent compares the size Stat reports with bounds only (the limit, the buffer cap), never with zero: 'empty' is what the read finds, not what Stat says", 1)
	f := c.fnOpt("filesystem", "(*VFS).ReadFileContent")
	if f == nil {
		return
	}
	c.FuncsSeen[fname(f)] = true
	var sizes []ssa.Value
	allInstrs(f, func(i ssa.Instruction) {
		if cl, ok := i.(*ssa.Call); ok && cl.Call.IsInvoke() && cl.Call.Method.Name() == "Size" {
			sizes = append(sizes, cl)
		}
	})
	fromSize := func(v ssa.Value) bool {
		for _, s := range sources(v, deriveOpts{through: func(string) bool { return false }}) {
			for _, z := range sizes {
				if s == z {
					return true
				}
			}
		}
		return false
	}
	var bad ssa.Instruction
	n := 0
	allInstrs(f, func(i ssa.Instruction) {
		b, ok := i.(*ssa.BinOp)
		if !ok {
			return
		}
		switch b.Op {
		case token.EQL, token.NEQ, token.LEQ, token.LSS, token.GTR, token.GEQ:
		default:
			return
		}
		var other ssa.Value
		switch {
		case fromSize(b.X):
			other = b.Y
		case fromSize(b.Y):
			other = b.X
		default:
			return
		}
		n++
		if k, ok := other.(*ssa.Const); ok && k.Value != nil {
			if v, ok := constant.Int64Val(constant.ToInt(k.Value)); ok && (v == 0 || v == 1) {
				bad = b
			}
		}
	})
	c.check(bad == nil && len(sizes) > 0, "A25", fname(f)+"/size-compared-with-bounds-only", c.iposOr(bad), "the size Stat reports is compared with bounds only",
		"the size Stat reports is compared with zero at "+iposOrEmpty(c, bad)+": a file that reports no size and yet delivers data when read (/proc/self/status, a device, a pipe, a file filled after the size was taken) is answered for without being read — 'empty' instead of its content when it is within the limit, 'empty' instead of 'too large' when it is not")
}

// ---- C08 / E17 (C08) ---------------------------------------------------------
// "… and does process every entry none of whose path components contains a match": the loop of CleanDir goes to the
// end of the listing unless a removal reports an error. It makes no error up itself: a 'sanity check' after the removal
// (the entry still exists) takes for a failure the directory that legitimately survives because something beneath it is
// excluded, and the entries listed after it are never processed.
func (c *Ctx) cleanLoopStopsOnlyForARemovalError() {
	c.rule("E17", "the loop of CleanDirWithContextAndExclusionPatterns creates no error of its own: it stops only for what a removal (or the context) reported", 1)
	f := c.fnOpt("filesystem", "(*VFS).CleanDirWithContextAndExclusionPatterns")
	if f == nil {
		return
	}
	c.FuncsSeen[fname(f)] = true
	var bad ssa.Instruction
	badName := ""
	allInstrs(f, func(i ssa.Instruction) {
		cl, ok := i.(*ssa.Call)
		if !ok || !inLoopOrOnAnEarlyExitOfIt(cl) {
			return
		}
		if isFreshError(cl) {
			bad = cl
			badName = calleeFull(&cl.Call)
		}
	})
	c.check(bad == nil, "E17", fname(f)+"/no-error-made-up-in-the-loop", c.iposOr(bad), "the loop only hands back what a removal reported",
		"the loop of CleanDir creates an error itself at "+iposOrEmpty(c, bad)+" ("+shortCallee(badName)+"): an entry whose removal returned nil — a directory that survives because something beneath it is excluded is such an entry — now ends the loop, so the entries listed after it, which no pattern names, are left in place, and a spurious error is returned for valid patterns; the same at every enclosing level")
}

// ---- C06 / Z33 -------------------------------------------------------------
// "the values returned … are those of a small reference model (ls), identically on the OS-backed and the in-memory
// backend": the names SubDirectories returns come from a listing whose order does not depend on the backend — a sorted
// one (afero.ReadDir sorts by name), or one that is sorted afterwards. Readdir(-1) gives directory order: hash order on
// ext4, creation order reversed on tmpfs, sorted in memory.
func (c *Ctx) subDirectoriesAreListedInOneOrder() {
	c.rule("Z33", "SubDirectoriesWithContextAndExclusionPatterns lists with a sorted read (afero.ReadDir, os.ReadDir) or sorts what it returns: the order of the names does not depend on the backend", 1)
	f := c.fnOpt("filesystem", "(*VFS).SubDirectoriesWithContextAndExclusionPatterns")
	if f == nil {
		return
	}
	c.FuncsSeen[fname(f)] = true
	sorted := ""
	var listing ssa.Instruction
	allInstrs(f, func(i ssa.Instruction) {
		cl, ok := i.(*ssa.Call)
		if !ok {
			return
		}
		n := calleeFull(&cl.Call)
		switch {
		case n == "github.com/spf13/afero.ReadDir" || n == "os.ReadDir" || n == "io/fs.ReadDir" || strings.HasSuffix(n, "afero.Afero).ReadDir"):
			sorted = n
			listing = cl
		case strings.HasPrefix(n, "sort.") || strings.HasPrefix(n, "slices.Sort"):
			sorted = n
		case strings.HasSuffix(n, ").Lls") || strings.HasSuffix(n, ").Ls") || strings.HasSuffix(n, ").Readdir") || strings.HasSuffix(n, ").Readdirnames") || strings.HasSuffix(n, ").LsWithExclusionPatterns"):
			if listing == nil {
				listing = cl
			}
		}
	})
	c.check(sorted != "", "Z33", fname(f)+"/one-order-on-every-backend", c.iposOr(listing), "the names come from "+shortCallee(sorted),
		"the names SubDirectories returns come from a listing in directory order (Readdir(-1)) and are not sorted afterwards: on the OS backend the list comes back in the order of the directory (hash order on ext4 and overlayfs, reverse creation order on tmpfs) while the in-memory backend returns it sorted — the same call on the same tree returns two different values on the two backends")
}

// ---- C07 / V21 (= C03 / W12) ---------------------------------------------------
// "zipping it and unzipping the result reproduces the same … file contents (compressible and not) … with and without
// limits": what extraction refuses as 'too large' is what exceeds a configured limit. Every 'too large' refusal of
// unzipZippedFile is decided by a comparison with one of the limits' values — a threshold of its own (a compression
// ratio 'that looks like a bomb') refuses trees that are within every limit for what one of their files contains.
func (c *Ctx) tooLargeIsDecidedByTheLimits(rule string) {
	c.rule(rule, "every 'too large' refusal of unzipZippedFile is decided by a comparison with a value of the configured limits (GetMaxFileSize, GetMaxTotalSize, GetMaxDepth, GetMaxFileCount): no threshold of the function's own refuses what the limits allow", 2)
	f := c.fnOpt("filesystem", "(*VFS).unzipZippedFile")
	if f == nil {
		return
	}
	c.FuncsSeen[fname(f)] = true
	n := 0
	tooLargeSeen := map[string]int{}
	allInstrs(f, func(i ssa.Instruction) {
		cl, ok := i.(*ssa.Call)
		if !ok || !isFreshError(cl) {
			return
		}
		tooLarge := false
		for _, a := range cl.Call.Args {
			for _, s := range sources(a, deriveOpts{through: func(string) bool { return false }}) {
				if ld, ok := s.(*ssa.UnOp); ok {
					if g, ok := ld.X.(*ssa.Global); ok && g.Name() == "ErrTooLarge" {
						tooLarge = true
					}
				}
			}
		}
		if !tooLarge {
			return
		}
		n++
		// the nearest branch this refusal depends on
		decided := false
		limitName := ""
		for b := cl.Block().Idom(); b != nil && !decided; b = b.Idom() {
			ifi, ok := b.Instrs[len(b.Instrs)-1].(*ssa.If)
			if !ok {
				continue
			}
			usesLimit := false
			var operands func(v ssa.Value, d int)
			_ = limitName
			operands = func(v ssa.Value, d int) {
				if d > 6 || v == nil {
					return
				}
				if c2, ok := v.(*ssa.Call); ok {
					if c2.Call.IsInvoke() && strings.HasPrefix(c2.Call.Method.Name(), "GetMax") {
						usesLimit = true
						limitName = c2.Call.Method.Name()
					}
					return
				}
				if in, ok := v.(ssa.Instruction); ok {
					for _, o := range in.Operands(nil) {
						if *o != nil {
							operands(*o, d+1)
						}
					}
				}
			}
			operands(ifi.Cond, 0)
			if usesLimit {
				decided = true
			}
			if !isLimitsGetter(ifi.Cond, "Apply") {
				if v, _ := boolTest(ifi); !isLimitsGetter(v, "Apply") {
					break // only `if limits.Apply()` may lie between the refusal and the comparison that decides it
				}
			}
		}
		key := fname(f) + "/too-large/" + limitName
		if !decided {
			key = fname(f) + "/too-large/a-threshold-of-its-own"
		}
		tooLargeSeen[key]++
		if tooLargeSeen[key] > 1 {
			key += "#" + itoa(int64(tooLargeSeen[key]))
		}
		c.check(decided, rule, key, c.ipos(cl), "the refusal is decided by a comparison with a configured limit",
			"this 'too large' refusal is not decided by a comparison with a value of the configured limits but by a threshold of the function's own: a tree that is within every limit (file size, total size, count, depth) is refused for what one of its files contains — 3 MiB of 0xFF padding deflate beyond 100:1 — the extraction stops there with an empty file in its place, and the rest of the tree is missing")
	})
}

// inLoopOrOnAnEarlyExitOfIt: the instruction lies on a cycle, or in a block that is only reached from the body of a loop
// (an early exit: `if … { err = …; return }`), as opposed to the block the loop's own condition leaves to.
func inLoopOrOnAnEarlyExitOfIt(in ssa.Instruction) bool {
	if inLoop(in) {
		return true
	}
	b := in.Block()
	for k := 0; k < 6 && len(b.Preds) == 1; k++ {
		p := b.Preds[0]
		if len(p.Instrs) > 0 && inLoop(p.Instrs[0]) {
			return p != loopHeaderOf(p.Instrs[0])
		}
		b = p
	}
	return false
}
